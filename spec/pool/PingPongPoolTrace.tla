---- MODULE PingPongPoolTrace ----
(* Trace validation of real ping-pong pools against PingPongPool (C09).
   Events (driver harness/cmd/c09):
     pool{proto,mc,mr}        fresh pool + fresh cluster resources (TraceReset)
     op{op,..., res,c,cvar, idle,total,req, open,live, gconn,greq [,par]}
          one operation of the history and what was observed when it had completed
          (dbegin: observed while the destroying goroutine is held between the release of the request
          resource and the pool's idle-list update; dend: after it was let go):
          res/c     result of NewStream and the connection the request really travelled on (upstream's view)
          cvar      connection the pool named for that stream
          idle,total,req   the books: idle list + live count (verif accessors), Requests resource
          open,live        the truth: connection objects still open; connections with a live stream
          gconn,greq       gauges connection_active / request_active of the host (delta since pool creation)
          par       outcome of a NewStream issued while the connection of this operation was inside Close()
     audit{...}               quiescent point after concurrent workers: books, truth, exclusive-lease and
                              dirty-lease observations
   The first disagreement of a history is reported (MISMATCH) and the rest of that history is skipped,
   so every report is about a state the specification still agreed with. *)
EXTENDS PingPongPool, VTrace

VARIABLE bad
tvars == <<vars, l, bad>>

S(seq) == {seq[i] : i \in DOMAIN seq}
Last0 == [op |-> "init", res |-> "ok", c |-> 0, pre |-> P0]

TraceInit == l = 1 /\ bad = FALSE /\ maxConn = 0 /\ maxReq = 0 /\ p = P0 /\ last = Last0 /\ hist = <<>>

TPool == /\ IsEvent("pool")
         /\ maxConn' = Ev.mc /\ maxReq' = Ev.mr /\ p' = P0 /\ last' = Last0 /\ bad' = FALSE
         /\ UNCHANGED hist

Mis(kind) == PrintT(<<"MISMATCH", l, kind>>)

EvOp == CASE Ev.op = "new" -> [op |-> "new", up |-> Ev.up]
          [] Ev.op = "resp" -> [op |-> "resp", c |-> Ev.c, close |-> Ev.close]
          [] Ev.op \in {"reset", "garbage", "rclose", "dbegin", "dend"} -> [op |-> Ev.op, c |-> Ev.c]
          [] OTHER -> [op |-> Ev.op]
NewUp == [op |-> "new", up |-> TRUE]
IsPar == Has(Ev, "par")

(* outcomes the specification allows for the event: the operation alone, or the operation and a
   concurrent NewStream in either order *)
Cands ==
  IF ~IsPar THEN {[p |-> r.p, res |-> r.res, c |-> r.c, bres |-> "", bc |-> 0] : r \in Step(p, EvOp, maxConn, maxReq)}
  ELSE UNION {{[p |-> rb.p, res |-> ra.res, c |-> ra.c, bres |-> rb.res, bc |-> rb.c] :
                   rb \in Step(ra.p, NewUp, maxConn, maxReq)} : ra \in Step(p, EvOp, maxConn, maxReq)}
       \cup
       UNION {{[p |-> ra.p, res |-> ra.res, c |-> ra.c, bres |-> rb.res, bc |-> rb.c] :
                   ra \in Step(rb.p, EvOp, maxConn, maxReq)} : rb \in Step(p, NewUp, maxConn, maxReq)}

OpenSet(q) == In(q, "leased") \cup In(q, "idle") \cup In(q, "orphan")
ReqBook(q) == q.req      \* the resource counts whether or not a limit is configured (fix 5ab5b615d)

MResult(r) == /\ r.res = Ev.res
              /\ (Ev.op = "new" /\ Ev.res = "ok") => r.c = Ev.c
              /\ IsPar => (r.bres = Ev.par.res /\ (Ev.par.res = "ok" => r.bc = Ev.par.c))
MOpen(r)   == S(Ev.open) = OpenSet(r.p)
MLive(r)   == S(Ev.live) = In(r.p, "leased") \cup r.p.ending     \* a stream is live until its destruction has run through
MIdle(r)   == S(Ev.idle) = SeqSet(r.p.idle) /\ Len(Ev.idle) = Len(r.p.idle)
MTotal(r)  == Ev.total = r.p.total
MReq(r)    == Ev.req = ReqBook(r.p)
MGauge(r)  == Ev.gconn = r.p.total /\ Ev.greq = r.p.req

Tag == Ev.op \o (IF Ev.op = "resp" /\ Ev.close THEN "-goaway" ELSE "") \o (IF IsPar THEN "+new" ELSE "") \o "/" \o Ev.res

ResultKind(R) ==
  IF IsPar /\ ~(\E r \in R : r.res = Ev.res /\ r.bres = Ev.par.res)
       THEN (IF Ev.par.res = "overflow" THEN "concurrent-new-refused-with-capacity" ELSE "concurrent-new-result-" \o Ev.par.res)
  ELSE IF IsPar /\ Ev.par.res = "ok" /\ \E r \in R : r.res = Ev.res /\ r.bres = "ok"
       THEN (IF Ev.par.c \in p.dirty \/ (Has(Ev, "c") /\ Ev.par.c = Ev.c) THEN "concurrent-new-leased-condemned-connection"
             ELSE "concurrent-new-leased-unexpected-connection")
  ELSE IF Ev.op # "new" THEN "result"
  ELSE IF Ev.res = "overflow" THEN "refused-with-capacity"
  ELSE IF Ev.res = "ok" /\ (\A r \in R : r.res = "overflow") THEN "admitted-over-limit"
  ELSE IF Ev.res = "ok" /\ Ev.c \in Clients /\ (Ev.c \in p.dirty \/ p.st[Ev.c] = "closed") THEN "leased-condemned-connection"
  ELSE IF Ev.res = "ok" /\ Ev.c \in Clients /\ p.st[Ev.c] = "leased" THEN "leased-connection-in-use"
  ELSE IF Ev.res = "ok" THEN "leased-unexpected-connection"
  ELSE "result-expected-" \o (CHOOSE x \in {r.res : r \in R} : TRUE)

OpenKind(R1) == LET exp == OpenSet((CHOOSE r \in R1 : TRUE).p) IN
  IF S(Ev.open) \ exp # {} THEN "connection-left-open" ELSE "connection-closed-unexpectedly"

TOp ==
  /\ IsEvent("op")
  /\ IF bad THEN UNCHANGED <<vars, bad>>
     ELSE IF Ev.res \notin {"ok", "overflow", "connfail"}
          THEN Mis(Tag) /\ bad' = TRUE /\ UNCHANGED vars
     ELSE LET R  == Cands
              R1 == {r \in R : MResult(r)}
              R2 == {r \in R1 : MOpen(r)}
              R3 == {r \in R2 : MLive(r)}
              R4 == {r \in R3 : MIdle(r)}
              R5 == {r \in R4 : MTotal(r)}
              R6 == {r \in R5 : MReq(r)}
              R7 == {r \in R6 : MGauge(r)}
              kind == IF R = {} THEN "operation-not-enabled"
                      ELSE IF R1 = {} THEN ResultKind(R)
                      ELSE IF R2 = {} THEN OpenKind(R1)
                      ELSE IF R3 = {} THEN "live-streams"
                      ELSE IF R4 = {} THEN "books-idle-list"
                      ELSE IF R5 = {} THEN "books-total"
                      ELSE IF R6 = {} THEN "books-requests-resource"
                      ELSE "gauges"
          IN IF R7 # {}
             THEN /\ \E r \in R7 : /\ p' = r.p
                                   /\ last' = [op |-> Ev.op, res |-> r.res, c |-> r.c, pre |-> p]
                                   /\ Expect(PoolOK(r.p, maxConn, maxReq), "spec-invariant")
                  /\ Expect(Ev.op = "new" /\ Ev.res = "ok" => Ev.cvar = Ev.c, "new/ok:lease-identity")
                  /\ bad' = FALSE
                  /\ UNCHANGED <<maxConn, maxReq, hist>>
             ELSE Mis(Tag \o ":" \o kind) /\ bad' = TRUE /\ UNCHANGED vars

(* quiescent point after concurrent use: every stream has ended *)
TAudit ==
  /\ IsEvent("audit")
  /\ Expect(Ev.stuck = 0, "audit:request-never-ended")
  /\ Expect(Ev.overlap = 0, "audit:two-requests-in-flight-on-one-connection")
  /\ Expect(Ev.dirtylease = 0, "audit:leased-condemned-connection")
  /\ Expect(maxConn # 0 => Ev.maxopen <= maxConn, "audit:max-connections-exceeded")
  /\ Expect(S(Ev.live) = {}, "audit:live-streams")
  /\ Expect(S(Ev.open) \subseteq S(Ev.idle), "audit:connection-neither-idle-nor-closed")
  /\ Expect(S(Ev.idle) \subseteq S(Ev.open), "audit:closed-connection-in-idle-list")
  /\ Expect(Len(Ev.idle) = Cardinality(S(Ev.idle)), "audit:connection-twice-in-idle-list")
  /\ Expect(Ev.total = Cardinality(S(Ev.open)), "audit:books-total")
  /\ Expect(Ev.req = 0, "audit:books-requests-resource")
  /\ Expect(Ev.gconn = Cardinality(S(Ev.open)) /\ Ev.greq = 0, "audit:gauges")
  /\ UNCHANGED <<vars, bad>>

TraceNext == TPool \/ TOp \/ TAudit
TraceSpec == TraceInit /\ [][TraceNext]_tvars
====
