CONSTANTS
  NClients = 4
  Configs <- ConfigsAll
  MaxOps = 7
  Defects = {}
  LeaseOrder = "any"
SPECIFICATION Spec
INVARIANTS TypeOK InvOneState InvIdleList InvCounts InvNoDirty InvLimits InvRefusalJustified InvRefusalNeutral
CHECK_DEADLOCK FALSE
