CONSTANTS
  NClients = 4
  Configs <- ConfigsAll
  MaxOps = 7
  Defects = {}
  SplitDestroy = TRUE
  LeaseOrder = "any"
SPECIFICATION Spec
INVARIANTS TypeOK InvOneState InvIdleList InvCounts InvNoDirty InvLimits InvRefusalJustified InvRefusalNeutral
CHECK_DEADLOCK FALSE
