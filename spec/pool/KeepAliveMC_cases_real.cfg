CONSTANTS
  Configs <- ConfigsCases
  MaxOps = 5
  MaxPend = 1
  Alphabet <- DriverOps
  Defects = {}
SPECIFICATION Spec
INVARIANT EmitCases
CHECK_DEADLOCK FALSE
