CONSTANTS
  Configs = {}
  MaxOps = 0
  MaxPend = 100
  Alphabet = {}
  Defects = {}
SPECIFICATION TraceSpec
POSTCONDITION Accepted
CHECK_DEADLOCK FALSE
