---- MODULE KeepAliveMC ----
(* Bounded universes for KeepAlive: the configurations TLC explores. *)
EXTENDS KeepAlive
Cfg(ts, tf, fc, mi, ff) == [ts |-> ts, tf |-> tf, fc |-> fc, mi |-> mi, ff |-> ff]
ConfigsQuick == { Cfg(ts, tf, fc, mi, ff) : ts \in {1, 2}, tf \in {1, 2}, fc \in {1, 2, 3}, mi \in {0, 2, 3}, ff \in {FALSE, TRUE} }
ConfigsThorough == { Cfg(ts, tf, fc, mi, ff) : ts \in {1, 2, 3}, tf \in {1, 2, 3}, fc \in {1, 2, 3}, mi \in {0, 1, 2, 3, 4}, ff \in {FALSE, TRUE} }
ConfigsCases == { Cfg(ts, tf, fc, mi, FALSE) : ts \in {1, 2}, tf \in {1, 2}, fc \in {1, 2, 3}, mi \in {0, 2, 3} }
ConfigsCasesThorough == { Cfg(ts, tf, fc, mi, FALSE) : ts \in {1, 2, 3}, tf \in {1, 2, 3}, fc \in {1, 2, 3}, mi \in {0, 1, 2, 3, 4} }
ConfigsFast == { Cfg(1, 1, fc, 0, TRUE) : fc \in {2, 3, 4} }
AllOps == {"tick", "req", "ack", "expire", "late", "rclose", "fsend"}
DriverOps == {"tick", "req", "ack", "expire", "late", "rclose"}
====
