---- MODULE MuxPool ----
(* Connection pool of a multiplexing protocol (many streams share one connection), property C09,
   second sentence: books = truth at every quiescent point, every admitted stream is accounted exactly
   once, capacity returns, nothing is handed out on a connection that is closed or going away.
   Code: pkg/stream/xprotocol/connpool_multiplex.go (poolMultiplex: one activeClientMultiplex per index,
         state Init/Connecting/Connected/GoAway, connection dialled by CheckAndInit -> init),
         pkg/stream/http2/connpool.go (connPool: one activeClient, dialled inside NewStream),
         stream destruction: pkg/stream/stream.go, pkg/stream/client.go.

   The record keeps the TRUTH (cst: state of every connection, son/live: the streams and the connection
   each one runs on, ga: connections that received a go-away) next to the BOOKS (slot: the client new
   streams go to, per index; req: requests resource; act / cact: request_active / connection_active
   gauges; cnt: open streams the client counts on its connection, i.e. the streams the connection object
   knows; pend: streams the pool has handed out whose request is not yet written).
   Operations (one per linearization point of the code):
     new      CheckAndInit + NewStream for a request (Kind "xmux": the index's client is dialled when the
              slot is empty or going away, never after Shutdown; Kind "h2": a going-away client is dropped
              and a new one dialled inside NewStream); then the request-resource test; then the stream.
              oneway: receiver == nil, fire and forget, nothing to account.
     resp / reset / rreset   the stream ends by response / local reset (timeout) / reset by the peer
     goaway   the peer announces that the connection goes away: no new stream on it, it is closed
              when its last stream is over
     rclose / garbage   the connection is closed by the peer / by the pool after undecodable input:
              every stream on it ends
     poolclose / shutdown   ConnectionPool.Close() / Shutdown()
   "new" is TWO steps of the code: the pool hands out a stream (NewStream returns a sender: the admission is
   taken there, nothing is on the wire) and the caller then writes the request through it (AppendHeaders ...
   end of request).  With SplitNew the histories also take a request in those two steps, with every other
   operation allowed in between:
     lease    CheckAndInit + NewStream, nothing written yet (pend: streams handed out and not yet written)
     send     the request is written.  ok: it reaches the peer on the connection the stream was leased on.
              sendfail: the connection has gone in between (closed by the peer, by the pool, after a go-away
              that found it without open two-way streams) or the encoder refuses the frame (enc = FALSE):
              the stream is reset and destroyed on the spot.  An admission taken at lease time is given back
              exactly once - by whatever ended the stream first (the connection's close resets the streams
              it knows: every two-way stream of an xprotocol connection; an HTTP/2 connection learns of a
              stream only when it is written, so there the failed write gives it back).  A oneway stream
              holds nothing and gives nothing back, however it ends.                                     *)
EXTENDS Integers, Sequences, FiniteSets, TLC, Json

CONSTANTS Kind,       \* "xmux" | "h2" | "bind" (xprotocol poolBinding: one client per downstream connection,
                      \*   index = downstream connection; client and downstream connection are closed together)
          NConns, NStreams, NIdx,
          MaxReqs,    \* set of max_requests values (0 = unlimited)
          MaxOps,
          SplitNew,   \* TRUE: requests are also taken in the code's two steps (lease, send)
          Defects

Conns == 1..NConns
Streams == 1..NStreams
Idx == 1..NIdx

VARIABLES maxReq, m, last, hist
vars == <<maxReq, m, last, hist>>

M0 == [cst |-> [c \in Conns |-> "new"], ga |-> {}, slot |-> [i \in Idx |-> 0],
       son |-> [s \in Streams |-> 0], live |-> {}, ow |-> {}, cnt |-> [c \in Conns |-> 0],
       nstream |-> 0, dialled |-> 0, req |-> 0, act |-> 0, cact |-> 0, shut |-> FALSE,
       bound |-> [c \in Conns |-> 0], dclosed |-> {}, pend |-> {}]      \* binding pool: downstream connection of a client; closed downstream connections

Open(q) == {c \in Conns : q.cst[c] = "open"}
On(q, c) == {s \in q.live : q.son[s] = c}
(* the streams the connection object knows, i.e. those its close resets: an xprotocol client stream is entered in the
   connection's table when it is created, an HTTP/2 one when its HEADERS are written *)
Known(q, c) == IF Kind = "h2" THEN On(q, c) \ q.pend ELSE On(q, c)
Out(q, res, s, c) == [m |-> q, res |-> res, s |-> s, c |-> c]
CanReq(q, mr) == mr = 0 \/ q.req < mr

(* a set of streams ends (each exactly once) *)
End(q, S) == [q EXCEPT !.live = @ \ S, !.req = @ - Cardinality(S), !.act = @ - Cardinality(S),
                       !.cnt = [c \in Conns |-> @[c] - Cardinality({s \in S \cap Known(q, c) : TRUE})]]
CloseConn(q, c) == [q EXCEPT !.cst[c] = "closed", !.cact = @ - 1]
(* the connection is gone: its streams end, the slot that names it is cleared unless it was going away
   (then the slot may already name its successor) *)
RECURSIVE CloseSet(_, _)
CloseSet(q, S) == IF S = {} THEN q ELSE
                  LET c == CHOOSE x \in S : TRUE IN
                  CloseSet([CloseConn(End(q, Known(q, c)), c) EXCEPT !.slot = [i \in Idx |-> IF @[i] = c THEN 0 ELSE @[i]]], S \ {c})
(* the downstream connection i closes: every client bound to it is closed *)
DClose(q, i) == [CloseSet(q, {c \in Open(q) : q.bound[c] = i}) EXCEPT !.dclosed = @ \cup {i}]
Gone(q, c) ==
  IF Kind = "bind" THEN
       IF c \in q.ga /\ On(q, c) = {} THEN CloseSet(q, {c})      \* a drained going-away client leaves its downstream alone
       ELSE DClose(q, q.bound[c])                                \* otherwise both ends go together
  ELSE
  LET e == CloseConn(End(q, Known(q, c)), c) IN
  IF "DeleteClientInGoAway" \in Defects /\ c \in q.ga
  THEN [e EXCEPT !.slot = [i \in Idx |-> 0]]           \* deletes whatever client the index holds now
  ELSE [e EXCEPT !.slot = [i \in Idx |-> IF @[i] = c /\ c \notin q.ga THEN 0 ELSE @[i]]]
(* after a stream ended: a going-away connection without streams is closed *)
Drain(q, c) == IF c \in q.ga /\ q.cst[c] = "open" /\ On(q, c) = {} THEN CloseConn(q, c) ELSE q

(* ---- new ---- *)
Dialled(q, i) == LET c == q.dialled + 1 IN
                 [q EXCEPT !.cst[c] = "open", !.dialled = c, !.slot[i] = c, !.cact = @ + 1]
Admit(q, i, oneway, mr) ==
  LET c == q.slot[i] s == q.nstream + 1 IN
  IF ~CanReq(q, mr) THEN {Out(q, "overflow", 0, c)}
  ELSE IF s > NStreams THEN {}
  ELSE IF oneway
       THEN {Out(IF "CountOnOneway" \in Defects
                 THEN [q EXCEPT !.nstream = s, !.son[s] = c, !.ow = @ \cup {s}, !.req = @ + 1, !.act = @ + 1]
                 ELSE [q EXCEPT !.nstream = s, !.son[s] = c, !.ow = @ \cup {s}], "ok", s, c)}
       ELSE {Out([q EXCEPT !.nstream = s, !.son[s] = c, !.live = @ \cup {s}, !.req = @ + 1, !.act = @ + 1,
                           !.cnt[c] = @ + 1], "ok", s, c)}
StepNewBind(q, i, up, oneway, mr) ==
  IF i \in q.dclosed THEN {}
  ELSE IF ~CanReq(q, mr) THEN {Out(q, "overflow", 0, 0)}          \* tested before a client is looked up or dialled
  ELSE IF q.slot[i] # 0 THEN Admit(q, i, oneway, mr)
  ELSE IF ~up THEN {Out(q, "connfail", 0, 0)}
  ELSE IF q.dialled >= NConns THEN {}
  ELSE Admit([Dialled(q, i) EXCEPT !.bound[q.dialled + 1] = i], i, oneway, mr)
StepNewAt(q, i, up, oneway, mr) ==
  IF Kind = "bind" THEN StepNewBind(q, i, up, oneway, mr) ELSE
  LET c0 == q.slot[i]
      stale == c0 # 0 /\ c0 \in q.ga /\ "GoAwayKeepsAccepting" \notin Defects
      q1 == IF stale /\ Kind = "h2" THEN [q EXCEPT !.slot[i] = 0] ELSE q     \* h2 drops the going-away client first
      need == c0 = 0 \/ stale
  IN IF ~need THEN Admit(q, i, oneway, mr)
     ELSE IF q.shut THEN {Out(q, "connfail", 0, 0)}
     ELSE IF ~up THEN {Out([q1 EXCEPT !.slot[i] = 0], "connfail", 0, 0)}
     ELSE IF q.dialled >= NConns THEN {}
     ELSE Admit(Dialled(q1, i), i, oneway, mr)
StepNew(q, up, oneway, mr) == UNION {StepNewAt(q, i, up, oneway, mr) : i \in Idx}

(* ---- end of a stream ---- *)
StepEnd(q, s, counted) ==
  IF s \notin q.live THEN {} ELSE
  LET c == q.son[s]
      e == IF counted THEN End(q, {s}) ELSE [q EXCEPT !.live = @ \ {s}, !.cnt[c] = @ - 1]
  IN {Out(Drain([e EXCEPT !.pend = @ \ {s}], c), "ok", s, c)}       \* (a leased stream can be reset before it is written)

(* ---- the two steps of a request ---- *)
Lease(R) == {IF r.res = "ok" THEN [r EXCEPT !.m.pend = @ \cup {r.s},
                                               !.m.cnt[r.c] = IF Kind = "h2" THEN @ - 1 ELSE @]      \* not yet in the HTTP/2 connection's table
             ELSE r : r \in R}
(* a oneway stream ends (failed write, local reset): it was never admitted, there is nothing to give back *)
OnewayEnds(q, s) == LET p == [q EXCEPT !.pend = @ \ {s}] IN
                    IF "OnewayReleasesOnFailure" \in Defects THEN [p EXCEPT !.req = @ - 1, !.act = @ - 1] ELSE p
StepSend(q, s, enc) ==
  IF s \notin q.pend THEN {} ELSE
  LET c == q.son[s]
      p == [q EXCEPT !.pend = @ \ {s}]
  IN IF q.cst[c] = "open" /\ enc
     THEN {Out(IF Kind = "h2" THEN [p EXCEPT !.cnt[c] = @ + 1] ELSE p, "ok", s, c)}
     ELSE IF s \in q.ow THEN {Out(OnewayEnds(q, s), "sendfail", s, c)}
     ELSE IF s \in q.live THEN {Out(Drain([End(q, {s}) EXCEPT !.pend = @ \ {s}], c), "sendfail", s, c)}      \* given back here
     ELSE {Out(p, "sendfail", s, c)}                                               \* given back when the connection closed
StepResetOneway(q, s) == IF s \in q.pend \cap q.ow THEN {Out(OnewayEnds(q, s), "ok", s, q.son[s])} ELSE {}

GoAwayOn(q, c) == LET g == [q EXCEPT !.ga = @ \cup {c}] IN
                  Drain(IF Kind = "bind" THEN [g EXCEPT !.slot = [i \in Idx |-> IF @[i] = c THEN 0 ELSE @[i]]] ELSE g, c)
StepGoAway(q, c) == IF q.cst[c] # "open" \/ c \in q.ga THEN {} ELSE {Out(GoAwayOn(q, c), "ok", 0, c)}
RECURSIVE GoAwayAll(_, _)
GoAwayAll(q, S) == IF S = {} THEN q ELSE LET c == CHOOSE x \in S : TRUE IN GoAwayAll(GoAwayOn(q, c), S \ {c})
StepGone(q, c) == IF q.cst[c] # "open" THEN {} ELSE {Out(Gone(q, c), "ok", 0, c)}
RECURSIVE GoneAll(_, _)
GoneAll(q, S) == IF S = {} THEN q ELSE LET c == CHOOSE x \in S : TRUE IN
                   GoneAll(IF q.cst[c] = "open" THEN Gone(q, c) ELSE q, S \ {c})     \* closing one may take others with it
(* Close() closes the connections the pool designates; connections that are going away and only
   drain their last streams may be closed with them or left to finish *)
StepPoolClose(q) == LET des == {q.slot[i] : i \in Idx} \cap (Open(q) \ q.ga) IN
                    {Out(GoneAll(q, des \cup D), "ok", 0, 0) : D \in SUBSET (Open(q) \cap q.ga)}
StepShutdown(q) == {Out(CASE Kind = "xmux" -> [q EXCEPT !.shut = TRUE]
                          [] Kind = "bind" -> GoAwayAll(q, {q.slot[i] : i \in Idx} \cap Open(q))   \* every client goes away
                          [] OTHER -> q, "ok", 0, 0)}
StepDClose(q, i) == IF i \in q.dclosed THEN {} ELSE {Out(DClose(q, i), "ok", 0, 0)}

Step(q, o, mr) ==
  CASE o.op = "new"       -> IF o.i = 0 THEN StepNew(q, o.up, o.oneway, mr) ELSE StepNewAt(q, o.i, o.up, o.oneway, mr)
    [] o.op = "lease"     -> Lease(IF o.i = 0 THEN StepNew(q, o.up, o.oneway, mr) ELSE StepNewAt(q, o.i, o.up, o.oneway, mr))
    [] o.op = "send"      -> StepSend(q, o.s, o.enc)
    [] o.op = "dclose"    -> StepDClose(q, o.i)
    [] o.op = "resp"      -> IF o.s \in q.pend THEN {} ELSE StepEnd(q, o.s, TRUE)          \* the peer only knows requests it was sent
    [] o.op = "reset"     -> IF o.s \in q.ow THEN StepResetOneway(q, o.s) ELSE StepEnd(q, o.s, "DestroyNotCounted" \notin Defects)
    [] o.op = "rreset"    -> IF o.s \in q.pend THEN {} ELSE StepEnd(q, o.s, TRUE)
    [] o.op = "goaway"    -> StepGoAway(q, o.c)
    [] o.op = "rclose"    -> StepGone(q, o.c)
    [] o.op = "garbage"   -> StepGone(q, o.c)
    [] o.op = "poolclose" -> StepPoolClose(q)
    [] o.op = "shutdown"  -> StepShutdown(q)
    [] OTHER -> {}

(* a retry re-uses the downstream context (and with it the client stream object) of an attempt that ended *)
EndedTwoWay(q) == {s \in 1..q.nstream : s \notin q.live /\ s \notin q.ow /\ s \notin q.pend}
DialWouldBeTried(q) == \E i \in Idx : q.slot[i] = 0 \/ q.slot[i] \in q.ga
NewIdx(q) == IF Kind = "bind" THEN Idx \ q.dclosed ELSE {0}
Ops(q) ==
     {[op |-> "new", up |-> TRUE, oneway |-> w, retry |-> r, i |-> i] : w \in (IF Kind = "h2" THEN {FALSE} ELSE BOOLEAN),
                                                               r \in (IF EndedTwoWay(q) # {} THEN BOOLEAN ELSE {FALSE}), i \in NewIdx(q)}
  \cup (IF Kind = "bind" THEN {[op |-> "new", up |-> FALSE, oneway |-> FALSE, retry |-> FALSE, i |-> i] : i \in {j \in NewIdx(q) : q.slot[j] = 0}}
        ELSE IF DialWouldBeTried(q) /\ ~q.shut THEN {[op |-> "new", up |-> FALSE, oneway |-> FALSE, retry |-> FALSE, i |-> 0]} ELSE {})
  \cup {[op |-> k, s |-> s] : s \in q.live \ q.pend, k \in (IF Kind = "h2" THEN {"resp", "rreset"} ELSE {"resp"})}
  \cup {[op |-> "reset", s |-> s] : s \in q.live \cup (q.pend \cap q.ow)}
  \cup (IF SplitNew
        THEN {[op |-> "lease", up |-> TRUE, oneway |-> w, retry |-> FALSE, i |-> i] : w \in (IF Kind = "h2" THEN {FALSE} ELSE BOOLEAN), i \in NewIdx(q)}
             \cup {[op |-> "send", s |-> s, enc |-> e] : s \in q.pend, e \in (IF Kind = "h2" THEN {TRUE} ELSE BOOLEAN)}
        ELSE {})
  \cup {[op |-> k, c |-> c] : c \in Open(q) \ q.ga, k \in {"goaway"}}
  \cup {[op |-> k, c |-> c] : c \in Open(q), k \in {"rclose", "garbage"}}
  \cup (IF Open(q) # {} THEN {[op |-> "poolclose"]} ELSE {})
  \cup (IF (~q.shut /\ Kind = "xmux") \/ (Kind = "bind" /\ Open(q) # {}) THEN {[op |-> "shutdown"]} ELSE {})
  \cup (IF Kind = "bind" THEN {[op |-> "dclose", i |-> i] : i \in Idx \ q.dclosed} ELSE {})

Init == /\ maxReq \in MaxReqs /\ m = M0
        /\ last = [op |-> "init", res |-> "ok", s |-> 0, c |-> 0, pre |-> M0] /\ hist = <<>>
Next == /\ Len(hist) < MaxOps
        /\ \E o \in Ops(m) : \E r \in Step(m, o, maxReq) :
              /\ m' = r.m
              /\ last' = [op |-> o.op, res |-> r.res, s |-> r.s, c |-> r.c, pre |-> m]
              /\ hist' = Append(hist, o)
        /\ UNCHANGED maxReq
Spec == Init /\ [][Next]_vars

(* ---- C09 for a multiplexed pool, as predicates of a pool record ---- *)
TypeOKm(q) == /\ \A c \in Conns : q.cst[c] \in {"new", "open", "closed"}
              /\ q.live \subseteq 1..q.nstream /\ q.ga \subseteq Conns
              /\ q.pend \subseteq 1..q.nstream /\ q.pend \cap q.ow \cap q.live = {}
CountsExact(q) == /\ q.req = Cardinality(q.live) /\ q.act = Cardinality(q.live)
                  /\ \A c \in Conns : q.cnt[c] = Cardinality(Known(q, c))
                  /\ q.cact = Cardinality(Open(q))
LiveOnOpen(q)   == \A s \in q.live : q.cst[q.son[s]] = "open" \/ (Kind = "h2" /\ s \in q.pend)
GoAwayDrains(q) == \A c \in q.ga : q.cst[c] = "open" => On(q, c) # {}
NoOrphan(q)     == \A c \in Open(q) : c \in q.ga \/ \E i \in Idx : q.slot[i] = c
SlotUsable(q)   == \A i \in Idx : (q.slot[i] # 0 /\ q.slot[i] \notin q.ga) => q.cst[q.slot[i]] = "open"
(* binding pool: a client does not outlive its downstream connection *)
BoundFollows(q) == \A c \in Open(q) : q.bound[c] = 0 \/ q.bound[c] \notin q.dclosed
MuxOK(q, mr) == TypeOKm(q) /\ BoundFollows(q) /\ CountsExact(q) /\ LiveOnOpen(q) /\ GoAwayDrains(q) /\ NoOrphan(q) /\ SlotUsable(q)
                /\ (mr # 0 => Cardinality(q.live) <= mr)

InvType == TypeOKm(m)
InvCounts == CountsExact(m)
InvBound == BoundFollows(m)
InvLiveOnOpen == LiveOnOpen(m)
InvGoAwayDrains == GoAwayDrains(m)
InvNoOrphan == NoOrphan(m)
InvSlotUsable == SlotUsable(m)
InvLimit == maxReq # 0 => Cardinality(m.live) <= maxReq
(* a stream is only handed out on a connection that is open and not going away *)
InvAdmitOnUsable == (last.op \in {"new", "lease"} /\ last.res = "ok") => (m.cst[last.c] = "open" /\ last.c \notin last.pre.ga)
(* capacity returns: a refusal is justified by streams that are really open *)
InvRefusalJustified == (last.op \in {"new", "lease"} /\ last.res = "overflow") => (maxReq # 0 /\ Cardinality(last.pre.live) >= maxReq)
(* refused / failed requests cost nothing of the request books *)
InvRefusalNeutral == (last.op \in {"new", "lease"} /\ last.res \in {"overflow", "connfail"}) =>
                        (m.req = last.pre.req /\ m.act = last.pre.act /\ m.live = last.pre.live)
(* no connection is dialled after Shutdown *)
InvNoDialAfterShutdown == last.pre.shut => m.dialled = last.pre.dialled
(* the counters never go negative *)
InvNeverNegative == m.req >= 0 /\ m.act >= 0 /\ m.cact >= 0 /\ \A c \in Conns : m.cnt[c] >= 0
(* a request whose write fails: the stream is over; an admission taken at lease time is given back exactly once (here,
   or before by the close of the connection); a oneway stream never held one and gives nothing back *)
InvSendFail == (last.op = "send" /\ last.res = "sendfail") =>
                  LET had == IF last.s \in last.pre.live THEN 1 ELSE 0 IN
                  /\ last.s \notin m.live /\ last.s \notin m.pend
                  /\ m.req = last.pre.req - had /\ m.act = last.pre.act - had
                  /\ (last.s \in m.ow => had = 0)
(* a request that is written reaches the peer on the connection it was leased on, and costs nothing more *)
InvSendOk == (last.op = "send" /\ last.res = "ok") =>
                  /\ m.cst[last.c] = "open" /\ last.c = m.son[last.s]
                  /\ m.req = last.pre.req /\ m.act = last.pre.act /\ m.live = last.pre.live

EmitCase == (Len(hist) = MaxOps) => PrintT(<<"CASE", ToJson([mr |-> maxReq, ops |-> hist])>>)
====
