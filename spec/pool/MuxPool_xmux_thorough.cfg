CONSTANTS
  Kind = "xmux"
  NConns = 4
  NStreams = 5
  NIdx = 2
  MaxReqs = {0, 1, 2}
  MaxOps = 6
  SplitNew = FALSE
  Defects = {}
SPECIFICATION Spec
INVARIANTS InvType InvBound InvCounts InvLiveOnOpen InvGoAwayDrains InvNoOrphan InvSlotUsable InvLimit InvAdmitOnUsable InvRefusalJustified InvRefusalNeutral InvNoDialAfterShutdown InvNeverNegative InvSendFail InvSendOk
CHECK_DEADLOCK FALSE
