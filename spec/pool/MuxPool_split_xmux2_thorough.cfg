CONSTANTS
  Kind = "xmux"
  NConns = 3
  NStreams = 4
  NIdx = 2
  MaxReqs = {0, 1, 2}
  MaxOps = 5
  SplitNew = TRUE
  Defects = {}
SPECIFICATION Spec
INVARIANTS InvType InvBound InvCounts InvLiveOnOpen InvGoAwayDrains InvNoOrphan InvSlotUsable InvLimit InvAdmitOnUsable InvRefusalJustified InvRefusalNeutral InvNoDialAfterShutdown InvNeverNegative InvSendFail InvSendOk
CHECK_DEADLOCK FALSE
