CONSTANTS
  Configs <- ConfigsCases
  MaxOps = 5
  MaxPend = 2
  Alphabet <- DriverOps
  Defects = {}
SPECIFICATION Spec
INVARIANT EmitCases
CHECK_DEADLOCK FALSE
