CONSTANTS
  Configs <- ConfigsThorough
  MaxOps = 7
  MaxPend = 3
  Alphabet <- AllOps
  Defects = {}
SPECIFICATION Spec
INVARIANTS OneResultEach ClosedAtThreshold IdleAtThreshold CounterIsTrail FastOnlyWhileFailing
PROPERTIES QuietAfterStop TickAtThreshold
CHECK_DEADLOCK FALSE
