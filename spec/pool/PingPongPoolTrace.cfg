CONSTANTS
  NClients = 12
  Configs <- ConfigsOne
  MaxOps = 0
  Defects = {}
  LeaseOrder = "any"
SPECIFICATION TraceSpec
POSTCONDITION Accepted
CHECK_DEADLOCK FALSE
