CONSTANTS
  NClients = 12
  Configs <- ConfigsOne
  MaxOps = 0
  Defects = {}
  SplitDestroy = FALSE
  LeaseOrder = "any"
SPECIFICATION TraceSpec
POSTCONDITION Accepted
CHECK_DEADLOCK FALSE
