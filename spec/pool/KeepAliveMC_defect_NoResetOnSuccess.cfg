CONSTANTS
  Configs <- ConfigsQuick
  MaxOps = 6
  MaxPend = 2
  Alphabet <- AllOps
  Defects = {"NoResetOnSuccess"}
SPECIFICATION Spec
INVARIANTS OneResultEach ClosedAtThreshold IdleAtThreshold CounterIsTrail FastOnlyWhileFailing
PROPERTIES QuietAfterStop TickAtThreshold
CHECK_DEADLOCK FALSE
