CONSTANTS
  Configs <- ConfigsCases
  MaxOps = 6
  MaxPend = 2
  Alphabet <- DriverOps
  Defects = {}
SPECIFICATION Spec
INVARIANT EmitCases
CHECK_DEADLOCK FALSE
