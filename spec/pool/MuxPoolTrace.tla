---- MODULE MuxPoolTrace ----
(* Trace validation of real multiplexed pools (xprotocol poolMultiplex, HTTP/2 connPool) against MuxPool.
   Events (driver harness/cmd/c09, mode mux):
     pool{proto,nidx,mr}   fresh pool + fresh cluster resources (TraceReset)
     op{op,..., res,s,c,cvar, open,live, req,greq,gconn, slots,shut}
        res/s/c    result of CheckAndInit+NewStream, number of the stream, connection its request arrived on
                   (op "lease": the connection the pool named; op "send": ok = the request arrived at the peer on
                   connection c, sendfail = the stream was destroyed instead)
        open,live  truth: connection objects still open; two-way streams whose destruction has not run
        req,greq,gconn   books: requests resource, request_active / connection_active gauges
        slots      books (verif accessors): per index the client new streams go to: connection, state
                   (2 Connected, 3 GoAway), streams the client counts as open
   The first disagreement of a history is reported and the rest of that history is skipped. *)
EXTENDS MuxPool, VTrace

VARIABLES bad,
          ms    \* the pool records the observations so far are consistent with (the index a request used and
                \* what Close() did to draining connections are not always visible at once)
tvars == <<vars, l, bad, ms>>

S(seq) == {seq[i] : i \in DOMAIN seq}
Last0 == [op |-> "init", res |-> "ok", s |-> 0, c |-> 0, pre |-> M0]
TraceInit == l = 1 /\ bad = FALSE /\ maxReq = 0 /\ m = M0 /\ ms = {M0} /\ last = Last0 /\ hist = <<>>

TPool == /\ IsEvent("pool")
         /\ maxReq' = Ev.mr /\ m' = M0 /\ ms' = {M0} /\ last' = Last0 /\ bad' = FALSE
         /\ UNCHANGED hist

Mis(kind) == PrintT(<<"MISMATCH", l, kind>>)

EvOp == CASE Ev.op \in {"new", "lease"} -> [op |-> Ev.op, up |-> Ev.up, oneway |-> Ev.oneway, retry |-> Ev.retry, i |-> IF Has(Ev, "i") THEN Ev.i ELSE 0]
          [] Ev.op = "send" -> [op |-> "send", s |-> Ev.s, enc |-> Ev.enc]
          [] Ev.op = "dclose" -> [op |-> "dclose", i |-> Ev.i]
          [] Ev.op \in {"resp", "reset", "rreset"} -> [op |-> Ev.op, s |-> Ev.s]
          [] Ev.op \in {"goaway", "rclose", "garbage"} -> [op |-> Ev.op, c |-> Ev.c]
          [] OTHER -> [op |-> Ev.op]

ReqBook(q) == q.req      \* the resource counts whether or not a limit is configured (fix 5ab5b615d)
Connected == 2

MResult(r) == /\ r.res = Ev.res
              /\ (Ev.op \in {"new", "lease", "send"} /\ Ev.res = "ok") => (r.c = Ev.c /\ r.s = Ev.s)
MOpen(r)   == S(Ev.open) = Open(r.m)
MLive(r)   == S(Ev.live) = r.m.live
MReq(r)    == Ev.req = ReqBook(r.m) /\ Ev.greq = r.m.act
MConn(r)   == Ev.gconn = r.m.cact
(* the client of an index that is Connected is the one the spec designates, it is open, and it counts
   exactly its open streams; a designated usable client is visible as Connected *)
MDown(r)   == Has(Ev, "dclosed") => S(Ev.dclosed) = r.m.dclosed
MSlots(r)  == /\ \A k \in DOMAIN Ev.slots : LET o == Ev.slots[k] IN
                    o.st = Connected => /\ o.i \in Idx /\ r.m.slot[o.i] = o.c
                                        /\ o.c \in Conns /\ r.m.cst[o.c] = "open" /\ o.c \notin r.m.ga
                                        /\ o.n = r.m.cnt[o.c]
              /\ \A i \in Idx : (r.m.slot[i] # 0 /\ r.m.slot[i] \notin r.m.ga) =>
                    \E k \in DOMAIN Ev.slots : Ev.slots[k].i = i /\ Ev.slots[k].st = Connected /\ Ev.slots[k].c = r.m.slot[i]
              /\ Ev.shut = r.m.shut

Tag == Ev.op \o (IF Ev.op \in {"new", "lease", "send"} /\ Ev.oneway THEN "-oneway" ELSE "") \o (IF Ev.op \in {"new", "lease"} /\ Ev.retry THEN "-retry" ELSE "")
         \o (IF Ev.op = "send" /\ ~Ev.enc THEN "-unencodable" ELSE "") \o "/" \o Ev.res

ResultKind(R) ==
  IF Ev.op = "send" THEN "result-expected-" \o (CHOOSE x \in {r.res : r \in R} : TRUE)
  ELSE IF Ev.op \notin {"new", "lease"} THEN "result"
  ELSE IF Ev.res = "overflow" THEN "refused-with-capacity"
  ELSE IF Ev.res = "ok" /\ (\A r \in R : r.res = "overflow") THEN "admitted-over-limit"
  ELSE IF Ev.res = "ok" /\ (\A r \in R : r.res = "connfail") THEN "admitted-without-connection"
  ELSE IF Ev.res = "ok" /\ Ev.c \in Conns /\ (\A q \in ms : Ev.c \in q.ga) THEN "stream-on-going-away-connection"
  ELSE IF Ev.res = "ok" /\ Ev.c \in Conns /\ (\A q \in ms : q.cst[Ev.c] = "closed") THEN "stream-on-closed-connection"
  ELSE IF Ev.res = "ok" THEN "stream-on-unexpected-connection"
  ELSE "result-expected-" \o (CHOOSE x \in {r.res : r \in R} : TRUE)
OpenKind(R1) == LET exp == Open((CHOOSE r \in R1 : TRUE).m) IN
  IF S(Ev.open) \ exp # {} THEN "connection-left-open" ELSE "connection-closed-unexpectedly"

TOp ==
  /\ IsEvent("op")
  /\ IF bad THEN UNCHANGED <<vars, bad, ms>>
     ELSE IF Ev.res \notin {"ok", "overflow", "connfail", "sendfail"}
          THEN Mis(Tag) /\ bad' = TRUE /\ UNCHANGED <<vars, ms>>
     ELSE LET R  == UNION {Step(q, EvOp, maxReq) : q \in ms}
              R1 == {r \in R : MResult(r)}
              R2 == {r \in R1 : MOpen(r)}
              R3 == {r \in R2 : MLive(r)}
              R4 == {r \in R3 : MReq(r)}
              R5 == {r \in R4 : MConn(r)}
              R6 == {r \in R5 : MSlots(r) /\ MDown(r)}
              kind == IF R = {} THEN "operation-not-enabled"
                      ELSE IF R1 = {} THEN ResultKind(R)
                      ELSE IF R2 = {} THEN OpenKind(R1)
                      ELSE IF R3 = {} THEN "live-streams"
                      ELSE IF R4 = {} THEN "books-requests"
                      ELSE IF R5 = {} THEN "gauge-connection-active"
                      ELSE "books-clients"
          IN IF R6 # {}
             THEN /\ ms' = {r.m : r \in R6}
                  /\ LET r == CHOOSE x \in R6 : TRUE IN
                        /\ m' = r.m
                        /\ last' = [op |-> Ev.op, res |-> r.res, s |-> r.s, c |-> r.c, pre |-> m]
                  /\ Expect(\A r \in R6 : MuxOK(r.m, maxReq), "spec-invariant")
                  /\ Expect((Ev.op = "new" /\ Ev.res = "ok") => Ev.cvar = Ev.c, "new/ok:stream-identity")
                  /\ bad' = FALSE
                  /\ UNCHANGED <<maxReq, hist>>
             ELSE Mis(Tag \o ":" \o kind) /\ bad' = TRUE /\ UNCHANGED <<vars, ms>>

TraceNext == TPool \/ TOp
TraceSpec == TraceInit /\ [][TraceNext]_tvars
====
