CONSTANTS
  NClients = 4
  Configs <- ConfigsQuick
  MaxOps = 4
  Defects = {}
  LeaseOrder = "lifo"
SPECIFICATION Spec
INVARIANTS EmitCase
CHECK_DEADLOCK FALSE
