---- MODULE PingPongPool ----
(* Connection pool of a ping-pong protocol (one request in flight per connection), property C09.
   Code: pkg/stream/http/connpool.go (connPool / activeClient),
         pkg/stream/xprotocol/connpool_pingpong.go (poolPingPong / activeClientPingPong),
         stream destruction: pkg/stream/stream.go, pkg/stream/client.go.

   The pool record keeps the TRUTH (what every connection is doing: st, dirty) next to the BOOKS
   the implementation keeps (idle list, total count, "requests" resource), so that "the counters
   equal the true numbers" is a state predicate.  One operation = one linearization point of the
   implementation:
     new        NewStream: request-resource test, lease of an idle client / dial / refusal
     resp       response completes the exchange (clientStreamReceiverWrapper.OnReceive -> DestroyStream
                -> OnDestroyStream -> return to the idle list); close=TRUE: the upstream announced it
                is going away ("Connection: close" / GoAway frame): the connection must not be reused
     reset      the request is reset locally (what the proxy does on a timeout): connection condemned
     garbage    the exchange ends with a remote reset (undecodable answer): connection condemned
     rclose     the upstream closes the connection (leased: the stream is reset; idle: removed)
     dbegin/dend  the same completion in the two steps the code takes: dbegin = the stream is destroyed
                (request gauge / resource released; the pool has not touched its idle list yet),
                dend = under the pool lock: "not closed and not condemned" is tested and the client is
                appended to the idle list.  A close event (rclose) may be delivered between the two:
                the test must see it (defect CheckThenActOutsideLock: the test result of dbegin is used)
     poolclose  ConnectionPool.Close(): every idle connection is closed
     shutdown   ConnectionPool.Shutdown(): idle connections are drained (closed now or after one
                more exchange)
   Step(p, o) is the set of outcomes the design allows; Spec and the trace spec both use it. *)
EXTENDS Integers, Sequences, FiniteSets, TLC, Json

CONSTANTS NClients,    \* connection identities 1..NClients, numbered in dial order
          Configs,     \* set of <<maxConn, maxReq>> records; 0 = unlimited
          MaxOps,      \* length of the operation histories enumerated for replay
          Defects,     \* named ways the design can go wrong (must be rejected by TLC)
          SplitDestroy,\* TRUE: dbegin/dend are offered besides the atomic resp
          LeaseOrder   \* "any": any idle client may be leased / a dial is allowed while idle clients
                       \* exist (contract); "lifo": what both pools do (shapes the replay cases only)

Clients == 1..NClients

VARIABLES maxConn, maxReq,  \* configuration (constant along a behaviour)
          p,                \* the pool record
          last,             \* operation applied last and its outcome
          hist              \* operation history (for replay into the real pools)
vars == <<maxConn, maxReq, p, last, hist>>

P0 == [st |-> [c \in Clients |-> "new"], dirty |-> {}, drain |-> {}, ending |-> {}, idle |-> <<>>,
       total |-> 0, req |-> 0, dialled |-> 0]

SeqSet(s) == {s[i] : i \in DOMAIN s}
Remove(s, c) == SelectSeq(s, LAMBDA x : x # c)
In(q, state) == {c \in Clients : q.st[c] = state}
Serving(q) == In(q, "leased") \ q.ending          \* connections with a live stream
Out(q, res, c) == [p |-> q, res |-> res, c |-> c]

CanReq(q, mr)  == mr = 0 \/ q.req < mr
CanConn(q, mc) == mc = 0 \/ q.total < mc

Lease(q, c) == [q EXCEPT !.st[c] = "leased", !.idle = Remove(@, c), !.req = @ + 1]
Dial(q)     == LET c == q.dialled + 1 IN
               [q EXCEPT !.st[c] = "leased", !.dialled = c, !.total = @ + 1, !.req = @ + 1]
LeaseChoice(q) == IF q.idle = <<>> THEN {} ELSE
                  IF LeaseOrder = "lifo" THEN {q.idle[Len(q.idle)]} ELSE SeqSet(q.idle)

(* ---- NewStream ---- *)
StepNew(q, up, mc, mr) ==
  IF ~CanReq(q, mr) THEN
       IF "LeakOnReqOverflow" \in Defects
       THEN \* the client is taken (or dialled and counted) before the request test and then dropped
            IF q.idle # <<>> THEN LET c == q.idle[Len(q.idle)] IN
                 {Out([q EXCEPT !.st[c] = "orphan", !.idle = Remove(@, c)], "overflow", 0)}
            ELSE IF CanConn(q, mc) /\ up /\ q.dialled < NClients THEN LET c == q.dialled + 1 IN
                 {Out([q EXCEPT !.st[c] = "orphan", !.dialled = c, !.total = @ + 1], "overflow", 0)}
            ELSE {Out(q, "overflow", 0)}
       ELSE {Out(q, "overflow", 0)}
  ELSE LET reuse == {Out(Lease(q, c), "ok", c) : c \in LeaseChoice(q)}
           dial  == IF CanConn(q, mc) /\ (LeaseOrder = "any" \/ q.idle = <<>>)
                    THEN IF up THEN (IF q.dialled < NClients THEN {Out(Dial(q), "ok", q.dialled + 1)} ELSE {})
                               ELSE {Out(q, "connfail", 0)}
                    ELSE {}
       IN IF reuse = {} /\ ~(CanConn(q, mc)) THEN {Out(q, "overflow", 0)} ELSE reuse \cup dial

(* ---- end of an exchange ---- *)
Closed(q, c, wasLeased) == [q EXCEPT !.st[c] = "closed", !.total = @ - 1, !.idle = Remove(@, c),
                                     !.req = IF wasLeased THEN @ - 1 ELSE @, !.drain = @ \ {c}]
Returned(q, c) == [q EXCEPT !.st[c] = "idle", !.idle = Append(@, c), !.req = @ - 1, !.drain = @ \ {c}]
Condemn(q, c)  == [q EXCEPT !.dirty = @ \cup {c}]

StepResp(q, c, close) ==
  IF c \notin Serving(q) THEN {} ELSE
  IF close THEN (IF "DirtyReuse" \in Defects THEN {Out(Returned(Condemn(q, c), c), "ok", c)}
                                               ELSE {Out(Closed(Condemn(q, c), c, TRUE), "ok", c)})
  ELSE {Out(Returned(q, c), "ok", c)} \cup
       (IF c \in q.drain THEN {Out(Closed(q, c, TRUE), "ok", c)} ELSE {})

StepCondemn(q, c) ==   \* reset / garbage
  IF c \notin Serving(q) THEN {} ELSE
  IF "DirtyReuse" \in Defects THEN {Out(Returned(Condemn(q, c), c), "ok", c)}
                              ELSE {Out(Closed(Condemn(q, c), c, TRUE), "ok", c)}

(* ---- completion in two steps ---- *)
StepDBegin(q, c) ==
  IF c \notin Serving(q) THEN {} ELSE
  LET b == [q EXCEPT !.ending = @ \cup {c}, !.req = @ - 1] IN
  {Out(b, "ok", c)} \cup
  (IF c \in q.drain THEN {Out(Closed(b, c, FALSE), "ok", c)} ELSE {})    \* a draining client is closed first
StepDEnd(q, c) ==
  IF c \notin q.ending THEN {} ELSE
  LET e == [q EXCEPT !.ending = @ \ {c}] IN
  IF q.st[c] = "closed"
  THEN IF "CheckThenActOutsideLock" \in Defects /\ c \notin q.dirty
       THEN {Out([e EXCEPT !.idle = Append(@, c)], "ok", c)}      \* appended on the strength of the old test
       ELSE {Out(e, "ok", c)}
  ELSE {Out([e EXCEPT !.st[c] = "idle", !.idle = Append(@, c), !.drain = @ \ {c}], "ok", c)} \cup
       (IF c \in q.drain THEN {Out(Closed(e, c, FALSE), "ok", c)} ELSE {})   \* a draining client may be closed only now

StepRClose(q, c) ==
  CASE q.st[c] = "leased" -> {Out(Closed(q, c, c \notin q.ending), "ok", c)}
    [] q.st[c] = "idle"   -> IF "ClosedStaysIdle" \in Defects
                             THEN {Out([q EXCEPT !.st[c] = "closed", !.total = @ - 1], "ok", c)}
                             ELSE {Out(Closed(q, c, FALSE), "ok", c)}
    [] q.st[c] = "orphan" -> {Out([q EXCEPT !.st[c] = "closed", !.total = @ - 1], "ok", c)}
    [] OTHER -> {}

CloseAll(q, S) == [q EXCEPT !.st = [c \in Clients |-> IF c \in S THEN "closed" ELSE @[c]],
                            !.idle = SelectSeq(@, LAMBDA x : x \notin S),
                            !.total = @ - Cardinality(S), !.drain = @ \ S]
StepPoolClose(q) == {Out(CloseAll(q, SeqSet(q.idle)), "ok", 0)}
StepShutdown(q)  == {Out([CloseAll(q, S) EXCEPT !.drain = @ \cup (SeqSet(q.idle) \ S)], "ok", 0) :
                        S \in SUBSET SeqSet(q.idle)}

Step(q, o, mc, mr) ==
  CASE o.op = "new"       -> StepNew(q, o.up, mc, mr)
    [] o.op = "resp"      -> StepResp(q, o.c, o.close)
    [] o.op = "reset"     -> StepCondemn(q, o.c)
    [] o.op = "garbage"   -> StepCondemn(q, o.c)
    [] o.op = "rclose"    -> StepRClose(q, o.c)
    [] o.op = "dbegin"    -> StepDBegin(q, o.c)
    [] o.op = "dend"      -> StepDEnd(q, o.c)
    [] o.op = "poolclose" -> StepPoolClose(q)
    [] o.op = "shutdown"  -> StepShutdown(q)
    [] OTHER -> {}

(* ---- operations offered in a state (case enumeration) ---- *)
DialWouldBeTried(q, mc, mr) == CanReq(q, mr) /\ q.idle = <<>> /\ CanConn(q, mc)
Ops(q, mc, mr) ==
     {[op |-> "new", up |-> TRUE]}
  \cup (IF DialWouldBeTried(q, mc, mr) THEN {[op |-> "new", up |-> FALSE]} ELSE {})
  \cup {[op |-> "resp", c |-> c, close |-> b] : c \in Serving(q), b \in BOOLEAN}
  \cup {[op |-> k, c |-> c] : c \in Serving(q), k \in {"reset", "garbage"}}
  \cup (IF SplitDestroy THEN {[op |-> "dbegin", c |-> c] : c \in Serving(q)} \cup {[op |-> "dend", c |-> c] : c \in q.ending}
                        ELSE {})
  \cup {[op |-> "rclose", c |-> c] : c \in In(q, "leased") \cup In(q, "idle")}
  \cup (IF q.idle # <<>> THEN {[op |-> "poolclose"], [op |-> "shutdown"]} ELSE {})

Init == /\ \E cf \in Configs : maxConn = cf[1] /\ maxReq = cf[2]
        /\ p = P0 /\ last = [op |-> "init", res |-> "ok", c |-> 0, pre |-> P0] /\ hist = <<>>

Next == /\ Len(hist) < MaxOps
        /\ \E o \in Ops(p, maxConn, maxReq) : \E r \in Step(p, o, maxConn, maxReq) :
              /\ p' = r.p
              /\ last' = [op |-> o.op, res |-> r.res, c |-> r.c, pre |-> p]
              /\ hist' = Append(hist, o)
        /\ UNCHANGED <<maxConn, maxReq>>
Spec == Init /\ [][Next]_vars

(* ---- C09 as predicates of a pool record (also evaluated on observed records by the trace spec) ---- *)
States == {"new", "leased", "idle", "closed", "orphan"}
TypeOKp(q) == /\ \A c \in Clients : q.st[c] \in States
              /\ q.dirty \subseteq Clients /\ q.drain \subseteq Clients /\ q.ending \subseteq Clients
OneStateEach(q)  == \A c \in Clients : q.st[c] \in {"new", "leased", "idle", "closed"}     \* no orphan
IdleListExact(q) == /\ SeqSet(q.idle) = In(q, "idle")                                       \* no closed / leased client listed
                    /\ Len(q.idle) = Cardinality(SeqSet(q.idle))                            \* no client listed twice
CountsExact(q)   == /\ q.total = Cardinality(In(q, "leased") \cup In(q, "idle"))
                    /\ q.req = Cardinality(Serving(q))
NoDirtyReuse(q)  == \A c \in q.dirty : q.st[c] = "closed"
WithinLimits(q, mc, mr) == /\ mc # 0 => Cardinality(In(q, "leased") \cup In(q, "idle") \cup In(q, "orphan")) <= mc
                           /\ mr # 0 => Cardinality(Serving(q)) <= mr
PoolOK(q, mc, mr) == TypeOKp(q) /\ OneStateEach(q) /\ IdleListExact(q) /\ CountsExact(q) /\ NoDirtyReuse(q) /\ WithinLimits(q, mc, mr)

TypeOK        == TypeOKp(p)
InvOneState   == OneStateEach(p)
InvIdleList   == IdleListExact(p)
InvCounts     == CountsExact(p)
InvNoDirty    == NoDirtyReuse(p)
InvLimits     == WithinLimits(p, maxConn, maxReq)
(* capacity freed by finished, failed or refused requests is available again: a refusal is justified
   only by requests / connections that are really in use at that moment *)
InvRefusalJustified ==
   (last.op = "new" /\ last.res = "overflow") =>
       LET used == Cardinality(In(last.pre, "leased")) IN
         \/ (maxReq # 0 /\ used >= maxReq)
         \/ (maxConn # 0 /\ used >= maxConn)
(* refused and failed requests leave the books unchanged *)
InvRefusalNeutral ==
   (last.op = "new" /\ last.res \in {"overflow", "connfail"}) =>
       /\ p.total = last.pre.total /\ p.req = last.pre.req /\ p.idle = last.pre.idle
       /\ In(p, "leased") = In(last.pre, "leased")

EmitCase == (Len(hist) = MaxOps) =>
               PrintT(<<"CASE", ToJson([mc |-> maxConn, mr |-> maxReq, ops |-> hist])>>)

(* configurations <<max_connections, max_requests>> (cfg files cannot hold tuples) *)
ConfigsAll   == {<<mc, mr>> : mc \in 0..2, mr \in 0..2}
ConfigsQuick == {<<0, 0>>, <<1, 0>>, <<2, 0>>, <<2, 1>>, <<0, 1>>, <<1, 2>>}
ConfigsOne   == {<<2, 1>>}
====
