---- MODULE KeepAlive ----
(* Heartbeats on a pooled upstream xprotocol connection (pkg/stream/xprotocol/keepalive.go, idlefree.go,
   keepalive_configure.go; created by every xprotocol pool for a protocol that can build a heartbeat frame:
   connpool_pingpong.go / connpool_multiplex.go / connpool_binding.go; driven by connpool.go keepAliveListener on
   every read-idle event of the connection).  Behind C09's "a connection whose request ... timed out is closed,
   not reused" for the requests MOSN itself originates, and the part of the pool's life the request histories of
   PingPongPool / MuxPool do not reach: what happens to a pooled connection while NO request uses it.

   Written in the shape of the code, one operator per method:
     Tick       SendKeepAlive(): tickCount++, a heartbeat goes out when the count reached tick_count_if_succ /
                tick_count_if_fail (by the result of the previous heartbeat)
     SendHB     sendKeepAlive(): a client stream is opened (takes the next stream id of the connection), the idle
                rule is asked (idleFree.CheckFree), the tick count is reset, the heartbeat is stored as pending and
                written
     Ack        HandleSuccess(id) / Expire   HandleTimeout(id): a pending heartbeat is resolved ONCE (loadAndDelete);
                fail_count_to_close consecutive timeouts close the connection; Close -> close event -> Stop()
     Req        an ordinary stream on the same connection (takes a stream id: the idle rule counts heartbeats
                that follow each other with no ordinary stream in between)
     FastSend   the fast-fail task (started by a timeout, stopped by a success) sends without waiting for ticks;
                after Stop() the task may have one more send in flight (select picks among ready channels)
     RClose     the peer closed the connection
   Known deviation, modelled as it is: the client stream of a heartbeat that timed out is never reset, it stays
   in the connection's stream table until the connection ends (a late answer finds it and is dropped by
   loadAndDelete).

   State is ONE record `s` and every method is a function from state to [s, sent, cbs]: the model checker
   (Next) and the trace specification (KeepAliveTrace) step the same functions. *)
EXTENDS Integers, Sequences, FiniteSets, TLC, Json

CONSTANTS Configs,    \* set of [ts, tf, fc, mi, ff]: tick_count_if_succ, tick_count_if_fail, fail_count_to_close,
                      \*   max idle count (0 = idle rule off), fast_fail
          MaxOps,     \* length of the operation sequences explored
          MaxPend,    \* at most this many heartbeats outstanding
          Alphabet,   \* operations explored
          Defects     \* {} | {"NoResetOnSuccess"} | {"LateAnswerCounts"} | {"TickNotReset"} |
                      \*      {"IdleCountsAcrossRequests"} | {"TimeoutAfterStopCounts"}

VARIABLES c,        \* configuration of this run
          s,        \* state of the keep-alive object (record, see S0)
          ops,      \* operations so far
          lastobs   \* what the last operation made observable: heartbeats written, callbacks run
vars == <<c, s, ops, lastobs>>

None == "none"
S0 == [nextId |-> 1,        \* next stream id of the connection
       tick |-> 0, prevSucc |-> TRUE, fails |-> 0,
       pend |-> {},         \* requests map
       done |-> <<>>,       \* ids resolved, in order
       stopped |-> FALSE, closed |-> None,     \* closed: none | fail | idle | remote
       fast |-> FALSE, straggler |-> 0,
       idleCount |-> 0, lastId |-> 0,
       hist |-> <<>>,       \* results in callback order: [id, r], r = "S" | "T"
       run |-> 0,           \* ghost: heartbeat attempts since the last ordinary stream
       since |-> 0]         \* ghost: ticks since the last heartbeat went out
NoObs == [sent |-> <<>>, cbs |-> <<>>]
R(st, sent, cbs) == [s |-> st, sent |-> sent, cbs |-> cbs]

Close(st, why) == [st EXCEPT !.closed = IF @ = None THEN why ELSE @, !.stopped = TRUE,
                             !.straggler = IF st.fast THEN 1 ELSE @, !.fast = FALSE]

SendHB(cf, st) ==
  LET id == st.nextId
      st1 == [st EXCEPT !.nextId = id + 1, !.run = @ + 1]
      consecutive == ("IdleCountsAcrossRequests" \in Defects) \/ st.lastId + 1 = id
      cnt == IF consecutive THEN st.idleCount + 1 ELSE 1
      free == IF cf.mi = 0 THEN FALSE ELSE IF cf.mi = 1 THEN TRUE ELSE consecutive /\ cnt >= cf.mi
      st2 == IF cf.mi <= 1 THEN st1 ELSE [st1 EXCEPT !.idleCount = cnt, !.lastId = IF free THEN @ ELSE id]
  IN IF free THEN R(Close(st2, "idle"), <<>>, <<>>)
     ELSE R([st2 EXCEPT !.tick = IF "TickNotReset" \in Defects THEN @ ELSE 0, !.pend = @ \cup {id}, !.since = 0], <<id>>, <<>>)

Tick(cf, st) ==
  IF st.stopped THEN R(st, <<>>, <<>>)
  ELSE LET t == st.tick + 1
           st1 == [st EXCEPT !.tick = t, !.since = @ + 1]
           th == IF st.prevSucc THEN cf.ts ELSE cf.tf
       IN IF t >= th THEN SendHB(cf, st1) ELSE R(st1, <<>>, <<>>)

Ack(cf, st, id) ==
  IF st.stopped THEN R(st, <<>>, <<>>)
  ELSE IF id \notin st.pend
       THEN IF "LateAnswerCounts" \in Defects
            THEN R([st EXCEPT !.fails = 0, !.prevSucc = TRUE], <<>>, <<"S">>)
            ELSE R(st, <<>>, <<>>)
  ELSE R([st EXCEPT !.pend = @ \ {id}, !.done = Append(@, id),
                    !.fails = IF "NoResetOnSuccess" \in Defects THEN @ ELSE 0, !.prevSucc = TRUE,
                    !.straggler = IF st.fast THEN 1 ELSE @, !.fast = FALSE,
                    !.hist = Append(@, [id |-> id, r |-> "S"])], <<>>, <<"S">>)

Expire(cf, st, id) ==
  IF (st.stopped /\ "TimeoutAfterStopCounts" \notin Defects) \/ id \notin st.pend THEN R(st, <<>>, <<>>)
  ELSE LET st1 == [st EXCEPT !.pend = @ \ {id}, !.done = Append(@, id), !.fails = @ + 1, !.prevSucc = FALSE,
                             !.hist = Append(@, [id |-> id, r |-> "T"])]
       IN IF st1.fails >= cf.fc THEN R(Close(st1, "fail"), <<>>, <<"T">>)
          ELSE R([st1 EXCEPT !.fast = cf.ff /\ ~st1.stopped], <<>>, <<"T">>)

Req(cf, st) == R([st EXCEPT !.nextId = @ + 1, !.run = 0], <<>>, <<>>)
RClose(cf, st) == R(Close(st, "remote"), <<>>, <<>>)
(* a send of the fast-fail task; legal while the task runs, and once more after it was told to stop *)
FastLegal(st) == (st.fast /\ ~st.stopped) \/ st.straggler > 0
FastSend(cf, st) == LET st1 == IF st.fast /\ ~st.stopped THEN st ELSE [st EXCEPT !.straggler = 0]
                    IN SendHB(cf, st1)

RECURSIVE KthMin(_, _)
KthMin(S, k) == LET m == CHOOSE x \in S : \A y \in S : x <= y IN IF k = 1 THEN m ELSE KthMin(S \ {m}, k - 1)
LastDone(st) == st.done[Len(st.done)]

Step(cf, st, o) ==
  CASE o.op = "tick"   -> Tick(cf, st)
    [] o.op = "req"    -> Req(cf, st)
    [] o.op = "ack"    -> Ack(cf, st, o.id)
    [] o.op = "expire" -> Expire(cf, st, o.id)
    [] o.op = "late"   -> Ack(cf, st, o.id)
    [] o.op = "rclose" -> RClose(cf, st)
    [] o.op = "fsend"  -> FastSend(cf, st)

O(op, k, id) == [op |-> op, k |-> k, id |-> id]
EnabledOps(cf, st) ==
  LET n == Cardinality(st.pend) IN
     (IF n < MaxPend THEN {O("tick", 0, 0)} ELSE {})
  \cup (IF ~st.stopped THEN {O("req", 0, 0)} ELSE {})
  \cup {O("ack", k, KthMin(st.pend, k)) : k \in 1..n}
  \cup {O("expire", k, KthMin(st.pend, k)) : k \in 1..n}
  \cup (IF Len(st.done) > 0 THEN {O("late", 0, LastDone(st))} ELSE {})
  \cup (IF st.closed = None THEN {O("rclose", 0, 0)} ELSE {})
  \cup (IF FastLegal(st) /\ n < MaxPend THEN {O("fsend", 0, 0)} ELSE {})

Init == c \in Configs /\ s = S0 /\ ops = <<>> /\ lastobs = NoObs
Next == /\ Len(ops) < MaxOps
        /\ \E o \in EnabledOps(c, s) :
             /\ o.op \in Alphabet
             /\ LET r == Step(c, s, o) IN s' = r.s /\ lastobs' = [sent |-> r.sent, cbs |-> r.cbs]
             /\ ops' = Append(ops, o)
        /\ UNCHANGED c
Spec == Init /\ [][Next]_vars

(* ---- properties, stated on the history ---- *)
RECURSIVE Trail(_)
Trail(h) == IF h = <<>> \/ h[Len(h)].r # "T" THEN 0 ELSE 1 + Trail(SubSeq(h, 1, Len(h) - 1))

(* every heartbeat has at most one result *)
OneResultEach == \A i, j \in DOMAIN s.hist : s.hist[i].id = s.hist[j].id => i = j
(* the connection is closed for failing heartbeats exactly when fail_count_to_close timeouts followed each other *)
ClosedAtThreshold == (s.closed = "fail") <=> (Trail(s.hist) >= c.fc)
(* ... and for idleness exactly at the mi-th heartbeat in a row with no ordinary stream in between *)
IdleAtThreshold == /\ (s.closed = "idle") => (c.mi > 0 /\ s.run >= c.mi)
                   /\ (c.mi > 0 /\ s.run >= c.mi) => s.closed # None
(* the counter is the trailing number of timeouts *)
CounterIsTrail == ~s.stopped => s.fails = Trail(s.hist)
(* the fast-fail task runs only while the last result is a timeout *)
FastOnlyWhileFailing == s.fast => (c.ff /\ ~s.prevSucc /\ ~s.stopped)
(* nothing goes out and nothing is counted once the keep-alive stopped *)
QuietAfterStop == [][(s.stopped /\ ops' # ops /\ ops'[Len(ops')].op # "fsend") => (lastobs'.sent = <<>> /\ lastobs'.cbs = <<>> /\ s'.hist = s.hist)]_vars
(* a tick sends exactly when the configured number of ticks has passed since the last heartbeat went out *)
TickAtThreshold == [][(ops' # ops /\ ops'[Len(ops')].op = "tick" /\ ~s.stopped) =>
                        LET th == IF s.prevSucc THEN c.ts ELSE c.tf
                            went == lastobs'.sent # <<>> \/ s'.closed = "idle"
                        IN went <=> (s.since + 1 >= th)]_vars

(* ---- case emission ---- *)
EmitCases == Len(ops) = MaxOps => PrintT(<<"CASE", ToJson([cfg |-> c, ops |-> ops])>>)
====
