---- MODULE KeepAliveTrace ----
(* Trace validation of the real keep-alive object (xprotocol.NewKeepAliveWithConfig over a real client stream
   connection of bolt on a loopback socket; the peer is the driver) against KeepAlive.  Events (harness/cmd/ka):
     ka{ts,tf,fc,mi,ff,mode}      fresh connection + keep-alive object under this configuration (TraceReset)
     op{op,k,id,sent,cbs,closed}   the driver did one operation of the case (tick = SendKeepAlive(), req = an ordinary
                                   stream, ack/late = the peer's heartbeat answer for id, expire = the time-out of id
                                   - HandleTimeout(id) in logical runs, the real timer in real-time runs -, rclose = the
                                   peer closes) and then saw: the heartbeat ids the peer received (all frames written
                                   before a marker frame), the callbacks that ran, whether the connection is closed
     fsend{id}                     a heartbeat arrived that no tick asked for (fast-fail task)
     settle{n,waited}              after the operation the driver listened for such heartbeats: n arrived *)
EXTENDS KeepAlive, VTrace

tvars == <<vars, l>>
TraceInit == l = 1 /\ c = [ts |-> 1, tf |-> 1, fc |-> 1, mi |-> 0, ff |-> FALSE] /\ s = S0 /\ ops = <<>> /\ lastobs = NoObs

TKa == /\ IsEvent("ka")
       /\ c' = [ts |-> Ev.ts, tf |-> Ev.tf, fc |-> Ev.fc, mi |-> Ev.mi, ff |-> Ev.ff]
       /\ s' = S0 /\ ops' = <<>> /\ lastobs' = NoObs

TOp == /\ IsEvent("op")
       /\ LET o == [op |-> Ev.op, k |-> Ev.k, id |-> Ev.id]
              r == Step(c, s, o)
              wasStopped == s.stopped
          IN /\ s' = r.s /\ lastobs' = [sent |-> r.sent, cbs |-> r.cbs] /\ ops' = <<>> /\ UNCHANGED c
             /\ Expect(~(r.sent # <<>> /\ Ev.sent = <<>>), "heartbeat-not-sent-at-threshold")
             /\ Expect(~(r.sent = <<>> /\ Ev.sent # <<>>),
                       IF wasStopped THEN "heartbeat-after-stop" ELSE "heartbeat-sent-before-threshold")
             /\ Expect(~(r.sent # <<>> /\ Ev.sent # <<>> /\ r.sent # Ev.sent), "heartbeat-id-not-the-next-stream-id")
             /\ Expect(~(r.cbs # <<>> /\ Ev.cbs = <<>>), "result-not-reported")
             /\ Expect(~(r.cbs = <<>> /\ Ev.cbs # <<>>),
                       IF wasStopped THEN "result-counted-after-stop" ELSE "second-result-for-one-heartbeat")
             /\ Expect(~(r.cbs # <<>> /\ Ev.cbs # <<>> /\ r.cbs # Ev.cbs), "wrong-result-reported")
             /\ Expect(~(r.s.closed # None /\ ~Ev.closed),
                       IF r.s.closed = "idle" THEN "idle-connection-not-closed-at-threshold" ELSE "connection-not-closed-at-fail-threshold")
             /\ Expect(~(r.s.closed = None /\ Ev.closed), "connection-closed-before-threshold")

TFSend == /\ IsEvent("fsend")
          /\ Expect(FastLegal(s), "heartbeat-without-tick")
          /\ LET r == FastSend(c, s) IN s' = r.s /\ lastobs' = [sent |-> r.sent, cbs |-> r.cbs]
          /\ UNCHANGED <<c, ops>>
TSettle == /\ IsEvent("settle")
           /\ Expect(~(s.fast /\ ~s.stopped /\ Ev.n = 0), "fast-task-not-sending")
           /\ UNCHANGED vars
TNote == IsEvent("note") /\ UNCHANGED vars

TraceNext == TKa \/ TOp \/ TFSend \/ TSettle \/ TNote
TraceSpec == TraceInit /\ [][TraceNext]_tvars
====
