CONSTANTS
  Configs <- ConfigsCasesThorough
  MaxOps = 6
  MaxPend = 3
  Alphabet <- DriverOps
  Defects = {}
SPECIFICATION Spec
INVARIANT EmitCases
CHECK_DEADLOCK FALSE
