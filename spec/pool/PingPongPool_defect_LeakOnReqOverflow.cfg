CONSTANTS
  NClients = 3
  Configs <- ConfigsAll
  MaxOps = 5
  Defects = {"LeakOnReqOverflow"}
  SplitDestroy = TRUE
  LeaseOrder = "any"
SPECIFICATION Spec
INVARIANTS TypeOK InvOneState InvIdleList InvCounts InvNoDirty InvLimits InvRefusalJustified InvRefusalNeutral
CHECK_DEADLOCK FALSE
