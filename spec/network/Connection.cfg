CONSTANTS
  Scripts <- ScriptsMC
  WriteLoop = FALSE
  ChanCap = 8
  Defects = {}
SPECIFICATION Spec
INVARIANTS TypeOK AtMostOnce EventIsFirstClosers OneWinner ClosedWhenTold NoReadAfterEvent LateDataBound NoPanic NothingContradicts QuietAfterClose FlushDelivers AtTheEnd
CHECK_DEADLOCK TRUE
