---- MODULE ConnectionMC ----
(* NB TLC evaluates every constant definition of a module at start-up: the larger universes live in ConnectionMC3 / ConnectionMCDeep.
   Bounded universes of scripts for Connection.tla.  A script is built group by group; the chunk / write numbers of the
   operations are assigned in order of appearance.  Bounds: <= 2 peer chunks, <= 2 writes, <= 2 local closers
   (cn ce cf and the filter's close on a pc chunk), <= 1 peer end, a group holds one operation or two racing ones (at most
   one of them the peer's), and after the first group that closes the connection one more group follows at most (what a
   Write / Close / peer packet does to a closed connection). *)
EXTENDS Connection

PeerKinds  == {"ps", "pc", "pf", "pr"}
LocalKinds == {"w", "cn", "ce", "cf"}
(* group templates: tuples of kinds *)
Singles == {<<x>> : x \in PeerKinds \cup LocalKinds}
Pairs   == {<<p, x>> : p \in PeerKinds, x \in LocalKinds}
             \cup {<<"w", "w">>, <<"w", "cn">>, <<"w", "ce">>, <<"w", "cf">>, <<"cn", "ce">>, <<"cn", "cf">>, <<"ce", "cf">>}
Templates == Singles \cup Pairs

RECURSIVE CountIn(_, _)
CountIn(sc, kinds) == IF sc = <<>> THEN 0
                      ELSE Cardinality({o \in sc[Len(sc)] : o.op \in kinds}) + CountIn(SubSeq(sc, 1, Len(sc) - 1), kinds)
TCount(t, kinds) == Cardinality({i \in DOMAIN t : t[i] \in kinds})
GroupCloses(g) == \E o \in g : o.op \in Closers
(* groups after the first closing one *)
RECURSIVE After(_)
After(sc) == IF sc = <<>> THEN 0
             ELSE IF \E i \in 1..(Len(sc) - 1) : GroupCloses(sc[i]) THEN 1 + After(SubSeq(sc, 1, Len(sc) - 1)) ELSE 0

(* the group a template becomes when appended to sc *)
Inst(sc, t) ==
  LET np == CountIn(sc, {"ps", "pc"})
      nw == CountIn(sc, {"w"})
      kOf(i) == IF t[i] \in {"ps", "pc"} THEN np + 1
                ELSE IF t[i] = "w" THEN nw + TCount(SubSeq(t, 1, i), {"w"})
                ELSE 0
  IN {Op(t[i], kOf(i)) : i \in DOMAIN t}
Fits(sc, t) ==
  /\ CountIn(sc, {"ps", "pc"}) + TCount(t, {"ps", "pc"}) <= 2
  /\ CountIn(sc, {"w"}) + TCount(t, {"w"}) <= 2
  /\ CountIn(sc, {"cn", "ce", "cf", "pc"}) + TCount(t, {"cn", "ce", "cf", "pc"}) <= 2
  /\ (CountIn(sc, {"pf", "pr", "cx"}) > 0) => TCount(t, PeerKinds) = 0
  /\ After(sc) = 0          \* sc has no group after its first closing group yet
ExtWF(S) == UNION {{Append(sc, Inst(sc, t)) : t \in {tt \in Templates : Fits(sc, tt)}} : sc \in S}

L1 == ExtWF({<<>>})
L2 == ExtWF(L1)
ServerScripts2 == L1 \cup L2

(* client side: Connect first - alone, or racing what the peer does as soon as it has accepted *)
CoHeads == {<<{Op("co", 0)}>>} \cup {<<{Op("co", 0), Op(p, IF p \in {"ps", "pc"} THEN 1 ELSE 0)}>> : p \in PeerKinds}
C1 == CoHeads
C2 == ExtWF(C1)
CxHead == {<<{Op("cx", 0)}>>}
X2 == ExtWF(CxHead)
ClientScripts2 == C1 \cup C2 \cup CxHead \cup X2

(* the clock: read deadlines (idle checker) and the write deadline; driven with shortened deadlines *)
G1(a) == {a}
G2(a, b) == {a, b}
TimedScripts ==
  { <<G1(Op("idle", 0))>>,
    <<G1(Op("ps", 1)), G1(Op("idle", 0))>>,
    <<G1(Op("w", 1)), G1(Op("idle", 0))>>,
    <<G1(Op("idle", 0)), G1(Op("w", 1))>>,
    <<G1(Op("idle", 0)), G1(Op("cn", 0))>>,
    <<G1(Op("idle", 0)), G1(Op("cf", 0))>>,
    <<G1(Op("idle", 0)), G1(Op("ps", 1))>>,
    <<G1(Op("wt", 3))>>,
    <<G1(Op("w", 1)), G1(Op("wt", 3))>>,
    <<G1(Op("wt", 3)), G1(Op("cn", 0))>>,
    <<G1(Op("wt", 3)), G1(Op("w", 1))>>,
    <<G2(Op("wt", 3), Op("cn", 0))>>,
    <<G2(Op("wt", 3), Op("ce", 0))>>,
    <<G2(Op("wt", 3), Op("pf", 0))>>,
    <<G1(Op("co", 0)), G1(Op("wt", 3))>>,
    <<G1(Op("co", 0)), G2(Op("wt", 3), Op("cn", 0))>> }

(* free interleaving: all operations in ONE group (nothing settles in between) *)
Pool == {Op("ps", 1), Op("pc", 2), Op("pf", 0), Op("pr", 0), Op("w", 1), Op("w", 2), Op("cn", 0), Op("ce", 0), Op("cf", 0)}
FreeOK(g) == /\ Cardinality({o \in g : o.op \in {"cn", "ce", "cf", "pc"}}) <= 2
             /\ Cardinality({o \in g : o.op \in {"pf", "pr"}}) <= 1
             /\ Cardinality({o \in g : o.op \in UserOps}) <= 3
FreeScripts(n) == {<<g>> : g \in {x \in SUBSET Pool : Cardinality(x) = n /\ FreeOK(x)}}
(* the user of a client connection does nothing with it until Connect() has returned; the peer may *)
FreeClient(n) == {<<{Op("co", 0)}, g>> : g \in {x \in SUBSET Pool : Cardinality(x) = n /\ FreeOK(x)}}

ScriptsMC == ServerScripts2 \cup ClientScripts2 \cup TimedScripts \cup FreeScripts(3) \cup FreeClient(2)
(* write-loop mode is model only: smaller universe, the closers and writes that matter for the queue *)
ScriptsLoop == ServerScripts2 \cup FreeScripts(3)
ScriptsLoopQuick == L1 \cup FreeScripts(3)

====
