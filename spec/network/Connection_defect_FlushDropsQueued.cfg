CONSTANTS
  Scripts <- ScriptsLoopQuick
  WriteLoop = TRUE
  ChanCap = 8
  Defects = {"FlushDropsQueued"}
SPECIFICATION Spec
INVARIANTS TypeOK AtMostOnce EventIsFirstClosers OneWinner ClosedWhenTold NoReadAfterEvent LateDataBound NoPanic NothingContradicts QuietAfterClose FlushDelivers AtTheEnd
CHECK_DEADLOCK TRUE
