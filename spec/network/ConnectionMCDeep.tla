---- MODULE ConnectionMCDeep ----
(* The larger universes of scripts (thorough tier; the deeper layer of cases the quick tier samples by VERIF_SEED). *)
EXTENDS ConnectionMC3
L4 == ExtWF(L3)
C4 == ExtWF(C3)
ScriptsMCThorough == ServerScripts3 \cup ClientScripts3 \cup TimedScripts \cup FreeScripts(4) \cup FreeClient(3)
ScriptsCasesDeep  == L4 \cup C4
====
