---- MODULE Connection ----
(* Life cycle of ONE network connection object, pkg/network/connection.go (server side: newServerConnection + Start as
   pkg/server's activeListener does; client side: newClientConnection + Connect).  What the pools of C09 and the gauges of
   C10 take for granted: whatever closes a connection and however many closers race, every listener gets the close event
   exactly once, it is the first closer's, the socket is really closed by then, nothing that contradicts it follows, a
   Write next to / after a close errs or drops but neither panics nor blocks for ever, and Close(FlushWrite) lets
   everything written before it reach the peer before the peer sees the end.

   Implementation-shaped: one step per critical step of the code.
     read loop   rl_top (the two `select`s on internalStopChan) -> rl_read (doRead: ReadOnce under the read deadline)
                 -> rl_deliver (onRead -> filterManager.OnRead -> the read filter's OnData) | Close(NoFlush, RemoteClose) on
                 EOF | Close(NoFlush, OnReadErrClose) on an error | read deadline: OnReadTimeout to the listeners, the idle
                 checker (first listener of a server connection) calls Close(NoFlush, LocalClose) at its count
     Write       the code never starts its write loop (checkUseWriteLoop() is hard-wired false): Write = writeDirectly on
                 the caller's goroutine: w_chk (internalStopChan closed -> ErrConnectionHasClosed) -> w_lock (tryMutex) ->
                 w_io (appendBuffer + doWrite; an error on a closed connection is swallowed: the data is dropped, nil is
                 returned; buffer.EOF marker written -> Close(NoFlush, LocalClose) while the mutex is held; write deadline
                 -> Close(NoFlush, OnWriteTimeout)) -> w_unlock.  A panic inside Write (nil raw connection of a client
                 that never connected; send on the closed writeBufferChan in write-loop mode) is recovered and reported as
                 ErrConnectionHasClosed.
                 WriteLoop = TRUE models the write loop the code still carries (Write = send on writeBufferChan, loop
                 wl_top/wl_take/wl_io, the loop closes the channel when it leaves): model only, no execution of the
                 real code reaches it.
     Close       Close(FlushWrite, _) = Write(EOF marker).  Close(NoFlush, ev): cl_cas (CAS closed 0->1; the loser
                 returns; a client whose connect failed returns here) -> cl_stop (CloseRead, close(internalStopChan)) ->
                 cl_raw (rawConnection.Close) -> cl_ev1, cl_ev2 (OnConnectionEvent: every listener in turn) -> back.
                 close(internalStopChan) on a closed channel panics; Close recovers and returns (counted: the intended
                 design never gets there).
     Connect     cc_dial -> events to the listeners -> Start.  The code starts the loops BEFORE it tells the listeners
                 (deviation "StartBeforeConnectedEvent").
   The environment plays a script (sequence of groups; the operations of a group start in any order and interleave at
   step granularity, the next group starts when the previous one has settled: that is what the driver can realise on
   real sockets).  One group holding all operations = free interleaving.

   Defects (each rejected by TLC with its own cfg):
     NoCAS                    closed is stored, not compared-and-swapped
     EventBeforeCAS           listeners are told first, the flag is taken afterwards
     EventBeforeRawClose      listeners are told before the socket is shut
     TypeFromSharedField      the event type is parked in a field of the connection before the CAS
     CloseTakesWriteLock      Close(NoFlush) waits for the write mutex (the flush path calls it holding the mutex)
     FlushNeverCloses         the EOF marker is written like any buffer
     FlushDropsQueued         (write loop) Close(FlushWrite) closes at once instead of queueing the marker
     WriteAfterClosePanics    Write without the recover
     StartBeforeConnectedEvent   what Connect() does today: a close event can overtake ConnectedFlag
     TimeoutEventAfterIdleClose  what doRead does today: the listeners behind the idle checker get the OnReadTimeout
                                 that made the checker close the connection after the close event *)
EXTENDS ConnVocab, TLC, Json

CONSTANTS Scripts,     \* set of scripts: sequences of groups, a group is a set of Op records
          WriteLoop,   \* BOOLEAN
          ChanCap,     \* capacity of writeBufferChan (8 in the code)
          Defects

VARIABLES script, s
vars == <<script, s>>

Users   == {"u1", "u2"}
Threads == {"rl", "wl", "cc"} \cup Users
D(x) == x \in Defects
NoOp == Op(None, 0)

IsClient(sc) == \E o \in sc[1] : o.op \in ConnOps

S0(sc) ==
  [gi |-> 1, todo |-> sc[1], idleDue |-> FALSE,
   pc  |-> [t \in Threads |-> IF t = "rl" /\ ~IsClient(sc) THEN "rl_top"
                              ELSE IF t = "wl" /\ ~IsClient(sc) /\ WriteLoop THEN "wl_top" ELSE "idle"],
   ret |-> [t \in Threads |-> "idle"], cev |-> [t \in Threads |-> None],
   ccause |-> [t \in Threads |-> [what |-> None, by |-> None]],
   uop |-> [u \in Users |-> NoOp], arg |-> [t \in Threads |-> [k |-> 0, m |-> None]], wres |-> [u \in Users |-> None],
   closed |-> 0, stop |-> FALSE, rdShut |-> FALSE, rawClosed |-> FALSE, rawNil |-> IsClient(sc),
   connected |-> ~IsClient(sc), mu |-> "free", sharedEv |-> None,
   inq |-> <<>>, pend |-> None, peerOpen |-> TRUE, outq |-> <<>>, wq |-> <<>>, wchanClosed |-> FALSE,
   rlbuf |-> <<>>, wlbuf |-> <<>>,
   levs |-> [l \in {1, 2} |-> <<>>], deliv |-> <<>>,
   \* ghosts
   winners |-> <<>>, readsAfterEv |-> FALSE, lateData |-> 0, closePanics |-> 0,
   wret |-> [k \in 1..3 |-> None], must |-> [u \in Users |-> {}]]

Init == script \in Scripts /\ s = S0(script)

CloseSeen(st) == \E l \in {1, 2} : \E i \in DOMAIN st.levs[l] : st.levs[l][i] \in CloseEvents

(* ---------------- Close(NoFlush, ev) called by thread t, continuing at r ---------------- *)
FirstClose == IF D("TypeFromSharedField") THEN "cl_store" ELSE IF D("EventBeforeCAS") THEN "cl_ev1" ELSE "cl_cas"
AfterCas   == IF D("EventBeforeRawClose") THEN "cl_ev1" ELSE "cl_stop"
Call(st, t, ev, what, by, r) ==
  [st EXCEPT !.pc[t] = FirstClose, !.cev[t] = ev, !.ccause[t] = [what |-> what, by |-> by], !.ret[t] = r]
EvOf(st, t) == IF D("TypeFromSharedField") THEN st.sharedEv ELSE st.cev[t]

ClStep(st, t) ==
  CASE st.pc[t] = "cl_store" ->
         [st EXCEPT !.sharedEv = st.cev[t], !.pc[t] = IF D("EventBeforeCAS") THEN "cl_ev1" ELSE "cl_cas"]
    [] st.pc[t] = "cl_cas" ->
         IF st.closed = 0 \/ D("NoCAS")
         THEN LET c == st.ccause[t]
                  w == [t |-> t, ev |-> st.cev[t], what |-> c.what,
                        must |-> IF c.what = "marker" THEN st.must[c.by] ELSE {}]
                  st1 == [st EXCEPT !.closed = 1, !.winners = Append(@, w)]
              IN [st1 EXCEPT !.pc[t] = IF st.rawNil THEN st.ret[t]
                                       ELSE IF D("CloseTakesWriteLock") THEN "cl_lock"
                                       ELSE IF D("EventBeforeCAS") THEN "cl_stop" ELSE AfterCas]
         ELSE [st EXCEPT !.pc[t] = st.ret[t]]
    [] st.pc[t] = "cl_lock" -> [st EXCEPT !.pc[t] = AfterCas]          \* enabled only while the mutex is free
    [] st.pc[t] = "cl_stop" ->
         IF st.stop THEN [st EXCEPT !.closePanics = @ + 1, !.pc[t] = st.ret[t]]     \* close of a closed channel
         ELSE [st EXCEPT !.rdShut = TRUE, !.stop = TRUE, !.pc[t] = "cl_raw"]
    [] st.pc[t] = "cl_raw" ->
         [st EXCEPT !.rawClosed = TRUE,
                    !.pc[t] = IF D("EventBeforeCAS") \/ D("EventBeforeRawClose") THEN st.ret[t] ELSE "cl_ev1"]
    [] st.pc[t] = "cl_ev1" -> [st EXCEPT !.levs[1] = Append(@, EvOf(st, t)), !.pc[t] = "cl_ev2"]
    [] st.pc[t] = "cl_ev2" ->
         [st EXCEPT !.levs[2] = Append(@, EvOf(st, t)),
                    !.pc[t] = IF D("EventBeforeCAS") THEN "cl_cas"
                              ELSE IF D("EventBeforeRawClose") THEN "cl_stop" ELSE st.ret[t]]
InClose(st, t) == st.pc[t] \in {"cl_store", "cl_cas", "cl_lock", "cl_stop", "cl_raw", "cl_ev1", "cl_ev2"}
CloseStep(t) == /\ InClose(s, t)
                /\ s.pc[t] = "cl_lock" => s.mu = "free"
                /\ s' = ClStep(s, t)

(* ---------------- read loop ---------------- *)
CanRead(st) == st.rdShut \/ st.rawClosed \/ st.inq # <<>> \/ st.pend # None \/ st.idleDue
RlTop == /\ s.pc["rl"] = "rl_top"
         /\ s' = [s EXCEPT !.pc["rl"] = IF s.stop THEN "done" ELSE "rl_read"]
RlRead ==
  /\ s.pc["rl"] = "rl_read"
  /\ \/ /\ s.rdShut \/ s.rawClosed          \* closed under the loop's feet: EOF after CloseRead, an error after Close
        /\ s' = Call(s, "rl", "RemoteClose", "rderr", "rl", "done")
     \/ /\ ~s.rdShut /\ ~s.rawClosed /\ s.inq # <<>>
        /\ \E n \in 1..Len(s.inq) :
             s' = [s EXCEPT !.rlbuf = SubSeq(s.inq, 1, n), !.inq = SubSeq(s.inq, n + 1, Len(s.inq)),
                            !.readsAfterEv = @ \/ CloseSeen(s), !.pc["rl"] = "rl_deliver"]
     \/ /\ ~s.rdShut /\ ~s.rawClosed /\ s.inq = <<>> /\ s.pend = "fin"
        /\ s' = Call(s, "rl", "RemoteClose", "eof", "rl", "done")
     \/ /\ ~s.rdShut /\ ~s.rawClosed /\ s.pend = "rst"          \* data still unread may be lost with the reset
        /\ s' = Call([s EXCEPT !.inq = <<>>], "rl", "OnReadErrClose", "rst", "rl", "done")
     \/ /\ ~s.rdShut /\ ~s.rawClosed /\ s.inq = <<>> /\ s.pend = None /\ s.idleDue
        /\ s' = Call([s EXCEPT !.idleDue = FALSE], "rl", "LocalClose", "idle", "rl", "rl_to1")
RlTimeoutRest ==      \* the listeners behind the idle checker in doRead's callback loop
  \/ /\ s.pc["rl"] = "rl_to1"
     /\ s' = IF D("TimeoutEventAfterIdleClose")
             THEN [s EXCEPT !.levs[1] = Append(@, "OnReadTimeout"), !.pc["rl"] = "rl_to2"]
             ELSE [s EXCEPT !.pc["rl"] = "rl_top"]
  \/ /\ s.pc["rl"] = "rl_to2"
     /\ s' = [s EXCEPT !.levs[2] = Append(@, "OnReadTimeout"), !.pc["rl"] = "rl_top"]
RlDeliver ==
  /\ s.pc["rl"] = "rl_deliver"
  /\ LET st1 == [s EXCEPT !.deliv = @ \o s.rlbuf, !.rlbuf = <<>>,
                          !.lateData = IF CloseSeen(s) THEN @ + 1 ELSE @]
     IN s' = IF \E i \in DOMAIN s.rlbuf : s.rlbuf[i].c
             THEN Call(st1, "rl", "LocalClose", "filter", "rl", "rl_top")
             ELSE [st1 EXCEPT !.pc["rl"] = "rl_top"]

(* ---------------- Write ---------------- *)
Finish(st, u, res) ==
  LET o == st.uop[u]
      st1 == [st EXCEPT !.uop[u] = NoOp, !.pc[u] = "idle"]
  IN IF o.op \in {"w", "wt"} THEN [st1 EXCEPT !.wret[st.arg[u].k] = res] ELSE st1
IsMarker(a) == a.m # None
WChk(u) == /\ s.pc[u] = "w_chk"
           /\ s' = IF WriteLoop THEN [s EXCEPT !.pc[u] = "w_enq"]
                   ELSE IF s.stop THEN Finish(s, u, "err") ELSE [s EXCEPT !.pc[u] = "w_lock"]
WLock(u) == /\ s.pc[u] = "w_lock" /\ s.mu = "free"
            /\ s' = [s EXCEPT !.mu = u, !.pc[u] = "w_io"]
WIo(u) ==
  /\ s.pc[u] = "w_io"
  /\ LET a == s.arg[u] IN
     \/ /\ s.rawNil                           \* setWriteDeadline on a nil connection: panic, deferred unlock, recover
        /\ s' = Finish([s EXCEPT !.mu = "free"], u, IF D("WriteAfterClosePanics") THEN "panic" ELSE "err")
     \/ /\ ~s.rawNil /\ s.rawClosed           \* error of a closed connection is swallowed: dropped, nil
        /\ s' = [s EXCEPT !.wres[u] = "nil", !.pc[u] = "w_unlock"]
     \/ /\ ~s.rawNil /\ ~s.rawClosed /\ s.pend = "rst"      \* the peer is gone: the error is returned, the read loop closes
        /\ s' = [s EXCEPT !.wres[u] = "err", !.pc[u] = "w_unlock", !.pend = "fin"]   \* (a socket reports its error once: the read sees EOF)
     \/ /\ ~s.rawNil /\ ~s.rawClosed
        /\ s' = IF IsMarker(a)
                THEN IF D("FlushNeverCloses") THEN [s EXCEPT !.wres[u] = "nil", !.pc[u] = "w_unlock"]
                     ELSE Call([s EXCEPT !.wres[u] = "nil"], u, "LocalClose", "marker", a.m, "w_unlock")
                ELSE IF s.uop[u].op = "wt"
                THEN Call([s EXCEPT !.wres[u] = "err"], u, "OnWriteTimeout", "wtimeout", u, "w_unlock")
                ELSE [s EXCEPT !.outq = Append(@, a.k), !.wres[u] = "nil", !.pc[u] = "w_unlock"]
WUnlock(u) == /\ s.pc[u] = "w_unlock"
              /\ s' = Finish([s EXCEPT !.mu = "free"], u, s.wres[u])
(* write-loop mode: Write = send on writeBufferChan *)
WEnq(u) ==
  /\ s.pc[u] = "w_enq"
  /\ \/ /\ s.wchanClosed
        /\ s' = Finish(s, u, IF D("WriteAfterClosePanics") THEN "panic" ELSE "err")
     \/ /\ ~s.wchanClosed /\ Len(s.wq) < ChanCap
        /\ s' = Finish([s EXCEPT !.wq = Append(@, s.arg[u])], u, "nil")
WlTop == /\ s.pc["wl"] = "wl_top"
         /\ s' = [s EXCEPT !.pc["wl"] = IF s.stop THEN "wl_exit" ELSE "wl_take"]
WlTake == /\ s.pc["wl"] = "wl_take"
          /\ \/ s.stop /\ s' = [s EXCEPT !.pc["wl"] = "wl_exit"]
             \/ /\ s.wq # <<>>
                /\ \E n \in 1..Len(s.wq) :
                     s' = [s EXCEPT !.wlbuf = SubSeq(s.wq, 1, n), !.wq = SubSeq(s.wq, n + 1, Len(s.wq)), !.pc["wl"] = "wl_io"]
WlIo ==
  /\ s.pc["wl"] = "wl_io"
  /\ \/ /\ s.rawClosed
        /\ s' = [s EXCEPT !.wlbuf = <<>>, !.pc["wl"] = "wl_top"]
     \/ /\ ~s.rawClosed /\ s.pend = "rst"
        /\ s' = [s EXCEPT !.wlbuf = <<>>, !.pc["wl"] = "wl_exit"]       \* any other write error: the loop leaves
     \/ /\ ~s.rawClosed
        /\ LET data == SelectSeq(s.wlbuf, LAMBDA a : ~IsMarker(a))
               ks == [i \in DOMAIN data |-> data[i].k]
               mk == SelectSeq(s.wlbuf, IsMarker)
               st1 == [s EXCEPT !.outq = @ \o ks, !.wlbuf = <<>>]
           IN s' = IF mk # <<>> /\ ~D("FlushNeverCloses")
                   THEN Call(st1, "wl", "LocalClose", "marker", mk[1].m, "wl_exit")
                   ELSE [st1 EXCEPT !.pc["wl"] = "wl_top"]
WlExit == /\ s.pc["wl"] = "wl_exit"
          /\ s' = [s EXCEPT !.wchanClosed = TRUE, !.pc["wl"] = "done"]

(* ---------------- Connect ---------------- *)
StartLoops(st) == [st EXCEPT !.pc["rl"] = "rl_top", !.pc["wl"] = IF WriteLoop THEN "wl_top" ELSE "idle"]
CcStep ==
  \/ /\ s.pc["cc"] = "cc_dial"
     /\ s' = IF s.arg["cc"].m = "co"
             THEN [s EXCEPT !.rawNil = FALSE, !.connected = TRUE,
                            !.pc["cc"] = IF D("StartBeforeConnectedEvent") THEN "cc_start" ELSE "cc_ev1"]
             ELSE [s EXCEPT !.pc["cc"] = "cc_ev1"]
  \/ /\ s.pc["cc"] = "cc_start"
     /\ s' = [StartLoops(s) EXCEPT !.pc["cc"] = IF D("StartBeforeConnectedEvent") THEN "cc_ev1" ELSE "done"]
  \/ /\ s.pc["cc"] = "cc_ev1"
     /\ s' = [s EXCEPT !.levs[1] = Append(@, IF s.arg["cc"].m = "co" THEN "ConnectedFlag" ELSE "ConnectFailed"), !.pc["cc"] = "cc_ev2"]
  \/ /\ s.pc["cc"] = "cc_ev2"
     /\ s' = [s EXCEPT !.levs[2] = Append(@, IF s.arg["cc"].m = "co" THEN "ConnectedFlag" ELSE "ConnectFailed"),
                       !.pc["cc"] = IF s.arg["cc"].m = "co" /\ ~D("StartBeforeConnectedEvent") THEN "cc_start" ELSE "done"]

(* ---------------- the environment: the script ---------------- *)
FreeUser(st) == IF st.uop["u1"] = NoOp THEN "u1" ELSE "u2"
StartOp ==
  \E o \in s.todo :
    LET st == [s EXCEPT !.todo = @ \ {o}] IN
    CASE o.op \in PeerOps /\ ~s.peerOpen -> s' = st         \* the peer has ended its side: it does nothing any more
      [] o.op \in {"ps", "pc"} /\ s.peerOpen ->
           /\ s.connected
           /\ s' = [st EXCEPT !.inq = Append(@, [k |-> o.k, c |-> o.op = "pc"])]
      [] o.op = "pf" /\ s.peerOpen -> s.connected /\ s' = [st EXCEPT !.pend = "fin", !.peerOpen = FALSE]
      [] o.op = "pr" /\ s.peerOpen -> s.connected /\ s' = [st EXCEPT !.pend = "rst", !.peerOpen = FALSE]
      [] o.op = "idle" -> s' = [st EXCEPT !.idleDue = TRUE]
      [] o.op \in ConnOps ->
           /\ s.pc["cc"] = "idle"
           /\ s' = [st EXCEPT !.pc["cc"] = "cc_dial", !.arg["cc"] = [k |-> 0, m |-> o.op]]
      [] o.op \in UserOps ->
           /\ \E u \in Users : s.uop[u] = NoOp
           /\ LET u == FreeUser(s)
                  st1 == [st EXCEPT !.uop[u] = o]
              IN s' = CASE o.op \in {"w", "wt"} -> [st1 EXCEPT !.arg[u] = [k |-> o.k, m |-> None], !.pc[u] = "w_chk"]
                        [] o.op = "cf" ->
                             LET st2 == [st1 EXCEPT !.must[u] = {k \in 1..2 : s.wret[k] = "nil"}] IN
                             IF D("FlushDropsQueued") THEN Call(st2, u, "LocalClose", "flushnow", u, "op_end")
                             ELSE [st2 EXCEPT !.arg[u] = [k |-> 0, m |-> u], !.pc[u] = "w_chk"]
                        [] o.op = "cn" -> Call(st1, u, "LocalClose", "user", u, "op_end")
                        [] o.op = "ce" -> Call(st1, u, "OnWriteErrClose", "user", u, "op_end")
OpEnd(u) == s.pc[u] = "op_end" /\ s' = Finish(s, u, None)

Quiet(st) == /\ \A u \in Users : st.uop[u] = NoOp
             /\ st.pc["cc"] \in {"idle", "done"}
             /\ st.pc["rl"] \in {"idle", "done"} \/ (st.pc["rl"] = "rl_read" /\ ~CanRead(st))
             /\ st.pc["wl"] \in {"idle", "done"} \/ (st.pc["wl"] = "wl_take" /\ st.wq = <<>> /\ ~st.stop)
NextGroup == /\ s.todo = {} /\ Quiet(s) /\ s.gi < Len(script)
             /\ s' = [s EXCEPT !.gi = @ + 1, !.todo = script[s.gi + 1]]
AllDone == s.todo = {} /\ Quiet(s) /\ s.gi = Len(script)
Terminated == AllDone /\ UNCHANGED s

Next == /\ \/ StartOp \/ NextGroup \/ Terminated
           \/ RlTop \/ RlRead \/ RlDeliver \/ RlTimeoutRest
           \/ WlTop \/ WlTake \/ WlIo \/ WlExit
           \/ CcStep
           \/ \E t \in Threads : CloseStep(t)
           \/ \E u \in Users : WChk(u) \/ WLock(u) \/ WIo(u) \/ WUnlock(u) \/ WEnq(u) \/ OpEnd(u)
        /\ UNCHANGED script
Spec == Init /\ [][Next]_vars

(* ---------------- properties ---------------- *)
CloseEvs(l) == SelectSeq(s.levs[l], LAMBDA e : e \in CloseEvents)
(* every listener gets the close event at most once ... *)
AtMostOnce == \A l \in {1, 2} : Len(CloseEvs(l)) <= 1
(* ... it is the event of the closer that took the flag first ... *)
EventIsFirstClosers == \A l \in {1, 2} : \A i \in DOMAIN CloseEvs(l) : s.winners # <<>> /\ CloseEvs(l)[i] = s.winners[1].ev
OneWinner == Len(s.winners) <= 1
(* ... and when a listener hears it the connection is closed: flag, stop channel, socket *)
ClosedWhenTold == CloseSeen(s) => (s.closed = 1 /\ s.stop /\ s.rawClosed)
(* nothing is read from the socket once the event is out; what the read loop had in its hands when another goroutine
   closed is delivered, at most once, never when the closer was the read loop itself *)
NoReadAfterEvent == ~s.readsAfterEv
LateDataBound == s.lateData <= 1 /\ (s.lateData = 1 => (s.winners # <<>> /\ s.winners[1].t # "rl"))
(* the recover()s of Close and Write are safety nets the design never falls into (except Write on a connection that
   has no socket), and no Write reports a panic *)
NoPanic == s.closePanics = 0 /\ \A k \in 1..3 : s.wret[k] # "panic"
(* nothing that contradicts the close event follows it *)
Contradicts(e) == e \in CloseEvents \cup ConnectEvents
NothingContradicts == \A l \in {1, 2} : \A i, j \in DOMAIN s.levs[l] :
                        (i < j /\ s.levs[l][i] \in CloseEvents) => ~Contradicts(s.levs[l][j])
QuietAfterClose == \A l \in {1, 2} : \A i, j \in DOMAIN s.levs[l] : i < j => s.levs[l][i] \notin CloseEvents
(* Close(FlushWrite): what was written before it reaches the peer before the end *)
FlushDelivers == (s.rawClosed /\ s.winners # <<>> /\ s.winners[1].what \in {"marker", "flushnow"})
                   => (IF s.winners[1].what = "marker" THEN s.winners[1].must ELSE UNION {s.must[u] : u \in Users}) \subseteq Range(s.outq)
(* when all is over: a script with a closer leaves the connection closed and every listener told, once, the same *)
ScriptCloses == \E i \in DOMAIN script : \E o \in script[i] : o.op \in Closers
HasSocket == ~s.rawNil
AtTheEnd == AllDone =>
              /\ (ScriptCloses /\ HasSocket) => s.closed = 1
              /\ (s.closed = 1 /\ HasSocket) => \A l \in {1, 2} : Len(CloseEvs(l)) = 1
              /\ s.closed = 0 => \A l \in {1, 2} : CloseEvs(l) = <<>>
              /\ s.mu = "free"
TypeOK == s.closed \in {0, 1} /\ s.mu \in {"free"} \cup Users

(* case stream: the scripts themselves (CaseSpec does not step) *)
CaseSpec == Init /\ [][FALSE]_vars
EmitCase == PrintT(<<"CASE", ToJson([side |-> IF IsClient(script) THEN "client" ELSE "server", groups |-> script])>>)
====
