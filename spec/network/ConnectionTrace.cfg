SPECIFICATION TraceSpec
POSTCONDITION Accepted
CHECK_DEADLOCK FALSE
