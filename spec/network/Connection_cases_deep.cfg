CONSTANTS
  Scripts <- ScriptsCasesDeep
  WriteLoop = FALSE
  ChanCap = 8
  Defects = {}
SPECIFICATION CaseSpec
INVARIANT EmitCase
CHECK_DEADLOCK FALSE
