---- MODULE ConnectionTrace ----
(* Trace validation of REAL connection objects (pkg/network/connection.go over loopback TCP, driver harness/cmd/c09
   -mode conn) against the statements Connection.tla proves of the design.  The monitor is stated on what a user of
   the connection can see; which closer wins a race is not ours to say, so the monitor keeps the SET of closers that
   can still be the first one (begun before any Close() had returned and before any listener had been told).

   Events, in the order they happened (one trace mutex):
     conn{side,case,rep,timed,cls}  fresh connection (+ peer) for one script (reset)
     begin{op,k} / end{op,k,ret}    an operation of the script starts / has returned; ret = nil | err | panic | stuck.
                                    The operations of a group are all begun before any of them runs.
     lev{l,e}                       listener l (1, 2) got connection event e
     data{ks,bad}                   the read filter's OnData: the peer chunks completed by this call; bad = bytes that
                                    are not the next bytes of what the peer sent
     settle{g,closed,ok}            group g is over and the driver has waited for its effects (close events at both
                                    listeners and the end of the stream at the peer, or all data delivered);
                                    closed = State() is ConnClosed
     peer{got,end,junk}             at the end: write chunks the peer received completely, how its stream ended
                                    (eof | rst | open | gone = the peer closed its own socket)
     state{st,cpanics,wrecov}       State(); panics recovered inside Close / Write during this run (from the logger)
     quiesce{} / note{}             end of the run / remarks (abandon: an operation never returned) *)
EXTENDS ConnVocab, VTrace, TLC

VARIABLES m
tvars == <<m, l>>

M0 == [side |-> "server", sock |-> TRUE,
       cand |-> {},            \* closers that may be the first
       sealed |-> FALSE,       \* no later closer can be the first any more
       begun |-> {},           \* closers begun at all (on a connection that has a socket)
       evs |-> [i \in {1, 2} |-> <<>>],
       sent |-> <<>>,          \* chunks the peer sent, in order
       nd |-> 0,               \* ... of which delivered to the read filter
       sc |-> 0,               \* chunks the peer had sent when the first listener was told of the close
       late |-> 0,             \* data callbacks after a close event
       peerEnd |-> None,       \* none | fin | rst
       wbegun |-> {}, wopen |-> {},   \* writes begun / begun while nothing had started to end the connection
       wnil |-> {},            \* writes that returned nil
       must |-> {},            \* ... on a connection nothing had begun to close: they reach the peer
       fmust |-> {}, fsole |-> FALSE]    \* Close(FlushWrite): written before it / it is the only possible first closer

CloseEvsOf(q) == SelectSeq(q, LAMBDA e : e \in CloseEvents)
Told(mm, i) == CloseEvsOf(mm.evs[i]) # <<>>
AnyTold(mm) == Told(mm, 1) \/ Told(mm, 2)
FirstEv(mm) == IF Told(mm, 1) THEN CloseEvsOf(mm.evs[1])[1] ELSE CloseEvsOf(mm.evs[2])[1]
Open(mm) == mm.begun = {} /\ mm.peerEnd # "rst" /\ mm.sock

TraceInit == l = 1 /\ m = M0

TConn == /\ IsEvent("conn")
         /\ m' = [M0 EXCEPT !.side = Ev.side]

TBegin ==
  /\ IsEvent("begin")
  /\ LET o == Ev.op IN
     m' = CASE o = "cx" -> [m EXCEPT !.sock = FALSE]
            [] o \in {"ps", "pc"} ->
                 LET m1 == [m EXCEPT !.sent = Append(@, Ev.k)] IN
                 IF o = "pc" /\ m.sock THEN [m1 EXCEPT !.begun = @ \cup {o}, !.cand = IF m.sealed THEN @ ELSE @ \cup {o}] ELSE m1
            [] o \in {"pf", "pr"} ->
                 [m EXCEPT !.peerEnd = IF o = "pf" THEN "fin" ELSE "rst",
                           !.begun = @ \cup {o}, !.cand = IF m.sealed THEN @ ELSE @ \cup {o}]
            [] o = "w" -> [m EXCEPT !.wbegun = @ \cup {Ev.k}, !.wopen = IF Open(m) THEN @ \cup {Ev.k} ELSE @]
            [] o \in {"cn", "ce", "cf", "wt", "idle"} /\ m.sock ->
                 [m EXCEPT !.begun = @ \cup {o}, !.cand = IF m.sealed THEN @ ELSE @ \cup {o},
                           !.fmust = IF o = "cf" /\ ~m.sealed /\ "cf" \notin m.begun THEN m.wnil ELSE @]
            [] OTHER -> m

TEnd ==
  /\ IsEvent("end")
  /\ LET o == Ev.op
         r == Ev.ret IN
     /\ Expect(r # "panic", IF o \in {"w", "wt"} THEN "write-panicked" ELSE "close-panicked")
     /\ Expect(r # "stuck", IF o \in {"w", "wt"} THEN "write-blocked" ELSE IF o \in ConnOps THEN "connect-blocked" ELSE "close-blocked")
     /\ Expect((o = "co" /\ m.sock) => r = "nil", "connect-failed")
     /\ Expect((o = "co" /\ ~m.sock) => r = "err", "connect-succeeded-after-failure-event")
     /\ Expect(o = "cx" => r = "err", "connect-to-refusing-port-succeeded")
     /\ Expect((o = "w" /\ ~m.sock) => r \in {"err", "panic", "stuck"}, "write-without-socket-succeeded")
     /\ Expect((o = "w" /\ Ev.k \in m.wopen /\ Open(m)) => r # "err", "write-failed-on-open-connection")
     /\ m' = CASE o = "w" /\ r = "nil" ->
                   [m EXCEPT !.wnil = @ \cup {Ev.k}, !.must = IF Ev.k \in m.wopen /\ Open(m) THEN @ \cup {Ev.k} ELSE @]
              [] o \in {"cn", "ce", "cf", "wt"} /\ m.sock -> [m EXCEPT !.sealed = TRUE]      \* Close() has returned: the flag is taken
              [] OTHER -> m

TLev ==
  /\ IsEvent("lev")
  /\ LET e == Ev.e
         i == Ev.l
         other == 3 - i IN
     /\ i \in {1, 2}
     /\ IF e \in CloseEvents
        THEN /\ Expect(~Told(m, i), "event-twice")
             /\ Expect(m.cand # {}, "close-event-without-closer")
             /\ Expect(m.cand = {} \/ e \in UNION {EvsOfCloser(c) : c \in m.cand}, "event-type-not-the-first-closers")
             /\ Expect(Told(m, other) => CloseEvsOf(m.evs[other])[1] = e, "listeners-disagree")
        ELSE IF e = "ConnectedFlag"
        THEN /\ Expect(m.side = "client" /\ "ConnectedFlag" \notin Range(m.evs[i]), "connected-event-unexpected")
             /\ Expect(~Told(m, i), "connected-after-close")
        ELSE IF e = "ConnectFailed"     \* the port refuses, or the peer reset the connection before the dialer had looked at it
        THEN Expect(m.side = "client" /\ (~m.sock \/ "pr" \in m.begun) /\ m.evs[i] = <<>>, "connect-failed-event-unexpected")
        ELSE IF e = "OnReadTimeout"
        THEN Expect(~Told(m, i), "read-timeout-after-close")
        ELSE Expect(FALSE, "unexpected-event")
     /\ m' = IF e = "ConnectFailed"
             THEN [m EXCEPT !.evs[i] = Append(@, e), !.sock = FALSE, !.begun = {}, !.cand = {}]
             ELSE [m EXCEPT !.evs[i] = Append(@, e),
                            !.sealed = @ \/ e \in CloseEvents,
                            !.sc = IF e \in CloseEvents /\ ~AnyTold(m) THEN Len(m.sent) ELSE @,
                            !.fsole = IF e \in CloseEvents /\ ~AnyTold(m) THEN m.cand = {"cf"} ELSE @]

TData ==
  /\ IsEvent("data")
  /\ LET n == Len(Ev.ks)
         want == SubSeq(m.sent, m.nd + 1, m.nd + n)
         offLoop == \E c \in m.cand : FirstEv(m) \in EvsOfCloser(c) /\ c \notin OnReadLoop IN
     /\ Expect(~Ev.bad, "data-corrupt-or-duplicated")
     /\ Expect(m.nd + n <= Len(m.sent) /\ Ev.ks = want, "data-not-what-the-peer-sent")
     \* what the read loop had in its hands when ANOTHER goroutine closed the connection may still arrive, once; never
     \* what the peer sent after the event, never anything when the read loop itself was the closer
     /\ Expect(AnyTold(m) => (offLoop /\ m.late = 0 /\ m.nd + n <= m.sc), "data-after-close-event")
     /\ m' = [m EXCEPT !.nd = @ + n, !.late = IF AnyTold(m) THEN @ + 1 ELSE @]

TSettle ==
  /\ IsEvent("settle")
  /\ IF m.begun # {} /\ m.sock
     THEN /\ Expect(Told(m, 1) /\ Told(m, 2), IF AnyTold(m) THEN "listener-skipped" ELSE "close-event-missing")
          /\ Expect(Ev.closed, "state-not-closed-after-close")
     ELSE /\ Expect(~m.sock \/ m.nd = Len(m.sent), "data-not-delivered")
          /\ Expect(~Ev.closed \/ ~m.sock, "state-closed-without-closer")
  /\ UNCHANGED m

TPeer ==
  /\ IsEvent("peer")
  /\ LET got == Range(Ev.got)
         listening == m.peerEnd # "rst" IN
     /\ Expect(~Ev.junk, "peer-got-corrupt-data")
     /\ Expect(got \subseteq m.wbegun /\ Len(Ev.got) = Cardinality(got), "peer-got-unwritten-or-duplicated-data")
     /\ Expect(listening => m.must \subseteq got, "written-data-lost")
     /\ Expect((listening /\ m.fsole) => m.fmust \subseteq got, "flush-lost-data")
     /\ Expect((m.begun # {} /\ listening) => Ev.end \in {"eof", "rst"}, "peer-sees-no-end-after-close")
     /\ Expect(m.begun = {} => Ev.end = "open", "peer-sees-end-without-close")
  /\ UNCHANGED m

TState == /\ IsEvent("state")
          /\ Expect(Ev.cpanics = 0, "panic-inside-close")
          /\ Expect((m.begun # {} /\ m.sock) => Ev.st = "closed", "state-not-closed-after-close")
          /\ UNCHANGED m
TQuiesce == IsEvent("quiesce") /\ UNCHANGED m
TNote == IsEvent("note") /\ UNCHANGED m

TraceNext == TConn \/ TBegin \/ TEnd \/ TLev \/ TData \/ TSettle \/ TPeer \/ TState \/ TQuiesce \/ TNote
TraceSpec == TraceInit /\ [][TraceNext]_tvars
====
