---- MODULE ConnVocab ----
(* Vocabulary shared by Connection.tla (implementation-shaped model of pkg/network/connection.go), ConnectionMC.tla
   (the bounded universe of scripts) and ConnectionTrace.tla (validation of recorded runs of real connection objects).

   Operations of a script (record [op, k]):
     peer (the other end of the socket, a plain net.Conn owned by the driver)
       ps  the peer sends chunk k                       pc  ... a chunk on whose delivery the read filter calls
       pf  the peer half-closes (FIN)                       Close(NoFlush, LocalClose) from the read loop
       pr  the peer resets the connection (RST)
     local (a goroutine of the user of the connection)
       w   Write(chunk k)                               wt  a Write the peer never reads: the write deadline passes
       cn  Close(NoFlush, LocalClose)                   ce  Close(NoFlush, OnWriteErrClose)
       cf  Close(FlushWrite, LocalClose)
     clock
       idle  read deadlines pass with no traffic until the idle checker's count is reached
     client side only, first group
       co  Connect() succeeds                           cx  Connect() to a port that refuses *)
EXTENDS Integers, Sequences, FiniteSets

None == "none"
CloseEvents   == {"RemoteClose", "LocalClose", "OnReadErrClose", "OnWriteErrClose", "OnWriteTimeout"}
ConnectEvents == {"ConnectedFlag", "ConnectFailed"}
PeerOps  == {"ps", "pc", "pf", "pr"}
UserOps  == {"w", "wt", "cn", "ce", "cf"}
ConnOps  == {"co", "cx"}
ClockOps == {"idle"}
Op(o, k) == [op |-> o, k |-> k]

(* operations after which the connection is certainly closed once things have settled *)
Closers == {"pc", "pf", "pr", "cn", "ce", "cf", "wt", "idle"}
(* the close event a closer asks for *)
EvOfCloser(o) == CASE o = "pf" -> "RemoteClose"
                   [] o = "pr" -> "OnReadErrClose"
                   [] o = "ce" -> "OnWriteErrClose"
                   [] o = "wt" -> "OnWriteTimeout"
                   [] OTHER    -> "LocalClose"          \* pc cn cf idle
(* ... as a set: a reset is an error of the next read - unless a write ran into it first (the socket reports an error
   once), then the read loop sees the end of the stream *)
EvsOfCloser(o) == IF o = "pr" THEN {"OnReadErrClose", "RemoteClose"} ELSE {EvOfCloser(o)}
(* closers whose Close() runs on the read loop: once their event is out the read loop has nothing in its hands *)
OnReadLoop == {"pc", "pf", "pr", "idle"}

Range(q) == {q[i] : i \in DOMAIN q}
====
