CONSTANTS
  Scripts <- TimedScripts
  WriteLoop = FALSE
  ChanCap = 8
  Defects = {}
SPECIFICATION CaseSpec
INVARIANT EmitCase
CHECK_DEADLOCK FALSE
