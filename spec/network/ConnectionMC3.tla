---- MODULE ConnectionMC3 ----
(* Scripts of up to three groups: the cases the quick tier replays on real connections. *)
EXTENDS ConnectionMC
L3 == ExtWF(L2)
C3 == ExtWF(C2)
X3 == ExtWF(X2)
ServerScripts3 == L1 \cup L2 \cup L3
ClientScripts3 == ClientScripts2 \cup C3 \cup X3
ScriptsCasesQuick == ServerScripts3 \cup ClientScripts3
====
