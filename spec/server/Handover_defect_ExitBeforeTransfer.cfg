CONSTANTS
  Protos = {"bolt", "http1"}
  MaxReq = 3
  Defects = {"ExitBeforeTransfer"}
  EmitCases = FALSE
SPECIFICATION Spec
INVARIANTS TypeOK BytesIntact OneReply NoLoss HandedOver Released DecodedBy
CHECK_DEADLOCK FALSE
