---- MODULE StageManager ----
(* C11, the life cycle of ONE MOSN process as pkg/stagemanager/stage_manager.go drives it, in the shape of the code.

   Threads of the code:
     main   StageManager.RunAll: Run (params -> Init -> PreStart -> Start/InheritConnections -> AfterStart -> Running),
            WaitFinish (wg.Wait), Stop
     sig    the signal goroutine of pkg/server/keeper (SIGTERM -> NoticeStop(GracefulStop), SIGHUP -> NoticeStop(Reload);
            one signal at a time: a Reload occupies it until the new server reported or 5 s went by)
     int    the SIGINT goroutine (NoticeStop(Stop))
     rc     server.ReconfigureListener: a new MOSN connected to reconfigure.sock -> NoticeStop(Upgrade)
   NoticeStop(a):  stopAction = a (n1);  before-stop stages on a COPY of the manager (value receiver: the state of the
   real manager does not change, the state callbacks do fire with BeforeStop) (n2);  dispatch (n3):
     Reload        ignored unless Running; StartingNewServer; fork (may fail: resume); wait for newServerC or 5 s (resume)
     Upgrade       token into newServerC if StartingNewServer; Upgrading; no handler: resume; handler() error: resume;
                   handler() nil: wg.Done (main goes on to Stop)
     GracefulStop, Stop    state < AfterStart: Stop() inline on the notifier's goroutine;  otherwise wg.Done
   Stop():  preState = state; stopAction in {GracefulStop, Upgrade}: GracefulStopping, app.Shutdown(), graceful-stop hooks;
            Stopping, app.Close(preState == Upgrading || preState < Starting && fromUpgrade); AfterStop + hooks; Stopped;
            os.Exit(exitCode) if exitCode != 0, os.Exit(1) if preState != Running, otherwise return (main returns: exit 0).
   wg.Done on a zero counter panics; every notifier goroutine of the code recovers and ends (lane "dead").

   The environment delivers at most MaxEvents notices (Alphabet), chooses how a fork / an upgrade handler ends, when
   the 5 s of a Reload are over, and when app.Start / app.Shutdown / the upgrade handler return (they are the
   operations of the Application that take long: events can arrive while they run).  QuiescentOnly = TRUE restricts the
   environment to moments in which every thread is blocked or done (what a driver can realise on the real code); FALSE
   lets it interleave freely (design check).  While the application is still being started only one stop notice is
   considered (it takes NoticeStop's early branch: Stop() on the notifier's goroutine, racing main's start-up); births
   whose Init / InheritConnections fails take no notice at all.  select's choice of the 5 s timer and the resume() behind
   it are one step (a token that arrives in between would stay in the channel: not modelled).

   The C11 contract on top (invariants below): whatever happened before, a process that was asked to stop gracefully
   drains (app.Shutdown returned) before it closes (app.Close) - Close without drain is justified only by an explicit
   immediate stop (SIGINT/SIGQUIT), a start-up failure or a hot upgrade whose handler SUCCEEDED (it has stopped the
   listeners, drained and transferred); a failed upgrade / reload leaves a server that is indistinguishable from one
   that never tried; Close is called exactly once before the exit; nothing is shut down after Close; main is released
   only by a stop notice or a successful upgrade.

   Named deviations (each rejected by TLC):
     StickyDrainedFlag           a mark "the upgrade handler drains" set before the handler's outcome is known, never
                                 cleared by resume(), makes the graceful stage skip app.Shutdown()
     CloseWithoutShutdown        Stop() runs the graceful stage for Upgrade only
     ResumeKeepsUpgradingState   resume() does not put the state back to Running
     FailedUpgradeReleasesMain   the failed-upgrade path also releases the main goroutine
     LateStopActionRead          main reads stopAction when it gets to run, not when it is released (what the code does:
                                 a notice that follows the releasing one at once - SIGTERM, SIGHUP - overwrites it) *)
EXTENDS StageRules, Sequences, FiniteSets, TLC, Json

CONSTANTS MaxEvents,      \* notices per life
          Alphabet,       \* subset of {"term", "int", "upg", "hup", "hupff"}   (hupff: the fork of the new server fails)
          Births,         \* subset of {"plain", "nohandler", "inherited", "initfail", "initfail-inherited", "inheritfail"}
          QuiescentOnly,
          EmitCases

Lanes   == {"sig", "int", "rc"}
Threads == Lanes \cup {"main"}
Prio    == [sig |-> 1, int |-> 2, rc |-> 3]

VARIABLES birth,      \* how this process was born (constant of a behaviour)
          st,         \* StageManager.state
          act,        \* StageManager.stopAction
          actRead,    \* stopAction at the moment main was released
          wg,         \* StageManager.wg
          code,       \* StageManager.exitCode
          nsc,        \* tokens in newServerC (capacity 1)
          flag,       \* the sticky mark of StickyDrainedFlag
          mpc,        \* main
          stopper,    \* thread inside Stop(), "none"
          spc,        \* its position
          preSt,
          lane,       \* [Lanes -> [pc, e, ok]]
          exited,     \* -1 alive, otherwise the exit status
          \* ghosts of the contract
          nClose, shutDone, upgOk, immediate, startFail, closeJust, lateShut, badRel, stopAsked,
          budget, sched

vars == <<birth, st, act, actRead, wg, code, nsc, flag, mpc, stopper, spc, preSt, lane, exited,
          nClose, shutDone, upgOk, immediate, startFail, closeJust, lateShut, badRel, stopAsked, budget, sched>>

HasHandler   == birth # "nohandler"
FromUpg      == birth \in {"inherited", "initfail-inherited", "inheritfail"}
InitFails    == birth \in {"initfail", "initfail-inherited"}
InheritFails == birth = "inheritfail"

B(x) == IF x THEN "true" ELSE "false"
Log(items) == IF EmitCases THEN sched \o items ELSE sched
Idle == [pc |-> "idle", e |-> "none", ok |-> FALSE]

Init == /\ birth \in Births
        /\ st = "Nil" /\ act = "Stop" /\ actRead = "Stop" /\ wg = 0 /\ code = 0 /\ nsc = 0 /\ flag = FALSE
        /\ mpc = "params" /\ stopper = "none" /\ spc = "s0" /\ preSt = "Nil"
        /\ lane = [L \in Lanes |-> Idle]
        /\ exited = -1
        /\ nClose = 0 /\ shutDone = FALSE /\ upgOk = FALSE /\ immediate = FALSE /\ startFail = FALSE /\ closeJust = TRUE
        /\ lateShut = FALSE /\ badRel = FALSE /\ stopAsked = FALSE /\ budget = 0 /\ sched = <<>>

Alive == exited = -1
Ghosts == <<nClose, shutDone, upgOk, immediate, startFail, closeJust, lateShut, badRel, stopAsked>>

(* ---- Stop(), run by thread t *)
StopStep(t) ==
  /\ stopper = t
  /\ CASE spc = "s0" ->
            LET a == IF t = "main" /\ mpc = "stop" /\ "LateStopActionRead" \notin Defects THEN actRead ELSE act IN
            /\ preSt' = st /\ spc' = IF Graceful(a) THEN "s1" ELSE "s3"
            /\ UNCHANGED <<st, code, flag, exited, sched, Ghosts>>
       [] spc = "s1" ->
            /\ st' = "GracefulStopping" /\ spc' = "s2" /\ sched' = Log(<<t \o "|cb:GracefulStopping">>)
            /\ UNCHANGED <<preSt, code, flag, exited, Ghosts>>
       [] spc = "s2" ->
            IF "StickyDrainedFlag" \in Defects /\ flag
              THEN /\ spc' = "s3" /\ sched' = Log(<<t \o "|gs">>)
                   /\ UNCHANGED <<st, preSt, code, flag, exited, Ghosts>>
              ELSE /\ spc' = "s2.held" /\ sched' = Log(<<t \o "|app:Shutdown:b">>)
                   /\ lateShut' = (lateShut \/ nClose > 0)
                   /\ UNCHANGED <<st, preSt, code, flag, exited, nClose, shutDone, upgOk, immediate, startFail, closeJust, badRel, stopAsked>>
       [] spc = "s2e" ->
            /\ spc' = "s3" /\ shutDone' = TRUE /\ sched' = Log(<<t \o "|app:Shutdown:e", t \o "|gs">>)
            /\ UNCHANGED <<st, preSt, code, flag, exited, nClose, upgOk, immediate, startFail, closeJust, lateShut, badRel, stopAsked>>
       [] spc = "s3" ->
            /\ st' = "Stopping" /\ spc' = "s4" /\ sched' = Log(<<t \o "|cb:Stopping">>)
            /\ UNCHANGED <<preSt, code, flag, exited, Ghosts>>
       [] spc = "s4" ->
            /\ spc' = "s5" /\ nClose' = nClose + 1
            /\ closeJust' = (closeJust /\ CloseJustified(shutDone, upgOk, immediate, startFail))
            /\ sched' = Log(<<t \o "|app:Close:b:" \o B(CloseArg(preSt, FromUpg)), t \o "|app:Close:e">>)
            /\ UNCHANGED <<st, preSt, code, flag, exited, shutDone, upgOk, immediate, startFail, lateShut, badRel, stopAsked>>
       [] spc = "s5" ->
            /\ st' = "AfterStop" /\ spc' = "s6" /\ sched' = Log(<<t \o "|cb:AfterStop", t \o "|as">>)
            /\ UNCHANGED <<preSt, code, flag, exited, Ghosts>>
       [] spc = "s6" ->
            /\ st' = "Stopped" /\ spc' = "s7" /\ sched' = Log(<<t \o "|cb:Stopped">>)
            /\ UNCHANGED <<preSt, code, flag, exited, Ghosts>>
       [] spc = "s7" ->
            LET c == ExitCodeOf(preSt, code) IN
            /\ exited' = c /\ spc' = "end"
            /\ sched' = Log(IF c = 0 THEN <<t \o "|m:stop.end", "exit:0">> ELSE <<"exit:" \o ToString(c)>>)
            /\ UNCHANGED <<st, preSt, code, flag, Ghosts>>
       [] OTHER -> FALSE
  /\ UNCHANGED <<birth, act, actRead, wg, nsc, mpc, stopper, lane, budget>>

StopCanStep(t) == stopper = t /\ spc \in {"s0", "s1", "s2", "s2e", "s3", "s4", "s5", "s6", "s7"}

(* ---- main *)
MainCanStep == /\ Alive
               /\ \/ mpc \in {"params", "init", "prestart", "start", "inherit", "afterstart", "run"}
                  \/ mpc = "wait" /\ wg = 0 /\ stopper = "none"
                  \/ mpc \in {"stop", "failstop"} /\ StopCanStep("main")

MainStep ==
  /\ Alive
  /\ \/ /\ mpc = "params" /\ st' = "ParamsParsed" /\ mpc' = "init" /\ sched' = Log(<<"main|cb:ParamsParsed">>)
        /\ UNCHANGED <<birth, act, actRead, wg, code, nsc, flag, stopper, spc, preSt, lane, exited, Ghosts, budget>>
     \/ /\ mpc = "init" /\ st' = "Initing"
        /\ sched' = Log(<<"main|cb:Initing", "main|app:Init:b", "main|app:Init:e">>)
        /\ IF InitFails THEN /\ stopper = "none" /\ stopper' = "main" /\ spc' = "s0" /\ mpc' = "failstop" /\ startFail' = TRUE
                        ELSE /\ mpc' = "prestart" /\ UNCHANGED <<stopper, spc, startFail>>
        /\ UNCHANGED <<birth, act, actRead, wg, code, nsc, flag, preSt, lane, exited, budget,
                       nClose, shutDone, upgOk, immediate, closeJust, lateShut, badRel, stopAsked>>
     \/ /\ mpc = "prestart" /\ st' = "PreStart" /\ mpc' = "start" /\ sched' = Log(<<"main|cb:PreStart">>)
        /\ UNCHANGED <<birth, act, actRead, wg, code, nsc, flag, stopper, spc, preSt, lane, exited, Ghosts, budget>>
     \/ /\ mpc = "start" /\ st' = "Starting" /\ wg' = wg + 1 /\ mpc' = "start.held"
        /\ sched' = Log(<<"main|cb:Starting", "main|app:Start:b">>)
        /\ UNCHANGED <<birth, act, actRead, code, nsc, flag, stopper, spc, preSt, lane, exited, Ghosts, budget>>
     \/ /\ mpc = "inherit"
        /\ sched' = Log(<<"main|app:Inherit:b", "main|app:Inherit:e">>)
        /\ IF InheritFails THEN /\ stopper = "none" /\ stopper' = "main" /\ spc' = "s0" /\ mpc' = "failstop"
                                /\ code' = 2 /\ startFail' = TRUE
                           ELSE /\ mpc' = "afterstart" /\ UNCHANGED <<stopper, spc, code, startFail>>
        /\ UNCHANGED <<birth, st, act, actRead, wg, nsc, flag, preSt, lane, exited, budget,
                       nClose, shutDone, upgOk, immediate, closeJust, lateShut, badRel, stopAsked>>
     \/ /\ mpc = "afterstart" /\ st' = "AfterStart" /\ mpc' = "run" /\ sched' = Log(<<"main|cb:AfterStart">>)
        /\ UNCHANGED <<birth, act, actRead, wg, code, nsc, flag, stopper, spc, preSt, lane, exited, Ghosts, budget>>
     \/ /\ mpc = "run" /\ st' = "Running" /\ mpc' = "wait" /\ sched' = Log(<<"main|cb:Running", "main|m:run.end">>)
        /\ UNCHANGED <<birth, act, actRead, wg, code, nsc, flag, stopper, spc, preSt, lane, exited, Ghosts, budget>>
     \/ /\ mpc = "wait" /\ wg = 0 /\ stopper = "none"
        /\ mpc' = "stop" /\ stopper' = "main" /\ spc' = "s0" /\ sched' = Log(<<"main|m:wait.end">>)
        /\ UNCHANGED <<birth, st, act, actRead, wg, code, nsc, flag, preSt, lane, exited, Ghosts, budget>>
     \/ /\ mpc \in {"stop", "failstop"} /\ StopStep("main")

(* ---- the notifier goroutines *)
Resume(t) == IF "ResumeKeepsUpgradingState" \in Defects
               THEN /\ UNCHANGED st /\ sched' = sched
               ELSE /\ st' = "Running" /\ sched' = Log(<<t \o "|cb:Running">>)

LaneCanStep(L) ==
  /\ Alive
  /\ LET pc == lane[L].pc IN
     \/ pc \in {"n1", "n2", "r1", "u1", "u.res", "done", "ret"}
     \/ pc = "n3" /\ (ActOf(lane[L].e) = "Upgrade" /\ st = "StartingNewServer" => nsc = 0)
                  /\ (ActOf(lane[L].e) \in {"GracefulStop", "Stop"} /\ InlineStop(st) => stopper = "none")
     \/ pc = "r2" /\ nsc > 0
     \/ pc = "stop" /\ StopCanStep(L)

SetPc(L, p) == lane' = [lane EXCEPT ![L].pc = p]

LaneStep(L) ==
  LET pc == lane[L].pc
      a  == ActOf(lane[L].e) IN
  /\ Alive
  /\ \/ /\ pc = "n1" /\ act' = a /\ immediate' = (immediate \/ a = "Stop") /\ SetPc(L, "n2")
        /\ UNCHANGED <<birth, st, actRead, wg, code, nsc, flag, mpc, stopper, spc, preSt, exited, budget, sched,
                       nClose, shutDone, upgOk, startFail, closeJust, lateShut, badRel, stopAsked>>
     \/ /\ pc = "n2" /\ SetPc(L, "n3") /\ sched' = Log(<<L \o "|cb:BeforeStop", L \o "|bs:" \o act>>)
        /\ UNCHANGED <<birth, st, act, actRead, wg, code, nsc, flag, mpc, stopper, spc, preSt, exited, budget, Ghosts>>
     \/ /\ pc = "n3" /\ a = "Reload"
        /\ IF st # "Running" THEN SetPc(L, "ret") /\ UNCHANGED <<st, sched>>
                             ELSE SetPc(L, "r1") /\ st' = "StartingNewServer" /\ sched' = Log(<<L \o "|cb:StartingNewServer">>)
        /\ UNCHANGED <<birth, act, actRead, wg, code, nsc, flag, mpc, stopper, spc, preSt, exited, budget, Ghosts>>
     \/ /\ pc = "n3" /\ a = "Upgrade"
        /\ IF st = "StartingNewServer" THEN nsc = 0 /\ nsc' = 1 ELSE UNCHANGED nsc
        /\ st' = "Upgrading" /\ SetPc(L, "u1") /\ sched' = Log(<<L \o "|cb:Upgrading">>)
        /\ UNCHANGED <<birth, act, actRead, wg, code, flag, mpc, stopper, spc, preSt, exited, budget, Ghosts>>
     \/ /\ pc = "n3" /\ a \in {"GracefulStop", "Stop"}
        /\ IF InlineStop(st) THEN /\ stopper = "none" /\ stopper' = L /\ spc' = "s0" /\ SetPc(L, "stop")
                             ELSE /\ SetPc(L, "done") /\ UNCHANGED <<stopper, spc>>
        /\ UNCHANGED <<birth, st, act, actRead, wg, code, nsc, flag, mpc, preSt, exited, budget, sched, Ghosts>>
     \/ /\ pc = "r1" /\ SetPc(L, "r2")
        /\ IF lane[L].e = "hupff" THEN Resume(L) ELSE UNCHANGED <<st, sched>>
        /\ UNCHANGED <<birth, act, actRead, wg, code, nsc, flag, mpc, stopper, spc, preSt, exited, budget, Ghosts>>
     \/ /\ pc = "r2" /\ nsc > 0 /\ nsc' = 0 /\ SetPc(L, "ret")
        /\ UNCHANGED <<birth, st, act, actRead, wg, code, flag, mpc, stopper, spc, preSt, exited, budget, sched, Ghosts>>
     \/ /\ pc = "u1"
        /\ IF ~HasHandler THEN /\ Resume(L) /\ SetPc(L, "ret") /\ UNCHANGED flag
                          ELSE /\ SetPc(L, "u.held") /\ sched' = Log(<<L \o "|hb">>) /\ UNCHANGED st
                               /\ flag' = (flag \/ "StickyDrainedFlag" \in Defects)
        /\ UNCHANGED <<birth, act, actRead, wg, code, nsc, mpc, stopper, spc, preSt, exited, budget, Ghosts>>
     \/ /\ pc = "u.res" /\ Resume(L)
        /\ SetPc(L, IF "FailedUpgradeReleasesMain" \in Defects THEN "done" ELSE "ret")
        /\ UNCHANGED <<birth, act, actRead, wg, code, nsc, flag, mpc, stopper, spc, preSt, exited, budget, Ghosts>>
     \/ /\ pc = "done"
        /\ IF wg = 0 THEN /\ SetPc(L, "dead") /\ sched' = Log(<<L \o "|panic">>) /\ UNCHANGED <<wg, actRead, badRel>>
                     ELSE /\ SetPc(L, "ret") /\ wg' = wg - 1 /\ UNCHANGED sched
                          /\ actRead' = IF wg = 1 THEN act ELSE actRead
                          /\ badRel' = (badRel \/ ~(a \in {"GracefulStop", "Stop"} \/ (a = "Upgrade" /\ lane[L].ok)))
        /\ UNCHANGED <<birth, st, act, code, nsc, flag, mpc, stopper, spc, preSt, exited, budget,
                       nClose, shutDone, upgOk, immediate, startFail, closeJust, lateShut, stopAsked>>
     \/ /\ pc = "ret" /\ lane' = [lane EXCEPT ![L] = Idle] /\ sched' = Log(<<L \o "|ret">>)
        /\ UNCHANGED <<birth, st, act, actRead, wg, code, nsc, flag, mpc, stopper, spc, preSt, exited, budget, Ghosts>>
     \/ /\ pc = "stop" /\ StopStep(L)

(* ---- the environment *)
Quiescent == ~MainCanStep /\ \A L \in Lanes : ~LaneCanStep(L)
EnvMay    == Alive /\ (QuiescentOnly => Quiescent)
BirthOK   == ~InitFails /\ ~InheritFails
\* a life starts to take notices once the application is being started (app.Start runs)
Serving   == mpc \in {"start.held", "inherit", "afterstart", "run", "wait", "stop"}
NoInline  == stopper \in {"none", "main"}

\* while the application is still being started only a stop notice is considered, and only one (it stops the process inline)
Early      == mpc \in {"start.held", "inherit", "afterstart", "run"}
MayTake(e) == LET L == LaneOf(e) IN
  /\ BirthOK /\ Serving /\ NoInline /\ budget < MaxEvents /\ lane[L].pc = "idle"
  /\ Early => (e \in {"term", "int"} /\ budget = 0)

Deliver(e) == LET L == LaneOf(e) IN
  /\ EnvMay /\ MayTake(e)
  /\ lane' = [lane EXCEPT ![L] = [pc |-> "n1", e |-> e, ok |-> FALSE]]
  /\ budget' = budget + 1 /\ sched' = Log(<<"D:" \o e>>)
  /\ stopAsked' = (stopAsked \/ e \in {"term", "int"})
  /\ UNCHANGED <<birth, st, act, actRead, wg, code, nsc, flag, mpc, stopper, spc, preSt, exited,
                 nClose, shutDone, upgOk, immediate, startFail, closeJust, lateShut, badRel>>

ReleaseStart == /\ EnvMay /\ mpc = "start.held" /\ mpc' = "inherit" /\ sched' = Log(<<"R:start", "main|app:Start:e">>)
                /\ UNCHANGED <<birth, st, act, actRead, wg, code, nsc, flag, stopper, spc, preSt, lane, exited, Ghosts, budget>>

ReleaseShutdown == /\ EnvMay /\ stopper # "none" /\ spc = "s2.held" /\ spc' = "s2e" /\ sched' = Log(<<"R:shutdown">>)
                   /\ UNCHANGED <<birth, st, act, actRead, wg, code, nsc, flag, mpc, stopper, preSt, lane, exited, Ghosts, budget>>

ReleaseHandler(ok) == /\ EnvMay /\ lane["rc"].pc = "u.held"
                      /\ lane' = [lane EXCEPT !["rc"].pc = IF ok THEN "done" ELSE "u.res", !["rc"].ok = ok]
                      /\ upgOk' = (upgOk \/ ok)
                      /\ sched' = Log(<<"R:handler:" \o (IF ok THEN "ok" ELSE "fail"), "rc|he:" \o (IF ok THEN "ok" ELSE "fail")>>)
                      /\ UNCHANGED <<birth, st, act, actRead, wg, code, nsc, flag, mpc, stopper, spc, preSt, exited, budget,
                                     nClose, shutDone, immediate, startFail, closeJust, lateShut, badRel, stopAsked>>

\* the 5 s of runReload are over and no token is there: select takes the timer and resume() runs (one step)
ReloadTimeout == /\ EnvMay /\ lane["sig"].pc = "r2" /\ nsc = 0
                 /\ IF "ResumeKeepsUpgradingState" \in Defects THEN UNCHANGED st /\ sched' = Log(<<"T">>)
                                                               ELSE st' = "Running" /\ sched' = Log(<<"T", "sig|cb:Running">>)
                 /\ lane' = [lane EXCEPT !["sig"].pc = "ret"]
                 /\ UNCHANGED <<birth, act, actRead, wg, code, nsc, flag, mpc, stopper, spc, preSt, exited, Ghosts, budget>>

EnvStep == \/ \E e \in Alphabet : Deliver(e)
           \/ ReleaseStart \/ ReleaseShutdown \/ ReleaseHandler(TRUE) \/ ReleaseHandler(FALSE) \/ ReloadTimeout

EnvCanStep == /\ EnvMay
              /\ \/ \E e \in Alphabet : MayTake(e)
                 \/ mpc = "start.held"
                 \/ stopper # "none" /\ spc = "s2.held"
                 \/ lane["rc"].pc = "u.held"
                 \/ lane["sig"].pc = "r2" /\ nsc = 0

\* QuiescentOnly: one thread order per choice of the environment (the notifiers in a fixed order, then main) - the
\* threads that run between two environment steps touch different variables
LaneTurn(L) == ~QuiescentOnly \/ \A M \in Lanes : Prio[M] < Prio[L] => ~LaneCanStep(M)
MainTurn    == ~QuiescentOnly \/ \A M \in Lanes : ~LaneCanStep(M)

Next == \/ EnvStep
        \/ \E L \in Lanes : LaneTurn(L) /\ LaneStep(L)
        \/ MainTurn /\ MainStep

Fair == /\ WF_vars(MainStep) /\ \A L \in Lanes : WF_vars(LaneStep(L))
        /\ WF_vars(ReleaseStart) /\ WF_vars(ReleaseShutdown) /\ WF_vars(ReleaseHandler(TRUE) \/ ReleaseHandler(FALSE))
        /\ WF_vars(ReloadTimeout)
Spec == Init /\ [][Next]_vars /\ Fair

(* ---- the contract *)
TypeOK == /\ st \in States /\ act \in {"Stop", "GracefulStop", "Reload", "Upgrade"} /\ wg \in 0..1 /\ nsc \in 0..1
          /\ code \in {0, 2, 4} /\ exited \in {-1, 0, 1, 2, 4} /\ nClose \in 0..2 /\ budget \in 0..MaxEvents
          /\ stopper \in Threads \cup {"none"}

\* whatever happened before: no Close without the drain, unless it is an immediate stop, a start-up failure or the
\* upgrade handler has drained and transferred
DrainBeforeClose == closeJust
CloseOnce        == nClose <= 1 /\ (exited # -1 => nClose = 1)
NothingAfterClose == ~lateShut
\* main is released by a stop notice or by an upgrade handler that succeeded, by nothing else
ReleasedForCause == ~badRel
\* a server that is waiting with no notice in progress is the server that came out of Run(), whatever it went through
Quiet == Alive /\ mpc = "wait" /\ wg > 0 /\ \A L \in Lanes : lane[L].pc = "idle"
FailedUpgradeTransparent == Quiet => (st = "Running" /\ wg = 1 /\ nsc = 0 /\ ~flag /\ code = 0 /\ nClose = 0 /\ ~shutDone)
\* a stop notice ends the process
Terminates == stopAsked ~> (exited # -1)

(* ---- case emission: one CASE per maximal history (QuiescentOnly) *)
Terminal == ~Alive \/ (Quiescent /\ ~EnvCanStep)
Emit == (EmitCases /\ Terminal) => PrintT(<<"CASE", ToJson([birth |-> birth, steps |-> sched])>>)
====
