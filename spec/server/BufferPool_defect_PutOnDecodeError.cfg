CONSTANTS
  Frames = {1, 2, 3}
  Bufs = {11, 12}
  Defects = {"PutOnDecodeError"}
SPECIFICATION Spec
INVARIANTS OneOwner NoDoublePut CountSane
CHECK_DEADLOCK FALSE
