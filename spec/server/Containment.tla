---- MODULE Containment ----
(* A failure caused by malformed input stays on its own connection (property C08, part 3).
   Anchors: pkg/network/connection.go startRWLoop (read loop under GoWithRecover, panic => Close),
            pkg/stream/xprotocol/conn.go Dispatch/handleError, pkg/stream/http/stream.go serve (400 + close),
            pkg/stream/http2/stream.go handleError (GOAWAY/RST + close), pkg/proxy/downstream.go OnDecodeError.

   Connections are independent state machines inside one process.  A poison is classified by what the decoder
   makes of it:
     "incomplete"   a prefix of something valid / an announced length whose bytes never come: the decoder asks for more
     "undecodable"  the decoder fails without a frame
     "panic"        the decoder panics (recovered by the read loop)
     "reqerror"     the decoder fails but hands over a request frame (codec exception path)
     "valid"        unusual but valid input: must be served
   Defects (TLC must reject each):
     "NoRecover"          a decoder panic is not recovered: the process dies
     "SilentDecodeError"  the codec-exception path neither replies nor closes, the stream stays active
     "SharedPoison"       handling a poison closes some other connection as well
     "LeakOnClose"        closing a connection leaves its streams active *)
EXTENDS Integers, Sequences, FiniteSets, TLC, Json

CONSTANTS Conns, Defects, Emit

Classes == {"incomplete", "undecodable", "panic", "reqerror", "valid", "any"}

(* what the peer may observe on its own connection after a poison of the class *)
Allowed(class) ==
  CASE class = "incomplete"  -> {"silent", "closed"}
    [] class = "undecodable" -> {"closed", "reply"}
    [] class = "panic"       -> {"closed", "reply"}
    [] class = "reqerror"    -> {"closed", "reply"}
    [] class = "valid"       -> {"reply"}
    [] class = "any"         -> {"silent", "closed", "reply"}

(* the poison menu the driver concretises: listener protocol, name, class; side = which peer misbehaves *)
P(proto, name, class, side) == [proto |-> proto, name |-> name, class |-> class, side |-> side]
(* length / count / index fields at the boundaries of the integer types they are kept in (sign bit and width of
   int32 / uint32 / int64 / uint64).  Where the verdict of the parser depends on limits configured elsewhere the class
   is "any": what is demanded is containment (process alive, other connections served, nothing left behind, no memory
   in the order of the announced length). *)
(* the same field several times in one message with different values (RFC 7540 6.5: SETTINGS values are processed in
   order, every occurrence must be in range): an absurd occurrence anywhere is refused like a single absurd value; legal
   repetitions are served.  "up": the upstream's first frame is such a SETTINGS frame and the proxy then has to forward
   a request body. *)
RepeatedFieldPoisons ==
  { P("http2", "settings-max-frame-size-16384-then-zero", "undecodable", "down"),
    P("http2", "settings-max-frame-size-zero-then-16384", "undecodable", "down"),
    P("http2", "settings-max-frame-size-16384-16384-zero", "undecodable", "down"),
    P("http2", "settings-initial-window-65535-then-2p31", "undecodable", "down"),
    P("http2", "settings-enable-push-0-then-2", "undecodable", "down"),
    P("http2", "settings-max-frame-size-twice-legal", "any", "down"),
    P("http2", "headers-duplicate-content-length", "any", "down"),
    P("http2", "upstream-settings-max-frame-size-zero", "undecodable", "up"),
    P("http2", "upstream-settings-max-frame-size-16384-then-zero", "undecodable", "up"),
    P("bolt", "repeated-header-key", "any", "down"),
    \* errors the framer reports for ONE stream while it decodes (RFC 7540 8.1.2, 6.2, 6.9): answered (RST_STREAM / GOAWAY) or closed
    P("http2", "headers-duplicate-path", "undecodable", "down"),
    P("http2", "headers-uppercase-field-name", "undecodable", "down"),
    P("http2", "headers-pseudo-after-regular", "undecodable", "down"),
    P("http2", "headers-pad-exceeds-payload", "undecodable", "down"),
    P("http2", "window-update-zero-on-stream", "undecodable", "down"),
    P("http2", "upstream-headers-duplicate-status", "undecodable", "up") }

(* frames / messages that are well-formed but illegal in the state of their stream or connection (RFC 7540 5.1; xprotocol:
   ids nobody asked for).  Whatever the verdict of the connection: the process lives, the others are served, the connection goes
   on or is closed, in bounded time. *)
StateSequencePoisons ==
  { P("http2", "data-after-end-stream", "any", "down"), P("http2", "empty-data-after-end-stream", "any", "down"),
    P("http2", "data-after-trailers", "any", "down"),
    \* a request that is opened and never completed: nothing of it may stay behind
    P("http2", "abandoned-request-reset-then-data", "any", "down"), P("http2", "abandoned-request-reset", "any", "down"),
    P("http2", "abandoned-request-connection-closed", "incomplete", "down"),
    P("http2", "trailers-after-end-stream", "any", "down"), P("http2", "window-update-idle-stream", "any", "down"),
    P("http2", "data-on-idle-stream", "undecodable", "down"), P("http2", "rst-stream-idle-stream", "undecodable", "down"),
    P("http2", "headers-even-stream-id", "undecodable", "down"), P("http2", "headers-lower-stream-id", "undecodable", "down"),
    P("http2", "headers-while-block-open", "undecodable", "down"),
    P("http2", "upstream-data-for-unknown-stream", "any", "up"), P("http2", "upstream-push-promise", "any", "up"),
    P("http2", "upstream-frames-for-closed-stream", "any", "up"),
    P("bolt", "response-out-of-nowhere", "any", "down"), P("bolt", "heartbeat-response-out-of-nowhere", "any", "down"),
    P("bolt", "request-id-reused-while-open", "any", "down"),
    P("bolt", "upstream-stray-and-duplicate-responses", "valid", "up") }

IntegerBoundaryPoisons ==
  { P("http1", "content-length-" \o v, "any", "down") : v \in {"2p31m1", "2p31", "2p32m1", "2p32", "2p63m1", "2p63", "2p64m1", "2p64"} }
  \cup { P("http1", "chunk-size-" \o v, "any", "down") :
            v \in {"7fffffff", "80000000", "ffffffff", "100000000", "7fffffffffffffff", "8000000000000000", "ffffffffffffffff", "10000000000000000"} }
  \cup { P("http1", "upstream-content-length-2p31m1", "any", "up"), P("http1", "upstream-chunk-size-7fffffff", "any", "up") }
  \cup RepeatedFieldPoisons \cup StateSequencePoisons
  \cup { P("bolt", "body-length-2p31m1", "incomplete", "down"), P("bolt", "body-length-2p31", "incomplete", "down"),
         P("dubbothrift", "outer-length-wraps", "incomplete", "down"),
         P("http2", "headers-hpack-index-2p63", "undecodable", "down"),
         P("http2", "headers-hpack-index-max-accepted", "undecodable", "down"),
         P("http2", "headers-hpack-value-length-2p63", "undecodable", "down"),
         P("http2", "settings-header-table-size-2p32m1", "any", "down"),
         P("http2", "settings-enable-push-2", "undecodable", "down"),
         P("http2", "settings-max-streams-2p32m1", "any", "down"),
         P("http2", "settings-initial-window-2p31", "undecodable", "down"),
         P("http2", "settings-initial-window-2p31m1", "any", "down"),
         P("http2", "settings-max-frame-size-zero", "undecodable", "down"),
         P("http2", "settings-max-frame-size-2p24", "undecodable", "down"),
         P("http2", "settings-max-frame-size-2p32m1", "undecodable", "down"),
         P("http2", "settings-max-header-list-zero", "any", "down"),
         P("http2", "window-update-2p31m1", "undecodable", "down"),
         P("http2", "window-update-reserved-bit", "undecodable", "down"),
         P("http2", "window-update-2p32m1", "undecodable", "down"),
         P("http2", "upstream-hpack-index-max-accepted", "undecodable", "up"),
         P("http2", "upstream-frame-length-2p24", "undecodable", "up") }

Poisons == {
  P("bolt", "truncated-request", "incomplete", "down"),
  P("bolt", "body-length-16m", "incomplete", "down"),
  P("bolt", "body-length-max", "incomplete", "down"),
  P("bolt", "unknown-command-type", "undecodable", "down"),
  P("bolt", "header-block-dangling-byte", "reqerror", "down"),
  P("bolt", "header-key-longer-than-block", "reqerror", "down"),
  P("bolt", "response-header-dangling-byte", "undecodable", "down"),
  P("bolt", "noise", "any", "down"),
  P("bolt", "upstream-garbage-response", "undecodable", "up"),
  P("bolt", "upstream-dangling-response", "undecodable", "up"),
  P("c08x", "decoder-panics", "panic", "down"),          \* a codec plug-in of the driver whose Decode panics
  P("dubbothrift", "frame-minus-2-bytes", "incomplete", "down"),
  P("dubbothrift", "outer-length-zero", "any", "down"),
  P("http1", "not-http", "undecodable", "down"),
  P("http1", "headers-never-end", "incomplete", "down"),
  P("http1", "negative-content-length", "undecodable", "down"),
  P("http1", "content-length-overflow", "undecodable", "down"),
  P("http1", "header-line-64k", "any", "down"),
  P("http1", "upstream-garbage-response", "undecodable", "up"),
  P("http2", "bad-preface", "undecodable", "down"),
  P("http2", "frame-length-2p24", "undecodable", "down"),
  P("http2", "headers-hpack-index-zero", "undecodable", "down"),
  P("http2", "headers-three-continuations", "valid", "down"),
  P("http2", "half-frame", "incomplete", "down"),
  P("http2", "settings-length-5", "undecodable", "down"),
  P("http2", "window-update-zero", "undecodable", "down"),
  P("http2", "continuation-without-headers", "undecodable", "down")
} \cup IntegerBoundaryPoisons

VARIABLES st,      \* st[c] \in {"idle", "open", "closed"}
          cls,     \* cls[c]: class of the poison sent on c, "none" before
          seen,    \* seen[c]: what the peer observed after the poison: "none" | "silent" | "closed" | "reply"
          active,  \* active[c]: streams of c the proxy counts as active
          alive    \* the process
vars == <<st, cls, seen, active, alive>>

Init == /\ st = [c \in Conns |-> "idle"] /\ cls = [c \in Conns |-> "none"] /\ seen = [c \in Conns |-> "none"]
        /\ active = [c \in Conns |-> 0] /\ alive = TRUE

Open(c) == /\ alive /\ st[c] = "idle" /\ st' = [st EXCEPT ![c] = "open"] /\ UNCHANGED <<cls, seen, active, alive>>

(* a request on a healthy connection is counted while in flight, answered, and leaves nothing behind *)
Begin(c) == /\ alive /\ st[c] = "open" /\ cls[c] = "none" /\ active[c] = 0
            /\ active' = [active EXCEPT ![c] = 1] /\ UNCHANGED <<st, cls, seen, alive>>
End(c)   == /\ alive /\ st[c] = "open" /\ cls[c] = "none" /\ active[c] = 1
            /\ active' = [active EXCEPT ![c] = 0] /\ UNCHANGED <<st, cls, seen, alive>>

Poison(c, k) == /\ alive /\ st[c] = "open" /\ cls[c] = "none" /\ k \in Classes \ {"any"}
                /\ cls' = [cls EXCEPT ![c] = k] /\ UNCHANGED <<st, seen, active, alive>>

CloseIt(c, s) == [s EXCEPT ![c] = "closed"]
Victim(c) == IF "SharedPoison" \in Defects /\ \E d \in Conns \ {c} : st[d] = "open"
             THEN {CHOOSE d \in Conns \ {c} : st[d] = "open"} ELSE {}

(* closing a connection releases the streams that belong to it *)
Release(c) == IF "LeakOnClose" \in Defects THEN active ELSE [active EXCEPT ![c] = 0]

(* the read loop of c handles what arrived *)
Handle(c) ==
  /\ alive /\ st[c] = "open" /\ cls[c] # "none" /\ seen[c] = "none"
  /\ CASE cls[c] = "incomplete" ->
            /\ seen' = [seen EXCEPT ![c] = "silent"] /\ UNCHANGED <<st, active, alive>>
       [] cls[c] = "undecodable" ->
            /\ seen' = [seen EXCEPT ![c] = "closed"]
            /\ st' = [d \in Conns |-> IF d = c \/ d \in Victim(c) THEN "closed" ELSE st[d]]
            /\ active' = Release(c) /\ UNCHANGED alive
       [] cls[c] = "panic" ->
            IF "NoRecover" \in Defects THEN alive' = FALSE /\ UNCHANGED <<st, seen, active>>
            ELSE /\ seen' = [seen EXCEPT ![c] = "closed"] /\ st' = CloseIt(c, st) /\ active' = Release(c) /\ UNCHANGED alive
       [] cls[c] = "reqerror" ->
            IF "SilentDecodeError" \in Defects
            THEN /\ seen' = [seen EXCEPT ![c] = "silent"] /\ active' = [active EXCEPT ![c] = @ + 1] /\ UNCHANGED <<st, alive>>
            ELSE /\ seen' = [seen EXCEPT ![c] = "reply"] /\ UNCHANGED <<st, active, alive>>
       [] cls[c] = "valid" ->
            /\ seen' = [seen EXCEPT ![c] = "reply"] /\ UNCHANGED <<st, active, alive>>
  /\ UNCHANGED cls

(* the peer gives up and closes; the proxy releases what belonged to the connection *)
PeerClose(c) == /\ alive /\ st[c] = "open" /\ st' = CloseIt(c, st)
                /\ active' = Release(c)
                /\ UNCHANGED <<cls, seen, alive>>

Next == \E c \in Conns : Open(c) \/ Begin(c) \/ End(c) \/ Handle(c) \/ PeerClose(c) \/ \E k \in Classes : Poison(c, k)
Spec == Init /\ [][Next]_vars

(* ---------------- C08 ---------------- *)
ProcessAlive   == alive
(* a connection that was never poisoned is closed only by its own peer (no other connection's handling closes it) *)
OthersUntouched == [][\A c \in Conns : (cls[c] = "none" /\ st[c] = "open" /\ st'[c] = "closed") => seen' = seen]_vars
FailureVisible == \A c \in Conns : seen[c] # "none" => seen[c] \in Allowed(cls[c])
NoLeak         == \A c \in Conns : st[c] = "closed" => active[c] = 0

ASSUME Emit => \A p \in Poisons : PrintT(<<"CASE", ToJson(p)>>)
====
