CONSTANTS
  Conns = {"c1", "c2", "c3"}
  Transferable = {"c1", "c2"}
  ReqLen = 3
  MaxReq = 2
  Defects = {}
SPECIFICATION Spec
INVARIANTS TypeOK AlwaysAcceptor BytesIntact HandedOver NoLoss
CHECK_DEADLOCK FALSE
