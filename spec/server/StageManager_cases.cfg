CONSTANTS
  Defects = {}
  MaxEvents = 3
  Alphabet = {"term", "int", "upg", "hup", "hupff"}
  Births = {"plain", "nohandler", "inherited", "initfail", "initfail-inherited", "inheritfail"}
  QuiescentOnly = TRUE
  EmitCases = TRUE
INIT Init
NEXT Next
INVARIANT Emit
CHECK_DEADLOCK FALSE
