CONSTANTS
  Conns = {"c1", "c2", "c3"}
  Defects = {}
  Emit = TRUE
SPECIFICATION Spec
INVARIANTS ProcessAlive FailureVisible NoLeak
PROPERTIES OthersUntouched
CHECK_DEADLOCK FALSE
