CONSTANTS
  Protos = {"bolt", "http1"}
  MaxReq = 8
  MaxInflight = 3
  MaxDone = 8
  Defects = {}
  EmitCases = FALSE
SPECIFICATION TraceSpec
POSTCONDITION Accepted
CHECK_DEADLOCK FALSE
