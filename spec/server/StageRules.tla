---- MODULE StageRules ----
(* What pkg/stagemanager decides from its state and the stop action - shared by the model (StageManager.tla) and by the
   validation of recorded lives (StageManagerTrace.tla). *)
EXTENDS Integers

CONSTANT Defects

Rank == [Nil |-> 0, ParamsParsed |-> 1, Initing |-> 2, PreStart |-> 3, Starting |-> 4, AfterStart |-> 5, Running |-> 6,
         BeforeStop |-> 7, GracefulStopping |-> 8, Stopping |-> 9, AfterStop |-> 10, Stopped |-> 11,
         StartingNewServer |-> 12, Upgrading |-> 13]
States  == DOMAIN Rank

ActOf(e)  == CASE e = "term" -> "GracefulStop" [] e = "int" -> "Stop" [] e = "upg" -> "Upgrade" [] OTHER -> "Reload"
LaneOf(e) == CASE e = "int" -> "int" [] e = "upg" -> "rc" [] OTHER -> "sig"

\* Stop(): the graceful stage (app.Shutdown + graceful-stop hooks) runs for these stop actions
Graceful(a)        == IF "CloseWithoutShutdown" \in Defects THEN a = "Upgrade" ELSE a \in {"GracefulStop", "Upgrade"}
\* the argument of app.Close: the old server of a completed upgrade, or a new server whose start from an upgrade failed
CloseArg(pre, fu)  == pre = "Upgrading" \/ (Rank[pre] < Rank["Starting"] /\ fu)
\* the exit status: the sticky exit code, else 1 when Stop() did not begin in Running (main is not waiting), else main returns
ExitCodeOf(pre, c) == IF c # 0 THEN c ELSE IF pre # "Running" THEN 1 ELSE 0
\* a stop notice stops the process on the notifier's goroutine while the application has not been started
InlineStop(s)      == Rank[s] < Rank["AfterStart"]
\* without drain app.Close is justified by an immediate stop, a start-up failure or an upgrade handler that succeeded
CloseJustified(drained, upgraded, immediateStop, startupFailed) == drained \/ upgraded \/ immediateStop \/ startupFailed
====
