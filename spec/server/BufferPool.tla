---- MODULE BufferPool ----
(* The process-wide IoBuffer pool (mosn.io/pkg/buffer: GetIoBuffer / PutIoBuffer with a reference count per buffer object)
   as the decoders of ALL connections use it: every decoded frame owns a pooled copy of its bytes
   (xprotocol decoders: frame.Data = buffer.GetIoBuffer(frameLen)), given back when the stream's buffer context is
   released (e.g. bolt/buffer.go boltBufferCtx.Reset -> PutIoBuffer(request.Data)).  Part of C08's containment clause:
   "a failure affects only that connection": a buffer that is given back twice is handed to two frames of different
   connections at the same time - the malformed frame of one connection then changes what another connection forwards.
   Actions: Take(f) a frame of some connection takes a buffer (a free one is re-used first, as sync.Pool does),
            Put(f)  the frame's context is released,
            DecodeError(f)  the decoder refuses the frame; intended: nothing is given back here (the context release does it)
   Defects (TLC must reject): PutOnDecodeError  the decoder gives the copy back at once AND the context release does it again *)
EXTENDS Integers, FiniteSets, TLC

CONSTANTS Frames,   \* frame ids (each belongs to its own connection)
          Bufs,     \* buffer objects
          Defects

VARIABLES count,    \* buffer -> reference count
          free,     \* set of buffers in the pool
          owns,     \* frame -> buffer it holds (0 = none)
          st,       \* frame -> "new" | "live" | "failed" | "done"
          dup       \* number of puts that found the count already at zero (the pool's "PutIoBuffer duplicate")
vars == <<count, free, owns, st, dup>>

Init == /\ count = [b \in Bufs |-> 0] /\ free = Bufs
        /\ owns = [f \in Frames |-> 0] /\ st = [f \in Frames |-> "new"] /\ dup = 0

Take(f) == /\ st[f] = "new" /\ free # {}
           /\ \E b \in free : /\ count' = [count EXCEPT ![b] = 1]      \* take: Count(1) on a recycled object
                              /\ free' = free \ {b}
                              /\ owns' = [owns EXCEPT ![f] = b]
           /\ st' = [st EXCEPT ![f] = "live"] /\ UNCHANGED dup

GiveBack(b) == LET c == count[b] - 1 IN
               /\ count' = [count EXCEPT ![b] = c]
               /\ free' = IF c = 0 THEN free \cup {b} ELSE free
               /\ dup' = IF c < 0 THEN dup + 1 ELSE dup

DecodeError(f) == /\ st[f] = "live" /\ st' = [st EXCEPT ![f] = "failed"]
                  /\ IF "PutOnDecodeError" \in Defects THEN GiveBack(owns[f]) ELSE UNCHANGED <<count, free, dup>>
                  /\ UNCHANGED owns

Release(f) == /\ st[f] \in {"live", "failed"} /\ st' = [st EXCEPT ![f] = "done"]
              /\ GiveBack(owns[f]) /\ owns' = [owns EXCEPT ![f] = 0]

Next == \E f \in Frames : Take(f) \/ DecodeError(f) \/ Release(f)
Spec == Init /\ [][Next]_vars

(* ---- containment at the pool ---- *)
OneOwner  == \A f, g \in Frames : (f # g /\ owns[f] # 0 /\ st[f] \in {"live", "failed"} /\ st[g] \in {"live", "failed"}) => owns[f] # owns[g]
NoDoublePut == dup = 0
CountSane == \A b \in Bufs : count[b] >= 0 /\ (b \in free => count[b] = 0)
====
