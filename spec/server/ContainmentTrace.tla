---- MODULE ContainmentTrace ----
(* Trace validation of a real MOSN (in the driver process) against Containment (C08 part 3).
   Events (driver harness/cmd/c08, mode e2e):
     open{c,proto}                 the driver opened downstream connection c
     serve{c,ok,what}              a request on a never-poisoned connection: ok = the right answer came back
     poison{c,proto,name,class,side}   malformed bytes were written on c (side = "up": c carries a request whose upstream
                                   answers with the malformed bytes)
     seen{c,res,detail}            what the peer of c observed afterwards: "silent" | "closed" | "reply"
     close{c}                      the driver closed c
     gauge{listener,active}        downstream_request_active of a listener after all its poisoned connections were closed
     wedged{heap_mb}               the process stopped making progress / its heap exploded (driver bails out)
     alive{}                       end of run: the process is still there *)
EXTENDS Containment, VTrace

tvars == <<vars, l>>

TConns == { Trace[i].c : i \in { j \in DOMAIN Trace : Has(Trace[j], "c") } }

TraceInit == l = 1 /\ Init

TOpen == /\ IsEvent("open") /\ st' = [st EXCEPT ![Ev.c] = "open"] /\ UNCHANGED <<cls, seen, active, alive>>

TServe == /\ IsEvent("serve")
          /\ Expect(Ev.ok, IF cls[Ev.c] = "none" THEN "healthy-connection-not-served" ELSE "harness-served-poisoned")
          /\ UNCHANGED vars

TPoison == /\ IsEvent("poison")
           /\ Ev.class \in Classes
           /\ \E p \in Poisons : p.name = Ev.name /\ p.proto = Ev.proto /\ p.class = Ev.class
           /\ cls' = [cls EXCEPT ![Ev.c] = Ev.class] /\ UNCHANGED <<st, seen, active, alive>>

Kind(class, res) ==
  IF res = "silent" THEN "decode-failure-neither-reply-nor-close"
  ELSE IF class = "valid" THEN "valid-input-not-served"
  ELSE "unexpected-" \o res

TSeen == /\ IsEvent("seen")
         /\ Expect(Ev.res \in Allowed(cls[Ev.c]), Kind(cls[Ev.c], Ev.res))
         /\ seen' = [seen EXCEPT ![Ev.c] = Ev.res]
         /\ st' = IF Ev.res = "closed" THEN CloseIt(Ev.c, st) ELSE st
         /\ UNCHANGED <<cls, active, alive>>

TClose == /\ IsEvent("close") /\ st' = CloseIt(Ev.c, st) /\ UNCHANGED <<cls, seen, active, alive>>

TGauge == /\ IsEvent("gauge")
          /\ Expect(Ev.active = 0, "active-stream-leaked")
          /\ UNCHANGED vars

TWedged == /\ IsEvent("wedged") /\ Expect(FALSE, "proxy-wedged") /\ UNCHANGED vars
TAlive == /\ IsEvent("alive") /\ Expect(alive, "process-died") /\ UNCHANGED vars

(* batchalloc{bytes,poisons}: what the process allocated while all poisons were handled (none is longer than 70 KB);
   alloc{c,name,proto,bytes}: the same for one poison sent alone (only recorded when the batch was over the bound) *)
TBatchAlloc == /\ IsEvent("batchalloc") /\ Expect(Ev.bytes <= 268435456, "memory-for-announced-lengths") /\ UNCHANGED vars
TAlloc == /\ IsEvent("alloc") /\ Expect(Ev.bytes <= 67108864, "alloc-before-arrival") /\ UNCHANGED vars

(* followup{c,res,bytes,name,proto}: after the poison the same connection (still open) asked for a response with a body:
   served | refused | hung;   cpu{busy_ms,wall_ms,where}: processor time the process used while everything was idle *)
(* pool{dup,first_after}: how often the shared IoBuffer pool was handed a buffer back that it had already got back
   (reference count below zero, reported through the pool's public log function) during the whole run: such a buffer
   is owned by two frames of different connections from then on - the failure has left its connection *)
TPool == /\ IsEvent("pool") /\ Expect(Ev.dup = 0, "pooled-buffer-given-back-twice") /\ UNCHANGED vars
TFollowUp == /\ IsEvent("followup") /\ Expect(Ev.res # "hung", "request-after-poison-never-completes") /\ UNCHANGED vars
TCpu == /\ IsEvent("cpu") /\ Expect(Ev.busy_ms * 2 <= Ev.wall_ms, "proxy-spins-when-idle") /\ UNCHANGED vars

TNote == IsEvent("note") /\ UNCHANGED vars

TraceNext == TNote \/ TPool \/ TFollowUp \/ TCpu \/ TBatchAlloc \/ TAlloc \/ TOpen \/ TServe \/ TPoison \/ TSeen \/ TClose \/ TGauge \/ TWedged \/ TAlive
TraceSpec == TraceInit /\ [][TraceNext]_tvars
====
