CONSTANTS
  Conns = {"c1", "c2", "c3", "s", "p"}
  Transferable = {}
  ReqLen = 3
  MaxReq = 100000
  Defects = {}
SPECIFICATION TraceSpec
POSTCONDITION Accepted
CHECK_DEADLOCK FALSE
