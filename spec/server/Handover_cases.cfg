CONSTANTS
  Protos = {"bolt", "http1"}
  MaxReq = 3
  Defects = {}
  EmitCases = TRUE
SPECIFICATION Spec
INVARIANT Emit
CHECK_DEADLOCK FALSE
