CONSTANTS
  Protos = {"bolt", "http1"}
  MaxReq = 5
  MaxInflight = 3
  MaxDone = 1
  Defects = {}
  EmitCases = TRUE
SPECIFICATION Spec
INVARIANT Emit
CHECK_DEADLOCK FALSE
