---- MODULE StageManagerTrace ----
(* Trace validation of recorded lives of the REAL pkg/stagemanager (harness/cmd/c11 -mode stage: one process per history
   enumerated by TLC from StageManager.tla, a recording Application / upgrade handler / stage hooks) against the C11
   contract of StageManager.tla, with the decisions of StageRules.tla.
   Events (t = thread of the model: main | sig | int | rc):
     run{id, birth, class, handler, fromupg}    parent: a new life (reset)
     d{e, lane, a}          environment: notice e (term | int | upg | hup | hupff) is delivered now
     rel{g, ok}             environment: app.Start / app.Shutdown / the upgrade handler may return now (handler: with ok)
     tmo                    environment: the 5 s of the pending reload are left to run out
     at{st}                 driver: GetState() at a quiet moment (before every environment step)
     cb{t, s}               state-changed callback          bs{t, a}   before-stop stage (a = stopAction it was given)
     app{t, call, ph, arg, err}   Application.Init | Start | Inherit | Shutdown | Close begins (b) / ends (e)
     hb{t} / he{t, ok}      the upgrade handler begins / ends
     gs{t} / as{t}          graceful-stop stage hook / after-stop stage hook
     m{t, ph}               main: run.end | wait.end | stop.end
     ret{t, st} / panic{t, msg}   NoticeStop returned (GetState() right after) / panicked (recovered by the notifier)
     diverge{want, got}     driver: the code did something the model did not predict (from here on nothing is held back)
     exit{code}             parent: the process ended by itself with this status
     end{alive, st, hung}   driver: the history is over and the process is still there
     quiesce                parent: end of the life's record       abandon{why}   parent: the child could not be run
   The expectations are the invariants of StageManager.tla, evaluated softly (VTrace!Expect) on the real execution. *)
EXTENDS StageRules, VTrace

VARIABLES st,         \* state according to the callbacks (BeforeStop is announced on a copy and is no state of the manager)
          fromUpg,
          preSt,      \* state in which the running Stop() began
          codePred,   \* sticky exit code the model predicts
          nClose, shutB, shutE, upgOk, immediate, startFail, stopAsked,
          lastHe,     \* the upgrade handler of the notice in progress returned nil
          tmoSeen,    \* the pending reload was left to its timeout
          div,        \* the driver lost the model's prediction: only the contract is judged from here on
          over        \* exit or end seen

tvars == <<l, st, fromUpg, preSt, codePred, nClose, shutB, shutE, upgOk, immediate, startFail, stopAsked, lastHe, tmoSeen, div, over>>

Keep(vs) == UNCHANGED vs

TraceInit == /\ l = 1 /\ st = "Nil" /\ fromUpg = FALSE /\ preSt = "Nil" /\ codePred = 0 /\ nClose = 0 /\ shutB = FALSE /\ shutE = FALSE
             /\ upgOk = FALSE /\ immediate = FALSE /\ startFail = FALSE /\ stopAsked = FALSE /\ lastHe = FALSE /\ tmoSeen = FALSE
             /\ div = FALSE /\ over = FALSE

TRun == /\ IsEvent("run")
        /\ st' = "Nil" /\ fromUpg' = Ev.fromupg /\ preSt' = "Nil" /\ codePred' = 0 /\ nClose' = 0 /\ shutB' = FALSE /\ shutE' = FALSE
        /\ upgOk' = FALSE /\ immediate' = FALSE /\ startFail' = FALSE /\ stopAsked' = FALSE /\ lastHe' = FALSE /\ tmoSeen' = FALSE
        /\ div' = FALSE /\ over' = FALSE

TDeliver == /\ IsEvent("d")
            /\ stopAsked' = (stopAsked \/ Ev.e \in {"term", "int"})
            /\ immediate' = (immediate \/ Ev.e = "int")
            /\ lastHe' = IF Ev.e = "upg" THEN FALSE ELSE lastHe
            /\ tmoSeen' = IF Ev.lane = "sig" THEN FALSE ELSE tmoSeen
            \* a stop notice that finds the application not started yet runs Stop() on the spot
            /\ preSt' = IF Ev.e \in {"term", "int"} /\ InlineStop(st) THEN st ELSE preSt
            /\ Keep(<<st, fromUpg, codePred, nClose, shutB, shutE, upgOk, startFail, div, over>>)

TRel == IsEvent("rel") /\ Keep(<<st, fromUpg, preSt, codePred, nClose, shutB, shutE, upgOk, immediate, startFail, stopAsked, lastHe, tmoSeen, div, over>>)

TTmo == /\ IsEvent("tmo") /\ tmoSeen' = TRUE
        /\ Keep(<<st, fromUpg, preSt, codePred, nClose, shutB, shutE, upgOk, immediate, startFail, stopAsked, lastHe, div, over>>)

TAt == /\ IsEvent("at")
       /\ Expect(div \/ Ev.st = st, "getstate-differs-from-callbacks")
       /\ Keep(<<st, fromUpg, preSt, codePred, nClose, shutB, shutE, upgOk, immediate, startFail, stopAsked, lastHe, tmoSeen, div, over>>)

TCb == /\ IsEvent("cb")
       /\ st' = IF Ev.s = "BeforeStop" THEN st ELSE Ev.s
       /\ Keep(<<fromUpg, preSt, codePred, nClose, shutB, shutE, upgOk, immediate, startFail, stopAsked, lastHe, tmoSeen, div, over>>)

TBs == IsEvent("bs") /\ Keep(<<st, fromUpg, preSt, codePred, nClose, shutB, shutE, upgOk, immediate, startFail, stopAsked, lastHe, tmoSeen, div, over>>)

Failed(e) == Has(e, "err") /\ e.err

TApp == /\ IsEvent("app")
        /\ CASE Ev.call = "Shutdown" /\ Ev.ph = "b" ->
                  \* nothing is shut down once the application has been closed
                  /\ Expect(nClose = 0, "shutdown-after-close")
                  /\ shutB' = TRUE
                  /\ Keep(<<st, fromUpg, preSt, codePred, nClose, shutE, upgOk, immediate, startFail, stopAsked, lastHe, tmoSeen, div, over>>)
             [] Ev.call = "Shutdown" /\ Ev.ph = "e" ->
                  /\ shutE' = TRUE
                  /\ Keep(<<st, fromUpg, preSt, codePred, nClose, shutB, upgOk, immediate, startFail, stopAsked, lastHe, tmoSeen, div, over>>)
             [] Ev.call = "Close" /\ Ev.ph = "b" ->
                  /\ Expect(nClose = 0, "close-twice")
                  \* DrainBeforeClose of StageManager.tla on the real execution
                  /\ Expect(CloseJustified(shutE, upgOk, immediate, startFail), "close-without-shutdown")
                  /\ Expect(div \/ Ev.arg = CloseArg(preSt, fromUpg), "close-argument")
                  /\ nClose' = nClose + 1
                  /\ Keep(<<st, fromUpg, preSt, codePred, shutB, shutE, upgOk, immediate, startFail, stopAsked, lastHe, tmoSeen, div, over>>)
             [] Ev.call = "Init" /\ Ev.ph = "e" /\ Failed(Ev) ->
                  /\ startFail' = TRUE /\ preSt' = st
                  /\ Keep(<<st, fromUpg, codePred, nClose, shutB, shutE, upgOk, immediate, stopAsked, lastHe, tmoSeen, div, over>>)
             [] Ev.call = "Inherit" /\ Ev.ph = "e" /\ Failed(Ev) ->
                  /\ startFail' = TRUE /\ preSt' = st /\ codePred' = 2
                  /\ Keep(<<st, fromUpg, nClose, shutB, shutE, upgOk, immediate, stopAsked, lastHe, tmoSeen, div, over>>)
             [] OTHER -> Keep(<<st, fromUpg, preSt, codePred, nClose, shutB, shutE, upgOk, immediate, startFail, stopAsked, lastHe, tmoSeen, div, over>>)

THb == /\ IsEvent("hb")
       /\ Expect(div \/ st = "Upgrading", "upgrade-handler-outside-upgrading")
       /\ Keep(<<st, fromUpg, preSt, codePred, nClose, shutB, shutE, upgOk, immediate, startFail, stopAsked, lastHe, tmoSeen, div, over>>)

THe == /\ IsEvent("he")
       /\ upgOk' = (upgOk \/ Ev.ok) /\ lastHe' = Ev.ok
       /\ Keep(<<st, fromUpg, preSt, codePred, nClose, shutB, shutE, immediate, startFail, stopAsked, tmoSeen, div, over>>)

\* a notice that did not come off (no handler, handler failed, no new server within 5 s) leaves the server Running
TRet == /\ IsEvent("ret")
        /\ Expect(Ev.t # "rc" \/ lastHe \/ stopAsked \/ Ev.st = "Running", "failed-upgrade-not-resumed")
        /\ Expect(Ev.t # "sig" \/ ~tmoSeen \/ stopAsked \/ upgOk \/ Ev.st = "Running", "failed-reload-not-resumed")
        /\ Keep(<<st, fromUpg, preSt, codePred, nClose, shutB, shutE, upgOk, immediate, startFail, stopAsked, lastHe, tmoSeen, div, over>>)

TPanic == IsEvent("panic") /\ Keep(<<st, fromUpg, preSt, codePred, nClose, shutB, shutE, upgOk, immediate, startFail, stopAsked, lastHe, tmoSeen, div, over>>)

TGs == /\ IsEvent("gs")
       /\ Expect(~shutB \/ shutE, "graceful-hooks-during-shutdown")
       /\ Keep(<<st, fromUpg, preSt, codePred, nClose, shutB, shutE, upgOk, immediate, startFail, stopAsked, lastHe, tmoSeen, div, over>>)

TAs == /\ IsEvent("as")
       /\ Expect(nClose >= 1, "after-stop-hooks-before-close")
       /\ Keep(<<st, fromUpg, preSt, codePred, nClose, shutB, shutE, upgOk, immediate, startFail, stopAsked, lastHe, tmoSeen, div, over>>)

TMain == /\ IsEvent("m")
         /\ CASE Ev.ph = "wait.end" ->
                   \* ReleasedForCause: main goes on to Stop() because of a stop notice or an upgrade that succeeded
                   /\ Expect(stopAsked \/ upgOk, "main-released-without-cause")
                   /\ preSt' = st
              [] Ev.ph = "run.end" ->
                   /\ Expect(st = "Running" \/ stopAsked, "run-ended-not-running")
                   /\ preSt' = preSt
              [] OTHER -> preSt' = preSt
         /\ Keep(<<st, fromUpg, codePred, nClose, shutB, shutE, upgOk, immediate, startFail, stopAsked, lastHe, tmoSeen, div, over>>)

TDiverge == /\ IsEvent("diverge") /\ div' = TRUE
            /\ Keep(<<st, fromUpg, preSt, codePred, nClose, shutB, shutE, upgOk, immediate, startFail, stopAsked, lastHe, tmoSeen, over>>)

TExit == /\ IsEvent("exit")
         \* CloseOnce: the application was closed, once, before the process ended
         /\ Expect(nClose = 1, "not-closed-exactly-once-before-exit")
         /\ Expect(div \/ Ev.code = ExitCodeOf(preSt, codePred), "exit-status")
         /\ over' = TRUE
         /\ Keep(<<st, fromUpg, preSt, codePred, nClose, shutB, shutE, upgOk, immediate, startFail, stopAsked, lastHe, tmoSeen, div>>)

\* the history is over and the process is still there: nobody asked it to stop and it is the server that came out of Run()
TEnd == /\ IsEvent("end")
        /\ Expect(~stopAsked /\ ~upgOk, "stop-never-ended")
        /\ Expect(stopAsked \/ upgOk \/ (Ev.st = "Running" /\ nClose = 0 /\ ~shutB), "running-server-disturbed")
        /\ over' = TRUE
        /\ Keep(<<st, fromUpg, preSt, codePred, nClose, shutB, shutE, upgOk, immediate, startFail, stopAsked, lastHe, tmoSeen, div>>)

TQuiesce == IsEvent("quiesce") /\ Keep(<<st, fromUpg, preSt, codePred, nClose, shutB, shutE, upgOk, immediate, startFail, stopAsked, lastHe, tmoSeen, div, over>>)
TAbandon == IsEvent("abandon") /\ Keep(<<st, fromUpg, preSt, codePred, nClose, shutB, shutE, upgOk, immediate, startFail, stopAsked, lastHe, tmoSeen, div, over>>)

TraceNext == TRun \/ TDeliver \/ TRel \/ TTmo \/ TAt \/ TCb \/ TBs \/ TApp \/ THb \/ THe \/ TRet \/ TPanic \/ TGs \/ TAs \/ TMain
             \/ TDiverge \/ TExit \/ TEnd \/ TQuiesce \/ TAbandon
TraceSpec == TraceInit /\ [][TraceNext]_tvars
====
