---- MODULE Shutdown ----
(* C11, graceful stop.  One MOSN process with one proxy listener, written in the shape of the code:

     keeper.signalHandler(SIGTERM) -> stagemanager.NoticeStop(GracefulStop) -> StageManager.Stop
       -> runGracefulStopStage -> Mosn.Shutdown -> server.Shutdown -> connHandler.GracefulStopListeners
       -> listener.Shutdown:  l.Close()                      (action CloseListener)
                              l.cb.OnShutdown():             (action BeginDrain)
                                 go-away on every connection (action GoAway(c), own goroutine)
                                 waitConnectionsClose(drainTime): poll activeStreamSize() every 10 ms
                                                             (actions Tick / DrainEnd)
       -> Mosn.Close, after-stop stages, process exit        (action Exit: every socket of the process dies)

   Clients drive requests through four phases (the crash-point quantifier of the property):
     hdr   request headers written, body not yet          body  half of the body written
     wait  request complete, waiting for the upstream     resp  response half written to the client
   Signal is enabled in every state.  At Signal the environment also chooses whether it stays prompt
   (mode "complete": clients/upstreams go on) or stalls until the process has exited (mode "hang": the
   drain must then end by its timeout).

   Counted is the set of phases in which the drain loop sees a request (what activeStreamSize() counts).
   The intended design counts a request from its first byte to its last; deviations are named defects:
     PartialNotCounted    a request is counted only once it is completely decoded (hdr/body invisible)
     WrittenNotCounted    a request leaves the count when its response is queued, not when it is written (resp invisible)
     WrongGauge           the drain loop reads a counter that is always zero
     DrainBeforeClose     OnShutdown runs before the listener stops accepting
     CloseOnGoAway        the go-away sweep closes connections that still carry a request
     NoDrainTimeout       the drain loop has no upper bound *)
EXTENDS Integers, FiniteSets, TLC, Json

CONSTANTS Conns,        \* client connections
          MaxReq,       \* requests per connection (sequential, keep-alive)
          DrainTicks,   \* drain timeout in polls
          Defects,
          EmitCases     \* TRUE: print one CASE per signal point

Phases   == {"idle", "hdr", "body", "wait", "resp"}
InFlight == Phases \ {"idle"}
NextPh   == [p \in InFlight |-> CASE p = "hdr" -> "body" [] p = "body" -> "wait" [] p = "wait" -> "resp" [] OTHER -> "idle"]

Counted == IF "WrongGauge" \in Defects THEN {}
           ELSE (InFlight \ (IF "PartialNotCounted" \in Defects THEN {"hdr", "body"} ELSE {}))
                         \ (IF "WrittenNotCounted" \in Defects THEN {"resp"} ELSE {})

VARIABLES sig,       \* the stop signal was delivered
          mode,      \* "none" before the signal, then "complete" | "hang"
          fresh,     \* TRUE exactly in the state right after Signal (case emission)
          lst,       \* listener: "running" | "closed"
          draining,  \* OnShutdown entered
          drained,   \* waitConnectionsClose returned
          timedout,  \* ... because the drain time was used up
          ticks,
          exited,
          conn,      \* per connection: st, ph, done, pre (current request began before the signal), ga, late
          lost       \* requests (connection, index) in flight before the signal and killed by the exit / a close

vars == <<sig, mode, fresh, lst, draining, drained, timedout, ticks, exited, conn, lost>>

ConnRec == [st : {"none", "open", "refused", "gone"}, ph : Phases, done : 0..MaxReq, pre : BOOLEAN, ga : BOOLEAN, late : BOOLEAN]

TypeOK == /\ sig \in BOOLEAN /\ mode \in {"none", "complete", "hang"} /\ fresh \in BOOLEAN
          /\ lst \in {"running", "closed"} /\ draining \in BOOLEAN /\ drained \in BOOLEAN /\ timedout \in BOOLEAN
          /\ ticks \in 0..DrainTicks /\ exited \in BOOLEAN
          /\ conn \in [Conns -> ConnRec]
          /\ lost \subseteq (Conns \X (1..MaxReq))

Init == /\ sig = FALSE /\ mode = "none" /\ fresh = FALSE /\ lst = "running" /\ draining = FALSE /\ drained = FALSE
        /\ timedout = FALSE /\ ticks = 0 /\ exited = FALSE
        /\ conn = [c \in Conns |-> [st |-> "none", ph |-> "idle", done |-> 0, pre |-> FALSE, ga |-> FALSE, late |-> FALSE]]
        /\ lost = {}

Open(c)      == conn[c].st = "open"
Busy(c)      == Open(c) /\ conn[c].ph \in InFlight
Active       == Cardinality({c \in Conns : Open(c) /\ conn[c].ph \in Counted})     \* what the drain loop reads
OwedPre      == {c \in Conns : Busy(c) /\ conn[c].pre}                             \* what the property protects
EnvMayMove   == ~exited /\ ~(sig /\ mode = "hang")

(* ---- environment *)
Connect(c) == /\ ~exited /\ conn[c].st = "none"
              /\ conn' = [conn EXCEPT ![c].st = IF lst = "running" THEN "open" ELSE "refused", ![c].late = draining]
              /\ fresh' = FALSE
              /\ UNCHANGED <<sig, mode, lst, draining, drained, timedout, ticks, exited, lost>>

StartReq(c) == /\ EnvMayMove /\ Open(c) /\ conn[c].ph = "idle" /\ conn[c].done < MaxReq
               /\ conn' = [conn EXCEPT ![c].ph = "hdr", ![c].pre = ~sig]
               /\ fresh' = FALSE
               /\ UNCHANGED <<sig, mode, lst, draining, drained, timedout, ticks, exited, lost>>

Advance(c) == /\ EnvMayMove /\ Busy(c)
              /\ conn' = [conn EXCEPT ![c].ph = NextPh[conn[c].ph],
                                      ![c].done = IF conn[c].ph = "resp" THEN @ + 1 ELSE @]
              /\ fresh' = FALSE
              /\ UNCHANGED <<sig, mode, lst, draining, drained, timedout, ticks, exited, lost>>

Signal == /\ ~sig
          /\ sig' = TRUE /\ fresh' = TRUE
          /\ mode' \in {"complete", "hang"}
          /\ UNCHANGED <<lst, draining, drained, timedout, ticks, exited, conn, lost>>

(* ---- the stopping process *)
CloseListener == /\ sig /\ lst = "running"
                 /\ ("DrainBeforeClose" \in Defects => drained)
                 /\ lst' = "closed" /\ fresh' = FALSE
                 /\ UNCHANGED <<sig, mode, draining, drained, timedout, ticks, exited, conn, lost>>

BeginDrain == /\ sig /\ ~draining
              /\ (lst = "closed" \/ "DrainBeforeClose" \in Defects)
              /\ draining' = TRUE /\ fresh' = FALSE
              /\ UNCHANGED <<sig, mode, lst, drained, timedout, ticks, exited, conn, lost>>

GoAway(c) == /\ draining /\ ~exited /\ Open(c) /\ ~conn[c].ga
             /\ IF "CloseOnGoAway" \in Defects /\ Busy(c)
                  THEN /\ conn' = [conn EXCEPT ![c].st = "gone", ![c].ga = TRUE]
                       /\ lost' = IF conn[c].pre THEN lost \cup {<<c, conn[c].done + 1>>} ELSE lost
                  ELSE /\ conn' = [conn EXCEPT ![c].ga = TRUE]
                       /\ lost' = lost
             /\ fresh' = FALSE
             /\ UNCHANGED <<sig, mode, lst, draining, drained, timedout, ticks, exited>>

Tick == /\ draining /\ ~drained /\ Active > 0
        /\ ticks < DrainTicks \/ "NoDrainTimeout" \in Defects
        /\ ticks' = IF ticks < DrainTicks THEN ticks + 1 ELSE ticks
        /\ fresh' = FALSE
        /\ UNCHANGED <<sig, mode, lst, draining, drained, timedout, exited, conn, lost>>

DrainEnd == /\ draining /\ ~drained
            /\ Active = 0 \/ (ticks = DrainTicks /\ "NoDrainTimeout" \notin Defects)
            /\ drained' = TRUE /\ timedout' = (Active > 0) /\ fresh' = FALSE
            /\ UNCHANGED <<sig, mode, lst, draining, ticks, exited, conn, lost>>

Exit == /\ drained /\ lst = "closed" /\ ~exited
        /\ exited' = TRUE /\ fresh' = FALSE
        /\ lost' = lost \cup {<<c, conn[c].done + 1>> : c \in OwedPre}
        /\ conn' = [c \in Conns |-> IF Open(c) THEN [conn[c] EXCEPT !.st = "gone"] ELSE conn[c]]
        /\ UNCHANGED <<sig, mode, lst, draining, drained, timedout, ticks>>

Next == \/ \E c \in Conns : Connect(c) \/ StartReq(c) \/ Advance(c) \/ GoAway(c)
        \/ Signal \/ CloseListener \/ BeginDrain \/ Tick \/ DrainEnd \/ Exit

Stopping == WF_vars(CloseListener) /\ WF_vars(BeginDrain) /\ WF_vars(Tick) /\ WF_vars(DrainEnd) /\ WF_vars(Exit)
Spec == Init /\ [][Next]_vars /\ Stopping

(* ---- the property *)
\* in-flight requests are not lost unless the drain time was used up completely
NoLoss == lost # {} => (timedout /\ ticks = DrainTicks)
\* the process does not exit while it owes a reply, except by timeout
ExitDrainedOrTimeout == exited => (timedout \/ lost = {})
\* a drain that ends with work outstanding has waited the full drain time
TimeoutIsFull == timedout => ticks = DrainTicks
\* nothing is accepted once the drain has begun
NoLateAccept == \A c \in Conns : ~(conn[c].st \in {"open", "gone"} /\ conn[c].late)
\* the stop terminates
Terminates == sig ~> exited

(* ---- case emission: the picture at the moment the signal arrives *)
CaseOf == [mode |-> mode,
           conns |-> [c \in Conns |-> [open |-> Open(c), ph |-> conn[c].ph, done |-> conn[c].done]]]
Emit == (EmitCases /\ fresh) => PrintT(<<"CASE", ToJson(CaseOf)>>)

Sym == Permutations(Conns)
====
