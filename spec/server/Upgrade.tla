---- MODULE Upgrade ----
(* C11, hot upgrade (SIGHUP).  Two processes share the listening socket; written in the shape of the code:

     old: keeper SIGHUP -> stagemanager.runReload: fork-exec the new process                      (Hup, Fork)
     new: Mosn.Init -> IsReconfigure dials reconfig.sock -> old: NoticeStop(Upgrade) -> ReconfigureHandler
     old: sendInheritListeners (listener fds over listen.sock)                                     (SendFds)
     new: builds its listeners around the inherited fds, Start() = accept loops                    (NewAccepts)
          then acks; transferConnectionHandler starts TransferServer on conn.sock                 (NewReady)
     old: after the ack sleeps 3 s, shutdownServers: stopAccept (deadline on the listener, socket stays open),
          go-away sweep, drain loop                                                                (OldStopAccept, Drain)
          WaitConnectionsDone: closes stopChan; every connection whose protocol supports it is moved by its read
          loop: fd + unread read buffer to the new process (network/transfer.go)                  (Transfer(c))
          after 2*graceful + 2*readTimeout the old process leaves; what it still owns dies        (OldExit)

   A connection carries a byte stream; a request is ReqLen bytes and is answered by the process that has consumed
   all of them in order.  Bytes the owner has received but not consumed sit in its read buffer (a partial frame).

   Properties: some process always accepts; bytes are delivered once and in order across the hand-over;
   transferable connections outlive the old process; nothing in flight is lost unless the old process used up its
   waiting time.  Named defects:
     StopBeforeNewAccepts   the old process stops accepting before the new one accepts
     BufferNotShipped       the read buffer does not travel with a transferred connection
     BufferShippedTwice     the buffered bytes are delivered to the new process twice
     ExitBeforeTransfer     the old process leaves while it still owns transferable connections
     NewClosesInherited     the new process drops the inherited listener (CleanUpgrade closes the wrong socket) *)
EXTENDS Integers, Sequences, FiniteSets, TLC

CONSTANTS Conns, Transferable, ReqLen, MaxReq, Defects

VARIABLES ost,        \* old: "running" | "forked" | "fdsent" | "stopaccept" | "transferring" | "exited"
          nst,        \* new: "none" | "starting" | "accepting" | "ready"
          acceptors,  \* processes with an accept loop on the shared listening socket
          waited,     \* the old process has used up its waiting time (2*graceful + 2*read timeout)
          conn        \* per connection: owner, sent (bytes the client has written), rbuf (received, unconsumed), consumed, done, lostReq

vars == <<ost, nst, acceptors, waited, conn>>

Procs == {"old", "new"}
Owner == {"none", "old", "new", "dead"}

Init == /\ ost = "running" /\ nst = "none" /\ acceptors = {"old"} /\ waited = FALSE
        /\ conn = [c \in Conns |-> [owner |-> "none", sent |-> 0, rbuf |-> <<>>, consumed |-> <<>>, done |-> 0, lost |-> FALSE, pre |-> FALSE]]

Alive(p) == IF p = "old" THEN ost # "exited" ELSE nst \in {"accepting", "ready"}
Open(c) == conn[c].owner \in Procs
SeqTo(n) == [i \in 1..n |-> i]

(* ---- clients *)
Connect(c) == /\ conn[c].owner = "none" /\ acceptors # {}
              /\ \E p \in acceptors : conn' = [conn EXCEPT ![c].owner = p]
              /\ UNCHANGED <<ost, nst, acceptors, waited>>

\* one more byte of the current request reaches the owner's read buffer
Send(c) == /\ Open(c) /\ conn[c].sent < ReqLen /\ conn[c].done < MaxReq
           /\ conn' = [conn EXCEPT ![c].sent = @ + 1, ![c].rbuf = Append(@, conn[c].sent + 1),
                                   ![c].pre = IF conn[c].sent = 0 THEN ost = "running" ELSE @]
           /\ UNCHANGED <<ost, nst, acceptors, waited>>

\* the owner decodes: a complete request is consumed and answered, a partial one stays in the buffer
Serve(c) == /\ Open(c) /\ Alive(conn[c].owner)
            /\ Len(conn[c].consumed) + Len(conn[c].rbuf) >= ReqLen /\ conn[c].rbuf # <<>>
            /\ LET all == conn[c].consumed \o conn[c].rbuf IN
               IF all = SeqTo(ReqLen)
                 THEN conn' = [conn EXCEPT ![c].rbuf = <<>>, ![c].consumed = <<>>, ![c].sent = 0, ![c].done = @ + 1]
                 ELSE conn' = [conn EXCEPT ![c].owner = "dead", ![c].lost = TRUE]      \* garbage on the wire: decode error, closed
            /\ UNCHANGED <<ost, nst, acceptors, waited>>

(* ---- the switch *)
Hup == /\ ost = "running" /\ ost' = "forked" /\ nst' = "starting"
       /\ UNCHANGED <<acceptors, waited, conn>>

SendFds == /\ ost = "forked" /\ nst = "starting" /\ ost' = "fdsent"
           /\ UNCHANGED <<nst, acceptors, waited, conn>>

NewAccepts == /\ ost \in {"fdsent", "stopaccept"} /\ nst = "starting"
              /\ nst' = "accepting"
              /\ acceptors' = IF "NewClosesInherited" \in Defects THEN acceptors ELSE acceptors \cup {"new"}
              /\ UNCHANGED <<ost, waited, conn>>

NewReady == /\ nst = "accepting" /\ nst' = "ready"
            /\ UNCHANGED <<ost, acceptors, waited, conn>>

OldStopAccept == /\ ost = "fdsent"
                 /\ nst = "ready" \/ "StopBeforeNewAccepts" \in Defects
                 /\ ost' = "stopaccept" /\ acceptors' = acceptors \ {"old"}
                 /\ UNCHANGED <<nst, waited, conn>>

BeginTransfer == /\ ost = "stopaccept" /\ nst = "ready" /\ ost' = "transferring"
                 /\ UNCHANGED <<nst, acceptors, waited, conn>>

Transfer(c) == /\ ost = "transferring" /\ nst = "ready" /\ conn[c].owner = "old" /\ c \in Transferable
               /\ conn' = [conn EXCEPT ![c].owner = "new",
                                       ![c].rbuf = CASE "BufferNotShipped" \in Defects -> <<>>
                                                     [] "BufferShippedTwice" \in Defects -> @ \o @
                                                     [] OTHER -> @]
               /\ UNCHANGED <<ost, nst, acceptors, waited>>

Wait == /\ ost = "transferring" /\ ~waited /\ waited' = TRUE
        /\ UNCHANGED <<ost, nst, acceptors, conn>>

OldExit == /\ ost = "transferring"
           /\ waited \/ "ExitBeforeTransfer" \in Defects
           /\ "ExitBeforeTransfer" \in Defects \/ \A c \in Transferable : conn[c].owner # "old"
           /\ ost' = "exited"
           /\ conn' = [c \in Conns |-> IF conn[c].owner = "old"
                                         THEN [conn[c] EXCEPT !.owner = "dead", !.lost = (conn[c].sent > 0 /\ conn[c].pre)]
                                         ELSE conn[c]]
           /\ UNCHANGED <<nst, acceptors, waited>>

Next == \/ \E c \in Conns : Connect(c) \/ Send(c) \/ Serve(c) \/ Transfer(c)
        \/ Hup \/ SendFds \/ NewAccepts \/ NewReady \/ OldStopAccept \/ BeginTransfer \/ Wait \/ OldExit

Spec == Init /\ [][Next]_vars

(* ---- properties *)
TypeOK == /\ ost \in {"running", "forked", "fdsent", "stopaccept", "transferring", "exited"}
          /\ nst \in {"none", "starting", "accepting", "ready"}
          /\ acceptors \subseteq Procs /\ waited \in BOOLEAN
          /\ \A c \in Conns : conn[c].owner \in Owner /\ conn[c].sent \in 0..ReqLen /\ conn[c].done \in 0..MaxReq

\* new connections are accepted throughout the switch
AlwaysAcceptor == acceptors # {}
\* what a live owner holds of the current request is exactly what the client sent: nothing lost, nothing twice, in order
BytesIntact == \A c \in Conns : Open(c) => conn[c].consumed \o conn[c].rbuf = SeqTo(conn[c].sent)
\* a transferable connection is never killed by the switch
HandedOver == \A c \in Transferable : conn[c].owner # "dead"
\* a request begun before the signal is lost only with a connection the old process could not hand over, after the full wait
NoLoss == \A c \in Conns : conn[c].lost => (c \notin Transferable /\ waited)
====
