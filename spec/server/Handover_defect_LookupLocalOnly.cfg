CONSTANTS
  Protos = {"bolt", "http1"}
  MaxReq = 5
  MaxInflight = 3
  MaxDone = 5
  Defects = {"LookupLocalOnly"}
  EmitCases = FALSE
SPECIFICATION Spec
INVARIANTS TypeOK Adopted BytesIntact OneReply NoLoss HandedOver Released DecodedBy
CHECK_DEADLOCK FALSE
