---- MODULE ShutdownTrace ----
(* Trace validation of real graceful stops (in-process MOSN: Mosn.Shutdown is what SIGTERM runs; hooks in
   pkg/network/listener.go, pkg/server/handler.go, pkg/proxy/downstream.go) against Shutdown.tla.
   One run = one signal point enumerated by TLC from Shutdown.tla (CASE lines), realised by the driver.
   Events:
     run{id, proto, mode, drain_ms, case}   driver: new trial (TraceReset); mode = what the environment does after the signal
     c.connect{c, ok, when}     driver: TCP connect to the proxy listener ("pre" before the signal, "late" once the drain began)
     c.phase{c, k, ph}          driver: request k of connection c is now in phase ph (hdr | body | wait | resp)
     c.step{c, k}               driver, after the signal: the environment starts moving request k on (from here on it may complete)
     c.done{c, k, ok, detail}   driver: the client has the complete, correct response (ok) or the request failed
     signal{settled}            driver: Mosn.Shutdown() is called now
     shutdown{upgrading}        hook ln.shutdown        lstate{st}  hook ln.state (closed | stopped | running)
     onshutdown                 hook ln.onshutdown: the drain of the listener begins (go-away sweep + wait)
     goaway{conn}               hook ln.goaway
     drain{remaining, waited, max}   hook ln.drain: waitConnectionsClose returns (ms)
     new{rid} / clean{rid}      hooks ds.new / ds.clean: a proxy stream begins / ends
     exit{elapsed_ms, err}      driver: Mosn.Shutdown() returned - the stage manager goes on to Close and process exit
     quiesce{exited, active}    driver: every request was driven to its end
     abandon{why}               driver: the signal point could not be set up; the run ends here without a signal
     notice{a, pre, st}         driver (-mode stagee2e): NoticeStop(a) for an attempt that does not come off has returned; st = GetState()
   The variables of Shutdown are bound to what was recorded; the expectations are those of Shutdown's invariants,
   evaluated softly (VTrace!Expect) on the real execution. *)
EXTENDS Shutdown, VTrace

VARIABLES stepped,    \* connections whose request the environment has started to move since the signal
          srvOpen,    \* proxy streams begun and not ended (hook view)
          dWaited, dMax, dRemain, dSeen

tvars == <<vars, l, stepped, srvOpen, dWaited, dMax, dRemain, dSeen>>

NoConn == [st |-> "none", ph |-> "idle", done |-> 0, pre |-> FALSE, ga |-> FALSE, late |-> FALSE]

TraceInit == /\ l = 1 /\ Init /\ stepped = {} /\ srvOpen = 0 /\ dWaited = 0 /\ dMax = 0 /\ dRemain = 0 /\ dSeen = FALSE

Keep(vs) == UNCHANGED vs

TRun == /\ IsEvent("run")
        /\ sig' = FALSE /\ mode' = Ev.mode /\ fresh' = FALSE /\ lst' = "running" /\ draining' = FALSE /\ drained' = FALSE
        /\ timedout' = FALSE /\ ticks' = 0 /\ exited' = FALSE /\ lost' = {}
        /\ conn' = [c \in Conns |-> NoConn]
        /\ stepped' = {} /\ srvOpen' = 0 /\ dWaited' = 0 /\ dMax' = 0 /\ dRemain' = 0 /\ dSeen' = FALSE

TConnect == /\ IsEvent("c.connect")
            \* the property: once the drain has begun (a fortiori after the exit) nothing is accepted any more
            /\ Expect(~Ev.ok \/ ~(draining \/ exited), "connection-accepted-after-drain-began")
            /\ Expect(Ev.ok \/ sig, "connection-refused-before-signal")
            /\ conn' = [conn EXCEPT ![Ev.c] = [NoConn EXCEPT !.st = IF Ev.ok THEN "open" ELSE "refused", !.late = draining \/ exited]]
            /\ Keep(<<sig, mode, fresh, lst, draining, drained, timedout, ticks, exited, lost, stepped, srvOpen, dWaited, dMax, dRemain, dSeen>>)

TPhase == /\ IsEvent("c.phase")
          /\ Expect(Open(Ev.c), "phase-on-closed-connection")
          /\ conn' = [conn EXCEPT ![Ev.c].ph = Ev.ph, ![Ev.c].pre = IF Ev.ph = "hdr" THEN ~sig ELSE @]
          /\ Keep(<<sig, mode, fresh, lst, draining, drained, timedout, ticks, exited, lost, stepped, srvOpen, dWaited, dMax, dRemain, dSeen>>)

TStep == /\ IsEvent("c.step")
         \* an environment that stalls resumes only after the stop has run its course; the driver gives up
         \* waiting for that 20 s after the drain time (300 ms), so seeing the step first means the timeout was not honoured
         /\ Expect(mode # "hang" \/ exited, "stop-exceeds-drain-timeout")
         /\ stepped' = stepped \cup {Ev.c}
         /\ Keep(<<vars, srvOpen, dWaited, dMax, dRemain, dSeen>>)

\* the drain loop used up its time (then the process may exit with work outstanding)
DrainTimeUsed == dSeen /\ dWaited >= dMax
\* process-level runs have no hooks: the time from the signal to the observed exit stands in for the time waited
ExitAfterDrainTime == Has(Ev, "drain_ms") /\ Ev.elapsed_ms >= Ev.drain_ms

TDone == /\ IsEvent("c.done")
         \* no request in flight when the signal arrived fails (nothing kills connections in process, so any failure counts)
         \* (a request already reported as left behind by the exit is not reported a second time)
         /\ Expect(Ev.ok \/ ~conn[Ev.c].pre \/ <<Ev.c, conn[Ev.c].done + 1>> \in lost, "in-flight-request-failed")
         /\ conn' = [conn EXCEPT ![Ev.c].ph = "idle", ![Ev.c].done = @ + 1]
         /\ Keep(<<sig, mode, fresh, lst, draining, drained, timedout, ticks, exited, lost, stepped, srvOpen, dWaited, dMax, dRemain, dSeen>>)

TSignal == /\ IsEvent("signal")
           /\ sig' = TRUE
           /\ Keep(<<mode, fresh, lst, draining, drained, timedout, ticks, exited, conn, lost, stepped, srvOpen, dWaited, dMax, dRemain, dSeen>>)

TShutdown == IsEvent("shutdown") /\ Keep(<<vars, stepped, srvOpen, dWaited, dMax, dRemain, dSeen>>)

TLState == /\ IsEvent("lstate")
           /\ lst' = IF Ev.st = "running" THEN "running" ELSE "closed"
           /\ Keep(<<sig, mode, fresh, draining, drained, timedout, ticks, exited, conn, lost, stepped, srvOpen, dWaited, dMax, dRemain, dSeen>>)

TOnShutdown == /\ IsEvent("onshutdown")
               /\ draining' = TRUE
               /\ Keep(<<sig, mode, fresh, lst, drained, timedout, ticks, exited, conn, lost, stepped, srvOpen, dWaited, dMax, dRemain, dSeen>>)

TGoAway == IsEvent("goaway") /\ Keep(<<vars, stepped, srvOpen, dWaited, dMax, dRemain, dSeen>>)

TDrain == /\ IsEvent("drain")
          \* the drain loop ends because nothing is active or because its time is used up
          /\ Expect(Ev.remaining = 0 \/ Ev.waited >= Ev.max, "drain-ended-early-with-active-streams")
          /\ drained' = TRUE /\ timedout' = (Ev.remaining > 0)
          /\ dSeen' = TRUE /\ dWaited' = Ev.waited /\ dMax' = Ev.max /\ dRemain' = Ev.remaining
          /\ Keep(<<sig, mode, fresh, lst, draining, ticks, exited, conn, lost, stepped, srvOpen>>)

TNew == /\ IsEvent("new") /\ srvOpen' = srvOpen + 1
        /\ Keep(<<vars, stepped, dWaited, dMax, dRemain, dSeen>>)

TClean == /\ IsEvent("clean") /\ srvOpen' = srvOpen - 1
          /\ Keep(<<vars, stepped, dWaited, dMax, dRemain, dSeen>>)

\* requests owed at this moment for certain: begun before the signal, not finished, and the environment has not even
\* started to move them on since the signal (so they cannot have completed, whatever the timing)
OwedForSure == {c \in Conns : Busy(c) /\ conn[c].pre /\ c \notin stepped}

TExit == /\ IsEvent("exit")
         /\ Expect(Ev.err = "", "shutdown-returned-error")
         \* ExitDrainedOrTimeout / NoLoss of Shutdown.tla on the real execution
         /\ Expect(OwedForSure = {} \/ DrainTimeUsed \/ ExitAfterDrainTime, "exit-before-drained")
         /\ Expect(lst = "closed" \/ ~draining, "exit-with-listener-open")
         /\ exited' = TRUE
         /\ lost' = {<<c, conn[c].done + 1>> : c \in OwedForSure}
         /\ Keep(<<sig, mode, fresh, lst, draining, drained, timedout, ticks, conn, stepped, srvOpen, dWaited, dMax, dRemain, dSeen>>)

TQuiesce == /\ IsEvent("quiesce")
            /\ Expect(Ev.exited /\ exited, "stop-never-returned")
            /\ Expect(\A c \in Conns : ~Busy(c), "request-never-completed")
            /\ Keep(<<vars, stepped, srvOpen, dWaited, dMax, dRemain, dSeen>>)

\* the driver could not set the signal point up (a failure before any signal): nothing of this run is judged
TAbandon == IsEvent("abandon") /\ Keep(<<vars, stepped, srvOpen, dWaited, dMax, dRemain, dSeen>>)

\* (stage-manager runs, harness/cmd/c11 -mode stagee2e) an earlier life-cycle event that did not come off - a failed
\* upgrade / reload - was delivered through the stage manager before the signal: the server is Running again
TNotice == /\ IsEvent("notice")
           /\ Expect(Ev.st = "Running", "failed-attempt-not-resumed")
           /\ Expect(~Has(Ev, "panic"), "notice-panicked")
           /\ Keep(<<vars, stepped, srvOpen, dWaited, dMax, dRemain, dSeen>>)

TraceNext == TNotice \/ TAbandon \/ TRun \/ TConnect \/ TPhase \/ TStep \/ TDone \/ TSignal \/ TShutdown \/ TLState \/ TOnShutdown \/ TGoAway
             \/ TDrain \/ TNew \/ TClean \/ TExit \/ TQuiesce
TraceSpec == TraceInit /\ [][TraceNext]_tvars
====
