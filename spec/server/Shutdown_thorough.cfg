CONSTANTS
  Conns = {"c1", "c2", "c3"}
  MaxReq = 2
  DrainTicks = 2
  Defects = {}
  EmitCases = FALSE
SPECIFICATION Spec
INVARIANTS TypeOK NoLoss ExitDrainedOrTimeout TimeoutIsFull NoLateAccept
PROPERTY Terminates
CHECK_DEADLOCK FALSE
