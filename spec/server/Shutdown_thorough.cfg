CONSTANTS
  Conns = {"c1", "c2", "c3"}
  MaxReq = 3
  DrainTicks = 3
  Defects = {}
  EmitCases = FALSE
SPECIFICATION Spec
INVARIANTS TypeOK NoLoss ExitDrainedOrTimeout TimeoutIsFull NoLateAccept
PROPERTY Terminates
CHECK_DEADLOCK FALSE
