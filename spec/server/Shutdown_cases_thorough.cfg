CONSTANTS
  Conns = {"c1", "c2", "c3"}
  MaxReq = 2
  DrainTicks = 1
  Defects = {}
  EmitCases = TRUE
SPECIFICATION Spec
INVARIANT Emit
CHECK_DEADLOCK FALSE
