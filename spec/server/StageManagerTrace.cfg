CONSTANTS
  Defects = {}
SPECIFICATION TraceSpec
POSTCONDITION Accepted
CHECK_DEADLOCK FALSE
