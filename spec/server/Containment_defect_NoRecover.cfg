CONSTANTS
  Conns = {"c1", "c2", "c3"}
  Defects = {"NoRecover"}
  Emit = FALSE
SPECIFICATION Spec
INVARIANTS ProcessAlive FailureVisible NoLeak
PROPERTIES OthersUntouched
CHECK_DEADLOCK FALSE
