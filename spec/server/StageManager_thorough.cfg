CONSTANTS
  Defects = {}
  MaxEvents = 3
  Alphabet = {"term", "int", "upg", "hup", "hupff"}
  Births = {"plain", "nohandler", "inherited", "initfail", "initfail-inherited", "inheritfail"}
  QuiescentOnly = FALSE
  EmitCases = FALSE
SPECIFICATION Spec
INVARIANTS TypeOK DrainBeforeClose CloseOnce NothingAfterClose ReleasedForCause FailedUpgradeTransparent
PROPERTY Terminates
CHECK_DEADLOCK FALSE
