CONSTANTS
  Defects = {"StickyDrainedFlag"}
  MaxEvents = 2
  Alphabet = {"term", "int", "upg", "hup", "hupff"}
  Births = {"plain", "nohandler", "inherited", "initfail", "initfail-inherited", "inheritfail"}
  QuiescentOnly = FALSE
  EmitCases = FALSE
SPECIFICATION Spec
\* the contract itself must reject it (FailedUpgradeTransparent would too, one step earlier: the mark survives resume())
INVARIANTS TypeOK DrainBeforeClose CloseOnce NothingAfterClose ReleasedForCause
PROPERTY Terminates
CHECK_DEADLOCK FALSE
