---- MODULE HandoverTrace ----
(* Trace validation of real hand-overs driven inside one process (old and new server instance, real proxy and codecs,
   network.TransferServer on a private unix socket; hooks conn.stop.seen / conn.transfer.read / conn.transfer.new /
   ds.new / ds.clean) against Handover.tla.  One run = one CASE line of Handover.tla.
   Events:
     run{id, proto, phase, done, follow, bind, via, release}   release = wire: the upstream answers the first request in
                                flight the moment the old instance ships the socket (inside hook conn.transfer.read), moved:
                                after the move; bind = how the listener address is written in the configuration of both
                                instances (ip4 127.0.0.1:p | any4 0.0.0.0:p | any6 [::]:p | ip6 [::1]:p), via = the client
                                connects to 127.0.0.1:p (ip4) or [::1]:p (ip6)
     h.connect{ok}
     h.sent{k, n, total, cut}   client: n of the total bytes of request k are on the wire and have been read by the proxy;
                                cut = 1 inside the fixed head, 2 inside the header block, 3 inside the body, 4 complete
     new{rid, by}               hook ds.new: a request was decoded; by = old | new (label of the instance's proxy filter)
     clean{rid}                 hook ds.clean
     h.reply{k, ok, close, detail}   client: complete and correct reply to request k (token, length, upstream saw the whole
                                body) or failure; close = the reply said "Connection: close"
     stop                       driver: StopConnection() on the old handler
     stopseen{transferable}     hook conn.stop.seen: the connection's read loop saw the stop channel
     transfer{buffered}         hook conn.transfer.read: the old instance ships the socket with `buffered` unread bytes
     transfer.new{buffered}     hook conn.transfer.new: the new instance found the listener the socket belongs to (Lookup) and
                                builds the connection around them
     h.nomove{waited_ms}        driver: the old instance shipped the socket and the new instance has not taken it since
                                (the old instance waits for the answer of the new one before it goes on: a Lookup that
                                succeeds is seen within milliseconds)
     h.closed{byproxy}          client: after being told to go away the connection was (not) closed by the proxy
     h.close                    client closes
     oldexit                    driver: the old instance's life ends here (everything it still owns would die)
     h.stray{detail}            client: a frame / bytes arrived although no request was waiting
     quiesce / abandon{why}
   bolt connections are multiplexed: `inflight` requests are completely written before the stop and answered by the
   upstream only after the move, one at a time, in the order of the case (fifo | lifo). *)
EXTENDS Handover, VTrace

VARIABLES pending       \* bytes of a partly written request that the proxy has read and not consumed

tvars == <<vars, l, pending>>

TraceInit == l = 1 /\ Init /\ proto = "bolt" /\ bind = "ip4" /\ via = "ip4" /\ pending = 0

K(vs) == UNCHANGED <<vs, bind, via, orphan, release>>
Decoded == Cardinality({r \in Reqs : stream[r] # "none"})
ExpectedDecoder == IF proto = "bolt" /\ stop = "moved" THEN "new" ELSE "old"

TRun == /\ IsEvent("run")
        /\ proto' = Ev.proto /\ follow' = Ev.follow /\ owner' = "old" /\ stop' = "no" /\ closeFlag' = FALSE /\ oldAlive' = TRUE
        /\ k' = 1 /\ sent' = 0 /\ rbuf' = <<>> /\ stream' = [r \in Reqs |-> "none"] /\ by' = [r \in Reqs |-> "none"]
        /\ replies' = [r \in Reqs |-> 0] /\ told' = FALSE /\ repliedAfterNotice' = FALSE /\ lost' = FALSE /\ killed' = FALSE
        /\ fresh' = FALSE /\ pending' = 0 /\ route' = TRUE /\ order' = "fifo"
        \* the combination is one the specification knows and the listener takes that client at all
        /\ Ev.bind \in Binds /\ Ev.via \in Vias /\ Reaches(Ev.bind, Ev.via)
        /\ bind' = Ev.bind /\ via' = Ev.via /\ orphan' = FALSE /\ release' = Ev.release

TConnect == IsEvent("h.connect") /\ K(<<vars, pending>>)

TSent == /\ IsEvent("h.sent")
         /\ k' = Ev.k /\ sent' = Ev.cut
         /\ pending' = IF Ev.n < Ev.total THEN Ev.n ELSE 0
         /\ K(<<proto, owner, stop, closeFlag, oldAlive, rbuf, stream, by, replies, told, repliedAfterNotice, lost, killed, follow, fresh, route, order>>)

TNew == /\ IsEvent("new")
        \* DecodedBy: a request completed after the move belongs to the new instance, every other one to the old instance
        /\ Expect(Ev.by = ExpectedDecoder, "request-decoded-by-the-wrong-process")
        /\ stream' = [stream EXCEPT ![Decoded + 1] = "open"] /\ by' = [by EXCEPT ![Decoded + 1] = Ev.by]
        /\ K(<<proto, owner, stop, closeFlag, oldAlive, k, sent, rbuf, replies, told, repliedAfterNotice, lost, killed, follow, fresh, route, order, pending>>)

TClean == IsEvent("clean") /\ K(<<vars, pending>>)

FailKind == IF proto = "bolt"
              THEN (IF stop = "moved" THEN "request-failed-on-handed-over-connection" ELSE "request-failed-during-hand-over")
              ELSE "request-failed-on-connection-of-old-process"

TReply == /\ IsEvent("h.reply")
          \* NoLoss / BytesIntact seen from outside, OneReply
          /\ Expect(Ev.ok, FailKind)
          /\ Expect(replies[Ev.k] = 0, "second-reply")
          /\ Expect(proto = "http1" \/ ~Ev.close, "transferable-connection-told-to-go-away")
          /\ replies' = [replies EXCEPT ![Ev.k] = IF Ev.ok THEN @ + 1 ELSE @]
          /\ stream' = [stream EXCEPT ![Ev.k] = "done"]
          /\ lost' = (lost \/ ~Ev.ok)
          /\ told' = (told \/ Ev.close)
          /\ repliedAfterNotice' = (repliedAfterNotice \/ (Ev.ok /\ stop \in {"seen", "moved"}))
          /\ sent' = 0 /\ pending' = 0
          /\ K(<<proto, owner, stop, closeFlag, oldAlive, k, rbuf, by, killed, follow, fresh, route, order>>)

TStop == /\ IsEvent("stop") /\ stop' = "called"
         /\ K(<<proto, owner, closeFlag, oldAlive, k, sent, rbuf, stream, by, replies, told, repliedAfterNotice, lost, killed, follow, fresh, route, order, pending>>)

TStopSeen == /\ IsEvent("stopseen") /\ stop' = "seen"
             /\ Expect(Ev.transferable = (proto = "bolt"), "transferability-differs-from-protocol")
             /\ K(<<proto, owner, closeFlag, oldAlive, k, sent, rbuf, stream, by, replies, told, repliedAfterNotice, lost, killed, follow, fresh, route, order, pending>>)

TTransfer == /\ IsEvent("transfer")
             \* BytesIntact at the old instance: what it ships is exactly what it had read of the unfinished request
             /\ Expect(Ev.buffered = pending, "buffered-bytes-not-shipped")
             /\ owner' = "wire"
             /\ K(<<proto, stop, closeFlag, oldAlive, k, sent, rbuf, stream, by, replies, told, repliedAfterNotice, lost, killed, follow, fresh, route, order, pending>>)

\* Lookup succeeded: the socket belongs to a listener of the new instance
TTransferNew == /\ IsEvent("transfer.new")
                /\ Expect(Ev.buffered = pending, "buffered-bytes-not-received")
                /\ stop' = "moved" /\ owner' = "new"
                /\ K(<<proto, closeFlag, oldAlive, k, sent, rbuf, stream, by, replies, told, repliedAfterNotice, lost, killed, follow, fresh, route, order, pending>>)

\* Adopted: Lookup finds the listener for every way of writing its address and every client it takes (Found is the
\* intended design's answer for this run's bind/via: it is TRUE for all of them)
TNoMove == /\ IsEvent("h.nomove")
           /\ Expect(~Found, "shipped-connection-not-taken-by-a-listener-of-the-new-process")
           /\ orphan' = TRUE /\ owner' = "closed" /\ lost' = TRUE
           /\ UNCHANGED <<proto, stop, closeFlag, oldAlive, k, sent, rbuf, stream, by, replies, told, repliedAfterNotice, killed, follow, fresh, route, order, pending, bind, via, release>>

THClosed == /\ IsEvent("h.closed")
            /\ Expect(Ev.byproxy, "told-to-go-away-but-connection-left-open")
            /\ owner' = "closed"
            /\ K(<<proto, stop, closeFlag, oldAlive, k, sent, rbuf, stream, by, replies, told, repliedAfterNotice, lost, killed, follow, fresh, route, order, pending>>)

THClose == /\ IsEvent("h.close") /\ owner' = "closed"
           /\ K(<<proto, stop, closeFlag, oldAlive, k, sent, rbuf, stream, by, replies, told, repliedAfterNotice, lost, killed, follow, fresh, route, order, pending>>)

TOldExit == /\ IsEvent("oldexit")
            \* HandedOver: a transferable connection has left the old instance by now (unless the run already lost a request on it)
            /\ Expect(proto # "bolt" \/ owner # "old" \/ lost, "connection-not-handed-over")
            \* Released: a connection that cannot move and answered after the stop was noticed has been told to go away
            /\ Expect(~(proto = "http1" /\ owner = "old" /\ repliedAfterNotice /\ ~told), "connection-kept-by-old-process-until-it-leaves")
            /\ oldAlive' = FALSE
            /\ killed' = (owner = "old" /\ ~told)
            /\ K(<<proto, owner, stop, closeFlag, k, sent, rbuf, stream, by, replies, told, repliedAfterNotice, lost, follow, fresh, route, order, pending>>)

TQuiesce == /\ IsEvent("quiesce")
            /\ Expect(\A r \in Reqs : stream[r] # "open", "request-never-answered")
            /\ K(<<vars, pending>>)

TAbandon == IsEvent("abandon") /\ K(<<vars, pending>>)

\* OneReply: something arrived on the connection although no request was waiting for it (a second answer, an answer to nobody)
TStray == IsEvent("h.stray") /\ Expect(FALSE, "reply-without-waiting-request") /\ K(<<vars, pending>>)

TraceNext == TRun \/ TConnect \/ TSent \/ TNew \/ TClean \/ TReply \/ TStop \/ TStopSeen \/ TTransfer \/ TTransferNew \/ TNoMove
             \/ THClosed \/ THClose \/ TOldExit \/ TQuiesce \/ TAbandon \/ TStray
TraceSpec == TraceInit /\ [][TraceNext]_tvars
====
