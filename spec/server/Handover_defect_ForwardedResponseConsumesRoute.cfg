CONSTANTS
  Protos = {"bolt", "http1"}
  MaxReq = 5
  MaxInflight = 3
  MaxDone = 5
  Defects = {"ForwardedResponseConsumesRoute"}
  EmitCases = FALSE
SPECIFICATION Spec
INVARIANTS TypeOK BytesIntact OneReply NoLoss HandedOver Released DecodedBy Adopted
CHECK_DEADLOCK FALSE
