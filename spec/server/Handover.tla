---- MODULE Handover ----
(* C11, hot upgrade, one long-lived downstream connection at byte granularity through the hand-over.
   Shape of the code:
     old: server.WaitConnectionsDone -> StopConnection closes the listeners' stop channel              (Stop)
     old: connection.startReadLoop sees the closed channel on its next iteration and asks the stream
          layer (SetTransferEventListener): xprotocol answers "transferable" and a transfer time is set;
          HTTP/1 answers "no" and sets serverStreamConnection.close, so that the next response says
          "Connection: close" and the connection is closed after it (the client then reconnects and lands
          on the new process)                                                                            (Notice)
     old: transfer(): fd + unread read buffer travel over conn.sock; new: transferNewConn builds the
          connection around them (newServerConnection copies the bytes into its read buffer)            (Transfer)
     new: transferFindListen finds, by address, the listener the received socket belongs to                 (Lookup)
     a stream opened by the old process before the move answers through transferWrite                   (Reply)
     old: leaves after its waiting time; every socket it still owns dies                                (OldExit)

   A request is ReqLen = 4 bytes on the wire: byte 1 ends inside the fixed head (bolt: 22-byte protocol header,
   HTTP/1: request line), byte 2 inside the header block, byte 3 inside the body, byte 4 completes it.  The
   process that holds the connection when the last byte arrives decodes the request and owns its stream.

   Properties: bytes of a partly received request are intact across the move; every request gets exactly one reply;
   nothing is lost; a connection that cannot be moved is released (told to go away with a reply) before the old
   process leaves, if it carried a reply after the stop was noticed.  Named defects:
     BufferNotShipped     the read buffer stays behind
     NewDropsBuffered     the new process closes a connection that arrives with buffered bytes (cannot read into them)
     CloseFlagReset       HTTP/1: parsing the next request resets the "close after this response" flag
     LostReplyAfterMove   a reply of a stream of the old process is dropped once the connection has moved
     ReplyTwice           ... or is written by both processes
     ExitBeforeTransfer   the old process leaves while it still owns a transferable connection
     ForwardedResponseConsumesRoute   the new process forgets where to deliver forwarded answers after the first one
                          (network.transferFindConnection: the map entry must survive every forwarded write)

   The listener a received socket belongs to (network.transferFindListen) is found by ADDRESS: the new process knows
   the local address of the connection and how its own listeners are written in the configuration, nothing else.
   `bind` is how the listener address is written, `via` how the client reached it:
     bind  "ip4" 127.0.0.1:p | "any4" 0.0.0.0:p | "any6" [::]:p | "ip6" [::1]:p          via  "ip4" | "ip6"
   A listener written with an unspecified address is ONE dual-stack socket (net.Listen("tcp", ...), bindv6only = 0):
   it takes IPv4 and IPv6 clients, whichever of the two wildcards was written; the local address of the accepted
   connection is the concrete address the client connected to, in the client's family.  Lookup is the new process's
   own step between the arrival of the socket and the first byte it serves.  Named defects:
     LookupOwnFamilyWildcard   only the wildcard of the connection's own address family is tried after the local address
     LookupLocalOnly           only the local address of the connection is tried

   When the upstream answers a request in flight is part of the picture too (`release`): after the move (the answer is
   forwarded by the old process through transferWrite), or while the socket is on its way ("wire": the old process has
   stopped writing to the socket - connection.needTransfer -, keeps the answer in the connection's write queue and
   forwards it the moment the new process has told it the id of its connection: QueueReply, then Reply).  Named defect:
     PublishedBeforeComplete   the new process hands its connection to the transfer server before the connection can
                               write: an answer forwarded at once is dropped *)
EXTENDS Integers, Sequences, FiniteSets, TLC, Json

CONSTANTS Protos, MaxReq, MaxInflight, MaxDone, Defects, EmitCases
ReqLen == 4
Binds == {"ip4", "any4", "any6", "ip6"}
Vias == {"ip4", "ip6"}
Wildcards == {"any4", "any6"}
\* the clients a listener takes: a wildcard listener is dual stack, a concrete address takes its own family only
Reaches(b, v) == b \in Wildcards \/ b = v
SeqTo(n) == [i \in 1..n |-> i]

VARIABLES proto, owner, stop, closeFlag, oldAlive,
          k,          \* number of the request the client is sending / will send next
          sent,       \* bytes of request k written by the client
          rbuf,       \* bytes the owner has received and not consumed
          stream,     \* per request: "none" | "open" | "part" (reply partly written) | "queued" (reply in the write queue of the
                      \* old process, socket on its way) | "done"
          by,         \* per request: the process that decoded it
          replies,    \* per request: complete replies seen by the client
          told,       \* the client was told to stop using the connection (Connection: close)
          repliedAfterNotice, lost, killed, follow, fresh,
          route,      \* the new process can still deliver what the old process forwards for the moved connection
          order,      \* the order in which the upstream answers the requests in flight at the move: "fifo" | "lifo"
          bind, via,  \* how the listener address is written / how the client reached it (constant through a behaviour)
          orphan,     \* the socket left the old process and no listener of the new process took it
          release     \* when the upstream answers the first request in flight: "moved" (after the move) | "wire" (socket on its way)

vars == <<proto, owner, stop, closeFlag, oldAlive, k, sent, rbuf, stream, by, replies, told, repliedAfterNotice, lost, killed, follow, fresh, route, order, bind, via, orphan, release>>

Reqs == 1..MaxReq
Transferable == proto = "bolt"
Held == owner \in {"old", "new"}
InFlight == {r \in Reqs : stream[r] \in {"open", "part", "queued"}}
Busy == sent > 0 \/ InFlight # {}

Init == /\ proto \in Protos /\ owner = "old" /\ stop = "no" /\ closeFlag = FALSE /\ oldAlive = TRUE
        /\ k = 1 /\ sent = 0 /\ rbuf = <<>>
        /\ stream = [r \in Reqs |-> "none"] /\ by = [r \in Reqs |-> "none"] /\ replies = [r \in Reqs |-> 0]
        /\ told = FALSE /\ repliedAfterNotice = FALSE /\ lost = FALSE /\ killed = FALSE /\ follow = "none" /\ fresh = FALSE
        /\ route = TRUE /\ order = "fifo"
        /\ bind \in Binds /\ via \in Vias /\ Reaches(bind, via) /\ orphan = FALSE /\ release = "moved"

U(vs) == UNCHANGED <<vs, bind, via, orphan, release>>

(* ---- client *)
\* HTTP/1 is ping-pong; an xprotocol connection is multiplexed: up to MaxInflight requests wait for their answers
Send == /\ Held /\ ~told /\ k <= MaxReq /\ sent < ReqLen
        /\ stream[k] = "none"
        /\ IF k = 1 THEN TRUE
           ELSE IF proto = "bolt" THEN stream[k - 1] # "none" /\ Cardinality(InFlight) < MaxInflight /\ ~\E r \in Reqs : stream[r] = "part"
           ELSE stream[k - 1] = "done"
        /\ UNCHANGED <<route, order>>
        /\ sent' = sent + 1 /\ rbuf' = Append(rbuf, sent + 1) /\ fresh' = FALSE
        /\ U(<<proto, owner, stop, closeFlag, oldAlive, k, stream, by, replies, told, repliedAfterNotice, lost, killed, follow>>)

ClientClose == /\ Held /\ follow = "close" /\ stop \in {"seen", "moved"} /\ ~Busy
               /\ owner' = "closed" /\ fresh' = FALSE /\ UNCHANGED <<route, order>>
               /\ U(<<proto, stop, closeFlag, oldAlive, k, sent, rbuf, stream, by, replies, told, repliedAfterNotice, lost, killed, follow>>)

(* ---- the process holding the connection *)
Alive(p) == p = "new" \/ (p = "old" /\ oldAlive)

Decode == /\ Held /\ Alive(owner) /\ Len(rbuf) >= 1 /\ sent = ReqLen
          /\ IF rbuf = SeqTo(ReqLen)
               THEN /\ stream' = [stream EXCEPT ![k] = "open"] /\ by' = [by EXCEPT ![k] = owner]
                    /\ rbuf' = <<>> /\ sent' = 0 /\ k' = k + 1 /\ owner' = owner /\ lost' = lost
                    /\ closeFlag' = IF "CloseFlagReset" \in Defects /\ proto = "http1" THEN FALSE ELSE closeFlag
               ELSE \* what arrived is not a frame: decode error, connection closed, request lost
                    /\ owner' = "closed" /\ lost' = TRUE
                    /\ U(<<stream, by, rbuf, sent, k, closeFlag>>)
          /\ fresh' = FALSE /\ UNCHANGED <<route, order>>
          /\ U(<<proto, stop, oldAlive, replies, told, repliedAfterNotice, killed, follow>>)

\* a response written in part (the client reads slowly): the runs park it only when it is alone on the connection
PartReply(r) == /\ stream[r] = "open" /\ Alive(by[r]) /\ Held /\ InFlight = {r} /\ sent = 0
                /\ stream' = [stream EXCEPT ![r] = "part"] /\ fresh' = FALSE /\ UNCHANGED <<route, order>>
                /\ U(<<proto, owner, stop, closeFlag, oldAlive, k, sent, rbuf, by, replies, told, repliedAfterNotice, lost, killed, follow>>)

\* the upstream answers while the socket is on its way: the answer waits in the old process (the runs let one through)
QueueReply(r) == /\ owner = "wire" /\ release = "wire" /\ stream[r] = "open" /\ by[r] = "old" /\ oldAlive
                 /\ ~\E q \in Reqs : stream[q] = "queued"
                 /\ stream' = [stream EXCEPT ![r] = "queued"] /\ fresh' = FALSE /\ UNCHANGED <<route, order>>
                 /\ U(<<proto, owner, stop, closeFlag, oldAlive, k, sent, rbuf, by, replies, told, repliedAfterNotice, lost, killed, follow>>)

Reply(r) == /\ stream[r] \in {"open", "part", "queued"} /\ Alive(by[r]) /\ Held
            /\ stream' = [stream EXCEPT ![r] = "done"]
            /\ LET moved == by[r] = "old" /\ owner = "new"
                   n == CASE moved /\ "LostReplyAfterMove" \in Defects -> 0
                          [] moved /\ stream[r] = "queued" /\ "PublishedBeforeComplete" \in Defects -> 0
                          [] moved /\ ~route -> 0
                          [] moved /\ "ReplyTwice" \in Defects -> 2
                          [] OTHER -> 1
               IN /\ replies' = [replies EXCEPT ![r] = @ + n]
                  /\ lost' = (lost \/ n = 0)
                  \* each answer of an old stream is forwarded in its own message and looked up by the connection's id
                  /\ route' = IF moved /\ "ForwardedResponseConsumesRoute" \in Defects THEN FALSE ELSE route
            /\ order' = order
            /\ repliedAfterNotice' = (repliedAfterNotice \/ stop \in {"seen", "moved"})
            /\ IF proto = "http1" /\ closeFlag
                 THEN told' = TRUE /\ owner' = "closed"         \* "Connection: close", then the proxy closes
                 ELSE told' = told /\ owner' = owner
            /\ fresh' = FALSE
            /\ U(<<proto, stop, closeFlag, oldAlive, k, sent, rbuf, by, killed, follow>>)

(* ---- the switch *)
Stop == /\ stop = "no" /\ stop' = "called" /\ fresh' = TRUE
        /\ follow' \in {"next", "close"} /\ order' \in {"fifo", "lifo"} /\ route' = route
        /\ release' \in {"moved", "wire"}
        /\ Cardinality({r \in Reqs : stream[r] = "done"}) <= MaxDone
        /\ UNCHANGED <<proto, owner, closeFlag, oldAlive, k, sent, rbuf, stream, by, replies, told, repliedAfterNotice, lost, killed, bind, via, orphan>>

Notice == /\ stop = "called" /\ owner = "old"
          /\ stop' = "seen" /\ closeFlag' = (proto = "http1") /\ fresh' = FALSE /\ UNCHANGED <<route, order>>
          /\ U(<<proto, owner, oldAlive, k, sent, rbuf, stream, by, replies, told, repliedAfterNotice, lost, killed, follow>>)

\* old: the socket and the unread bytes leave through conn.sock; the read loop of the old process has ended, the new
\* process has not built its connection yet: nobody serves the socket until Lookup (the old process waits for its answer)
Transfer == /\ stop = "seen" /\ Transferable /\ owner = "old" /\ oldAlive
            /\ ~\E r \in Reqs : stream[r] = "part"       \* the write loop hands over between two writes
            /\ owner' = "wire"
            /\ rbuf' = IF "BufferNotShipped" \in Defects THEN <<>> ELSE rbuf
            /\ fresh' = FALSE /\ UNCHANGED <<route, order>>
            /\ U(<<proto, stop, closeFlag, oldAlive, k, sent, stream, by, replies, told, repliedAfterNotice, lost, killed, follow>>)

\* new: which of my listeners does this socket belong to?  All it has is the socket's local address - the concrete address
\* the client connected to - and the addresses its listeners were written with: the local address itself, then both
\* wildcards (a dual-stack listener written either way serves both families).
Local == via        \* "ip4" / "ip6" name the concrete loopback address of that family, as a bind form and as a local address
Candidates == IF "LookupLocalOnly" \in Defects THEN {Local}
              ELSE IF "LookupOwnFamilyWildcard" \in Defects THEN {Local, IF Local = "ip4" THEN "any4" ELSE "any6"}
              ELSE {Local} \cup Wildcards
Found == bind \in Candidates
Lookup == /\ owner = "wire"
          /\ orphan' = ~Found
          /\ IF ~Found \/ ("NewDropsBuffered" \in Defects /\ rbuf # <<>>)
               THEN \* no listener (or no connection built): id 0 goes back, the socket stays open in the leaving process
                    \* and nobody ever reads it again
                    owner' = "closed" /\ lost' = TRUE /\ stop' = stop
               ELSE owner' = "new" /\ lost' = lost /\ stop' = "moved"
          /\ fresh' = FALSE /\ route' = TRUE
          /\ UNCHANGED <<proto, closeFlag, oldAlive, k, sent, rbuf, stream, by, replies, told, repliedAfterNotice, killed, follow, order, bind, via, release>>

\* the old process leaves when its timers are up; the runs drive it there with nothing in progress
OldExit == /\ oldAlive /\ stop \in {"seen", "moved"} /\ ~Busy
           /\ ~Transferable \/ owner # "old" \/ "ExitBeforeTransfer" \in Defects
           /\ oldAlive' = FALSE
           /\ IF owner = "old" THEN owner' = "closed" /\ killed' = ~told ELSE owner' = owner /\ killed' = killed
           /\ fresh' = FALSE /\ UNCHANGED <<route, order>>
           /\ U(<<proto, stop, closeFlag, k, sent, rbuf, stream, by, replies, told, repliedAfterNotice, lost, follow>>)

Next == Send \/ ClientClose \/ Decode \/ Stop \/ Notice \/ Transfer \/ Lookup \/ OldExit \/ \E r \in Reqs : PartReply(r) \/ QueueReply(r) \/ Reply(r)
Spec == Init /\ [][Next]_vars

(* ---- properties *)
TypeOK == /\ proto \in Protos /\ owner \in {"old", "wire", "new", "closed"} /\ stop \in {"no", "called", "seen", "moved"}
          /\ sent \in 0..ReqLen /\ k \in 1..(MaxReq + 1)
          /\ bind \in Binds /\ via \in Vias /\ Reaches(bind, via)
\* the unconsumed bytes are exactly what the client has written of the current request, in order
BytesIntact == Held => rbuf = SeqTo(sent)
\* every request written before, during or after the move gets its own answer exactly once
OneReply == \A r \in Reqs : replies[r] <= 1 /\ (stream[r] = "done" /\ ~lost => replies[r] = 1)
NoLoss == ~lost
\* a transferable connection outlives the old process
HandedOver == (Transferable /\ ~oldAlive) => (owner # "closed" \/ follow = "close" \/ lost)
\* a connection that cannot move and answered a request after the stop was noticed is released, not killed
Released == ~(killed /\ repliedAfterNotice)
\* requests completed after the move belong to the new process, all others to the old one
DecodedBy == \A r \in Reqs : by[r] = "new" => (Transferable /\ stop = "moved")
\* a socket that left the old process belongs to a listener of the new one, however that listener is written and reached
Adopted == ~orphan

(* ---- case emission: the picture when StopConnection is called *)
Done == Cardinality({r \in Reqs : stream[r] = "done"})
CaseOf == [proto |-> proto, done |-> Done, inflight |-> Cardinality(InFlight),
           cut |-> IF sent \in 1..3 THEN sent ELSE 0,
           resp |-> \E r \in Reqs : stream[r] = "part",
           follow |-> follow, order |-> order, bind |-> bind, via |-> via, release |-> release]
Emit == (EmitCases /\ fresh /\ sent < ReqLen) => PrintT(<<"CASE", ToJson(CaseOf)>>)
====
