---- MODULE UpgradeTrace ----
(* Trace validation of real hot upgrades (the mosn binary, SIGHUP; process-level, no hooks) against Upgrade.tla.
   One run = one signal point (the same CASE lines of Shutdown.tla that drive the graceful-stop runs) with long-lived
   connections parked in their phases, plus a closed loop of short-lived connections during the whole switch.
   Events:
     run{id, proto, mode, sig, graceful_ms}   mode = complete (the parked requests go on right after the signal) |
                                              late (they go on 33 s later: after the hand-over, before the old process leaves)
     c.connect{c, ok, when}     "pre": long-lived connection before the signal; "during": a short-lived connect that FAILED
     c.phase / c.step / c.done  as in ShutdownTrace (requests in flight at the signal)
     signal{sig}                SIGHUP delivered to the old process
     c.req{kind, c, k, ok, final}   one complete request: kind short = on its own new connection; long = on a long-lived
                                connection after the signal; final = the one request made after the old process has left
     c.goneaway{c}              the proxy told the connection to stop (Connection: close / GOAWAY); the driver stops using it
     exit{elapsed_ms, err}      the old process has left
     quiesce{exited}
   Bound to Upgrade.tla: ost (running/forked/exited), conn[c].owner (old before the signal, new once a request
   succeeds after the old process has left, dead on failure), conn[c].sent (bytes of the current request on the wire:
   hdr = 1, body = 2, complete = 3), conn[c].pre. *)
EXTENDS Upgrade, VTrace

VARIABLES isX,        \* the run's protocol supports connection transfer (xprotocol)
          told        \* connections told to go away

tvars == <<vars, l, isX, told>>

NoConn == [owner |-> "none", sent |-> 0, rbuf |-> <<>>, consumed |-> <<>>, done |-> 0, lost |-> FALSE, pre |-> FALSE]
TraceInit == l = 1 /\ Init /\ isX = FALSE /\ told = {}

SentOf(ph) == CASE ph = "hdr" -> 1 [] ph = "body" -> 2 [] OTHER -> 3

TRun == /\ IsEvent("run")
        /\ ost' = "running" /\ nst' = "none" /\ acceptors' = {"old"} /\ waited' = FALSE
        /\ conn' = [c \in Conns |-> NoConn]
        /\ isX' = (Ev.proto = "bolt") /\ told' = {}

TConnect == /\ IsEvent("c.connect")
            \* AlwaysAcceptor: at every moment of the switch some process accepts
            /\ Expect(Ev.ok, "connect-refused-during-upgrade")
            /\ conn' = IF Ev.when = "pre" THEN [conn EXCEPT ![Ev.c] = [NoConn EXCEPT !.owner = "old"]] ELSE conn
            /\ UNCHANGED <<ost, nst, acceptors, waited, isX, told>>

TPhase == /\ IsEvent("c.phase")
          /\ conn' = [conn EXCEPT ![Ev.c].sent = SentOf(Ev.ph), ![Ev.c].pre = IF Ev.ph = "hdr" THEN ost = "running" ELSE @]
          /\ UNCHANGED <<ost, nst, acceptors, waited, isX, told>>

TStep == IsEvent("c.step") /\ UNCHANGED <<vars, isX, told>>

TDone == /\ IsEvent("c.done")
         \* NoLoss + BytesIntact seen from outside: the request in flight at the signal is answered, with the right
         \* token and the complete body at the upstream, whichever process owned the connection in the meantime
         /\ Expect(Ev.ok \/ ~conn[Ev.c].pre, "in-flight-request-failed")
         /\ conn' = [conn EXCEPT ![Ev.c].sent = 0, ![Ev.c].done = @ + 1, ![Ev.c].owner = IF Ev.ok THEN @ ELSE "dead"]
         /\ UNCHANGED <<ost, nst, acceptors, waited, isX, told>>

TSignal == /\ IsEvent("signal")
           /\ ost' = "forked" /\ nst' = "starting"
           /\ UNCHANGED <<acceptors, waited, conn, isX, told>>

TReq == /\ IsEvent("c.req")
        /\ IF Ev.kind = "short"
             THEN /\ Expect(Ev.ok, "new-connection-request-failed")
                  /\ conn' = conn
             ELSE \* long-lived: a transferable connection is served before, during and after the hand-over (HandedOver);
                  \* any other one is served by the old process for as long as that process is there
                  /\ Expect(Ev.ok \/ (~isX /\ ost = "exited"), IF isX THEN "handed-over-connection-request-failed" ELSE "old-connection-request-failed-while-draining")
                  /\ conn' = [conn EXCEPT ![Ev.c].done = @ + 1,
                                          ![Ev.c].owner = IF ~Ev.ok THEN "dead" ELSE IF ost = "exited" THEN "new" ELSE @]
        /\ UNCHANGED <<ost, nst, acceptors, waited, isX, told>>

TGoneAway == /\ IsEvent("c.goneaway") /\ told' = told \cup {Ev.c}
             /\ Expect(~isX, "transferable-connection-told-to-go-away")
             /\ UNCHANGED <<vars, isX>>

TExit == /\ IsEvent("exit")
         /\ ost' = "exited" /\ nst' = "ready" /\ acceptors' = {"new"} /\ waited' = TRUE
         /\ UNCHANGED <<conn, isX, told>>

TQuiesce == /\ IsEvent("quiesce")
            /\ Expect(Ev.exited /\ ost = "exited", "old-process-never-left")
            \* HandedOver: every long-lived transferable connection has answered a request after the old process left
            /\ Expect(~isX \/ \A c \in Conns : conn[c].owner \in {"none", "new"}, "connection-not-handed-over")
            /\ UNCHANGED <<vars, isX, told>>

TAbandon == IsEvent("abandon") /\ UNCHANGED <<vars, isX, told>>

TraceNext == TAbandon \/ TRun \/ TConnect \/ TPhase \/ TStep \/ TDone \/ TSignal \/ TReq \/ TGoneAway \/ TExit \/ TQuiesce
TraceSpec == TraceInit /\ [][TraceNext]_tvars
====
