CONSTANTS
  Conns <- TConns
  Defects = {}
  Emit = FALSE
SPECIFICATION TraceSpec
POSTCONDITION Accepted
CHECK_DEADLOCK FALSE
