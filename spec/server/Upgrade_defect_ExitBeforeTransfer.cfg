CONSTANTS
  Conns = {"c1", "c2"}
  Transferable = {"c1"}
  ReqLen = 2
  MaxReq = 2
  Defects = {"ExitBeforeTransfer"}
SPECIFICATION Spec
INVARIANTS TypeOK AlwaysAcceptor BytesIntact HandedOver NoLoss
CHECK_DEADLOCK FALSE
