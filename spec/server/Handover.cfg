CONSTANTS
  Protos = {"bolt", "http1"}
  MaxReq = 3
  Defects = {}
  EmitCases = FALSE
SPECIFICATION Spec
INVARIANTS TypeOK BytesIntact OneReply NoLoss HandedOver Released DecodedBy
CHECK_DEADLOCK FALSE
