CONSTANTS
  Conns = {"c1", "c2", "c3", "p"}
  MaxReq = 100
  DrainTicks = 1
  Defects = {}
  EmitCases = FALSE
SPECIFICATION TraceSpec
POSTCONDITION Accepted
CHECK_DEADLOCK FALSE
