---- MODULE MosnTrace ----
(* System-level trace validation of an in-process MOSN under traffic while its route table and host sets
   are being replaced (hooks router.publish.*, cluster.publish.*, ds.new, ds.route, us.attempt, ds.reply + clients).
     run{routes:[c0], hosts:{A:[..],B:[..]}}   initial configuration (TraceReset)
     rbegin{c} / rend{}             a route table routing everything to cluster c is being / was published
     hbegin{c,hosts} / hend{c}      a host set of cluster c is being / was published
     new{rid}  route{rid,c}  attempt{rid,host,res}  reply{rid,code}  cdone{rid,status,upstream}
   A request may have been routed by any table version from the last one completely published when it
   was accepted to the last one begun when it was routed; its host must be a member of a version of the
   routed cluster's host set that was live at some moment between its acceptance and the attempt (the
   route event is emitted after the snapshot was read, so the window opens at `new`, not at `route`). *)
EXTENDS Integers, Sequences, FiniteSets, TLC, VTrace

VARIABLES rt, rdone, hs, hdone, racc, rcl, hacc
vars == <<rt, rdone, hs, hdone, racc, rcl, hacc>>
tvars == <<vars, l>>
S(seq) == { seq[i] : i \in DOMAIN seq }
Dom(f) == DOMAIN f
Upd(f, k, v) == [x \in DOMAIN f \cup {k} |-> IF x = k THEN v ELSE f[x]]
Drop(f, k) == [x \in DOMAIN f \ {k} |-> f[x]]
E == [x \in {} |-> 0]

TraceInit == l = 1 /\ rt = <<>> /\ rdone = 0 /\ hs = E /\ hdone = E /\ racc = E /\ rcl = E /\ hacc = E

TRun == /\ IsEvent("run")
        /\ rt' = << Ev.route >> /\ rdone' = 1
        /\ hs' = [c \in DOMAIN Ev.hosts |-> << S(Ev.hosts[c]) >>]
        /\ hdone' = [c \in DOMAIN Ev.hosts |-> 1]
        /\ racc' = E /\ rcl' = E /\ hacc' = E
TRBegin == IsEvent("rbegin") /\ rt' = Append(rt, Ev.c) /\ UNCHANGED <<rdone, hs, hdone, racc, rcl, hacc>>
TREnd == IsEvent("rend") /\ rdone' = Len(rt) /\ UNCHANGED <<rt, hs, hdone, racc, rcl, hacc>>
THBegin == /\ IsEvent("hbegin") /\ Ev.c \in DOMAIN hs
           /\ hs' = [hs EXCEPT ![Ev.c] = Append(@, S(Ev.hosts))]
           /\ UNCHANGED <<rt, rdone, hdone, racc, rcl, hacc>>
THEnd == /\ IsEvent("hend") /\ Ev.c \in DOMAIN hs
         /\ hdone' = [hdone EXCEPT ![Ev.c] = Len(hs[Ev.c])]
         /\ UNCHANGED <<rt, rdone, hs, racc, rcl, hacc>>
TNew == /\ IsEvent("new") /\ racc' = Upd(racc, Ev.rid, rdone) /\ hacc' = Upd(hacc, Ev.rid, hdone)
        /\ UNCHANGED <<rt, rdone, hs, hdone, rcl>>
TRoute == /\ IsEvent("route")
          /\ Expect(Ev.rid \in DOMAIN racc /\ \E v \in racc[Ev.rid]..Len(rt) : rt[v] = Ev.c, "routed-by-no-live-table-version")
          /\ rcl' = Upd(rcl, Ev.rid, Ev.c)
          /\ UNCHANGED <<rt, rdone, hs, hdone, racc, hacc>>
TAttempt == /\ IsEvent("attempt")
            /\ Expect(Ev.rid \in DOMAIN rcl /\ rcl[Ev.rid] \in DOMAIN hs /\
                      \E v \in hacc[Ev.rid][rcl[Ev.rid]]..Len(hs[rcl[Ev.rid]]) : Ev.host \in hs[rcl[Ev.rid]][v],
                      "sent-to-non-member-of-live-host-set")
            /\ Expect(Ev.res = "sent", "attempt-failed-during-update")
            /\ UNCHANGED vars
TReply == /\ IsEvent("reply")
          /\ Expect(Ev.code = 200, "request-failed-during-update")
          /\ racc' = Drop(racc, Ev.rid) /\ rcl' = Drop(rcl, Ev.rid) /\ hacc' = Drop(hacc, Ev.rid)
          /\ UNCHANGED <<rt, rdone, hs, hdone>>
TCDone == /\ IsEvent("cdone")
          /\ Expect(Ev.status = 200, "client-saw-failure-during-update")
          /\ UNCHANGED vars
TNote == IsEvent("note") /\ UNCHANGED vars
TraceNext == TRun \/ TRBegin \/ TREnd \/ THBegin \/ THEnd \/ TNew \/ TRoute \/ TAttempt \/ TReply \/ TCDone \/ TNote
TraceSpec == TraceInit /\ [][TraceNext]_tvars
====
