---- MODULE Mosn ----
(* Root of the specification tree: a coarse end-to-end composition of the data plane
       listener -> proxy (RequestLifecycle) -> route table (ConfigStore/RouteMatch) -> cluster snapshot
       (Snapshot/LBChoice) -> upstream host -> reply
   under runtime updates of the route table and of the host sets.  It states what the composition
   must guarantee beyond the component properties (last clause of C12, membership clause of C05, the
   reply clause of C03): every request is routed by ONE published version of the route table, sent to a
   member of ONE published version of the chosen cluster's host set, both live while the request was
   being handled, and it is answered by that host - an update never makes a request fail.

   Module map (which code each module of the tree covers):
     lifecycle/RequestLifecycle, DownstreamImpl, Scenarios   pkg/proxy/{downstream,upstream,retrystate}.go
     lifecycle/FilterChain*                                  pkg/streamfilter, pkg/proxy/streamfilters.go
     router/VHost*, Route*, WeightedCluster, RouteAction*    pkg/router/*
     cluster/LBChoice, Snapshot, Edf, Subset, Breaker*, Health*   pkg/upstream/cluster/*, pkg/upstream/healthcheck/*
     pool/*                                                  pkg/stream/{http,xprotocol,http2}/connpool*.go
     stream/XStreamConn*                                     pkg/stream/xprotocol/{conn,stream}.go, pkg/stream/client.go
     wire/*                                                  pkg/protocol/xprotocol/*, pkg/module/http2/*
     config/ConfigStore, ConfigSwap, ConfigDump, ConfigRedact pkg/configmanager, pkg/router/routers_manager.go,
                                                             pkg/upstream/cluster/cluster_manager.go, pkg/admin
     tls/TLSSelect                                           pkg/mtls
     server/Shutdown, Upgrade, Containment                   pkg/server, pkg/network, pkg/stagemanager
     system/Mosn (this module)                               the composition, validated on the in-process MOSN *)
EXTENDS Integers, Sequences, FiniteSets, TLC

CONSTANTS Reqs,       \* request ids
          Clusters,   \* cluster names
          Hosts,      \* host names
          MaxVer,     \* number of publications explored per table
          Defects     \* {} | {"RouteThenLookupByName"} : the proxy keeps only the cluster NAME from the route match and
                      \*      looks the cluster up again when choosing the host (two reads instead of one snapshot)

None == "none"
VARIABLES rt,        \* sequence of published route-table versions: each a cluster name
          hs,        \* cluster -> sequence of published host-set versions: each a set of hosts
          removed,   \* clusters removed from the cluster manager
          st,        \* request -> "idle" | "accepted" | "routed" | "sent" | "replied"
          rcl,       \* request -> cluster chosen by the route match (None = no route)
          rsnap,     \* request -> version index of the host set snapshot taken at route time
          rhost,     \* request -> host the request was sent to
          code,      \* request -> reply code
          rlo, hlo   \* ghost: versions current when the request was accepted / routed
vars == <<rt, hs, removed, st, rcl, rsnap, rhost, code, rlo, hlo>>

Init == /\ rt = << CHOOSE c \in Clusters : TRUE >>
        /\ hs = [c \in Clusters |-> << Hosts >>]
        /\ removed = {}
        /\ st = [r \in Reqs |-> "idle"] /\ rcl = [r \in Reqs |-> None] /\ rsnap = [r \in Reqs |-> 0]
        /\ rhost = [r \in Reqs |-> None] /\ code = [r \in Reqs |-> 0]
        /\ rlo = [r \in Reqs |-> 0] /\ hlo = [r \in Reqs |-> 0]

PublishRoute(c) == /\ Len(rt) < MaxVer /\ rt' = Append(rt, c)
                   /\ UNCHANGED <<hs, removed, st, rcl, rsnap, rhost, code, rlo, hlo>>
PublishHosts(c, S) == /\ Len(hs[c]) < MaxVer /\ S # {} /\ hs' = [hs EXCEPT ![c] = Append(@, S)]
                      /\ UNCHANGED <<rt, removed, st, rcl, rsnap, rhost, code, rlo, hlo>>

Accept(r) == /\ st[r] = "idle" /\ st' = [st EXCEPT ![r] = "accepted"]
             /\ rlo' = [rlo EXCEPT ![r] = Len(rt)]
             /\ UNCHANGED <<rt, hs, removed, rcl, rsnap, rhost, code, hlo>>
(* route match: ONE read of the route table, and the cluster snapshot is taken in the same step *)
Route(r) == /\ st[r] = "accepted"
            /\ LET c == rt[Len(rt)] IN
                 /\ rcl' = [rcl EXCEPT ![r] = c]
                 /\ rsnap' = [rsnap EXCEPT ![r] = Len(hs[c])]
                 /\ hlo' = [hlo EXCEPT ![r] = Len(hs[c])]
            /\ st' = [st EXCEPT ![r] = "routed"]
            /\ UNCHANGED <<rt, hs, removed, rhost, code, rlo>>
Send(r) == /\ st[r] = "routed"
           /\ LET c == rcl[r]
                  v == IF "RouteThenLookupByName" \in Defects THEN Len(hs[c]) ELSE rsnap[r] IN
                \E h \in hs[c][v] : rhost' = [rhost EXCEPT ![r] = h]
           /\ st' = [st EXCEPT ![r] = "sent"]
           /\ UNCHANGED <<rt, hs, removed, rcl, rsnap, code, rlo, hlo>>
Reply(r) == /\ st[r] = "sent" /\ st' = [st EXCEPT ![r] = "replied"] /\ code' = [code EXCEPT ![r] = 200]
            /\ UNCHANGED <<rt, hs, removed, rcl, rsnap, rhost, rlo, hlo>>

Next == \/ \E c \in Clusters : PublishRoute(c)
        \/ \E c \in Clusters, S \in SUBSET Hosts : PublishHosts(c, S)
        \/ \E r \in Reqs : Accept(r) \/ Route(r) \/ Send(r) \/ Reply(r)
Spec == Init /\ [][Next]_vars

(* ---- composition properties ---- *)
RoutedByLiveVersion == \A r \in Reqs : st[r] \in {"routed", "sent", "replied"} =>
                          \E v \in rlo[r]..Len(rt) : rt[v] = rcl[r]
(* the host belongs to the very snapshot taken with the route decision *)
SentToSnapshotMember == \A r \in Reqs : st[r] \in {"sent", "replied"} => rhost[r] \in hs[rcl[r]][rsnap[r]]
NeverFailsBecauseOfUpdate == \A r \in Reqs : st[r] = "replied" => code[r] = 200
====
