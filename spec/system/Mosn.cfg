CONSTANTS
  Reqs = {r1, r2}
  Clusters = {"A", "B"}
  Hosts = {"h1", "h2"}
  MaxVer = 3
  Defects = {}
SPECIFICATION Spec
INVARIANTS RoutedByLiveVersion SentToSnapshotMember NeverFailsBecauseOfUpdate
CHECK_DEADLOCK FALSE
