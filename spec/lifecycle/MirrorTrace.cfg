CONSTANTS
  Defects = {}
  Emit = FALSE
  Policies = {}
  MirrorKinds = {}
  Shapes = {}
  Muts = {}
  MaxLen = 0
SPECIFICATION TraceSpec
POSTCONDITION Accepted
CHECK_DEADLOCK FALSE
