CONSTANTS
  MaxLen = 2
  MaxReentry = 2
  Envs = {"ok", "retry503", "close", "aterm", "lterm"}
  Defects = {}
INIT Init
NEXT Next
INVARIANT Emit
CHECK_DEADLOCK FALSE
