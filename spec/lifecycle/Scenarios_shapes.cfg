INIT InitShapes
NEXT Next
INVARIANT Emit
CHECK_DEADLOCK FALSE
