---- MODULE FilterChain ----
(* Stream-filter chain of one downstream request (C14), in the shape of the implementation:
     pkg/streamfilter/chain.go   RunReceiverFilter / RunSenderFilter and their cursors,
     pkg/proxy/downstream.go     the phase machine `receive`, `processError` (directResponse, setupRetry,
                                 receiverFiltersAgainPhase), receiverFilterStatusHandler,
     pkg/proxy/streamfilters.go  SendHijackReply / SendDirectResponse / TerminateStream.
   One action per observable decision: an invocation of a filter, an upstream attempt, the upstream's answer
   (or reset, or an asynchronous TerminateStream), the reply, the end.  Steps without an observable effect
   (route matching, host selection, passes over phases without filters) are folded into `Settle`.

   chain   : slot -> kind, configured order.  "B" BeforeRoute, "R" AfterRoute, "H" AfterChooseHost receive filter,
             "S" send filter
   env     : what the request meets behind the proxy
             "ok"        route with retry_on, upstream answers 200
             "retry503"  route with retry_on, upstream answers 503 then 200
             "close"     route without retry, upstream closes the connection (local 502)
             "aterm"     upstream holds the request; a filter's handler calls TerminateStream meanwhile
             "lterm"     upstream answers 200; TerminateStream is called after the request has ended
             "atermA"    guided schedule: the upstream's answer is held at the gate us.recv.guard (before the proxy's
                         response CAS) while TerminateStream is called: the termination wins, the answer is dropped
             "atermB"    guided schedule: the upstream's answer has won the CAS and the woken worker is held at the gate
                         ds.woken while TerminateStream is called: it must be refused, the client gets the 200
             "atermC"    guided schedule: the upstream is silent, the global timeout (150 ms) fires and its callback is
                         held right after it won the response CAS (gate ds.gtimer.cas) while TerminateStream is called:
                         it must be refused, the client gets the single timeout reply (504)
             "atermD"    guided schedule: TerminateStream succeeds while the upstream is silent, the woken worker is held
                         (gate ds.woken) until the upstream's late answer has arrived and been dropped, then it goes on:
                         the client gets the termination reply (598), unaffected by the dropped answer
             "rterm"     route with retry_on, upstream answers 503 (retried), then holds the second attempt; TerminateStream
                         is called through a filter's handler while attempt 2 is in flight; then the upstream answers 200
             "rtermT"    as rterm, but the upstream stays silent: the request ends by the global timeout (504)
             In both TerminateStream either takes the request over (its reply is the single reply) or declines
             WITHOUT side effect (the request then ends by the attempt's answer / the timeout).
   oneway  : the request is a one-way request (xprotocol one-way frame): no reply is ever sent; a local reply of a
             filter ends the request silently; everything else (order, once per pass, denied => never forwarded) holds
   verdicts of a receive filter (chosen by TLC per invocation = the verdict script of the filter):
             c continue | s stop | t termination | hs hijack+stop | hc hijack+continue | d direct response+stop |
             ts TerminateStream then stop | ac TerminateStream from another goroutine, then continue |
             rm re-match route | rc re-choose host: honoured only when returned in the AfterRoute resp. AfterChooseHost
             pass (receiverFilterStatusHandler); returned in any other receive phase the verdict is invalid: the pass
             ends there (as for stop), nothing is re-entered, and the next pass starts at the first filter again
   verdicts of a send filter: c | s | t *)
EXTENDS Integers, Sequences, FiniteSets, TLC, Json

CONSTANTS MaxLen,      \* longest chain
          MaxReentry,  \* re-match/re-choose requests per request (the task loop of the proxy has 10 iterations)
          Envs,        \* environments explored
          Defects      \* {} = intended design; named deviations, each must be rejected by TLC

Kinds     == {"B", "R", "H", "S"}
RecvKinds == {"B", "R", "H"}
Chains    == UNION { [1..n -> Kinds] : n \in 0..MaxLen }

VARIABLES chain, env,
          oneway,    \* one-way request
          declined,  \* ghost: TerminateStream was called while a later attempt was in flight and declined
          real,      \* [slot, code]: a real security filter sits at this slot and answers with its own code (slot 0 = none)
          ph,        \* what is due: "B" "R" "H" a receive pass | "F" upstream attempt | "W" waiting for the upstream |
                     \* "S" send pass | "P" reply | "C" clean | "E" ended
          cur,       \* receiverFiltersIndex (1-based slot index; send slots never match a receive phase)
          scur,      \* senderFiltersIndex
          again,     \* receiverFiltersAgainPhase: "none" | "R" (after re-match) | "H" (after re-choose)
          direct,    \* code of the pending local reply set by a filter in this pass (0 = none)
          pend,      \* response on its way to the client: [code, local] (code 0 = none)
          hostChosen,\* chooseHost ran (retry state exists)
          log,       \* call log: sequence of [slot, v, pass]
          pass,      \* number of the current pass (one RunReceiverFilter / RunSenderFilter call)
          marks,     \* send slots invoked in the current send pass
          fwd,       \* upstream attempts
          replies, reply,
          reentries, \* re-match / re-choose requests honoured
          alt,       \* a re-match was requested (the filter also switched the request to the alternative route)
          denied,    \* ghost: a receive filter answered or terminated the request before it was forwarded
          answer,    \* ghost: code of the last answer of a receive filter (0 = none)
          term,      \* a filter returned termination
          resumeAt,  \* ghost: slot that requested the re-entry (0 = none)
          bad        \* ghost: set of violated step properties
vars == <<chain, env, real, oneway, declined, ph, cur, scur, again, direct, pend, hostChosen, log, pass, marks, fwd, replies, reply,
          reentries, alt, denied, answer, term, resumeAt, bad>>

Budget == 3   \* retryState: max(3, num_retries)
RetryRoute(e) == e # "close"
UpCode(e, n) == IF e \in {"retry503", "rterm", "rtermT"} /\ n = 1 THEN 503 ELSE 200

(* codes identify the answering filter *)
HijackCode(i) == IF real.slot = i THEN real.code ELSE 560 + i
DirectCode(i) == 440 + i
TermCode(i)   == 570 + i
ATermCode(i)  == 580 + i
AsyncCode     == 598
ResetCode(e)  == IF e \in {"atermC", "rtermT"} THEN 504 ELSE 502

RecvVerdicts(k) == {"c", "s", "t", "hs", "hc", "d", "ts", "ac", "rm", "rc"}
(* is a re-entry verdict honoured in phase p? *)
Honoured(v, p) == \/ v = "rm" /\ (p = "R" \/ (p = "H" /\ "ReMatchHonouredAfterChooseHost" \in Defects))
                  \/ v = "rc" /\ p = "H"
SendVerdicts    == {"c", "s", "t"}
(* only the "ok" environment explores answering filters: the others need the request to reach the upstream *)
Allowed(e, k) == IF e = "ok" THEN RecvVerdicts(k)
                 ELSE {"c", "s"} \cup { v \in {"rm", "rc"} : Honoured(v, k) }

Succ(p) == CASE p = "B" -> "R" [] p = "R" -> "H" [] p = "H" -> "F" [] OTHER -> "F"

(* next filter of phase p at or after cursor c; 0 = none *)
NextIn(ch, p, c) == LET S == { i \in DOMAIN ch : i >= c /\ ch[i] = p } IN
                    IF S = {} THEN 0 ELSE CHOOSE i \in S : \A j \in S : i <= j

(* skip phases without (remaining) filters: a pass that finds nothing to run resets the cursor *)
RECURSIVE Settle(_, _, _)
Settle(ch, p, c) == IF p = "F" THEN [ph |-> "F", cur |-> 1]
                    ELSE IF NextIn(ch, p, c) # 0 THEN [ph |-> p, cur |-> c]
                    ELSE Settle(ch, Succ(p), 1)

Init == /\ chain \in Chains /\ env \in Envs /\ real = [slot |-> 0, code |-> 0]
        /\ oneway \in BOOLEAN /\ (oneway => env = "ok") /\ declined = FALSE
        /\ env \in {"aterm", "atermA", "atermB", "atermC", "atermD", "rterm", "rtermT"} => \E i \in DOMAIN chain : chain[i] \in RecvKinds
        /\ LET s == Settle(chain, "B", 1) IN ph = s.ph /\ cur = s.cur
        /\ scur = 1 /\ again = "none" /\ direct = 0 /\ pend = [code |-> 0, local |-> FALSE] /\ hostChosen = FALSE
        /\ log = <<>> /\ pass = 1 /\ marks = {} /\ fwd = 0 /\ replies = 0 /\ reply = 0 /\ reentries = 0 /\ alt = FALSE
        /\ denied = FALSE /\ answer = 0 /\ term = FALSE /\ resumeAt = 0 /\ bad = {}

(* ---- the send side ---- *)
(* after the send pass: retry the upstream, or reply *)
AfterSend(pd, ag, c, hc) ==
    IF "AgainSurvivesLocalReply" \in Defects /\ ag # "none"
      THEN LET s == Settle(chain, ag, c) IN [ph |-> s.ph, cur |-> s.cur, again |-> "none"]
    ELSE IF pd.code >= 500 /\ RetryRoute(env) /\ fwd < 1 + Budget
            /\ (~pd.local \/ ("LocalReplyRetried" \in Defects /\ hc))
      THEN [ph |-> "F", cur |-> c, again |-> ag]
    ELSE [ph |-> "P", cur |-> c, again |-> ag]

(* a response (upstream's or local) enters the send phase *)
EnterSend(pd, ag, c, hc) ==
    IF pd.local /\ "SkipSendOnLocalReply" \in Defects THEN [ph |-> "P", cur |-> c, again |-> ag, np |-> pass]
    ELSE IF NextIn(chain, "S", 1) # 0 THEN [ph |-> "S", cur |-> c, again |-> ag, np |-> pass + 1]
    ELSE AfterSend(pd, ag, c, hc) @@ [np |-> pass]

(* ---- the receive side ---- *)
(* processError after a receive pass of phase p: pending local reply, re-entry, or the next phase *)
AfterRecv(p, c, ag, dir, hc) ==
    IF dir # 0 /\ "DirectNotShortCircuit" \notin Defects /\ oneway
      THEN [ph |-> "C", cur |-> c, again |-> "none", np |-> pass]      \* nobody waits for an answer: the request just ends
    ELSE IF dir # 0 /\ "DirectNotShortCircuit" \notin Defects
      THEN EnterSend([code |-> dir, local |-> TRUE],
                     IF "AgainSurvivesLocalReply" \in Defects THEN ag ELSE "none", c, hc)
    ELSE IF ag # "none"
      THEN LET s == Settle(chain, ag, c) IN [ph |-> s.ph, cur |-> s.cur, again |-> "none", np |-> pass + 1]
    ELSE LET s == Settle(chain, Succ(p), c) IN [ph |-> s.ph, cur |-> s.cur, again |-> "none", np |-> pass + 1]

CanCallRecv(i, v) == /\ ph \in RecvKinds /\ i = NextIn(chain, ph, cur) /\ i # 0
                     /\ v \in Allowed(env, chain[i])
                     /\ (v \in {"rm", "rc"} /\ Honoured(v, ph)) => reentries < MaxReentry

(* does TerminateStream succeed? not after response headers were set *)
TermOk == direct = 0 /\ pend.code = 0

DoCallRecv(i, v) ==
    LET p      == ph
        hc     == hostChosen \/ p = "H"          \* chooseHost ran before the AfterChooseHost pass
        answers == v \in {"hs", "hc", "d"} \/ (v \in {"ts", "ac"} /\ TermOk)
        code   == CASE v \in {"hs", "hc"} -> HijackCode(i) [] v = "d" -> DirectCode(i)
                    [] v = "ts" -> TermCode(i) [] v = "ac" -> ATermCode(i) [] OTHER -> 0
        \* the answer is recorded as the pending local reply (what stops the request from being forwarded)
        sets   == answers /\ ~(oneway /\ "OnewayLocalReplyIgnored" \in Defects /\ v \in {"hs", "hc", "d"})
        dir    == IF sets THEN code ELSE direct
        stay   == v \in {"rm", "rc"} /\ Honoured(v, p)
        invalid == v \in {"rm", "rc"} /\ ~Honoured(v, p)     \* ends the pass; chain.go returns without acting on it
        goesOn == v \in {"c", "hc", "ac"} /\ NextIn(chain, p, i + 1) # 0
        c      == IF goesOn THEN i + 1
                  ELSE IF stay THEN (IF "CursorResetOnReentry" \in Defects THEN 1 ELSE i)
                  ELSE IF invalid /\ "InvalidReentryKeepsCursor" \in Defects THEN i
                  ELSE 1
        ag     == CASE stay /\ v = "rm" -> "R" [] stay /\ v = "rc" -> "H" [] OTHER -> again
        nx     == AfterRecv(p, c, ag, dir, hc)
    IN
    /\ log' = Append(log, [slot |-> i, v |-> v, pass |-> pass])
    /\ bad' = bad \cup (IF resumeAt # 0 /\ i # resumeAt THEN {"reentry-did-not-resume-at-requesting-filter"} ELSE {})
                  \cup (IF ~goesOn /\ ~stay /\ v # "t" /\ c # 1 THEN {"next-pass-does-not-start-at-the-first-filter"} ELSE {})
    /\ resumeAt' = IF stay THEN i ELSE 0
    /\ reentries' = IF stay THEN reentries + 1 ELSE reentries
    /\ alt' = (alt \/ (v = "rm" /\ (stay \/ p = "B")))   \* the filter also rewrote the header the route is matched on
    /\ hostChosen' = hc
    /\ denied' = (denied \/ (fwd = 0 /\ (answers \/ v = "t")))
    /\ answer' = IF answers THEN code ELSE answer
    /\ term' = (term \/ v = "t")
    /\ marks' = {}
    /\ UNCHANGED <<chain, env, real, oneway, declined, scur, fwd, replies, reply>>
    /\ IF v = "t"
         THEN /\ ph' = "C" /\ cur' = 1 /\ direct' = dir /\ again' = again /\ pend' = pend /\ pass' = pass
         ELSE IF goesOn
         THEN /\ ph' = p /\ cur' = c /\ direct' = dir /\ again' = ag /\ pend' = pend /\ pass' = pass
         ELSE /\ ph' = nx.ph /\ cur' = nx.cur /\ again' = nx.again /\ pass' = nx.np
              /\ direct' = IF dir # 0 /\ "DirectNotShortCircuit" \notin Defects THEN 0 ELSE dir
              /\ pend' = IF dir # 0 /\ "DirectNotShortCircuit" \notin Defects THEN [code |-> dir, local |-> TRUE] ELSE pend

CallRecv(i, v) == CanCallRecv(i, v) /\ DoCallRecv(i, v)

CanForward == ph = "F"
DoForward == /\ fwd' = fwd + 1 /\ ph' = (IF oneway THEN "C" ELSE "W") /\ hostChosen' = TRUE
             /\ UNCHANGED <<chain, env, real, oneway, declined, cur, scur, again, direct, pend, log, pass, marks, replies, reply, reentries, alt,
                            denied, answer, term, resumeAt, bad>>
Forward == CanForward /\ DoForward

(* something ends the wait: the upstream's response, its reset, or an asynchronous TerminateStream *)
Response(pd) == LET nx == EnterSend(pd, again, cur, hostChosen) IN
                /\ ph' = nx.ph /\ cur' = nx.cur /\ again' = nx.again /\ pass' = nx.np /\ pend' = pd /\ marks' = {} /\ scur' = 1
                /\ UNCHANGED <<chain, env, real, oneway, declined, direct, hostChosen, log, fwd, replies, reply, reentries, alt, denied, answer, term, resumeAt, bad>>
(* the defect of a declined TerminateStream that keeps the response flag: nothing can end the wait any more *)
Stuck      == declined /\ "DeclinedTerminateKeepsResponseFlag" \in Defects
CanUpResp  == ph = "W" /\ ~Stuck /\ (env \in {"ok", "retry503", "lterm", "atermB", "rterm"} \/ (env = "rtermT" /\ fwd = 1))
UpResp     == CanUpResp /\ Response([code |-> UpCode(env, fwd), local |-> FALSE])
CanUpReset == ph = "W" /\ ~Stuck /\ (env \in {"close", "atermC"} \/ (env = "rtermT" /\ fwd >= 2))
UpReset    == CanUpReset /\ Response([code |-> ResetCode(env), local |-> TRUE])
HasRecv    == \E i \in DOMAIN chain : chain[i] \in RecvKinds
LaterAttempt == env \in {"rterm", "rtermT"} /\ fwd >= 2 /\ ~declined
CanATerm   == ph = "W" /\ (env \in {"aterm", "atermA", "atermD"} \/ LaterAttempt) /\ HasRecv
ATerm      == CanATerm /\ Response([code |-> AsyncCode, local |-> TRUE])
(* TerminateStream during a later attempt may decline; that must leave the request as it was *)
CanATermDecline == ph = "W" /\ LaterAttempt /\ HasRecv
DoATermDecline  == /\ declined' = TRUE
                   /\ UNCHANGED <<chain, env, real, oneway, ph, cur, scur, again, direct, pend, hostChosen, log, pass, marks, fwd,
                                  replies, reply, reentries, alt, denied, answer, term, resumeAt, bad>>
ATermDecline    == CanATermDecline /\ DoATermDecline

CanCallSend(i, v) == ph = "S" /\ i = NextIn(chain, "S", scur) /\ i # 0 /\ v \in SendVerdicts
DoCallSend(i, v) ==
    LET goesOn == v = "c" /\ NextIn(chain, "S", i + 1) # 0
        nx     == AfterSend(pend, again, cur, hostChosen) IN
    /\ log' = Append(log, [slot |-> i, v |-> v, pass |-> pass])
    /\ marks' = marks \cup {i}
    /\ term' = (term \/ v = "t")
    /\ UNCHANGED <<chain, env, real, oneway, declined, direct, pend, hostChosen, fwd, replies, reply, reentries, alt, denied, answer, resumeAt, bad>>
    /\ IF v = "t" THEN ph' = "C" /\ scur' = 1 /\ UNCHANGED <<cur, again, pass>>
       ELSE IF goesOn THEN ph' = "S" /\ scur' = i + 1 /\ UNCHANGED <<cur, again, pass>>
       ELSE ph' = nx.ph /\ cur' = nx.cur /\ again' = nx.again /\ scur' = 1 /\ pass' = pass + 1
CallSend(i, v) == CanCallSend(i, v) /\ DoCallSend(i, v)

CanReply == ph = "P"
DoReply == /\ replies' = replies + 1 /\ reply' = pend.code /\ ph' = "C"
           /\ UNCHANGED <<chain, env, real, oneway, declined, cur, scur, again, direct, pend, hostChosen, log, pass, marks, fwd, reentries, alt,
                          denied, answer, term, resumeAt, bad>>
Reply == CanReply /\ DoReply

CanClean == ph = "C"
DoClean == /\ ph' = "E"
           /\ UNCHANGED <<chain, env, real, oneway, declined, cur, scur, again, direct, pend, hostChosen, log, pass, marks, fwd, replies, reply,
                          reentries, alt, denied, answer, term, resumeAt, bad>>
Clean == CanClean /\ DoClean

Next == \/ \E i \in 1..MaxLen, v \in RecvVerdicts("R") \cup RecvVerdicts("H") : CallRecv(i, v)
        \/ \E i \in 1..MaxLen, v \in SendVerdicts : CallSend(i, v)
        \/ Forward \/ UpResp \/ UpReset \/ ATerm \/ ATermDecline \/ Reply \/ Clean
Spec == Init /\ [][Next]_vars

(* ---- the property ---- *)
(* order, and at most once per pass: within a pass the slots are strictly increasing *)
OrderedOncePerPass == \A j, k \in DOMAIN log : (j < k /\ log[j].pass = log[k].pass) => log[j].slot < log[k].slot
(* passes visit the phases in the configured order of the phases, except for honoured re-entries *)
ReentryResumes == "reentry-did-not-resume-at-requesting-filter" \notin bad
(* no receive filter is skipped: a pass that is not a honoured re-entry starts at the first filter *)
NoFilterSkipped == "next-pass-does-not-start-at-the-first-filter" \notin bad
(* a receive filter that answered or terminated before forwarding: no upstream attempt, ever *)
DeniedNeverForwarded == denied => fwd = 0
AtMostOneReply == replies <= 1
(* the filter's answer is the reply, and it went through the send filters: every send filter up to the first that
   stopped ran exactly once for it *)
SendPrefix == LET S == { i \in DOMAIN chain : chain[i] = "S" }
                  stoppers == { log[j].slot : j \in { x \in DOMAIN log : log[x].pass = pass - 1 /\ chain[log[x].slot] = "S" /\ log[x].v # "c" } }
              IN IF stoppers = {} THEN S ELSE { i \in S : \A z \in stoppers : i <= z }
AnswerIsTheReply == (replies = 1 /\ denied /\ answer # 0) => reply = answer
ReplyWentThroughSendFilters == (ph = "C" /\ replies = 1) => marks = SendPrefix
TerminatedNeverReplies == (term /\ ph = "E") => replies = 0
EndsWithReplyOrTermination == ph = "E" => (replies = 1 \/ term \/ oneway)
(* a one-way request is never answered and never passes the send filters *)
OnewayNeverReplies == oneway => (replies = 0 /\ \A j \in DOMAIN log : chain[log[j].slot] # "S")
(* a declined TerminateStream has no side effect: what ends the wait is still possible *)
DeclineHasNoEffect == (ph = "W" /\ declined) => (CanUpResp \/ CanUpReset)

(* ---- case emission: one case per complete behaviour; the call log is the verdict script ---- *)
Case == [chain |-> chain, env |-> env, oneway |-> oneway, script |-> [j \in DOMAIN log |-> [slot |-> log[j].slot, v |-> log[j].v]],
         fwd |-> fwd, reply |-> reply, replies |-> replies]
Emit == ph = "E" => PrintT(<<"CASE", ToJson(Case)>>)
====
