---- MODULE MirrorTrace ----
(* Trace validation of real requests through the REAL mirror stream filter of an in-process MOSN (driver
   harness/cmd/mirror) against Mirror.  One event per case of Mirror's case stream:
     case{pol, mk, ps, rt, shape, mut, ord, cp, name, g, hangs, gap, obs}
        the route of the listener was replaced by one with the case's mirror policy (cluster as mk says), retry policy
        and request actions; one request of the case's shape was sent; the schedule class <ord, cp> was steered (gated
        hosts, verifhook gates us.recv.guard / ds.pe, the driver's own filter behind the mirror filter).  obs = what was
        observed:
          kind, status, role, body, extra   what the client got: "response" and its status, the role (P primary / M mirror)
                                    of the host that produced it, octets that followed the complete reply
          lat                       ms from the moment the primary flow was free to run (request sent / last hold released)
                                    to the reply;  g, hangs: the route's timeout, and whether a primary host never answers
          natt, nreply, nclean      hook events us.attempt / ds.reply / ds.clean of the request
          active, cleaned           the listener's request_active gauge afterwards; ds.clean was seen
          parr, marr                what the primary hosts / the mirror hosts received with the request's token until the
                                    END of the whole run: method, path and query classes, host, the watched headers
                                    (x-a sent by the client and removed by the route / the later filter, x-act added by
                                    the route, x-late added by the later filter), body class, client headers lost
          mreq, mact                the mirror cluster's request resource and active-request gauge after its host was
                                    released (-1: not looked at)
     probe{proto, route, ps, shape, ...}   one request through the filter behind an HTTP/2 / a bolt listener, see TProbe
     skip{why}                      the machine stalled during the case: not judged
     end{nstrays}                   requests the recording hosts received with no token of the run
   The observed end state is written into Mirror's variables; the expectations are Mirror's properties - OwedReply,
   Attempts, Deadline, Want, Changed - reported softly, kind by kind, with the class of the case. *)
EXTENDS Mirror, VTrace

tvars == <<vars, l>>

TraceInit == /\ l = 1 /\ c = [pol |-> "-"] /\ pc = "new" /\ ver = "orig" /\ att = 0 /\ slot = [code |-> 0, by |-> "none"] /\ mfail = FALSE
             /\ parr = <<>> /\ replies = <<>> /\ active = 0 /\ clock = 0 /\ mst = "off" /\ copy = "none" /\ marr = <<>>
             /\ ord = "none" /\ cp = "none"

(* the request the client sent / the request after the later change, in the vocabulary of the arrival logs *)
Method(x)  == IF x.shape = "bare" THEN "GET" ELSE "POST"
OrigReq(x) == [method |-> Method(x), path |-> "orig", query |-> "orig", host |-> "orig",
               hdr |-> [xa |-> "va", xact |-> "-", xlate |-> "-"], body |-> IF x.shape = "body" THEN "orig" ELSE "none"]
MutReq(x)  == CASE x.mut = "route"  -> [OrigReq(x) EXCEPT !.path = "rewritten", !.hdr = [xa |-> "-", xact |-> "1", xlate |-> "-"]]
              []   x.mut = "filter" -> [OrigReq(x) EXCEPT !.hdr = [xa |-> "-", xact |-> "-", xlate |-> "1"],
                                                          !.body = IF x.shape = "body" THEN "late" ELSE "none"]
              []   OTHER            -> OrigReq(x)
Seen(a)    == [method |-> a.method, path |-> a.path, query |-> a.query, host |-> a.host, hdr |-> a.hdr, body |-> a.body]
Ver(x, a)  == IF a.lost # <<>> THEN "other"
              ELSE IF Seen(a) = OrigReq(x) THEN "orig" ELSE IF Seen(a) = MutReq(x) THEN "mut" ELSE "other"

OnOff(b) == IF b THEN "on" ELSE "off"
(* timers and goroutines of a loaded machine run late, by no more than this *)
Slack(gap) == 700 + 2 * gap

TCase ==
  /\ IsEvent("case")
  /\ LET x   == [pol |-> Ev.pol, mk |-> Ev.mk, ps |-> Ev.ps, rt |-> Ev.rt, shape |-> Ev.shape, mut |-> Ev.mut]
         o   == Ev.obs
         owe == OwedReply(x.ps, x.rt)
         rcl == ":mirror=" \o (IF x.pol = "p100" THEN x.mk ELSE x.pol) \o ":retry=" \o OnOff(x.rt)      \* class of a life-cycle mismatch
         ccl == ":mut=" \o x.mut \o ":cp=" \o Ev.cp                                                     \* class of a copy mismatch
         pvs == [k \in 1..Len(o.parr) |-> Ver(x, o.parr[k])]
         mvs == [k \in 1..Len(o.marr) |-> Ver(x, o.marr[k])]
         dl  == (IF Ev.hangs THEN Ev.g ELSE 0) + Slack(Ev.gap)
     IN
       /\ c' = x /\ pc' = (IF o.cleaned THEN "done" ELSE "clean") /\ ver' = Changed(x) /\ att' = o.natt
       /\ slot' = [code |-> o.status, by |-> IF o.role = "P" THEN "primary" ELSE IF o.role = "M" THEN "mirror" ELSE "proxy"]
       /\ mfail' = FALSE /\ parr' = pvs /\ marr' = mvs /\ active' = o.active /\ clock' = 0
       /\ replies' = IF o.kind = "response" THEN <<[status |-> o.status, by |-> slot'.by]>> ELSE <<>>
       /\ mst' = (IF Len(o.marr) > 0 THEN "done" ELSE "off") /\ copy' = (IF Len(o.marr) > 0 THEN mvs[1] ELSE "none")
       /\ ord' = Ev.ord /\ cp' = Ev.cp
       \* ---- C03: one reply, the primary's, in bounded time, whatever the mirror cluster is or does
       /\ Expect(o.kind = "response", (IF o.kind = "timeout" THEN "no-reply-in-bounded-time" ELSE "no-reply") \o rcl)
       /\ Expect(o.extra = 0 /\ o.nreply <= 1, "not-exactly-one-reply" \o rcl)
       /\ IF o.kind # "response" THEN TRUE
          ELSE /\ Expect(o.role # "M", "reply-produced-by-the-mirror-host" \o rcl)
               /\ Expect(o.status = owe.status,
                         (IF o.status = MStatus(x.mk) /\ x.pol = "p100" THEN "reply-status-is-the-mirror's" ELSE "wrong-reply-status") \o rcl)
               /\ Expect(o.role = "M" \/ owe.by # "primary" \/ (o.role = "P" /\ o.body = "P:" \o Ev.name), "reply-is-not-the-primary's" \o rcl)
               /\ Expect(o.lat <= dl, (IF x.pol = "p100" /\ (x.mk = "hang" \/ Ev.ord = "mlast") /\ ~Ev.hangs
                                       THEN "reply-waited-for-the-mirror" ELSE "reply-late") \o rcl)
       /\ Expect(o.natt <= Attempts(x.ps, x.rt), "primary-retried-without-cause" \o rcl)
       /\ Expect(o.natt >= Attempts(x.ps, x.rt), "primary-attempts-missing" \o rcl)
       /\ Expect(Len(o.parr) = Deliveries(x.ps, x.rt), "primary-deliveries" \o rcl)
       /\ Expect(o.cleaned /\ o.nclean = 1, "request-not-ended-exactly-once" \o rcl)
       /\ Expect(o.active = 0, "request-active-gauge-not-returned" \o rcl)
       \* ---- fidelity: the owed number of copies, each the request as it stood when the filter ran
       /\ Expect(Len(o.marr) >= Want(x), "not-mirrored" \o rcl)
       /\ Expect(Len(o.marr) <= Want(x),
                 (IF x.pol = "none" THEN "mirrored-without-policy" ELSE IF x.pol = "p0" THEN "mirrored-at-percent-0"
                  ELSE IF Want(x) = 0 THEN "mirrored-to-unusable-cluster" ELSE "mirrored-more-than-once") \o rcl)
       /\ \A k \in 1..Len(o.marr) :
            /\ Expect(mvs[k] = "orig", (IF mvs[k] = "mut" THEN "copy-carries-later-change" ELSE "copy-differs-from-request") \o ccl)
            /\ Expect(o.marr[k].up = "m0", "mirrored-to-unhealthy-host" \o rcl)
       /\ \A k \in 1..Len(o.parr) :
            Expect(pvs[k] = Changed(x), (IF k = 1 THEN "attempt-1:" ELSE "retried-attempt:") \o "primary-request-differs" \o ccl)
       /\ Expect(o.mreq <= 0 /\ o.mact <= 0, "mirror-cluster-books-not-returned" \o rcl)

(* the filter behind an HTTP/2 and behind a bolt listener (driver mode probe): routes none / p0 / p100 / ref (mirror cluster
   refuses connections) / absent (no such cluster) x primary script of one attempt x shape; the mirror host behaves as the
   primary's (both read their behaviour from the request).  No retry policy, no later change: the copy equals what the
   primary host received. *)
ProbeStatus(proto, o) == IF proto = "bolt" THEN (CASE o = "ok" -> 0 [] o = "s503" -> 8 [] OTHER -> 7)
                         ELSE (CASE o = "ok" -> 200 [] o = "s503" -> 503 [] OTHER -> 504)
TProbe ==
  /\ IsEvent("probe")
  /\ LET pcl  == ":proto=" \o Ev.proto \o (IF Ev.shape = "oneway" THEN ":oneway" ELSE "")
         want == IF Ev.route = "p100" THEN 1 ELSE 0
         dl   == (IF Ev.ps = "hang" THEN Ev.g ELSE 0) + Slack(Ev.gap)
     IN /\ IF Ev.shape = "oneway"
           THEN Expect(Ev.kind = "timeout", "reply-to-a-one-way-request" \o pcl)
           ELSE /\ Expect(Ev.kind = "response", "no-reply" \o pcl)
                /\ Expect(Ev.kind # "response" \/ Ev.status = ProbeStatus(Ev.proto, Ev.ps), "wrong-reply-status" \o pcl)
                /\ Expect(Ev.kind # "response" \/ Ev.ps = "hang" \/ Ev.up = "p0", "reply-is-not-the-primary's" \o pcl)
                /\ Expect(Ev.kind # "response" \/ Ev.elapsed <= dl, "reply-late" \o pcl)
                /\ Expect(Ev.extra = 0, "not-exactly-one-reply" \o pcl)
        /\ Expect(Ev.active = 0, "request-active-gauge-not-returned" \o pcl)
        /\ Expect(Len(Ev.parr) = 1, "primary-deliveries" \o pcl)
        /\ Expect(Len(Ev.marr) >= want, "not-mirrored" \o pcl)
        /\ Expect(Len(Ev.marr) <= want, (IF want = 0 THEN "mirrored-without-cause" ELSE "mirrored-more-than-once") \o pcl)
        /\ \A k \in 1..Len(Ev.marr) : Expect(Len(Ev.parr) = 0 \/ Ev.marr[k].req = Ev.parr[1].req, "copy-differs-from-request" \o pcl)
        /\ Expect(Ev.mreq <= 0 /\ Ev.mact <= 0, "mirror-cluster-books-not-returned" \o pcl)
  /\ UNCHANGED vars

TSkip == (IsEvent("skip") \/ IsEvent("probe-end")) /\ UNCHANGED vars
TEnd  == IsEvent("end") /\ Expect(Ev.nstrays = 0, "stray-request-at-a-host") /\ UNCHANGED vars

TraceNext == TCase \/ TProbe \/ TSkip \/ TEnd
TraceSpec == TraceInit /\ [][TraceNext]_tvars
====
