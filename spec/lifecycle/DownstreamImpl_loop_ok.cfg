CONSTANTS
  MaxA = 3
  Budget = 2
  MaxLoop = 3
  HasTry = FALSE
  Behaviours = {"5xx", "connfail", "ok"}
  Defects = {}
SPECIFICATION Spec
INVARIANTS NoFallOut
CHECK_DEADLOCK FALSE
