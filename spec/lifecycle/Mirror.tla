---- MODULE Mirror ----
(* The traffic MIRROR stream filter mosn ships (pkg/filter/stream/mirror/mirror.go; policy of the matched route:
   RouterActionConfig.RequestMirrorPolicies {cluster, percent} -> pkg/router mirrorImpl.IsMirror / ClusterName), seen
   from the two properties it can break:
     C03        every downstream request ends exactly once, with exactly one reply, in bounded time - whatever the
                upstreams do.  The mirror cluster is one more upstream; nothing it does or fails to do may show in the
                life of the request: the reply is the PRIMARY's (or the proxy's own time-out), the number of primary
                attempts is decided by the primary's outcomes alone, the request ends by the primary's deadline, the
                listener's request_active gauge returns to zero.
     fidelity   the mirror cluster receives a COPY of the request as it stood when the filter ran (receive phase
                AfterRoute: after the route was matched, before the route's request actions and before any filter
                behind it), exactly once per request when the route's policy samples it (percent = 100), never when
                percent = 0 or the route has no policy; a retried primary attempt does not mirror again; every primary
                attempt carries the route's actions.

   One request = two flows:
     primary   Receive -> MirrorFilter (samples; TAKES THE COPY; starts the mirror flow) -> Mutate (route actions / a
               filter behind the mirror filter change the original) -> Attempt / POutcome / Decide (retry loop) ->
               Reply -> Clean
     mirror    MSend (pool of the mirror cluster: no such cluster / no host / no healthy host / connection refused end
               the flow here) -> MOutcome (answer ok / error answer / connection reset; "hang": never)
   The mirror flow's steps interleave freely with the primary's from the moment it is started, also after the request
   has ended.  Time is a coarse clock: every step of the primary flow is immediate, except waiting for a primary host
   that never answers (the route's timeout G ends that) - so "in bounded time" is the invariant BoundedTime.

   Named ways to go wrong (constant Defects; the intended design is Defects = {}):
     "CopyTakenAfterRouteActions"  the copy is taken by the mirror flow when it gets to run, not by the filter step
     "ReplyFromMirror"             the mirror's answer is written into the status slot the request's retry decision and
                                   reply read
     "MirrorFailureFailsRequest"   a mirror flow that fails (no pool, error answer, reset) fails the request
     "MirrorPerAttempt"            every retried primary attempt sends a copy again
     "PercentIgnored"              percent = 0 mirrors
     "WaitsForMirror"              the reply waits for the mirror's outcome
     "CleanWaitsForMirror"         the request's end (gauge) waits for the mirror's outcome

   The same run prints the case stream for the driver (harness/cmd/mirror): <policy, what the mirror cluster is/does,
   primary outcome script, retry policy, request shape, later mutation> plus the schedule class the behaviour realised:
   ord (the mirror's outcome before the primary's final answer / between that answer and the reply / after the reply)
   and cp (the copy reached the mirror host before / after the original was changed). *)
EXTENDS Integers, Sequences, FiniteSets, TLC, Json

CONSTANTS Defects, Emit,
          Policies,     \* of the route: "none" (no request_mirror_policies), "p0", "p100"
          MirrorKinds,  \* what the mirror cluster is / does, see below
          Shapes,       \* "bare" (no body), "empty" (a body of length zero), "body"; "oneway" (no reply is expected)
          Muts,         \* later change of the original: "none", "route" (request actions of the route), "filter" (a filter behind)
          MaxLen        \* longest primary outcome script

G      == 2   \* the route's timeout, in clock units
Budget == 3   \* retries one request may make (proxy/retrystate.go: max(3, num_retries))

(* the mirror cluster: answers 200 / answers 500 / resets the connection without an answer / never answers /
   refuses connections / has no host / has no healthy host / does not exist *)
MK        == {"ok", "err", "reset", "hang", "refuse", "nohost", "sick", "nocluster"}
Reachable == {"ok", "err", "reset", "hang"}
Ending    == {"ok", "err", "reset"}
MStatus(mk) == CASE mk = "ok" -> 200 [] mk = "err" -> 500 [] OTHER -> 0

(* outcome of one primary attempt *)
Answers == {"ok", "s404", "s503"}
POut    == Answers \cup {"refuse", "hang"}
Code(o) == CASE o = "ok" -> 200 [] o = "s404" -> 404 [] o = "s503" -> 503 [] OTHER -> 0
Out(ps, k) == IF k <= Len(ps) THEN ps[k] ELSE ps[Len(ps)]

(* retry_on retries an answer >= 500; a failed connect is retried with or without a policy *)
Retryable(rt, o, code) == o = "refuse" \/ (rt /\ o \in Answers /\ code >= 500)

RECURSIVE EndsAt(_, _, _)
EndsAt(ps, rt, k) == IF Retryable(rt, Out(ps, k), Code(Out(ps, k))) /\ k <= Budget THEN EndsAt(ps, rt, k + 1) ELSE k
Attempts(ps, rt)  == EndsAt(ps, rt, 1)
FinalOut(ps, rt)  == Out(ps, Attempts(ps, rt))
(* the reply the client is owed: a function of the primary's script and the retry policy - of nothing else *)
OwedReply(ps, rt) == IF FinalOut(ps, rt) = "hang" THEN [status |-> 504, by |-> "proxy"]
                     ELSE [status |-> Code(FinalOut(ps, rt)), by |-> "primary"]
Deadline(ps, rt)  == IF \E k \in 1..Attempts(ps, rt) : Out(ps, k) = "hang" THEN G ELSE 0
Deliveries(ps, rt) == Cardinality({ k \in 1..Attempts(ps, rt) : Out(ps, k) # "refuse" })

Scripts == UNION { [1..n -> POut] : n \in 1..MaxLen }
Cases == { x \in [pol : Policies, mk : MirrorKinds, ps : Scripts, rt : BOOLEAN, shape : Shapes, mut : Muts] :
             /\ Attempts(x.ps, x.rt) = Len(x.ps)                 \* the script is consumed exactly
             /\ FinalOut(x.ps, x.rt) # "refuse"
             /\ (x.pol # "p100" => x.mk = "ok") }                \* without sampling the mirror cluster plays no part

Sampled(x) == x.pol = "p100" \/ ("PercentIgnored" \in Defects /\ x.pol = "p0")
Want(x)    == IF x.pol = "p100" /\ x.mk \in Reachable THEN 1 ELSE 0   \* copies the mirror cluster is owed
Changed(x) == IF x.mut = "none" THEN "orig" ELSE "mut"                \* the request every primary attempt carries

VARIABLES c,        \* the case
          pc,       \* primary flow
          ver,      \* the original request object: "orig" as received, "mut" after route actions / the later filter
          att,      \* primary attempts started
          slot,     \* the status slot of the request: [code, by]
          mfail,    \* a failed mirror flow was charged to the request ("MirrorFailureFailsRequest")
          parr,     \* what the primary hosts received, per delivery
          replies,  \* replies sent to the client
          active,   \* request_active gauge of the listener
          clock,
          mst,      \* mirror flow: "off" | "spawned" | "sent" | "done"
          copy,     \* the copy: "none" | "orig" | "mut"
          marr,     \* what the mirror host received
          ord, cp   \* schedule class realised (history)
vars == <<c, pc, ver, att, slot, mfail, parr, replies, active, clock, mst, copy, marr, ord, cp>>

Init == /\ c \in Cases /\ pc = "new" /\ ver = "orig" /\ att = 0 /\ slot = [code |-> 0, by |-> "none"] /\ mfail = FALSE
        /\ parr = <<>> /\ replies = <<>> /\ active = 0 /\ clock = 0 /\ mst = "off" /\ copy = "none" /\ marr = <<>>
        /\ ord = "none" /\ cp = "none"

Receive == /\ pc = "new" /\ pc' = "filter" /\ active' = 1
           /\ UNCHANGED <<c, ver, att, slot, mfail, parr, replies, clock, mst, copy, marr, ord, cp>>

(* the mirror filter, receive phase AfterRoute: the policy of the matched route decides; the copy is taken HERE *)
MirrorFilter == /\ pc = "filter" /\ pc' = "actions"
                /\ IF Sampled(c)
                   THEN mst' = "spawned" /\ copy' = (IF "CopyTakenAfterRouteActions" \in Defects THEN "none" ELSE ver)
                   ELSE UNCHANGED <<mst, copy>>
                /\ UNCHANGED <<c, ver, att, slot, mfail, parr, replies, active, clock, marr, ord, cp>>

(* the route's request actions / a filter behind the mirror filter change the original *)
Mutate == /\ pc = "actions" /\ pc' = "attempt" /\ ver' = Changed(c)
          /\ UNCHANGED <<c, att, slot, mfail, parr, replies, active, clock, mst, copy, marr, ord, cp>>

Attempt == /\ pc = "attempt" /\ pc' = "wait" /\ att' = att + 1
           /\ parr' = IF Out(c.ps, att + 1) = "refuse" THEN parr ELSE Append(parr, ver)
           /\ marr' = IF "MirrorPerAttempt" \in Defects /\ att >= 1 /\ Sampled(c) /\ c.mk \in Reachable
                      THEN Append(marr, IF copy # "none" THEN copy ELSE ver) ELSE marr
           /\ UNCHANGED <<c, ver, slot, mfail, replies, active, clock, mst, copy, ord, cp>>

(* the attempt's outcome reaches the proxy; a host that never answers is ended by the route's timeout *)
POutcome == /\ pc = "wait"
            /\ LET o == Out(c.ps, att) IN
                 \/ /\ o \in Answers /\ slot' = [code |-> Code(o), by |-> "primary"] /\ pc' = "decide"
                 \/ /\ o = "refuse" /\ slot' = slot /\ pc' = "decide"
                 \/ /\ o = "hang" /\ clock >= G /\ slot' = [code |-> 504, by |-> "proxy"] /\ pc' = "reply"
            /\ UNCHANGED <<c, ver, att, mfail, parr, replies, active, clock, mst, copy, marr, ord, cp>>

Decide == /\ pc = "decide"
          /\ pc' = IF Retryable(c.rt, Out(c.ps, att), slot.code) /\ att <= Budget THEN "attempt" ELSE "reply"
          /\ UNCHANGED <<c, ver, att, slot, mfail, parr, replies, active, clock, mst, copy, marr, ord, cp>>

MirrorSettled == mst \in {"off", "done"}
Reply == /\ pc = "reply" /\ pc' = "clean"
         /\ ("WaitsForMirror" \in Defects => MirrorSettled)
         /\ replies' = IF c.shape = "oneway" THEN replies
                       ELSE Append(replies, IF mfail THEN [status |-> 502, by |-> "mirror"] ELSE [status |-> slot.code, by |-> slot.by])
         /\ UNCHANGED <<c, ver, att, slot, mfail, parr, active, clock, mst, copy, marr, ord, cp>>

Clean == /\ pc = "clean" /\ pc' = "done" /\ active' = 0
         /\ ("CleanWaitsForMirror" \in Defects => MirrorSettled)
         /\ UNCHANGED <<c, ver, att, slot, mfail, parr, replies, clock, mst, copy, marr, ord, cp>>

(* ---- the mirror flow *)
MTakeCopy == /\ mst = "spawned" /\ copy = "none" /\ copy' = ver     \* enabled under "CopyTakenAfterRouteActions" only
             /\ UNCHANGED <<c, pc, ver, att, slot, mfail, parr, replies, active, clock, mst, marr, ord, cp>>

MSend == /\ mst = "spawned" /\ copy # "none"
         /\ IF c.mk \in Reachable
            THEN /\ mst' = "sent" /\ marr' = Append(marr, copy) /\ mfail' = mfail
                 /\ cp' = IF pc \in {"new", "filter", "actions"} THEN "before" ELSE "after"
            ELSE /\ mst' = "done" /\ marr' = marr /\ cp' = cp
                 /\ mfail' = (mfail \/ "MirrorFailureFailsRequest" \in Defects)
         /\ UNCHANGED <<c, pc, ver, att, slot, parr, replies, active, clock, copy, ord>>

PrimaryFinal == pc = "reply" \/ (pc = "decide" /\ att >= Attempts(c.ps, c.rt))
MOutcome == /\ mst = "sent" /\ c.mk \in Ending /\ mst' = "done"
            /\ slot' = IF "ReplyFromMirror" \in Defects /\ MStatus(c.mk) # 0 /\ pc \notin {"clean", "done"}
                       THEN [code |-> MStatus(c.mk), by |-> "mirror"] ELSE slot
            /\ mfail' = (mfail \/ ("MirrorFailureFailsRequest" \in Defects /\ c.mk \in {"err", "reset"} /\ pc \notin {"clean", "done"}))
            /\ ord' = IF pc \in {"clean", "done"} THEN "mlast"
                      ELSE IF PrimaryFinal /\ Out(c.ps, att) \in Answers THEN "between" ELSE "mfirst"
            /\ UNCHANGED <<c, pc, ver, att, parr, replies, active, clock, copy, marr, cp>>

(* time passes only where the primary flow has to wait: for a host that never answers, or - a defect - for the mirror *)
Waiting == \/ pc = "wait" /\ Out(c.ps, att) = "hang" /\ clock < G
           \/ pc = "reply" /\ "WaitsForMirror" \in Defects /\ ~MirrorSettled
           \/ pc = "clean" /\ "CleanWaitsForMirror" \in Defects /\ ~MirrorSettled
Tick == /\ Waiting /\ clock < G + 1 /\ clock' = clock + 1
        /\ UNCHANGED <<c, pc, ver, att, slot, mfail, parr, replies, active, mst, copy, marr, ord, cp>>

Next == Receive \/ MirrorFilter \/ Mutate \/ Attempt \/ POutcome \/ Decide \/ Reply \/ Clean \/ MTakeCopy \/ MSend \/ MOutcome \/ Tick
Spec == Init /\ [][Next]_vars

(* ---- properties *)
Ended     == pc = "done"
Quiescent == Ended /\ (MirrorSettled \/ (mst = "sent" /\ c.mk = "hang"))

TypeOK == /\ pc \in {"new", "filter", "actions", "attempt", "wait", "decide", "reply", "clean", "done"}
          /\ mst \in {"off", "spawned", "sent", "done"} /\ copy \in {"none", "orig", "mut"} /\ active \in {0, 1}

AtMostOneReply    == Len(replies) <= 1
(* the reply is the one the primary's script owes, whatever the mirror cluster is or does *)
ReplyIsPrimarys   == pc \in {"clean", "done"} => replies = (IF c.shape = "oneway" THEN <<>> ELSE <<OwedReply(c.ps, c.rt)>>)
(* the primary is attempted as often as its own outcomes and the retry policy say *)
AttemptsArePrimarys == /\ att <= Attempts(c.ps, c.rt)
                       /\ (pc \in {"reply", "clean", "done"} => att = Attempts(c.ps, c.rt))
(* ends by the primary's deadline, gauge back *)
BoundedTime       == clock > Deadline(c.ps, c.rt) => Ended
GaugeReturns      == Ended => active = 0
(* exactly the owed number of copies *)
MirrorCount       == Len(marr) <= Want(c) /\ (Quiescent => Len(marr) = Want(c))
(* the copy is the request as it stood when the filter ran *)
CopyFaithful      == \A k \in 1..Len(marr) : marr[k] = "orig"
(* every primary delivery, first or retried, carries the route's actions *)
PrimaryCarriesActions == /\ \A k \in 1..Len(parr) : parr[k] = Changed(c)
                         /\ (pc \in {"reply", "clean", "done"} => Len(parr) = Deliveries(c.ps, c.rt))

EmitCase == (Emit /\ Quiescent) =>
              PrintT(<<"CASE", ToJson([pol |-> c.pol, mk |-> c.mk, ps |-> c.ps, rt |-> c.rt, shape |-> c.shape, mut |-> c.mut,
                                       ord |-> ord, cp |-> cp])>>)
====
