CONSTANTS
  Names = {"a", "b", "d", "x"}
  Uncreatable = {"x"}
  MaxLen = 3
  MaxPubs = 2
  Defects = {"KeepUnchangedByIndex"}
SPECIFICATION Spec
INVARIANTS ChainIsLastPublished
CHECK_DEADLOCK FALSE
