---- MODULE Scenarios ----
(* The schedule space of the guided runs (binding B3) for C03/C10/C17: which environment the single
   request meets and which pair of concurrent activities is forced to overlap.  TLC enumerates the set
   (one initial state per case); the Go driver realises each case on the in-process MOSN with blocking
   gates (verifhook.Gate) and real timers, and the recorded trace is validated against RequestLifecycle.
     cluster : how many refused hosts precede the scripted upstream (request-round-robin order), or "all" refused
     script  : behaviour of the scripted upstream per arrival (last repeats):
               ok | s503 | close | hang | gate (answers 200 when the driver says) | gs503 (answers 503 when the driver says) | gateclose
               | okclose (answers 200 and closes the connection behind the answer)
               | gokclose / gokrst (scripted stream layer only: answers 200 when the driver says, and resets the stream of
                 the same attempt when the driver says again - ConnectionTermination / StreamRemoteReset)
     layer   : absent = the real stream layer of the protocol and a scripted upstream behind it;  "script" = the scripted
               stream layer of the driver (harness/cmd/c03/scriptlayer.go) directly under the real proxy
     try     : per-try timeout configured (40 ms) besides the global timeout (120 ms)
     hold    : gate point at which one goroutine of the proxy is held ...
     during  : ... while this happens completely:  gtimer | ptimer | upresp | upclose | clientreset | none
               | hostsdown (every host of the cluster fails its health check while an admitted retry has not chosen its host)
     hold2   : optional second gate (a worker gate) for three-party overlaps: a timer callback is held at `hold`,
               `during` happens, the worker runs until `hold2`, then the timer callback is released and runs to
               completion, then the worker is released *)
EXTENDS Integers, Sequences, FiniteSets, TLC, Json

WorkerGates == {"ds.pe#5", "ds.pe#6", "ds.loop.top#2", "ds.loop.top#3", "ds.retry.begin", "ds.retry.pool", "ds.retry.chosen", "ds.wait", "ds.wait#2", "ds.woken", "ds.woken#2", "ds.upreset.retry",
                "ds.pe#7", "ds.pe#8", "ds.pe#10"}
                \* ds.pe#n = the n-th processError of the request: #6 follows the first send, #7/#8 follow the re-send of a retry after
                \* one/two synchronous connect failures, #10 follows the re-send of a retry decided on a 5xx response
                \* "point#n" = the n-th arrival at the point (the task loop passes its top once per phase re-entry)
TimerGates  == {"ds.gtimer.fire", "ds.gtimer.cas", "ds.ptimer.fire", "ds.ptimer.cas"}
UpGates     == {"us.recv.guard", "us.recv.cas", "us.reset"}
Durings     == {"gtimer", "ptimer", "upresp", "upclose", "clientreset", "hostsdown"}

Scripts == { <<"ok">>, <<"s503">>, <<"close">>, <<"hang">>, <<"gate">>, <<"gateclose">>,
             <<"close", "ok">>, <<"s503", "ok">>, <<"hang", "ok">>, <<"close", "gate">>, <<"s503", "gate">>,
             <<"hang", "gate">>, <<"close", "gateclose">>, <<"close", "close", "close", "close", "close">>,
             <<"s503", "s503", "s503", "s503", "s503">>, <<"hang", "hang">>, <<"s503", "hang">>, <<"s503", "close">>, <<"gate", "ok">>, <<"gateclose", "ok">> }
Clusters == {"direct", "r1", "r2", "all"}

Has(s, b) == \E i \in DOMAIN s : s[i] = b

(* feasibility: the `during` event must be producible in this environment, and the gate reachable in principle *)
Feasible(c) ==
  /\ c.during = "none" <=> c.hold = "none"
  /\ c.cluster = "all" => c.script = <<"ok">> /\ c.during \in {"none", "gtimer", "clientreset"}
  /\ c.during = "upresp" => Has(c.script, "gate")
  /\ c.during = "upclose" => Has(c.script, "gateclose")
  /\ c.during = "ptimer" => c.try
  /\ c.during = "hostsdown" => c.hold \in {"ds.retry.begin", "ds.upreset.retry"} /\ c.hold2 = "none"
  /\ c.hold \in {"ds.ptimer.fire", "ds.ptimer.cas"} => c.try
  /\ c.hold \in {"ds.gtimer.fire", "ds.gtimer.cas"} => c.during # "gtimer"
  /\ c.hold \in {"ds.ptimer.fire", "ds.ptimer.cas"} => c.during # "ptimer"
  /\ c.hold \in {"us.recv.guard", "us.recv.cas"} => (Has(c.script, "gate") \/ Has(c.script, "ok")) /\ c.during # "upresp"
  /\ c.hold = "us.reset" => c.during \notin {"upclose"}
  /\ c.hold \in {"ds.retry.begin", "ds.retry.pool", "ds.retry.chosen", "ds.upreset.retry"} =>
        (c.cluster \in {"r1", "r2"} \/ Len(c.script) > 1)           \* a retry must be possible
  /\ (Has(c.script, "gate") \/ Has(c.script, "gateclose")) => c.during \in {"upresp", "upclose"} \/ c.hold \in UpGates
  /\ c.hold2 # "none" => /\ c.hold \in TimerGates
                          /\ c.during \in {"upclose", "upresp"}
                          /\ c.hold2 \in {"ds.loop.top#2", "ds.loop.top#3", "ds.retry.begin", "ds.retry.pool", "ds.upreset.retry", "ds.woken"}

Cases0 == { c \in [cluster : Clusters, script : Scripts, try : BOOLEAN,
                   hold : WorkerGates \cup TimerGates \cup UpGates \cup {"none"},
                   during : Durings \cup {"none"},
                   hold2 : WorkerGates \cup {"none"}] : Feasible(c) }
WithBody(c, b) == [cluster |-> c.cluster, script |-> c.script, try |-> c.try, hold |-> c.hold, during |-> c.during,
                   hold2 |-> c.hold2, body |-> b]
(* Requests WITH A BODY go through two more phases between the header phase and the wait for the upstream: the upstream
   stream is admitted (requests resource, leased connection) in the header phase, the request counts as sent only after
   the last part went out.  The gates ds.pe#5..#7 fall into and around that window for such a request. *)
BodyGates == {"none", "ds.pe#5", "ds.pe#6", "ds.pe#7", "ds.wait", "ds.woken"}
BodyCases == { WithBody(c, TRUE) : c \in { x \in [cluster : {"direct", "r1"}, script : {<<"ok">>, <<"gate">>, <<"gateclose">>, <<"hang">>, <<"s503", "ok">>},
                                                  try : BOOLEAN, hold : BodyGates, during : {"none", "clientreset", "gtimer", "upresp", "upclose"},
                                                  hold2 : {"none"}] :
                                             /\ (x.during = "none" <=> x.hold = "none")
                                             /\ (x.during = "upresp" => Has(x.script, "gate"))
                                             /\ (x.during = "upclose" => Has(x.script, "gateclose"))
                                             /\ ((Has(x.script, "gate") \/ Has(x.script, "gateclose")) => x.during \in {"upresp", "upclose"}) } }
Cases == { WithBody(c, FALSE) : c \in Cases0 } \cup BodyCases

(* Explicit schedules read off TLC counterexamples of DownstreamImpl (defect cfgs): the sequence of gate
   arrivals/releases that realises the behaviour on the real code.
   steps: hold:<gate>[#n] | arrive:<gate> | release:<gate> | await:<hook event> | do:<event> *)
StaleTimer(t) == << "hold:ds.pe#6", "hold:ds." \o t \o ".fire", "hold:ds.upreset.retry", "arrive:ds.pe", "arrive:ds." \o t \o ".fire",
                    "release:ds.pe", "arrive:ds.upreset.retry", "release:ds." \o t \o ".fire", "await:ds." \o t \o ".done",
                    "release:ds.upreset.retry" >>
(* Read off the TLC counterexample of DownstreamImpl with defect "DropRetryStateWithoutRelease" (MaxA=3, Budget=2): the
   per-try timer callback of the first attempt is held before its CAS; the attempt is answered 503 (the answer wins the
   CAS) and the worker is held as it wakes up (ds.woken); the global timer fires meanwhile and loses its CAS; the worker
   goes on, a retry is admitted (which clears the flag), doRetry finds the global deadline passed, takes the give-up
   exit and is held right after it cleared setupRetry (gate ds.retry.abort); the per-try callback now wins the CAS and
   its reset is taken; the worker goes on: processError admits another retry for that reset and then drops the retry
   state for the pending local reply. *)
LateReset == << "hold:ds.ptimer.fire", "hold:ds.woken", "hold:ds.retry.abort",
                "arrive:ds.ptimer.fire", "do:up503", "arrive:ds.woken", "await:ds.gtimer",
                "release:ds.woken", "arrive:ds.retry.abort", "release:ds.ptimer.fire", "await:us.reset",
                "release:ds.retry.abort" >>
LateResetCases == { [cluster |-> cl, script |-> sc, try |-> TRUE, hold |-> "none", during |-> "none", hold2 |-> "none", body |-> FALSE,
                     steps |-> LateReset] : cl \in {"direct", "r1"}, sc \in {<<"gs503", "ok">>, <<"gs503", "hang">>} }
(* Read off the TLC counterexample of stream/BaseStream.tla with defect "CheckThenAct": a timer callback resets the
   upstream stream and is held while it notifies the listeners under the stream mutex (gate bs.reset.locked = step
   r.notify); the upstream's answer arrives meanwhile and its goroutine claims the stream for destruction (d.claim) and
   waits for the mutex; then the resetter goes on (r.unlock, its own deferred DestroyStream).  The pools' OnDestroyStream
   must have run exactly once: the books are back at zero at quiescence (C10), one reply (C03). *)
ResetVsResponse == << "hold:bs.reset.locked", "arrive:bs.reset.locked", "do:upresp", "pause:30", "release:bs.reset.locked" >>
ResetVsResponseCases == { [cluster |-> cl, script |-> sc, try |-> t, hold |-> "none", during |-> "none", hold2 |-> "none", body |-> b,
                           steps |-> ResetVsResponse] : cl \in {"direct", "r1"}, sc \in {<<"gate">>, <<"gate", "ok">>}, t \in BOOLEAN, b \in BOOLEAN }
(* Read off the TLC counterexample of DownstreamImpl with defect "StaleWakeEndsRequest" (OnResetStream raises its flag and
   sends the token in two steps): the worker has sent attempt 1 and is held in the processError before its wait (ds.pe#k);
   the per-try timer of the hanging attempt fires, its OnResetStream raises the flag and is held before sendNotify
   (us.reset.flagged); the worker goes on: it acts on the flag, admits the retry, drains the slot at the loop top, sends
   attempt 2 and is held before its wait (ds.wait); now the token is sent; the worker waits - and finds a token without
   news.  It must keep waiting: attempt 2 is answered afterwards (or times out in its turn): one reply, in time. *)
StaleWake(k) == << "hold:ds.pe#" \o k, "hold:us.reset.flagged", "hold:ds.wait",
                   "arrive:ds.pe#" \o k, "arrive:us.reset.flagged", "release:ds.pe#" \o k,
                   "arrive:ds.wait", "release:us.reset.flagged", "pause:5", "release:ds.wait", "pause:5", "do:upresp" >>
StaleWakeCases == { [cluster |-> cl, script |-> sc, try |-> TRUE, hold |-> "none", during |-> "none", hold2 |-> "none", body |-> FALSE,
                     steps |-> StaleWake(k)] : cl \in {"direct", "r1"}, sc \in {<<"hang", "gate">>, <<"hang", "hang">>}, k \in {"5", "6", "7"} }
(* ---- an attempt with TWO events (DownstreamImpl behaviour "okclose"): the upstream answers, and the stream of the same
   attempt is reset behind the answer before the worker has forwarded anything.  Read off the TLC counterexample of
   DownstreamImpl with defect "AnsweredCountsAsStarted": the worker is held in the processError before its wait (ds.wait
   is the next gate), the answer is taken (us.recv), the reset is taken (us.reset), the worker goes on and finds both.
   Variants: the worker is held as it wakes up for the answer (ds.woken), or after the send filters of the answer ran
   (ds.pe#8 = the processError of the UpFilter phase of a request without body on the direct cluster).  Owed: exactly one
   reply - the error reply of the reset or the answer of the retry; never a reset of the client's stream.
   The shipped stream layers destroy a client stream before they hand its answer over, so this order needs a resetter
   inside BaseStream.ResetStream's test-then-lock window: the scripted stream layer delivers it on command. *)
AnswerThenReset(g) ==
  IF g = "ds.wait" THEN << "hold:ds.wait", "arrive:ds.wait", "do:upanswer", "await:us.recv", "do:upreset", "await:us.reset", "release:ds.wait" >>
  ELSE IF g = "ds.woken" THEN << "hold:ds.woken", "do:upanswer", "arrive:ds.woken", "do:upreset", "await:us.reset", "release:ds.woken" >>
  ELSE << "hold:ds.pe#8", "do:upanswer", "arrive:ds.pe", "do:upreset", "await:us.reset", "release:ds.pe" >>
ScriptCase(cl, sc, t, b, st) == [cluster |-> cl, script |-> sc, try |-> t, hold |-> "none", during |-> "none", hold2 |-> "none", body |-> b,
                                 layer |-> "script", steps |-> st]
AnswerThenResetCases ==
  { ScriptCase(cl, sc, t, FALSE, AnswerThenReset(g)) : cl \in {"direct", "r1"}, t \in BOOLEAN, g \in {"ds.wait", "ds.woken"},
                                                       sc \in {<<"gokclose", "ok">>, <<"gokclose", "hang">>, <<"gokrst", "ok">>} }
  \cup { ScriptCase("direct", sc, TRUE, FALSE, AnswerThenReset("ds.pe#8")) : sc \in {<<"gokclose", "ok">>, <<"gokrst", "ok">>} }
  \cup { ScriptCase("direct", sc, TRUE, TRUE, AnswerThenReset(g)) : g \in {"ds.wait", "ds.woken"}, sc \in {<<"gokclose", "ok">>, <<"gokrst", "ok">>} }
(* the same two events with nothing held: back to back on the scripted layer (the worker may or may not have forwarded the
   answer when the reset lands), and on the real layers an upstream that closes the connection behind its answer *)
OkCloseCases ==
  { [cluster |-> cl, script |-> sc, try |-> t, hold |-> "none", during |-> "none", hold2 |-> "none", body |-> FALSE, layer |-> "script"] :
      cl \in {"direct", "r1"}, t \in BOOLEAN, sc \in {<<"okclose">>, <<"okclose", "ok">>} }
  \cup { [cluster |-> cl, script |-> sc, try |-> t, hold |-> "none", during |-> "none", hold2 |-> "none", body |-> FALSE] :
      cl \in {"direct", "r1"}, t \in BOOLEAN, sc \in {<<"okclose">>, <<"okclose", "ok">>, <<"s503", "okclose">>} }
(* Read off the TLC counterexample of DownstreamImpl with defect "PerTryTimerSurvivesRetry" (invariant
   PerTryTimerOnlyWhileTryOpen): an attempt ends with a retryable outcome that is not its per-try timeout (503 under
   retry_on, refused connection), the retry is admitted, and the worker is held inside the set-up of the next attempt
   until the per-try timeout of the attempt that has ENDED is over (40 ms) - then it goes on, long before the global
   timeout.  No per-try timeout may be applied meanwhile (RequestLifecycleTrace: per-try-timeout-of-ended-attempt); the
   next attempt is sent and answered, one reply. *)
PastTryTimeout(g) == << "hold:" \o g, "arrive:" \o g, "pause:55", "release:" \o g >>
PastTryTimeoutCases == { [cluster |-> x[1], script |-> x[2], try |-> TRUE, hold |-> "none", during |-> "none", hold2 |-> "none", body |-> FALSE,
                          steps |-> PastTryTimeout(g)] : x \in {<<"direct", <<"s503", "ok">>>>, <<"r1", <<"ok">>>>, <<"r1", <<"s503", "ok">>>>},
                                                         g \in {"ds.retry.begin", "ds.retry.chosen"} }
StepCases == LateResetCases \cup ResetVsResponseCases \cup StaleWakeCases \cup AnswerThenResetCases \cup OkCloseCases \cup PastTryTimeoutCases \cup { [cluster |-> cl, script |-> sc, try |-> (t = "ptimer"), hold |-> "none", during |-> "none", hold2 |-> "none", body |-> FALSE,
                steps |-> StaleTimer(t)] : cl \in {"r1", "r2"}, sc \in {<<"ok">>, <<"hang">>, <<"s503", "ok">>, <<"close">>}, t \in {"ptimer", "gtimer"} }

(* ---- the shape of the request as a dimension of the runs (RequestShape.tla, model: RequestForward.tla) ----
   A shape case = a form of the request (protocol, wire form, filter operation; `data`/`trailers` = what the forwarding
   phases of the proxy see, derived by the spec) in an environment.  Whatever the shape: the request ends, with exactly
   one reply (none for a one-way request), within timeout + slack, and every attempt the pool admitted reached the
   upstream as one complete request.
     unguided: every form x { upstream answers | never answers (the global timeout must) | first host refused (doRetry
               forwards the request again) | first attempt times out per try and is retried }
     guided  : every two-way form x the single-gate overlaps of Cases0 on the direct cluster at the gates around the
               wait for the upstream, the timer callbacks and the upstream's answer/reset (gates that do not count
               processError passes: their position does not depend on how many forwarding phases the shape runs) *)
RS == INSTANCE RequestShape
ShapeEnvs == { [cluster |-> "direct", script |-> <<"ok">>, try |-> FALSE], [cluster |-> "direct", script |-> <<"hang">>, try |-> FALSE],
               [cluster |-> "r1", script |-> <<"ok">>, try |-> FALSE], [cluster |-> "direct", script |-> <<"hang", "ok">>, try |-> TRUE] }
ShapeGates == {"ds.wait", "ds.woken", "ds.gtimer.fire", "ds.gtimer.cas", "ds.ptimer.fire", "ds.ptimer.cas", "us.recv.guard", "us.recv.cas", "us.reset"}
ShapeCase(f, e, hold, during) ==
  [cluster |-> e.cluster, script |-> e.script, try |-> e.try, hold |-> hold, during |-> during, hold2 |-> "none",
   body |-> (RS!Seen(f).data = "bytes"), proto |-> f.proto, wire |-> f.wire, fop |-> f.fop,
   data |-> RS!Seen(f).data, trailers |-> RS!Seen(f).trailers]
UnguidedShapeCases == { ShapeCase(f, e, "none", "none") : f \in RS!Forms, e \in ShapeEnvs } \ 
                      { x \in { ShapeCase(f, e, "none", "none") : f \in RS!Forms, e \in ShapeEnvs } : x.proto = "boltoneway" /\ x.try }
GuidedShapeBase == { x \in Cases0 : x.cluster = "direct" /\ x.hold2 = "none" /\ x.hold \in ShapeGates
                                    /\ x.script \in {<<"ok">>, <<"hang">>, <<"gate">>, <<"gateclose">>} }
GuidedShapeCases == { ShapeCase(f, x, x.hold, x.during) : f \in { g \in RS!Forms : g.proto # "boltoneway" }, x \in GuidedShapeBase }
ShapeCases == UnguidedShapeCases \cup GuidedShapeCases

VARIABLE c
Init == c \in Cases \cup StepCases
InitShapes == c \in ShapeCases
Next == UNCHANGED c
Emit == PrintT(<<"CASE", ToJson(c)>>)
====
