CONSTANTS
  MaxLen = 5
  MaxReentry = 10
  Envs = {"ok", "retry503", "close", "aterm", "lterm", "atermA", "atermB", "atermC", "atermD", "rterm", "rtermT"}
  Defects = {}
SPECIFICATION TraceSpec
POSTCONDITION Accepted
CHECK_DEADLOCK FALSE
