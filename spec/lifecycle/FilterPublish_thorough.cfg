CONSTANTS
  Names = {"a", "b", "d", "x"}
  Uncreatable = {"x"}
  MaxLen = 3
  MaxPubs = 3
  Defects = {}
SPECIFICATION Spec
INVARIANTS ChainIsLastPublished EmitCase
CHECK_DEADLOCK FALSE
