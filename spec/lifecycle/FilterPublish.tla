---- MODULE FilterPublish ----
(* From the published stream-filter list of a listener to the chain a new stream gets (pkg/streamfilter/manager.go
   AddOrUpdateStreamFilterConfig, factory.go NewStreamFilterFactory / UpdateFactory / CreateFilterChain, config.go
   createStreamFilterFactoryFromConfig), first sentence of C14 seen over the life of a listener: "stream filters run in
   configured order" means the order of the list published LAST, whatever was published before.
   An entry whose factory cannot be created (unknown type, bad configuration) is skipped, so positions in the list and
   positions among the factories differ from that entry on.
   Named way to go wrong, "KeepUnchangedByIndex": an update keeps the factory at position i when entry i of the list is
   unchanged and creates only the others - with a skipped entry in front the kept factory is the wrong one. *)
EXTENDS Integers, Sequences, FiniteSets, TLC, Json

CONSTANTS Names,        \* filter types
          Uncreatable,  \* subset of Names whose factory cannot be created
          MaxLen, MaxPubs, Defects

VARIABLES pubs,     \* lists published so far
          fac       \* the factories in force: sequence of names
vars == <<pubs, fac>>

Lists == UNION { { s \in [1..n -> Names] : \A i, j \in 1..n : i # j => s[i] # s[j] } : n \in 0..MaxLen }
Creatable(l) == SelectSeq(l, LAMBDA n : n \notin Uncreatable)

(* the named defect: factory i is kept when entry i is unchanged (and there is a factory i), other entries are created *)
RECURSIVE KeepByIndex(_, _, _, _)
KeepByIndex(new, old, cur, i) ==
  IF i > Len(new) THEN <<>>
  ELSE LET rest == KeepByIndex(new, old, cur, i + 1)
       IN IF i <= Len(old) /\ new[i] = old[i] /\ i <= Len(cur) THEN <<cur[i]>> \o rest
          ELSE IF new[i] \in Uncreatable THEN rest ELSE <<new[i]>> \o rest

Init == pubs = <<>> /\ fac = <<>>
Publish(l) == /\ Len(pubs) < MaxPubs
              /\ fac' = IF pubs # <<>> /\ "KeepUnchangedByIndex" \in Defects
                        THEN KeepByIndex(l, pubs[Len(pubs)], fac, 1) ELSE Creatable(l)
              /\ pubs' = Append(pubs, l)
Next == \E l \in Lists : Publish(l)
Spec == Init /\ [][Next]_vars

(* the chain of a new stream: the creatable entries of the list published last, in its order *)
ChainIsLastPublished == pubs # <<>> => fac = Creatable(pubs[Len(pubs)])

EmitCase == (Len(pubs) = MaxPubs) => PrintT(<<"CASE", ToJson([pubs |-> pubs])>>)
====
