CONSTANTS
  MaxLen = 2
  MaxReentry = 2
  Envs = {"ok", "retry503", "close", "aterm", "lterm", "atermA", "atermB", "atermC", "atermD"}
  Defects = {"SkipSendOnLocalReply"}
INIT Init
NEXT Next
INVARIANTS
  OrderedOncePerPass
  ReentryResumes
  NoFilterSkipped
  DeniedNeverForwarded
  AtMostOneReply
  AnswerIsTheReply
  ReplyWentThroughSendFilters
  TerminatedNeverReplies
  EndsWithReplyOrTermination
CHECK_DEADLOCK FALSE
