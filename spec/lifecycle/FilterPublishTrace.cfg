CONSTANTS
  Names = {"a", "b", "d", "x"}
  Uncreatable = {"x"}
  MaxLen = 3
  MaxPubs = 0
  Defects = {}
SPECIFICATION TraceSpec
POSTCONDITION Accepted
CHECK_DEADLOCK FALSE
