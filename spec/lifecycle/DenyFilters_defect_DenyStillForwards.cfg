CONSTANTS
  Defects = {"DenyStillForwards"}
  Filters = {"ipaccess", "payloadlimit", "faultinject"}
  Layouts = {"between"}
  MaxRules = 2
  LongLayouts = {}
  Lens = {0, 3, 4, 5, 7, 8, 9, 11, 12, 13}
  Emit = FALSE
SPECIFICATION Spec
INVARIANTS ScanIsReference DeniedIsNeverForwarded PassedIsForwardedOnce
CHECK_DEADLOCK TRUE
