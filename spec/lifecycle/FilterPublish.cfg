CONSTANTS
  Names = {"a", "b", "d", "x"}
  Uncreatable = {"x"}
  MaxLen = 3
  MaxPubs = 2
  Defects = {}
SPECIFICATION Spec
INVARIANTS ChainIsLastPublished EmitCase
CHECK_DEADLOCK FALSE
