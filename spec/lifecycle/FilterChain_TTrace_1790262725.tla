---- MODULE FilterChain_TTrace_1790262725 ----
EXTENDS Sequences, TLCExt, Toolbox, FilterChain, Naturals, TLC

_expression ==
    LET FilterChain_TEExpression == INSTANCE FilterChain_TEExpression
    IN FilterChain_TEExpression!expression
----

_trace ==
    LET FilterChain_TETrace == INSTANCE FilterChain_TETrace
    IN FilterChain_TETrace!trace
----

_inv ==
    ~(
        TLCGet("level") = Len(_TETrace)
        /\
        cur = (2)
        /\
        bad = ({"reentry-did-not-resume-at-requesting-filter"})
        /\
        hostChosen = (FALSE)
        /\
        log = (<<[pass |-> 1, slot |-> 1, v |-> "c"], [pass |-> 1, slot |-> 2, v |-> "rm"], [pass |-> 2, slot |-> 1, v |-> "c"]>>)
        /\
        direct = (0)
        /\
        reentries = (1)
        /\
        scur = (1)
        /\
        term = (FALSE)
        /\
        reply = (0)
        /\
        pend = ([code |-> 0, local |-> FALSE])
        /\
        chain = (<<"R", "R">>)
        /\
        pass = (2)
        /\
        again = ("none")
        /\
        alt = (TRUE)
        /\
        marks = ({})
        /\
        real = ([slot |-> 0, code |-> 0])
        /\
        env = ("ok")
        /\
        oneway = (FALSE)
        /\
        fwd = (0)
        /\
        declined = (FALSE)
        /\
        answer = (0)
        /\
        replies = (0)
        /\
        ph = ("R")
        /\
        resumeAt = (0)
        /\
        denied = (FALSE)
    )
----

_init ==
    /\ bad = _TETrace[1].bad
    /\ answer = _TETrace[1].answer
    /\ cur = _TETrace[1].cur
    /\ again = _TETrace[1].again
    /\ log = _TETrace[1].log
    /\ scur = _TETrace[1].scur
    /\ oneway = _TETrace[1].oneway
    /\ pend = _TETrace[1].pend
    /\ ph = _TETrace[1].ph
    /\ reply = _TETrace[1].reply
    /\ reentries = _TETrace[1].reentries
    /\ alt = _TETrace[1].alt
    /\ chain = _TETrace[1].chain
    /\ hostChosen = _TETrace[1].hostChosen
    /\ env = _TETrace[1].env
    /\ replies = _TETrace[1].replies
    /\ resumeAt = _TETrace[1].resumeAt
    /\ marks = _TETrace[1].marks
    /\ pass = _TETrace[1].pass
    /\ denied = _TETrace[1].denied
    /\ term = _TETrace[1].term
    /\ fwd = _TETrace[1].fwd
    /\ declined = _TETrace[1].declined
    /\ real = _TETrace[1].real
    /\ direct = _TETrace[1].direct
----

_next ==
    /\ \E i,j \in DOMAIN _TETrace:
        /\ \/ /\ j = i + 1
              /\ i = TLCGet("level")
        /\ bad  = _TETrace[i].bad
        /\ bad' = _TETrace[j].bad
        /\ answer  = _TETrace[i].answer
        /\ answer' = _TETrace[j].answer
        /\ cur  = _TETrace[i].cur
        /\ cur' = _TETrace[j].cur
        /\ again  = _TETrace[i].again
        /\ again' = _TETrace[j].again
        /\ log  = _TETrace[i].log
        /\ log' = _TETrace[j].log
        /\ scur  = _TETrace[i].scur
        /\ scur' = _TETrace[j].scur
        /\ oneway  = _TETrace[i].oneway
        /\ oneway' = _TETrace[j].oneway
        /\ pend  = _TETrace[i].pend
        /\ pend' = _TETrace[j].pend
        /\ ph  = _TETrace[i].ph
        /\ ph' = _TETrace[j].ph
        /\ reply  = _TETrace[i].reply
        /\ reply' = _TETrace[j].reply
        /\ reentries  = _TETrace[i].reentries
        /\ reentries' = _TETrace[j].reentries
        /\ alt  = _TETrace[i].alt
        /\ alt' = _TETrace[j].alt
        /\ chain  = _TETrace[i].chain
        /\ chain' = _TETrace[j].chain
        /\ hostChosen  = _TETrace[i].hostChosen
        /\ hostChosen' = _TETrace[j].hostChosen
        /\ env  = _TETrace[i].env
        /\ env' = _TETrace[j].env
        /\ replies  = _TETrace[i].replies
        /\ replies' = _TETrace[j].replies
        /\ resumeAt  = _TETrace[i].resumeAt
        /\ resumeAt' = _TETrace[j].resumeAt
        /\ marks  = _TETrace[i].marks
        /\ marks' = _TETrace[j].marks
        /\ pass  = _TETrace[i].pass
        /\ pass' = _TETrace[j].pass
        /\ denied  = _TETrace[i].denied
        /\ denied' = _TETrace[j].denied
        /\ term  = _TETrace[i].term
        /\ term' = _TETrace[j].term
        /\ fwd  = _TETrace[i].fwd
        /\ fwd' = _TETrace[j].fwd
        /\ declined  = _TETrace[i].declined
        /\ declined' = _TETrace[j].declined
        /\ real  = _TETrace[i].real
        /\ real' = _TETrace[j].real
        /\ direct  = _TETrace[i].direct
        /\ direct' = _TETrace[j].direct

\* Uncomment the ASSUME below to write the states of the error trace
\* to the given file in Json format. Note that you can pass any tuple
\* to `JsonSerialize`. For example, a sub-sequence of _TETrace.
    \* ASSUME
    \*     LET J == INSTANCE Json
    \*         IN J!JsonSerialize("FilterChain_TTrace_1790262725.json", _TETrace)

=============================================================================

 Note that you can extract this module `FilterChain_TEExpression`
  to a dedicated file to reuse `expression` (the module in the 
  dedicated `FilterChain_TEExpression.tla` file takes precedence 
  over the module `FilterChain_TEExpression` below).

---- MODULE FilterChain_TEExpression ----
EXTENDS Sequences, TLCExt, Toolbox, FilterChain, Naturals, TLC

expression == 
    [
        \* To hide variables of the `FilterChain` spec from the error trace,
        \* remove the variables below.  The trace will be written in the order
        \* of the fields of this record.
        bad |-> bad
        ,answer |-> answer
        ,cur |-> cur
        ,again |-> again
        ,log |-> log
        ,scur |-> scur
        ,oneway |-> oneway
        ,pend |-> pend
        ,ph |-> ph
        ,reply |-> reply
        ,reentries |-> reentries
        ,alt |-> alt
        ,chain |-> chain
        ,hostChosen |-> hostChosen
        ,env |-> env
        ,replies |-> replies
        ,resumeAt |-> resumeAt
        ,marks |-> marks
        ,pass |-> pass
        ,denied |-> denied
        ,term |-> term
        ,fwd |-> fwd
        ,declined |-> declined
        ,real |-> real
        ,direct |-> direct
        
        \* Put additional constant-, state-, and action-level expressions here:
        \* ,_stateNumber |-> _TEPosition
        \* ,_badUnchanged |-> bad = bad'
        
        \* Format the `bad` variable as Json value.
        \* ,_badJson |->
        \*     LET J == INSTANCE Json
        \*     IN J!ToJson(bad)
        
        \* Lastly, you may build expressions over arbitrary sets of states by
        \* leveraging the _TETrace operator.  For example, this is how to
        \* count the number of times a spec variable changed up to the current
        \* state in the trace.
        \* ,_badModCount |->
        \*     LET F[s \in DOMAIN _TETrace] ==
        \*         IF s = 1 THEN 0
        \*         ELSE IF _TETrace[s].bad # _TETrace[s-1].bad
        \*             THEN 1 + F[s-1] ELSE F[s-1]
        \*     IN F[_TEPosition - 1]
    ]

=============================================================================



Parsing and semantic processing can take forever if the trace below is long.
 In this case, it is advised to uncomment the module below to deserialize the
 trace from a generated binary file.

\*
\*---- MODULE FilterChain_TETrace ----
\*EXTENDS IOUtils, FilterChain, TLC
\*
\*trace == IODeserialize("FilterChain_TTrace_1790262725.bin", TRUE)
\*
\*=============================================================================
\*

---- MODULE FilterChain_TETrace ----
EXTENDS FilterChain, TLC

trace == 
    <<
    ([cur |-> 1,bad |-> {},hostChosen |-> FALSE,log |-> <<>>,direct |-> 0,reentries |-> 0,scur |-> 1,term |-> FALSE,reply |-> 0,pend |-> [code |-> 0, local |-> FALSE],chain |-> <<"R", "R">>,pass |-> 1,again |-> "none",alt |-> FALSE,marks |-> {},real |-> [slot |-> 0, code |-> 0],env |-> "ok",oneway |-> FALSE,fwd |-> 0,declined |-> FALSE,answer |-> 0,replies |-> 0,ph |-> "R",resumeAt |-> 0,denied |-> FALSE]),
    ([cur |-> 2,bad |-> {},hostChosen |-> FALSE,log |-> <<[pass |-> 1, slot |-> 1, v |-> "c"]>>,direct |-> 0,reentries |-> 0,scur |-> 1,term |-> FALSE,reply |-> 0,pend |-> [code |-> 0, local |-> FALSE],chain |-> <<"R", "R">>,pass |-> 1,again |-> "none",alt |-> FALSE,marks |-> {},real |-> [slot |-> 0, code |-> 0],env |-> "ok",oneway |-> FALSE,fwd |-> 0,declined |-> FALSE,answer |-> 0,replies |-> 0,ph |-> "R",resumeAt |-> 0,denied |-> FALSE]),
    ([cur |-> 1,bad |-> {},hostChosen |-> FALSE,log |-> <<[pass |-> 1, slot |-> 1, v |-> "c"], [pass |-> 1, slot |-> 2, v |-> "rm"]>>,direct |-> 0,reentries |-> 1,scur |-> 1,term |-> FALSE,reply |-> 0,pend |-> [code |-> 0, local |-> FALSE],chain |-> <<"R", "R">>,pass |-> 2,again |-> "none",alt |-> TRUE,marks |-> {},real |-> [slot |-> 0, code |-> 0],env |-> "ok",oneway |-> FALSE,fwd |-> 0,declined |-> FALSE,answer |-> 0,replies |-> 0,ph |-> "R",resumeAt |-> 2,denied |-> FALSE]),
    ([cur |-> 2,bad |-> {"reentry-did-not-resume-at-requesting-filter"},hostChosen |-> FALSE,log |-> <<[pass |-> 1, slot |-> 1, v |-> "c"], [pass |-> 1, slot |-> 2, v |-> "rm"], [pass |-> 2, slot |-> 1, v |-> "c"]>>,direct |-> 0,reentries |-> 1,scur |-> 1,term |-> FALSE,reply |-> 0,pend |-> [code |-> 0, local |-> FALSE],chain |-> <<"R", "R">>,pass |-> 2,again |-> "none",alt |-> TRUE,marks |-> {},real |-> [slot |-> 0, code |-> 0],env |-> "ok",oneway |-> FALSE,fwd |-> 0,declined |-> FALSE,answer |-> 0,replies |-> 0,ph |-> "R",resumeAt |-> 0,denied |-> FALSE])
    >>
----


=============================================================================

---- CONFIG FilterChain_TTrace_1790262725 ----
CONSTANTS
    MaxLen = 2
    MaxReentry = 2
    Envs = { "ok" , "retry503" , "close" , "aterm" , "lterm" , "atermA" , "atermB" , "atermC" , "atermD" , "rterm" , "rtermT" }
    Defects = { "CursorResetOnReentry" }

INVARIANT
    _inv

CHECK_DEADLOCK
    \* CHECK_DEADLOCK off because of PROPERTY or INVARIANT above.
    FALSE

INIT
    _init

NEXT
    _next

CONSTANT
    _TETrace <- _trace

ALIAS
    _expression
=============================================================================
\* Generated on Thu Sep 24 15:12:06 UTC 2026