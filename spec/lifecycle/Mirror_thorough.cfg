CONSTANTS
  Policies = {"none", "p0", "p100"}
  MirrorKinds = {"ok", "err", "reset", "hang", "refuse", "nohost", "sick", "nocluster"}
  Shapes = {"bare", "empty", "body"}
  Muts = {"none", "route", "filter"}
  MaxLen = 3
  Defects = {}
  Emit = TRUE
SPECIFICATION Spec
INVARIANTS TypeOK AtMostOneReply ReplyIsPrimarys AttemptsArePrimarys BoundedTime GaugeReturns MirrorCount CopyFaithful PrimaryCarriesActions EmitCase
CHECK_DEADLOCK FALSE
