---- MODULE RequestLifecycle ----
(* Abstract life cycle of downstream requests through the proxy (pkg/proxy/downstream.go,
   upstream.go, retrystate.go), the shared abstract layer of C03, C10, C14 and C17.
   Variables are what the properties talk about; actions are the observable events.
   Rids are proxy stream ids; the environment (client, upstreams, timers) is unconstrained. *)
EXTENDS Integers, Sequences, FiniteSets, TLC

CONSTANTS Rids,        \* request ids explored by the model checker
          MaxAttempts, \* bound for exploration
          Defects      \* {} intended design | {"ReplyAfterTimeoutReply"} | {"NoCleanOnSilentExit"} ...

VARIABLES st,        \* rid -> "none" | "open" | "ended"
          replies,   \* rid -> number of responses started towards the client
          attempts,  \* rid -> upstream attempts made (sent or refused by the pool)
          explained, \* rid -> causes that explain an end without reply: "client", "oneway", "terminated"
          budget,    \* rid -> retry budget of the matched route (attempts <= 1 + budget)
          active     \* ghost: number of open requests == the downstream request_active gauge
vars == <<st, replies, attempts, explained, budget, active>>

Init == /\ st = [r \in Rids |-> "none"] /\ replies = [r \in Rids |-> 0] /\ attempts = [r \in Rids |-> 0]
        /\ explained = [r \in Rids |-> {}] /\ budget = [r \in Rids |-> 0] /\ active = 0

New(r, oneway, b) == /\ st[r] = "none"
                     /\ st' = [st EXCEPT ![r] = "open"]
                     /\ explained' = [explained EXCEPT ![r] = IF oneway THEN {"oneway"} ELSE {}]
                     /\ budget' = [budget EXCEPT ![r] = b]
                     /\ active' = active + 1
                     /\ UNCHANGED <<replies, attempts>>

(* guards, shared with the trace specification *)
CanAttempt(r) == st[r] = "open" /\ replies[r] = 0 /\ attempts[r] < 1 + budget[r]
CanReply(r)   == st[r] = "open" /\ (replies[r] = 0 \/ "ReplyAfterTimeoutReply" \in Defects)
CanClean(r)   == st[r] = "open" /\ (replies[r] = 1 \/ explained[r] # {} \/ "NoCleanOnSilentExit" \in Defects)

(* an upstream attempt: only while open, never after the response started, within the budget *)
Attempt(r) == /\ CanAttempt(r) /\ attempts[r] < MaxAttempts
              /\ attempts' = [attempts EXCEPT ![r] = @ + 1]
              /\ UNCHANGED <<st, replies, explained, budget, active>>

(* the single response: the upstream's or a locally generated one *)
Reply(r) == /\ CanReply(r)
            /\ replies' = [replies EXCEPT ![r] = @ + 1]
            /\ UNCHANGED <<st, attempts, explained, budget, active>>

ClientReset(r) == /\ st[r] = "open"
                  /\ explained' = [explained EXCEPT ![r] = @ \cup {"client"}]
                  /\ UNCHANGED <<st, replies, attempts, budget, active>>

Terminate(r) == /\ st[r] = "open"
                /\ explained' = [explained EXCEPT ![r] = @ \cup {"terminated"}]
                /\ UNCHANGED <<st, replies, attempts, budget, active>>

(* the terminal event: exactly once, releases the gauge; allowed only when the outcome is decided *)
Clean(r) == /\ CanClean(r)
            /\ st' = [st EXCEPT ![r] = "ended"]
            /\ active' = active - 1
            /\ UNCHANGED <<replies, attempts, explained, budget>>

Next == \E r \in Rids : \/ \E ow \in BOOLEAN, b \in 0..2 : New(r, ow, b)
                        \/ Attempt(r) \/ Reply(r) \/ ClientReset(r) \/ Terminate(r) \/ Clean(r)
Spec == Init /\ [][Next]_vars /\ \A r \in Rids : WF_vars(Clean(r)) /\ WF_vars(Reply(r))

(* ---- properties ---- *)
AtMostOneReply  == \A r \in Rids : replies[r] <= 1
EndedExplained  == \A r \in Rids : st[r] = "ended" => (replies[r] = 1 \/ explained[r] # {})
GaugeExact      == active = Cardinality({ r \in Rids : st[r] = "open" })
GaugeNonNeg     == active >= 0
AttemptsBounded == \A r \in Rids : attempts[r] <= 1 + budget[r]
NoReplyAfterEnd == [][\A r \in Rids : st[r] = "ended" => replies'[r] = replies[r]]_vars
EndsOnce        == [][\A r \in Rids : st[r] = "ended" => st'[r] = "ended"]_vars
(* liveness under fairness of the proxy's own steps: every accepted request ends *)
EveryRequestEnds == \A r \in Rids : (st[r] = "open") ~> (st[r] = "ended")
====
