CONSTANTS
  Defects = {}
SPECIFICATION Spec
INVARIANTS EndedOnce NoPartAfterEnd ArmedOnlyWhenComplete ArmedWhenForwarded AtMostOneReply EndsProperly NoHang
PROPERTIES EveryRequestEnds
CHECK_DEADLOCK TRUE
