CONSTANTS
  Defects = {}
  Filters = {"ipaccess", "payloadlimit", "faultinject"}
  Layouts = {"solo", "front", "behind", "between"}
  MaxRules = 3
  LongLayouts = {"between"}
  Lens = {0, 3, 4, 5, 7, 8, 9, 11, 12, 13}
  Emit = TRUE
SPECIFICATION Spec
INVARIANTS ScanIsReference DeniedIsNeverForwarded PassedIsForwardedOnce EmitCases
CHECK_DEADLOCK TRUE
