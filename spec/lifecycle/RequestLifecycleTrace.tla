---- MODULE RequestLifecycleTrace ----
(* Trace validation of real request life cycles (in-process MOSN, hooks in pkg/proxy) against
   RequestLifecycle.  Events:
     run{name, budget, ptheld}  driver: a new guided run starts (TraceReset); budget = retry budget of the route used;
                                ptheld (optional) = the schedule of the run holds a per-try timer callback at its start
     new{rid, oneway}           hook ds.new
     attempt{rid, host, res}    hook us.attempt: res = "sent" | "Overflow" | "ConnectionFailure"
     reply{rid, code, end}      hook ds.reply: response headers handed to the downstream stream
     clientreset{rid}           hook ds.clientreset
     terminate{rid}             a stream filter terminated the request (C14 drivers)
     clean{rid}                 hook ds.clean (after the CAS in cleanStream)
     note{...}                  informational hook events (timers, upstream receive/reset, loop phases): no constraint, but
                                note{retry}   hook ds.loop.phase with phase Retry: the worker has handled the end of the
                                              current attempt and admitted a retry (setupRetry)
                                note{ptwon}   hook ds.ptimer, compare-and-swap won: a per-try timeout is about to be applied
     cdone{rid, kind, status, extra, elapsed, bound, foreign}   driver: what the client observed on its connection
                                (foreign: a proxy-made reply whose body holds the token of an upstream answer)
     upseen{rid, data, trailers, sent, arrivals, blen, same, want}   driver, unguided request-shape runs (RequestShape.tla):
                                what the scripted upstream saw of the request by the end of the run - `sent` attempts
                                were given an upstream stream by the pool, `arrivals` complete requests reached the
                                upstream, each with a body of `blen` bytes (`same`: all alike); `want` = the length of
                                the body the proxy had to forward (-1: not judged here), `data` = the class of the body
                                the forwarding phases worked on (absent | empty | bytes)
     quiesce{active, rq, pd, rt, ...}  driver: all gates released, timeout+slack elapsed; gauges and the clusters'
                                circuit-breaker resources read (requests, pending, retries; summed over the clusters,
                                relative to their values when the run began) *)
EXTENDS RequestLifecycle, VTrace

(* A per-try timeout belongs to ONE attempt (DownstreamImpl!PerTryTimerOnlyWhileTryOpen): once the worker has handled the
   end of an attempt and admitted the retry, that attempt's timer is stopped; until the next attempt is handed to the
   pool no per-try timeout can be applied - except by a callback that was already running when the attempt ended (Stop
   cannot cancel it), which only happens when the schedule holds one at its start (lateOK). *)
VARIABLES tryEnded,   \* rid -> the worker has handled the end of the last attempt (retry admitted), the next one is not out yet
          lateOK      \* this run may see a per-try callback complete late
tvars == <<vars, tryEnded, lateOK, l>>

CONSTANT MaxRid           \* largest stream id in the trace (computed by the check, keeps Rids cheap to evaluate)
RidsOf == 0..MaxRid

TraceInit == l = 1 /\ Init /\ tryEnded = [r \in Rids |-> FALSE] /\ lateOK = TRUE

TRun == /\ IsEvent("run")
        /\ st' = [r \in Rids |-> "none"] /\ replies' = [r \in Rids |-> 0] /\ attempts' = [r \in Rids |-> 0]
        /\ explained' = [r \in Rids |-> {}] /\ budget' = [r \in Rids |-> Ev.budget] /\ active' = 0
        /\ tryEnded' = [r \in Rids |-> FALSE]
        /\ lateOK' = IF Has(Ev, "ptheld") THEN Ev.ptheld ELSE TRUE     \* a driver that does not say is not judged on this

TNew == /\ IsEvent("new")
        /\ Expect(st[Ev.rid] = "none", "stream-id-reused")
        /\ st' = [st EXCEPT ![Ev.rid] = "open"]
        /\ explained' = [explained EXCEPT ![Ev.rid] = IF Ev.oneway THEN {"oneway"} ELSE {}]
        /\ active' = active + 1
        /\ UNCHANGED <<replies, attempts, budget, tryEnded, lateOK>>

TAttempt == /\ IsEvent("attempt")
            /\ Expect(st[Ev.rid] = "open", "attempt-after-end")
            /\ Expect(replies[Ev.rid] = 0, "attempt-after-reply")
            /\ Expect(attempts[Ev.rid] < 1 + budget[Ev.rid], "attempts-exceed-budget")
            /\ attempts' = [attempts EXCEPT ![Ev.rid] = @ + 1]
            /\ tryEnded' = [tryEnded EXCEPT ![Ev.rid] = FALSE]
            /\ UNCHANGED <<st, replies, explained, budget, active, lateOK>>

TReply == /\ IsEvent("reply")
          /\ Expect(st[Ev.rid] = "open", "reply-after-end")
          /\ Expect(replies[Ev.rid] = 0, "second-reply")
          /\ replies' = [replies EXCEPT ![Ev.rid] = @ + 1]
          /\ UNCHANGED <<st, attempts, explained, budget, active, tryEnded, lateOK>>

TClientReset == /\ IsEvent("clientreset")
                /\ explained' = [explained EXCEPT ![Ev.rid] = @ \cup {"client"}]
                /\ UNCHANGED <<st, replies, attempts, budget, active, tryEnded, lateOK>>

TTerminate == /\ IsEvent("terminate")
              /\ explained' = [explained EXCEPT ![Ev.rid] = @ \cup {"terminated"}]
              /\ UNCHANGED <<st, replies, attempts, budget, active, tryEnded, lateOK>>

TClean == /\ IsEvent("clean")
          /\ Expect(st[Ev.rid] = "open", "clean-twice")
          /\ Expect(replies[Ev.rid] = 1 \/ explained[Ev.rid] # {}, "ended-without-reply-or-cause")
          /\ st' = [st EXCEPT ![Ev.rid] = "ended"]
          /\ active' = active - 1
          /\ UNCHANGED <<replies, attempts, explained, budget, tryEnded, lateOK>>

TNote == /\ IsEvent("note")
         /\ IF Has(Ev, "retry") /\ Has(Ev, "rid") /\ Ev.rid \in Rids
            THEN tryEnded' = [tryEnded EXCEPT ![Ev.rid] = TRUE]
            ELSE /\ UNCHANGED tryEnded
                 /\ Expect(~(Has(Ev, "ptwon") /\ Has(Ev, "rid") /\ Ev.rid \in Rids) \/ ~tryEnded[Ev.rid] \/ lateOK,
                           "per-try-timeout-of-ended-attempt")
         /\ UNCHANGED <<vars, lateOK>>

(* the client's view must agree with the proxy's: a response iff one reply was started, nothing after it *)
TCDone == /\ IsEvent("cdone")
          /\ Expect(Ev.extra = 0, "client-got-bytes-after-response")
          /\ Expect(Ev.rid = 0 \/ Ev.kind \in {"closed", "oneway-none"} \/ "client" \in explained[Ev.rid] \/ ((Ev.kind = "response") <=> (replies[Ev.rid] = 1)), "client-view-differs")
             \* kind "closed": the driver's client disconnected on purpose without reading (the reply may already have been sent)
          /\ Expect(Ev.kind # "timeout" \/ (Ev.rid # 0 /\ explained[Ev.rid] # {}), "no-reply-in-bounded-time")
          /\ Expect(Ev.kind # "oneway-none" \/ (Ev.rid # 0 /\ "oneway" \in explained[Ev.rid] /\ replies[Ev.rid] = 0), "oneway-request-not-handled-as-oneway")
          /\ Expect(Ev.kind # "response" \/ Ev.rid = 0 \/ "oneway" \notin explained[Ev.rid], "reply-to-oneway-request")
          /\ Expect(Ev.elapsed <= Ev.bound, "reply-later-than-timeout-plus-slack")
          /\ Expect(~Ev.foreign, "local-reply-carries-upstream-body")   \* a reply the proxy made itself holds nothing of an (earlier) upstream answer
          /\ UNCHANGED <<vars, tryEnded, lateOK>>

(* the request was ENDED towards the upstream, whatever its shape (RequestForward!EndedOnce): every attempt that got an
   upstream stream arrived there as a complete request - an upstream only sees a request that was ended -, and a body
   of length zero arrived as no bytes, a body as its bytes *)
TUpSeen == /\ IsEvent("upseen")
           /\ Expect(Ev.sent = 0 \/ Ev.arrivals >= 1, "request-never-ended-towards-upstream")
           /\ Expect(Ev.arrivals <= Ev.sent, "more-upstream-requests-than-attempts")
           /\ Expect(Ev.arrivals = 0 \/ Ev.want < 0 \/ (Ev.same /\ Ev.blen = Ev.want), "upstream-body-differs-from-request-shape")
           /\ Expect(Ev.arrivals = 0 \/ Ev.want < 0 \/ ((Ev.data = "bytes") <=> (Ev.blen > 0)), "upstream-body-differs-from-request-shape")
           /\ UNCHANGED <<vars, tryEnded, lateOK>>

TQuiesce == /\ IsEvent("quiesce")
            /\ Expect(\A r \in Rids : st[r] # "open", "request-never-ended")
            /\ Expect(active = Cardinality({ r \in Rids : st[r] = "open" }), "ghost-gauge")
            /\ Expect(Ev.active = Cardinality({ r \in Rids : st[r] = "open" }), "request-active-gauge-differs")
            \* circuit-breaker books of the clusters (C10): with no request open nothing may be held
            /\ Expect((\E r \in Rids : st[r] = "open") \/ Ev.rq = 0, "requests-resource-not-returned")
            /\ Expect((\E r \in Rids : st[r] = "open") \/ Ev.pd = 0, "pending-resource-not-returned")
            /\ Expect((\E r \in Rids : st[r] = "open") \/ Ev.rt = 0, "retries-resource-not-returned")
            /\ UNCHANGED <<vars, tryEnded, lateOK>>

TraceNext == TRun \/ TNew \/ TAttempt \/ TReply \/ TClientReset \/ TTerminate \/ TClean \/ TNote \/ TCDone \/ TUpSeen \/ TQuiesce
TraceSpec == TraceInit /\ [][TraceNext]_tvars
====
