CONSTANTS
  Rids = {r1}
  MaxAttempts = 2
  Defects = {"ReplyAfterTimeoutReply"}
SPECIFICATION Spec
INVARIANTS AtMostOneReply
CHECK_DEADLOCK FALSE
