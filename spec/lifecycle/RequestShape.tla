---- MODULE RequestShape ----
(* The SHAPE OF THE REQUEST as a value class of C03 (every request ends exactly once, with one reply, in bounded time).

   What the forwarding phases of the proxy (downstream.go receive(): DownRecvHeader, DownRecvData, DownRecvTrailer,
   and doRetry for every later attempt) see of a request is a pair
        data     : "absent" (no body buffer) | "empty" (a body buffer of length zero) | "bytes"
        trailers : "absent" | "present"
   and which part ends the request towards the upstream depends on that pair.  The pair is decided by
     (1) the wire form the client used and the way the stream layer of the protocol hands the body over (WireTable), and
     (2) what a stream filter did to the request through the filter API before it was routed (Fops).
   This module is constant-level: the forms, the pair each form produces, and the proof obligations that the forms
   reach every pair.  RequestForward.tla is the model of the forwarding phases over these forms; Scenarios.tla
   multiplies the forms with the environments of the runs. *)
EXTENDS Integers, Sequences, FiniteSets, TLC

DataClasses    == {"absent", "empty", "bytes"}
TrailerClasses == {"absent", "present"}
Protos         == {"http1", "http2", "bolt", "boltoneway"}

(* <<protocol, wire form, data, trailers>> : what OnReceive of the proxy is given for the wire form.
   http1  (stream/http serverStream.handleRequest): a body of length zero is handed over as NO buffer, whatever
          announced it; MOSN's HTTP/1 layer has no request trailers.
            none     GET without body headers            cl0      POST, Content-Length: 0
            chunked0 POST, chunked, last chunk only      cl       POST, Content-Length: n
            chunked  POST, chunked, one chunk + last chunk
   http2  (stream/http2 serverStreamConnection.handleFrame): END_STREAM on HEADERS hands over nothing; otherwise the
          stream layer ALWAYS hands over a body buffer (of length zero when no DATA byte came) and a trailer map
          (without fields when no trailing HEADERS came).
            h        HEADERS+ES                          h.d0     HEADERS, DATA(0)+ES
            h.d      HEADERS, DATA(n)+ES                  h.d.d0   HEADERS, DATA(n), DATA(0)+ES
            h.t      HEADERS, trailers+ES                 h.d0.t   HEADERS, DATA(0), trailers+ES
            h.d.t    HEADERS, DATA(n), trailers+ES
   bolt   (protocol/xprotocol/bolt decodeRequest): content length 0 leaves the content buffer nil; xprotocol has no
          trailers.  boltoneway = the same frames with the one-way command type.
            c0       content length 0                    c        content *)
WireTable == {
  <<"http1", "none",     "absent", "absent">>,  <<"http1", "cl0",      "absent", "absent">>,
  <<"http1", "chunked0", "absent", "absent">>,  <<"http1", "cl",       "bytes",  "absent">>,
  <<"http1", "chunked",  "bytes",  "absent">>,
  <<"http2", "h",        "absent", "absent">>,  <<"http2", "h.d0",     "empty",  "present">>,
  <<"http2", "h.d",      "bytes",  "present">>, <<"http2", "h.d.d0",   "bytes",  "present">>,
  <<"http2", "h.t",      "empty",  "present">>, <<"http2", "h.d0.t",   "empty",  "present">>,
  <<"http2", "h.d.t",    "bytes",  "present">>,
  <<"bolt", "c0",        "absent", "absent">>,  <<"bolt", "c",         "bytes",  "absent">>,
  <<"boltoneway", "c0",  "absent", "absent">>,  <<"boltoneway", "c",   "bytes",  "absent">> }

Wires(p)      == { r[2] : r \in { x \in WireTable : x[1] = p } }
Decoded(p, w) == LET r == CHOOSE x \in WireTable : x[1] = p /\ x[2] = w IN [data |-> r[3], trailers |-> r[4]]

(* What a receiver filter may do to the request before the route is matched (pkg/proxy/streamfilters.go):
     keep   nothing
     strip  SetRequestData(buffer of length zero): the request HAS a body buffer afterwards (one is created when
            there was none), of length zero - e.g. a transcoder whose output is empty
     fill   SetRequestData(payload)
     trail  SetRequestTrailers(one field) *)
Fops == {"keep", "strip", "fill", "trail"}
Filtered(s, op) == CASE op = "strip" -> [data |-> "empty", trailers |-> s.trailers]
                     [] op = "fill"  -> [data |-> "bytes", trailers |-> s.trailers]
                     [] op = "trail" -> [data |-> s.data,  trailers |-> "present"]
                     [] OTHER        -> s

Seen(f) == Filtered(Decoded(f.proto, f.wire), f.fop)      \* the pair the forwarding phases work on

(* Not expressible: trailers without any body buffer towards an HTTP/2 upstream.  No wire form produces that pair
   (the HTTP/2 stream layer adds the buffer); a filter setting trailers on a HEADERS-only request does, and the HTTP/2
   client stream of the pinned tree cannot send it (nil body dereferenced in MClientStream.writeDataAndTrailer - the
   proxy recovers, cleans the stream without a reply and the client waits for ever; reported, not driven). *)
Expressible(f) == TRUE    \* every form is driven (the HTTP/2 form "trailers, no body buffer" was a finding: fixed in /repo)

Forms == { f \in [proto : Protos, wire : UNION { Wires(p) : p \in Protos }, fop : Fops] :
             f.wire \in Wires(f.proto) /\ Expressible(f) }
NativeForms == { f \in Forms : f.fop = "keep" }           \* what a client alone can make the proxy see

Pairs == [data : DataClasses, trailers : TrailerClasses]
(* the runs reach every pair; every protocol reaches, by its wire forms alone, every pair its stream layer can hand over;
   and the pair "body buffer of length zero, no trailers" is reached over every protocol *)
ASSUME \A p \in Pairs : \E f \in Forms : Seen(f) = p
ASSUME \A r \in WireTable : \E f \in NativeForms : f.proto = r[1] /\ Seen(f) = [data |-> r[3], trailers |-> r[4]]
ASSUME \A p \in Protos : \E f \in Forms : f.proto = p /\ Seen(f) = [data |-> "empty", trailers |-> "absent"]
ASSUME \E f \in NativeForms : Seen(f).data = "empty"
====
