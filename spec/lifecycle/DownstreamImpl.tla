---- MODULE DownstreamImpl ----
(* Implementation-shaped model of ONE two-way request in pkg/proxy/downstream.go + upstream.go +
   retrystate.go (property C03, also C10/C17): the worker's phase machine with the split of
   processError, the CAS flags (upstreamResponseReceived = urr, upstreamReset, downstreamReset,
   downstreamCleaned), the 1-slot notify channel with cleanNotify, the 10-iteration task loop, the
   one-shot global timer and the per-try timer (callbacks split at their CAS, Stop() cannot cancel a
   callback that already started), the upstream goroutine (guard, then CAS) and a client disconnect.
   Labels are the atomic steps; they coincide with the verifhook gate points used by the guided
   schedules (ds.loop.top, ds.upreset.retry, ds.retry.begin/pool/chosen, ds.wait, ds.woken,
   ds.gtimer.fire/cas, ds.ptimer.fire/cas, us.recv.guard/cas, us.reset).

   Each upstream attempt gets a behaviour when it is sent: "ok" | "5xx" | "close" | "never" | "okclose"; the
   pool may instead refuse it ("connfail").  "okclose" is an attempt with TWO events: the upstream answers and the
   stream is reset right behind the answer (the host closes the connection; pkg/stream BaseStream.ResetStream tests the
   stream's state before it takes the mutex, so a resetter that passed the test delivers OnResetStream although the
   answer destroyed the stream meanwhile - BaseStream.tla does not claim otherwise).  What the design owes then is
   exactly one reply - the error reply for the reset or, when the reset is retried, the answer of the retry -, as long as
   nothing of the answer has been forwarded.  A deadlock of this model with the worker parked in
   waitNotify is a request that hangs forever.

   Defects (named deviations that the pinned code had; {} = the tree as repaired):
     "NoDeadlineCheck"        doRetry starts another attempt although the global timeout expired
                              (the one-shot global timer was ignored during retry set-up or lost its CAS)
     "SilentExitInUpFilter"   a reset handled while a local reply is pending in the UpFilter phase
                              ends the task loop without reply and without cleanStream
     "LoopCountsRetries"      every retry uses up one of the 10 iterations of the task loop: num_retries >= 9 with
                              attempts that keep failing falls out of the loop without reply or clean-up
     "NoCleanUpOnRetryAbort"  doRetry's exits for a retry that cannot start (deadline passed, no host) skip cleanUp().
                              Harmful only together with "DropRetryStateWithoutRelease" (the pinned code): since the
                              repair the dropped retry state releases what it holds, so this alone breaks no invariant
     "StaleWakeEndsRequest"  waitNotify takes ANY token for news: OnResetStream raises its flag first and sends the token
                             later (two steps); a worker that acted on the flag in a processError of its own and drained
                             the slot before the token arrives finds the token in its NEXT wait, sees nothing pending and
                             walks the response path with no response: no reply, no clean-up
     "DropRetryStateWithoutRelease"  processError drops the retry state for a pending local reply without releasing
                              the retries resource: a reset taken in the same pass (e.g. the previous attempt's per-try
                              callback completing right after doRetry gave up) has just admitted another retry, whose
                              unit is then never given back (found by TLC at MaxA=3/Budget=2, reproduced on the code)
     "AnsweredCountsAsStarted"  the reset handling asks "has the upstream answered?" (upstreamResponded) where it has to ask
                              "has anything been forwarded to the client?" (downstreamResponseStarted): a reset that
                              follows the answer of the same attempt before the worker forwarded it is handled like a
                              reset in the middle of a response - the client's stream is reset: no reply, no retry
     "PerTryTimerSurvivesRetry" setupRetry leaves the per-try timer of the attempt that just ended armed (doRetry's re-arm
                              replaces it, cleanUp stops it): it expires between the admission of the retry and the
                              re-arm, wins the CAS setupRetry has just cleared and times out an attempt that does not
                              exist: a host is chosen and never sent to, a unit of the budget is spent on nothing
     "StaleFlagAfterRetry"    a timer callback that was already running when the retry was set up wins the
                              upstreamResponseReceived CAS, is ignored (setupRetry), and the flag stays set:
                              the next attempt's response and every later timer lose the CAS *)
EXTENDS Integers, Sequences, FiniteSets, TLC

CONSTANTS MaxA,      \* upstream attempts modelled (cur ranges over 1..MaxA)
          Budget,    \* retry budget (retiesRemaining)
          MaxLoop,   \* bound of the OnReceive task loop (10 in the code)
          HasTry,    \* per-try timeout configured
          Behaviours,\* subset of {"ok","5xx","close","never","connfail"} the environment may choose per attempt
          Defects

(* --algorithm Downstream
variables
  urr = 0, cleaned = 0, dsReset = 0, upReset = 0, reason = "none",
  direct = FALSE, respStarted = FALSE, upDone = FALSE, notify = 0,
  cur = 1, setupRetry = [a \in 1..MaxA |-> FALSE],
  beh = [a \in 1..MaxA |-> "unsent"],      \* behaviour of attempt a; "unsent" | "reset" (locally reset) | Behaviours
  answered = [a \in 1..MaxA |-> FALSE],
  remaining = Budget, rsSet = TRUE,
  gt = "off", pt = "off",                  \* timers: off | armed | run (callback started) | act (CAS won)
  deadlinePassed = FALSE,                  \* the global timeout has expired (set when its timer fires)
  respHdr = "none",                        \* response waiting to be sent downstream: none | ok | 5xx | hijack
  replies = 0, attempts = 0, gauge = 1,
  loopI = 0, phase = "send", err = FALSE, clientGone = FALSE,
  tryOpen = FALSE,                         \* ghost: an attempt is pending whose per-try timeout has been armed and whose end the worker has not handled yet
  rheld = 0,                               \* units of the cluster's retries resource this request holds (retryState.retryCounted)
  npend = 0;                               \* tokens on their way: OnResetStream has raised its flag, sendNotify() not yet run

define
  Retryable(r) == r \in {"connfail", "pertry", "close"}
  ProcessDone == upDone \/ dsReset = 1 \/ upReset = 1
  StopT(t) == IF t = "armed" THEN "off" ELSE t
  \* what a woken worker finds when somebody really had news for it
  \* "the response has started" as the reset handling sees it
  Started == respStarted \/ ("AnsweredCountsAsStarted" \in Defects /\ respHdr \in {"ok", "5xx"})
  \* setupRetry stops the per-try timer of the attempt that has ended
  StopOnRetry(t) == IF "PerTryTimerSurvivesRetry" \in Defects THEN t ELSE StopT(t)
  News == cleaned = 1 \/ upReset = 1 \/ dsReset = 1 \/ direct \/ upDone \/ respHdr # "none"
end define;

\* types.StreamEventListener.OnResetStream of the upstream request `a`
\* Called from a timer / upstream goroutine the token follows the flag in a step of its own (process notifier); called by
\* the worker itself (pool failure inside appendHeaders) flag and token are one step of that goroutine.
macro OnUpReset(a, r, own) begin
  if ~setupRetry[a] /\ upReset = 0 then
    upReset := 1; reason := r;
    if own then notify := 1; else npend := npend + 1; end if;
  end if;
end macro;


macro CleanUp() begin
  gt := StopT(gt); pt := StopT(pt); tryOpen := FALSE;
  if rsSet then rheld := 0; end if;                \* cleanUp: retryState.reset() - only while a retry state exists
end macro;

macro CleanStream() begin
  if cleaned = 0 then
    cleaned := 1; gauge := gauge - 1;
    gt := StopT(gt); pt := StopT(pt); tryOpen := FALSE;
    if rsSet then rheld := 0; end if;
    if beh[cur] \in Behaviours /\ ~upDone then beh[cur] := "reset"; end if;
  end if;
end macro;

fair process worker = "w"
variable retNext = "none";
begin
LoopTop:                                            \* ds.loop.top: for i < 10 { cleanNotify(); receive(phase) }
  if loopI >= MaxLoop then goto FellOut; end if;
L1: if phase # "retry" \/ "LoopCountsRetries" \in Defects then loopI := loopI + 1; end if;   \* a retry does not use up an iteration
  notify := 0;
  if phase = "send" then goto Send;
  elsif phase = "retry" then goto RetryBegin;
  elsif phase = "upfilter" then goto UpFilter;
  else goto Exit; end if;

Send:                                               \* upstreamRequest.appendHeaders through the pool
  if ~ProcessDone then
    with b \in Behaviours do
      attempts := attempts + 1;
      if b = "connfail" then
        OnUpReset(cur, "connfail", TRUE);
      else
        beh[cur] := b;
      end if;
    end with;
  end if;
Arm:                                                \* onUpstreamRequestSent / setupPerReqTimeout
  if HasTry then pt := "armed"; tryOpen := TRUE; end if;
  if phase = "send" then gt := "armed"; end if;     \* the global timer is armed once
  retNext := "wait";
  goto PE;

Wait:                                               \* ds.wait: waitNotify blocks on the 1-slot channel
  await notify = 1;
  notify := 0;
  if ~News /\ "StaleWakeEndsRequest" \notin Defects then goto Wait; end if;   \* a token without news: keep waiting
Woken:                                              \* ds.woken
  retNext := "upfilter";
  goto PE;

\* ---------------- processError ----------------
PE:
  if cleaned = 1 then goto Exit;
  elsif upReset = 1 then
    \* onUpstreamReset(reason)
    if reason # "global" /\ ~Started /\ rsSet /\ remaining > 0 /\ Retryable(reason) then
      remaining := remaining - 1;
      rheld := 1;                                    \* retryState.retry(): reset(), then Retries().Increase()
      setupRetry[cur] := TRUE;                       \* setupRetry(true): resetStream, stop per-try timer, CAS(urr,1,0), upstreamResponded = 0
      if beh[cur] \in Behaviours then beh[cur] := "reset"; end if;
      pt := StopOnRetry(pt); tryOpen := FALSE;
      urr := 0;
      respHdr := "none";                             \* an answer taken from the attempt that was reset is not news any more
      err := TRUE;
      goto UpResetRetry;
    elsif Started then
      CleanUp();                                     \* a reset in the middle of a response: s.resetStream() resets the client's stream,
      upDone := TRUE; dsReset := 1;                  \* whose OnResetStream raises downstreamReset (handled below: cleanStream)
      err := TRUE;
    else
      if reason # "global" /\ rsSet /\ remaining > 0 then remaining := remaining - 1; end if;
      CleanUp();
      upReset := 0;
      respHdr := "hijack"; direct := TRUE;           \* sendHijackReply(ConvertReasonToCode(reason))
      err := TRUE;
    end if;
  else
    err := FALSE;
  end if;
PE2:
  if dsReset = 1 then
    CleanStream();                                   \* ResetStream -> cleanStream
    goto Exit;
  elsif direct then
    if rsSet /\ "DropRetryStateWithoutRelease" \notin Defects then rheld := 0; end if;   \* "don't retry": give back what the retry state holds ...
    direct := FALSE; rsSet := FALSE;                 \* ... and drop it
    if phase # "upfilter" then
      phase := "upfilter"; goto LoopTop;
    elsif "SilentExitInUpFilter" \in Defects /\ err then
      goto Exit;                                     \* (End, ErrExit): no reply, no cleanStream
    else
      goto UpHdr;                                    \* already on the response path: go on and send the local reply
    end if;
  elsif upDone then goto Exit;
  elsif setupRetry[cur] then
    setupRetry[cur] := FALSE;
    phase := "retry"; goto LoopTop;
  elsif err then goto Exit;
  elsif retNext = "wait" then goto Wait;
  elsif retNext = "upfilter" then phase := "upfilter"; goto UpFilter;
  else goto Exit;
  end if;

UpResetRetry:                                       \* ds.upreset.retry: window between setupRetry(true) and the CAS below
  upReset := 0;                                     \* atomic.CompareAndSwapUint32(&s.upstreamReset, 1, 0)
  goto PE2;

\* ---------------- doRetry ----------------
RetryBegin:                                         \* ds.retry.begin (10 ms sleep follows)
  skip;
RetryPool:                                          \* ds.retry.pool
  if deadlinePassed /\ "NoDeadlineCheck" \notin Defects then
    setupRetry[cur] := FALSE;
    respHdr := "hijack"; direct := TRUE;             \* timeout reply instead of another attempt
    if "NoCleanUpOnRetryAbort" \notin Defects then CleanUp(); end if;   \* the local reply drops the retry state: release now
    retNext := "wait";
    goto PE;
  elsif cur >= MaxA then                             \* no further host: "no healthy upstream"
    setupRetry[cur] := FALSE;
    respHdr := "hijack"; direct := TRUE;
    if "NoCleanUpOnRetryAbort" \notin Defects then CleanUp(); end if;
    retNext := "wait";
    goto PE;
  end if;
RetryChosen:                                        \* ds.retry.chosen: host selected, new upstreamRequest installed
  cur := cur + 1;
  if "StaleFlagAfterRetry" \notin Defects then urr := 0; end if;   \* a new attempt starts with a clear flag
  goto Send;

\* ---------------- response path ----------------
UpFilter:                                           \* send filters, then processError
  retNext := "uphdr";
  if cleaned = 1 then goto Exit;
  elsif upReset = 1 then
    if reason # "global" /\ ~Started /\ rsSet /\ remaining > 0 /\ Retryable(reason) then
      remaining := remaining - 1; rheld := 1; setupRetry[cur] := TRUE;
      if beh[cur] \in Behaviours then beh[cur] := "reset"; end if;
      pt := StopOnRetry(pt); tryOpen := FALSE; urr := 0; respHdr := "none"; err := TRUE;
      goto UpResetRetry;
    elsif Started then
      CleanUp(); upDone := TRUE; dsReset := 1; err := TRUE;
    else
      CleanUp(); upReset := 0; respHdr := "hijack"; direct := TRUE; err := TRUE;
    end if;
  else
    err := FALSE;
  end if;
UpFilter2:
  if dsReset = 1 then CleanStream(); goto Exit;
  elsif direct then
    if rsSet /\ "DropRetryStateWithoutRelease" \notin Defects then rheld := 0; end if;
    direct := FALSE; rsSet := FALSE;
    if "SilentExitInUpFilter" \in Defects /\ err then goto Exit; end if;
  elsif upDone then goto Exit;
  elsif setupRetry[cur] then setupRetry[cur] := FALSE; phase := "retry"; goto LoopTop;
  elsif err then goto Exit;
  end if;
UpHdr:                                              \* upstreamRequest.receiveHeaders -> onUpstreamHeaders
  if ProcessDone \/ setupRetry[cur] \/ respHdr = "none" then
    retNext := "none";
    goto PE;
  elsif rsSet /\ respHdr = "5xx" /\ remaining > 0 then
    remaining := remaining - 1;                     \* retry on the response: setupRetry(endStream)
    rheld := 1;
    setupRetry[cur] := TRUE; pt := StopOnRetry(pt); tryOpen := FALSE; urr := 0;
    respHdr := "none";
    retNext := "none";
    goto PE;
  else
    if rsSet /\ remaining > 0 then remaining := remaining - 1; end if;
    if rsSet then rheld := 0; end if;                \* retry() begins with reset(); the accepted response ends with reset()
    respStarted := TRUE; upDone := TRUE;
    replies := replies + 1;                          \* responseSender.AppendHeaders(endStream = true)
  end if;
EndStream:
  CleanStream();
  goto Exit;

FellOut:                                            \* the for-loop ran out: the task returns without reply or clean-up
  skip;
Exit:
  skip;
end process;

fair process gtimer = "g"
begin
GFire:  await gt = "armed" \/ pc["w"] \in {"Exit", "FellOut", "Done"};        \* ds.gtimer.fire
        if gt = "armed" then gt := "run"; deadlinePassed := TRUE; else goto GDone; end if;
GCas:   if cleaned = 1 \/ urr = 1 then gt := "off"; goto GDone;       \* CAS(upstreamResponseReceived, 0, 1)
        else urr := 1; gt := "act"; end if;
GAct:   if beh[cur] \in Behaviours then beh[cur] := "reset"; end if;   \* ds.gtimer.cas: onResponseTimeout
        OnUpReset(cur, "global", FALSE);
        gt := "off";
GDone:  skip;
end process;

fair process ptimer = "p"
begin
PFire:  await pt = "armed" \/ pc["w"] \in {"Exit", "FellOut", "Done"};        \* ds.ptimer.fire
        if pt = "armed" then pt := "run"; else goto PDone; end if;
PCas:   if cleaned = 1 \/ urr = 1 then pt := "off"; goto PAgain;
        else urr := 1; pt := "act"; end if;
PAct:   if ~Started then                                              \* ds.ptimer.cas: onPerReqTimeout
          if beh[cur] \in Behaviours then beh[cur] := "reset"; end if;
          OnUpReset(cur, "pertry", FALSE);
        end if;
        pt := "off";
PAgain: goto PFire;                                                   \* re-armed by the next attempt
PDone:  skip;
end process;

\* the upstream side of the attempts: response (guard, then CAS) or connection reset
fair process upstream = "u"
variable ua = 0;
begin
UIdle:
  either
    await pc["w"] \in {"Exit", "FellOut", "Done"};
    goto UDone;
  or
    with a \in { x \in 1..MaxA : beh[x] \in {"ok", "5xx", "okclose"} /\ ~answered[x] } do ua := a; end with;
    answered[ua] := TRUE;
  UGuard:                                           \* us.recv.guard
    if ProcessDone \/ setupRetry[ua] then goto UIdle; end if;
  UCas:                                             \* us.recv.cas
    if urr = 0 then urr := 1; respHdr := IF beh[ua] = "okclose" THEN "ok" ELSE beh[ua]; notify := 1; end if;
    goto UIdle;
  or
    \* a connection reset: instead of an answer ("close"), or behind the answer of the same attempt ("okclose": second event)
    with a \in { x \in 1..MaxA : (beh[x] = "close" /\ ~answered[x]) \/ (beh[x] = "okclose" /\ answered[x]) } do ua := a; end with;
    if beh[ua] = "okclose" then beh[ua] := "spent"; else answered[ua] := TRUE; end if;
  UReset:                                           \* us.reset
    OnUpReset(ua, "close", FALSE);
    goto UIdle;
  end either;
UDone: skip;
end process;

\* the second half of OnResetStream on a foreign goroutine: sendNotify()
fair process notifier = "n"
begin
NLoop: await npend > 0 \/ pc["w"] \in {"Exit", "FellOut", "Done"};
       if npend > 0 then npend := npend - 1; notify := 1; goto NLoop; end if;
end process;

process client = "c"
begin
CGone: either
         await cleaned = 0; clientGone := TRUE;
         if dsReset = 0 then dsReset := 1; notify := 1; end if;        \* downStream.OnResetStream
       or skip; end either;
end process;
end algorithm; *)
\* BEGIN TRANSLATION
VARIABLES pc, urr, cleaned, dsReset, upReset, reason, direct, respStarted, 
          upDone, notify, cur, setupRetry, beh, answered, remaining, rsSet, 
          gt, pt, deadlinePassed, respHdr, replies, attempts, gauge, loopI, 
          phase, err, clientGone, tryOpen, rheld, npend

(* define statement *)
Retryable(r) == r \in {"connfail", "pertry", "close"}
ProcessDone == upDone \/ dsReset = 1 \/ upReset = 1
StopT(t) == IF t = "armed" THEN "off" ELSE t


Started == respStarted \/ ("AnsweredCountsAsStarted" \in Defects /\ respHdr \in {"ok", "5xx"})

StopOnRetry(t) == IF "PerTryTimerSurvivesRetry" \in Defects THEN t ELSE StopT(t)
News == cleaned = 1 \/ upReset = 1 \/ dsReset = 1 \/ direct \/ upDone \/ respHdr # "none"

VARIABLES retNext, ua

vars == << pc, urr, cleaned, dsReset, upReset, reason, direct, respStarted, 
           upDone, notify, cur, setupRetry, beh, answered, remaining, rsSet, 
           gt, pt, deadlinePassed, respHdr, replies, attempts, gauge, loopI, 
           phase, err, clientGone, tryOpen, rheld, npend, retNext, ua >>

ProcSet == {"w"} \cup {"g"} \cup {"p"} \cup {"u"} \cup {"n"} \cup {"c"}

Init == (* Global variables *)
        /\ urr = 0
        /\ cleaned = 0
        /\ dsReset = 0
        /\ upReset = 0
        /\ reason = "none"
        /\ direct = FALSE
        /\ respStarted = FALSE
        /\ upDone = FALSE
        /\ notify = 0
        /\ cur = 1
        /\ setupRetry = [a \in 1..MaxA |-> FALSE]
        /\ beh = [a \in 1..MaxA |-> "unsent"]
        /\ answered = [a \in 1..MaxA |-> FALSE]
        /\ remaining = Budget
        /\ rsSet = TRUE
        /\ gt = "off"
        /\ pt = "off"
        /\ deadlinePassed = FALSE
        /\ respHdr = "none"
        /\ replies = 0
        /\ attempts = 0
        /\ gauge = 1
        /\ loopI = 0
        /\ phase = "send"
        /\ err = FALSE
        /\ clientGone = FALSE
        /\ tryOpen = FALSE
        /\ rheld = 0
        /\ npend = 0
        (* Process worker *)
        /\ retNext = "none"
        (* Process upstream *)
        /\ ua = 0
        /\ pc = [self \in ProcSet |-> CASE self = "w" -> "LoopTop"
                                        [] self = "g" -> "GFire"
                                        [] self = "p" -> "PFire"
                                        [] self = "u" -> "UIdle"
                                        [] self = "n" -> "NLoop"
                                        [] self = "c" -> "CGone"]

LoopTop == /\ pc["w"] = "LoopTop"
           /\ IF loopI >= MaxLoop
                 THEN /\ pc' = [pc EXCEPT !["w"] = "FellOut"]
                 ELSE /\ pc' = [pc EXCEPT !["w"] = "L1"]
           /\ UNCHANGED << urr, cleaned, dsReset, upReset, reason, direct, 
                           respStarted, upDone, notify, cur, setupRetry, beh, 
                           answered, remaining, rsSet, gt, pt, deadlinePassed, 
                           respHdr, replies, attempts, gauge, loopI, phase, 
                           err, clientGone, tryOpen, rheld, npend, retNext, ua >>

L1 == /\ pc["w"] = "L1"
      /\ IF phase # "retry" \/ "LoopCountsRetries" \in Defects
            THEN /\ loopI' = loopI + 1
            ELSE /\ TRUE
                 /\ loopI' = loopI
      /\ notify' = 0
      /\ IF phase = "send"
            THEN /\ pc' = [pc EXCEPT !["w"] = "Send"]
            ELSE /\ IF phase = "retry"
                       THEN /\ pc' = [pc EXCEPT !["w"] = "RetryBegin"]
                       ELSE /\ IF phase = "upfilter"
                                  THEN /\ pc' = [pc EXCEPT !["w"] = "UpFilter"]
                                  ELSE /\ pc' = [pc EXCEPT !["w"] = "Exit"]
      /\ UNCHANGED << urr, cleaned, dsReset, upReset, reason, direct, 
                      respStarted, upDone, cur, setupRetry, beh, answered, 
                      remaining, rsSet, gt, pt, deadlinePassed, respHdr, 
                      replies, attempts, gauge, phase, err, clientGone, 
                      tryOpen, rheld, npend, retNext, ua >>

Send == /\ pc["w"] = "Send"
        /\ IF ~ProcessDone
              THEN /\ \E b \in Behaviours:
                        /\ attempts' = attempts + 1
                        /\ IF b = "connfail"
                              THEN /\ IF ~setupRetry[cur] /\ upReset = 0
                                         THEN /\ upReset' = 1
                                              /\ reason' = "connfail"
                                              /\ IF TRUE
                                                    THEN /\ notify' = 1
                                                         /\ npend' = npend
                                                    ELSE /\ npend' = npend + 1
                                                         /\ UNCHANGED notify
                                         ELSE /\ TRUE
                                              /\ UNCHANGED << upReset, reason, 
                                                              notify, npend >>
                                   /\ beh' = beh
                              ELSE /\ beh' = [beh EXCEPT ![cur] = b]
                                   /\ UNCHANGED << upReset, reason, notify, 
                                                   npend >>
              ELSE /\ TRUE
                   /\ UNCHANGED << upReset, reason, notify, beh, attempts, 
                                   npend >>
        /\ pc' = [pc EXCEPT !["w"] = "Arm"]
        /\ UNCHANGED << urr, cleaned, dsReset, direct, respStarted, upDone, 
                        cur, setupRetry, answered, remaining, rsSet, gt, pt, 
                        deadlinePassed, respHdr, replies, gauge, loopI, phase, 
                        err, clientGone, tryOpen, rheld, retNext, ua >>

Arm == /\ pc["w"] = "Arm"
       /\ IF HasTry
             THEN /\ pt' = "armed"
                  /\ tryOpen' = TRUE
             ELSE /\ TRUE
                  /\ UNCHANGED << pt, tryOpen >>
       /\ IF phase = "send"
             THEN /\ gt' = "armed"
             ELSE /\ TRUE
                  /\ gt' = gt
       /\ retNext' = "wait"
       /\ pc' = [pc EXCEPT !["w"] = "PE"]
       /\ UNCHANGED << urr, cleaned, dsReset, upReset, reason, direct, 
                       respStarted, upDone, notify, cur, setupRetry, beh, 
                       answered, remaining, rsSet, deadlinePassed, respHdr, 
                       replies, attempts, gauge, loopI, phase, err, clientGone, 
                       rheld, npend, ua >>

Wait == /\ pc["w"] = "Wait"
        /\ notify = 1
        /\ notify' = 0
        /\ IF ~News /\ "StaleWakeEndsRequest" \notin Defects
              THEN /\ pc' = [pc EXCEPT !["w"] = "Wait"]
              ELSE /\ pc' = [pc EXCEPT !["w"] = "Woken"]
        /\ UNCHANGED << urr, cleaned, dsReset, upReset, reason, direct, 
                        respStarted, upDone, cur, setupRetry, beh, answered, 
                        remaining, rsSet, gt, pt, deadlinePassed, respHdr, 
                        replies, attempts, gauge, loopI, phase, err, 
                        clientGone, tryOpen, rheld, npend, retNext, ua >>

Woken == /\ pc["w"] = "Woken"
         /\ retNext' = "upfilter"
         /\ pc' = [pc EXCEPT !["w"] = "PE"]
         /\ UNCHANGED << urr, cleaned, dsReset, upReset, reason, direct, 
                         respStarted, upDone, notify, cur, setupRetry, beh, 
                         answered, remaining, rsSet, gt, pt, deadlinePassed, 
                         respHdr, replies, attempts, gauge, loopI, phase, err, 
                         clientGone, tryOpen, rheld, npend, ua >>

PE == /\ pc["w"] = "PE"
      /\ IF cleaned = 1
            THEN /\ pc' = [pc EXCEPT !["w"] = "Exit"]
                 /\ UNCHANGED << urr, dsReset, upReset, direct, upDone, 
                                 setupRetry, beh, remaining, gt, pt, respHdr, 
                                 err, tryOpen, rheld >>
            ELSE /\ IF upReset = 1
                       THEN /\ IF reason # "global" /\ ~Started /\ rsSet /\ remaining > 0 /\ Retryable(reason)
                                  THEN /\ remaining' = remaining - 1
                                       /\ rheld' = 1
                                       /\ setupRetry' = [setupRetry EXCEPT ![cur] = TRUE]
                                       /\ IF beh[cur] \in Behaviours
                                             THEN /\ beh' = [beh EXCEPT ![cur] = "reset"]
                                             ELSE /\ TRUE
                                                  /\ beh' = beh
                                       /\ pt' = StopOnRetry(pt)
                                       /\ tryOpen' = FALSE
                                       /\ urr' = 0
                                       /\ respHdr' = "none"
                                       /\ err' = TRUE
                                       /\ pc' = [pc EXCEPT !["w"] = "UpResetRetry"]
                                       /\ UNCHANGED << dsReset, upReset, 
                                                       direct, upDone, gt >>
                                  ELSE /\ IF Started
                                             THEN /\ gt' = StopT(gt)
                                                  /\ pt' = StopT(pt)
                                                  /\ tryOpen' = FALSE
                                                  /\ IF rsSet
                                                        THEN /\ rheld' = 0
                                                        ELSE /\ TRUE
                                                             /\ rheld' = rheld
                                                  /\ upDone' = TRUE
                                                  /\ dsReset' = 1
                                                  /\ err' = TRUE
                                                  /\ UNCHANGED << upReset, 
                                                                  direct, 
                                                                  remaining, 
                                                                  respHdr >>
                                             ELSE /\ IF reason # "global" /\ rsSet /\ remaining > 0
                                                        THEN /\ remaining' = remaining - 1
                                                        ELSE /\ TRUE
                                                             /\ UNCHANGED remaining
                                                  /\ gt' = StopT(gt)
                                                  /\ pt' = StopT(pt)
                                                  /\ tryOpen' = FALSE
                                                  /\ IF rsSet
                                                        THEN /\ rheld' = 0
                                                        ELSE /\ TRUE
                                                             /\ rheld' = rheld
                                                  /\ upReset' = 0
                                                  /\ respHdr' = "hijack"
                                                  /\ direct' = TRUE
                                                  /\ err' = TRUE
                                                  /\ UNCHANGED << dsReset, 
                                                                  upDone >>
                                       /\ pc' = [pc EXCEPT !["w"] = "PE2"]
                                       /\ UNCHANGED << urr, setupRetry, beh >>
                       ELSE /\ err' = FALSE
                            /\ pc' = [pc EXCEPT !["w"] = "PE2"]
                            /\ UNCHANGED << urr, dsReset, upReset, direct, 
                                            upDone, setupRetry, beh, remaining, 
                                            gt, pt, respHdr, tryOpen, rheld >>
      /\ UNCHANGED << cleaned, reason, respStarted, notify, cur, answered, 
                      rsSet, deadlinePassed, replies, attempts, gauge, loopI, 
                      phase, clientGone, npend, retNext, ua >>

PE2 == /\ pc["w"] = "PE2"
       /\ IF dsReset = 1
             THEN /\ IF cleaned = 0
                        THEN /\ cleaned' = 1
                             /\ gauge' = gauge - 1
                             /\ gt' = StopT(gt)
                             /\ pt' = StopT(pt)
                             /\ tryOpen' = FALSE
                             /\ IF rsSet
                                   THEN /\ rheld' = 0
                                   ELSE /\ TRUE
                                        /\ rheld' = rheld
                             /\ IF beh[cur] \in Behaviours /\ ~upDone
                                   THEN /\ beh' = [beh EXCEPT ![cur] = "reset"]
                                   ELSE /\ TRUE
                                        /\ beh' = beh
                        ELSE /\ TRUE
                             /\ UNCHANGED << cleaned, beh, gt, pt, gauge, 
                                             tryOpen, rheld >>
                  /\ pc' = [pc EXCEPT !["w"] = "Exit"]
                  /\ UNCHANGED << direct, setupRetry, rsSet, phase >>
             ELSE /\ IF direct
                        THEN /\ IF rsSet /\ "DropRetryStateWithoutRelease" \notin Defects
                                   THEN /\ rheld' = 0
                                   ELSE /\ TRUE
                                        /\ rheld' = rheld
                             /\ direct' = FALSE
                             /\ rsSet' = FALSE
                             /\ IF phase # "upfilter"
                                   THEN /\ phase' = "upfilter"
                                        /\ pc' = [pc EXCEPT !["w"] = "LoopTop"]
                                   ELSE /\ IF "SilentExitInUpFilter" \in Defects /\ err
                                              THEN /\ pc' = [pc EXCEPT !["w"] = "Exit"]
                                              ELSE /\ pc' = [pc EXCEPT !["w"] = "UpHdr"]
                                        /\ phase' = phase
                             /\ UNCHANGED setupRetry
                        ELSE /\ IF upDone
                                   THEN /\ pc' = [pc EXCEPT !["w"] = "Exit"]
                                        /\ UNCHANGED << setupRetry, phase >>
                                   ELSE /\ IF setupRetry[cur]
                                              THEN /\ setupRetry' = [setupRetry EXCEPT ![cur] = FALSE]
                                                   /\ phase' = "retry"
                                                   /\ pc' = [pc EXCEPT !["w"] = "LoopTop"]
                                              ELSE /\ IF err
                                                         THEN /\ pc' = [pc EXCEPT !["w"] = "Exit"]
                                                              /\ phase' = phase
                                                         ELSE /\ IF retNext = "wait"
                                                                    THEN /\ pc' = [pc EXCEPT !["w"] = "Wait"]
                                                                         /\ phase' = phase
                                                                    ELSE /\ IF retNext = "upfilter"
                                                                               THEN /\ phase' = "upfilter"
                                                                                    /\ pc' = [pc EXCEPT !["w"] = "UpFilter"]
                                                                               ELSE /\ pc' = [pc EXCEPT !["w"] = "Exit"]
                                                                                    /\ phase' = phase
                                                   /\ UNCHANGED setupRetry
                             /\ UNCHANGED << direct, rsSet, rheld >>
                  /\ UNCHANGED << cleaned, beh, gt, pt, gauge, tryOpen >>
       /\ UNCHANGED << urr, dsReset, upReset, reason, respStarted, upDone, 
                       notify, cur, answered, remaining, deadlinePassed, 
                       respHdr, replies, attempts, loopI, err, clientGone, 
                       npend, retNext, ua >>

UpResetRetry == /\ pc["w"] = "UpResetRetry"
                /\ upReset' = 0
                /\ pc' = [pc EXCEPT !["w"] = "PE2"]
                /\ UNCHANGED << urr, cleaned, dsReset, reason, direct, 
                                respStarted, upDone, notify, cur, setupRetry, 
                                beh, answered, remaining, rsSet, gt, pt, 
                                deadlinePassed, respHdr, replies, attempts, 
                                gauge, loopI, phase, err, clientGone, tryOpen, 
                                rheld, npend, retNext, ua >>

RetryBegin == /\ pc["w"] = "RetryBegin"
              /\ TRUE
              /\ pc' = [pc EXCEPT !["w"] = "RetryPool"]
              /\ UNCHANGED << urr, cleaned, dsReset, upReset, reason, direct, 
                              respStarted, upDone, notify, cur, setupRetry, 
                              beh, answered, remaining, rsSet, gt, pt, 
                              deadlinePassed, respHdr, replies, attempts, 
                              gauge, loopI, phase, err, clientGone, tryOpen, 
                              rheld, npend, retNext, ua >>

RetryPool == /\ pc["w"] = "RetryPool"
             /\ IF deadlinePassed /\ "NoDeadlineCheck" \notin Defects
                   THEN /\ setupRetry' = [setupRetry EXCEPT ![cur] = FALSE]
                        /\ respHdr' = "hijack"
                        /\ direct' = TRUE
                        /\ IF "NoCleanUpOnRetryAbort" \notin Defects
                              THEN /\ gt' = StopT(gt)
                                   /\ pt' = StopT(pt)
                                   /\ tryOpen' = FALSE
                                   /\ IF rsSet
                                         THEN /\ rheld' = 0
                                         ELSE /\ TRUE
                                              /\ rheld' = rheld
                              ELSE /\ TRUE
                                   /\ UNCHANGED << gt, pt, tryOpen, rheld >>
                        /\ retNext' = "wait"
                        /\ pc' = [pc EXCEPT !["w"] = "PE"]
                   ELSE /\ IF cur >= MaxA
                              THEN /\ setupRetry' = [setupRetry EXCEPT ![cur] = FALSE]
                                   /\ respHdr' = "hijack"
                                   /\ direct' = TRUE
                                   /\ IF "NoCleanUpOnRetryAbort" \notin Defects
                                         THEN /\ gt' = StopT(gt)
                                              /\ pt' = StopT(pt)
                                              /\ tryOpen' = FALSE
                                              /\ IF rsSet
                                                    THEN /\ rheld' = 0
                                                    ELSE /\ TRUE
                                                         /\ rheld' = rheld
                                         ELSE /\ TRUE
                                              /\ UNCHANGED << gt, pt, tryOpen, 
                                                              rheld >>
                                   /\ retNext' = "wait"
                                   /\ pc' = [pc EXCEPT !["w"] = "PE"]
                              ELSE /\ pc' = [pc EXCEPT !["w"] = "RetryChosen"]
                                   /\ UNCHANGED << direct, setupRetry, gt, pt, 
                                                   respHdr, tryOpen, rheld, 
                                                   retNext >>
             /\ UNCHANGED << urr, cleaned, dsReset, upReset, reason, 
                             respStarted, upDone, notify, cur, beh, answered, 
                             remaining, rsSet, deadlinePassed, replies, 
                             attempts, gauge, loopI, phase, err, clientGone, 
                             npend, ua >>

RetryChosen == /\ pc["w"] = "RetryChosen"
               /\ cur' = cur + 1
               /\ IF "StaleFlagAfterRetry" \notin Defects
                     THEN /\ urr' = 0
                     ELSE /\ TRUE
                          /\ urr' = urr
               /\ pc' = [pc EXCEPT !["w"] = "Send"]
               /\ UNCHANGED << cleaned, dsReset, upReset, reason, direct, 
                               respStarted, upDone, notify, setupRetry, beh, 
                               answered, remaining, rsSet, gt, pt, 
                               deadlinePassed, respHdr, replies, attempts, 
                               gauge, loopI, phase, err, clientGone, tryOpen, 
                               rheld, npend, retNext, ua >>

UpFilter == /\ pc["w"] = "UpFilter"
            /\ retNext' = "uphdr"
            /\ IF cleaned = 1
                  THEN /\ pc' = [pc EXCEPT !["w"] = "Exit"]
                       /\ UNCHANGED << urr, dsReset, upReset, direct, upDone, 
                                       setupRetry, beh, remaining, gt, pt, 
                                       respHdr, err, tryOpen, rheld >>
                  ELSE /\ IF upReset = 1
                             THEN /\ IF reason # "global" /\ ~Started /\ rsSet /\ remaining > 0 /\ Retryable(reason)
                                        THEN /\ remaining' = remaining - 1
                                             /\ rheld' = 1
                                             /\ setupRetry' = [setupRetry EXCEPT ![cur] = TRUE]
                                             /\ IF beh[cur] \in Behaviours
                                                   THEN /\ beh' = [beh EXCEPT ![cur] = "reset"]
                                                   ELSE /\ TRUE
                                                        /\ beh' = beh
                                             /\ pt' = StopOnRetry(pt)
                                             /\ tryOpen' = FALSE
                                             /\ urr' = 0
                                             /\ respHdr' = "none"
                                             /\ err' = TRUE
                                             /\ pc' = [pc EXCEPT !["w"] = "UpResetRetry"]
                                             /\ UNCHANGED << dsReset, upReset, 
                                                             direct, upDone, 
                                                             gt >>
                                        ELSE /\ IF Started
                                                   THEN /\ gt' = StopT(gt)
                                                        /\ pt' = StopT(pt)
                                                        /\ tryOpen' = FALSE
                                                        /\ IF rsSet
                                                              THEN /\ rheld' = 0
                                                              ELSE /\ TRUE
                                                                   /\ rheld' = rheld
                                                        /\ upDone' = TRUE
                                                        /\ dsReset' = 1
                                                        /\ err' = TRUE
                                                        /\ UNCHANGED << upReset, 
                                                                        direct, 
                                                                        respHdr >>
                                                   ELSE /\ gt' = StopT(gt)
                                                        /\ pt' = StopT(pt)
                                                        /\ tryOpen' = FALSE
                                                        /\ IF rsSet
                                                              THEN /\ rheld' = 0
                                                              ELSE /\ TRUE
                                                                   /\ rheld' = rheld
                                                        /\ upReset' = 0
                                                        /\ respHdr' = "hijack"
                                                        /\ direct' = TRUE
                                                        /\ err' = TRUE
                                                        /\ UNCHANGED << dsReset, 
                                                                        upDone >>
                                             /\ pc' = [pc EXCEPT !["w"] = "UpFilter2"]
                                             /\ UNCHANGED << urr, setupRetry, 
                                                             beh, remaining >>
                             ELSE /\ err' = FALSE
                                  /\ pc' = [pc EXCEPT !["w"] = "UpFilter2"]
                                  /\ UNCHANGED << urr, dsReset, upReset, 
                                                  direct, upDone, setupRetry, 
                                                  beh, remaining, gt, pt, 
                                                  respHdr, tryOpen, rheld >>
            /\ UNCHANGED << cleaned, reason, respStarted, notify, cur, 
                            answered, rsSet, deadlinePassed, replies, attempts, 
                            gauge, loopI, phase, clientGone, npend, ua >>

UpFilter2 == /\ pc["w"] = "UpFilter2"
             /\ IF dsReset = 1
                   THEN /\ IF cleaned = 0
                              THEN /\ cleaned' = 1
                                   /\ gauge' = gauge - 1
                                   /\ gt' = StopT(gt)
                                   /\ pt' = StopT(pt)
                                   /\ tryOpen' = FALSE
                                   /\ IF rsSet
                                         THEN /\ rheld' = 0
                                         ELSE /\ TRUE
                                              /\ rheld' = rheld
                                   /\ IF beh[cur] \in Behaviours /\ ~upDone
                                         THEN /\ beh' = [beh EXCEPT ![cur] = "reset"]
                                         ELSE /\ TRUE
                                              /\ beh' = beh
                              ELSE /\ TRUE
                                   /\ UNCHANGED << cleaned, beh, gt, pt, gauge, 
                                                   tryOpen, rheld >>
                        /\ pc' = [pc EXCEPT !["w"] = "Exit"]
                        /\ UNCHANGED << direct, setupRetry, rsSet, phase >>
                   ELSE /\ IF direct
                              THEN /\ IF rsSet /\ "DropRetryStateWithoutRelease" \notin Defects
                                         THEN /\ rheld' = 0
                                         ELSE /\ TRUE
                                              /\ rheld' = rheld
                                   /\ direct' = FALSE
                                   /\ rsSet' = FALSE
                                   /\ IF "SilentExitInUpFilter" \in Defects /\ err
                                         THEN /\ pc' = [pc EXCEPT !["w"] = "Exit"]
                                         ELSE /\ pc' = [pc EXCEPT !["w"] = "UpHdr"]
                                   /\ UNCHANGED << setupRetry, phase >>
                              ELSE /\ IF upDone
                                         THEN /\ pc' = [pc EXCEPT !["w"] = "Exit"]
                                              /\ UNCHANGED << setupRetry, 
                                                              phase >>
                                         ELSE /\ IF setupRetry[cur]
                                                    THEN /\ setupRetry' = [setupRetry EXCEPT ![cur] = FALSE]
                                                         /\ phase' = "retry"
                                                         /\ pc' = [pc EXCEPT !["w"] = "LoopTop"]
                                                    ELSE /\ IF err
                                                               THEN /\ pc' = [pc EXCEPT !["w"] = "Exit"]
                                                               ELSE /\ pc' = [pc EXCEPT !["w"] = "UpHdr"]
                                                         /\ UNCHANGED << setupRetry, 
                                                                         phase >>
                                   /\ UNCHANGED << direct, rsSet, rheld >>
                        /\ UNCHANGED << cleaned, beh, gt, pt, gauge, tryOpen >>
             /\ UNCHANGED << urr, dsReset, upReset, reason, respStarted, 
                             upDone, notify, cur, answered, remaining, 
                             deadlinePassed, respHdr, replies, attempts, loopI, 
                             err, clientGone, npend, retNext, ua >>

UpHdr == /\ pc["w"] = "UpHdr"
         /\ IF ProcessDone \/ setupRetry[cur] \/ respHdr = "none"
               THEN /\ retNext' = "none"
                    /\ pc' = [pc EXCEPT !["w"] = "PE"]
                    /\ UNCHANGED << urr, respStarted, upDone, setupRetry, 
                                    remaining, pt, respHdr, replies, tryOpen, 
                                    rheld >>
               ELSE /\ IF rsSet /\ respHdr = "5xx" /\ remaining > 0
                          THEN /\ remaining' = remaining - 1
                               /\ rheld' = 1
                               /\ setupRetry' = [setupRetry EXCEPT ![cur] = TRUE]
                               /\ pt' = StopOnRetry(pt)
                               /\ tryOpen' = FALSE
                               /\ urr' = 0
                               /\ respHdr' = "none"
                               /\ retNext' = "none"
                               /\ pc' = [pc EXCEPT !["w"] = "PE"]
                               /\ UNCHANGED << respStarted, upDone, replies >>
                          ELSE /\ IF rsSet /\ remaining > 0
                                     THEN /\ remaining' = remaining - 1
                                     ELSE /\ TRUE
                                          /\ UNCHANGED remaining
                               /\ IF rsSet
                                     THEN /\ rheld' = 0
                                     ELSE /\ TRUE
                                          /\ rheld' = rheld
                               /\ respStarted' = TRUE
                               /\ upDone' = TRUE
                               /\ replies' = replies + 1
                               /\ pc' = [pc EXCEPT !["w"] = "EndStream"]
                               /\ UNCHANGED << urr, setupRetry, pt, respHdr, 
                                               tryOpen, retNext >>
         /\ UNCHANGED << cleaned, dsReset, upReset, reason, direct, notify, 
                         cur, beh, answered, rsSet, gt, deadlinePassed, 
                         attempts, gauge, loopI, phase, err, clientGone, npend, 
                         ua >>

EndStream == /\ pc["w"] = "EndStream"
             /\ IF cleaned = 0
                   THEN /\ cleaned' = 1
                        /\ gauge' = gauge - 1
                        /\ gt' = StopT(gt)
                        /\ pt' = StopT(pt)
                        /\ tryOpen' = FALSE
                        /\ IF rsSet
                              THEN /\ rheld' = 0
                              ELSE /\ TRUE
                                   /\ rheld' = rheld
                        /\ IF beh[cur] \in Behaviours /\ ~upDone
                              THEN /\ beh' = [beh EXCEPT ![cur] = "reset"]
                              ELSE /\ TRUE
                                   /\ beh' = beh
                   ELSE /\ TRUE
                        /\ UNCHANGED << cleaned, beh, gt, pt, gauge, tryOpen, 
                                        rheld >>
             /\ pc' = [pc EXCEPT !["w"] = "Exit"]
             /\ UNCHANGED << urr, dsReset, upReset, reason, direct, 
                             respStarted, upDone, notify, cur, setupRetry, 
                             answered, remaining, rsSet, deadlinePassed, 
                             respHdr, replies, attempts, loopI, phase, err, 
                             clientGone, npend, retNext, ua >>

FellOut == /\ pc["w"] = "FellOut"
           /\ TRUE
           /\ pc' = [pc EXCEPT !["w"] = "Exit"]
           /\ UNCHANGED << urr, cleaned, dsReset, upReset, reason, direct, 
                           respStarted, upDone, notify, cur, setupRetry, beh, 
                           answered, remaining, rsSet, gt, pt, deadlinePassed, 
                           respHdr, replies, attempts, gauge, loopI, phase, 
                           err, clientGone, tryOpen, rheld, npend, retNext, ua >>

Exit == /\ pc["w"] = "Exit"
        /\ TRUE
        /\ pc' = [pc EXCEPT !["w"] = "Done"]
        /\ UNCHANGED << urr, cleaned, dsReset, upReset, reason, direct, 
                        respStarted, upDone, notify, cur, setupRetry, beh, 
                        answered, remaining, rsSet, gt, pt, deadlinePassed, 
                        respHdr, replies, attempts, gauge, loopI, phase, err, 
                        clientGone, tryOpen, rheld, npend, retNext, ua >>

worker == LoopTop \/ L1 \/ Send \/ Arm \/ Wait \/ Woken \/ PE \/ PE2
             \/ UpResetRetry \/ RetryBegin \/ RetryPool \/ RetryChosen
             \/ UpFilter \/ UpFilter2 \/ UpHdr \/ EndStream \/ FellOut
             \/ Exit

GFire == /\ pc["g"] = "GFire"
         /\ gt = "armed" \/ pc["w"] \in {"Exit", "FellOut", "Done"}
         /\ IF gt = "armed"
               THEN /\ gt' = "run"
                    /\ deadlinePassed' = TRUE
                    /\ pc' = [pc EXCEPT !["g"] = "GCas"]
               ELSE /\ pc' = [pc EXCEPT !["g"] = "GDone"]
                    /\ UNCHANGED << gt, deadlinePassed >>
         /\ UNCHANGED << urr, cleaned, dsReset, upReset, reason, direct, 
                         respStarted, upDone, notify, cur, setupRetry, beh, 
                         answered, remaining, rsSet, pt, respHdr, replies, 
                         attempts, gauge, loopI, phase, err, clientGone, 
                         tryOpen, rheld, npend, retNext, ua >>

GCas == /\ pc["g"] = "GCas"
        /\ IF cleaned = 1 \/ urr = 1
              THEN /\ gt' = "off"
                   /\ pc' = [pc EXCEPT !["g"] = "GDone"]
                   /\ urr' = urr
              ELSE /\ urr' = 1
                   /\ gt' = "act"
                   /\ pc' = [pc EXCEPT !["g"] = "GAct"]
        /\ UNCHANGED << cleaned, dsReset, upReset, reason, direct, respStarted, 
                        upDone, notify, cur, setupRetry, beh, answered, 
                        remaining, rsSet, pt, deadlinePassed, respHdr, replies, 
                        attempts, gauge, loopI, phase, err, clientGone, 
                        tryOpen, rheld, npend, retNext, ua >>

GAct == /\ pc["g"] = "GAct"
        /\ IF beh[cur] \in Behaviours
              THEN /\ beh' = [beh EXCEPT ![cur] = "reset"]
              ELSE /\ TRUE
                   /\ beh' = beh
        /\ IF ~setupRetry[cur] /\ upReset = 0
              THEN /\ upReset' = 1
                   /\ reason' = "global"
                   /\ IF FALSE
                         THEN /\ notify' = 1
                              /\ npend' = npend
                         ELSE /\ npend' = npend + 1
                              /\ UNCHANGED notify
              ELSE /\ TRUE
                   /\ UNCHANGED << upReset, reason, notify, npend >>
        /\ gt' = "off"
        /\ pc' = [pc EXCEPT !["g"] = "GDone"]
        /\ UNCHANGED << urr, cleaned, dsReset, direct, respStarted, upDone, 
                        cur, setupRetry, answered, remaining, rsSet, pt, 
                        deadlinePassed, respHdr, replies, attempts, gauge, 
                        loopI, phase, err, clientGone, tryOpen, rheld, retNext, 
                        ua >>

GDone == /\ pc["g"] = "GDone"
         /\ TRUE
         /\ pc' = [pc EXCEPT !["g"] = "Done"]
         /\ UNCHANGED << urr, cleaned, dsReset, upReset, reason, direct, 
                         respStarted, upDone, notify, cur, setupRetry, beh, 
                         answered, remaining, rsSet, gt, pt, deadlinePassed, 
                         respHdr, replies, attempts, gauge, loopI, phase, err, 
                         clientGone, tryOpen, rheld, npend, retNext, ua >>

gtimer == GFire \/ GCas \/ GAct \/ GDone

PFire == /\ pc["p"] = "PFire"
         /\ pt = "armed" \/ pc["w"] \in {"Exit", "FellOut", "Done"}
         /\ IF pt = "armed"
               THEN /\ pt' = "run"
                    /\ pc' = [pc EXCEPT !["p"] = "PCas"]
               ELSE /\ pc' = [pc EXCEPT !["p"] = "PDone"]
                    /\ pt' = pt
         /\ UNCHANGED << urr, cleaned, dsReset, upReset, reason, direct, 
                         respStarted, upDone, notify, cur, setupRetry, beh, 
                         answered, remaining, rsSet, gt, deadlinePassed, 
                         respHdr, replies, attempts, gauge, loopI, phase, err, 
                         clientGone, tryOpen, rheld, npend, retNext, ua >>

PCas == /\ pc["p"] = "PCas"
        /\ IF cleaned = 1 \/ urr = 1
              THEN /\ pt' = "off"
                   /\ pc' = [pc EXCEPT !["p"] = "PAgain"]
                   /\ urr' = urr
              ELSE /\ urr' = 1
                   /\ pt' = "act"
                   /\ pc' = [pc EXCEPT !["p"] = "PAct"]
        /\ UNCHANGED << cleaned, dsReset, upReset, reason, direct, respStarted, 
                        upDone, notify, cur, setupRetry, beh, answered, 
                        remaining, rsSet, gt, deadlinePassed, respHdr, replies, 
                        attempts, gauge, loopI, phase, err, clientGone, 
                        tryOpen, rheld, npend, retNext, ua >>

PAct == /\ pc["p"] = "PAct"
        /\ IF ~Started
              THEN /\ IF beh[cur] \in Behaviours
                         THEN /\ beh' = [beh EXCEPT ![cur] = "reset"]
                         ELSE /\ TRUE
                              /\ beh' = beh
                   /\ IF ~setupRetry[cur] /\ upReset = 0
                         THEN /\ upReset' = 1
                              /\ reason' = "pertry"
                              /\ IF FALSE
                                    THEN /\ notify' = 1
                                         /\ npend' = npend
                                    ELSE /\ npend' = npend + 1
                                         /\ UNCHANGED notify
                         ELSE /\ TRUE
                              /\ UNCHANGED << upReset, reason, notify, npend >>
              ELSE /\ TRUE
                   /\ UNCHANGED << upReset, reason, notify, beh, npend >>
        /\ pt' = "off"
        /\ pc' = [pc EXCEPT !["p"] = "PAgain"]
        /\ UNCHANGED << urr, cleaned, dsReset, direct, respStarted, upDone, 
                        cur, setupRetry, answered, remaining, rsSet, gt, 
                        deadlinePassed, respHdr, replies, attempts, gauge, 
                        loopI, phase, err, clientGone, tryOpen, rheld, retNext, 
                        ua >>

PAgain == /\ pc["p"] = "PAgain"
          /\ pc' = [pc EXCEPT !["p"] = "PFire"]
          /\ UNCHANGED << urr, cleaned, dsReset, upReset, reason, direct, 
                          respStarted, upDone, notify, cur, setupRetry, beh, 
                          answered, remaining, rsSet, gt, pt, deadlinePassed, 
                          respHdr, replies, attempts, gauge, loopI, phase, err, 
                          clientGone, tryOpen, rheld, npend, retNext, ua >>

PDone == /\ pc["p"] = "PDone"
         /\ TRUE
         /\ pc' = [pc EXCEPT !["p"] = "Done"]
         /\ UNCHANGED << urr, cleaned, dsReset, upReset, reason, direct, 
                         respStarted, upDone, notify, cur, setupRetry, beh, 
                         answered, remaining, rsSet, gt, pt, deadlinePassed, 
                         respHdr, replies, attempts, gauge, loopI, phase, err, 
                         clientGone, tryOpen, rheld, npend, retNext, ua >>

ptimer == PFire \/ PCas \/ PAct \/ PAgain \/ PDone

UIdle == /\ pc["u"] = "UIdle"
         /\ \/ /\ pc["w"] \in {"Exit", "FellOut", "Done"}
               /\ pc' = [pc EXCEPT !["u"] = "UDone"]
               /\ UNCHANGED <<beh, answered, ua>>
            \/ /\ \E a \in { x \in 1..MaxA : beh[x] \in {"ok", "5xx", "okclose"} /\ ~answered[x] }:
                    ua' = a
               /\ answered' = [answered EXCEPT ![ua'] = TRUE]
               /\ pc' = [pc EXCEPT !["u"] = "UGuard"]
               /\ beh' = beh
            \/ /\ \E a \in { x \in 1..MaxA : (beh[x] = "close" /\ ~answered[x]) \/ (beh[x] = "okclose" /\ answered[x]) }:
                    ua' = a
               /\ IF beh[ua'] = "okclose"
                     THEN /\ beh' = [beh EXCEPT ![ua'] = "spent"]
                          /\ UNCHANGED answered
                     ELSE /\ answered' = [answered EXCEPT ![ua'] = TRUE]
                          /\ beh' = beh
               /\ pc' = [pc EXCEPT !["u"] = "UReset"]
         /\ UNCHANGED << urr, cleaned, dsReset, upReset, reason, direct, 
                         respStarted, upDone, notify, cur, setupRetry, 
                         remaining, rsSet, gt, pt, deadlinePassed, respHdr, 
                         replies, attempts, gauge, loopI, phase, err, 
                         clientGone, tryOpen, rheld, npend, retNext >>

UGuard == /\ pc["u"] = "UGuard"
          /\ IF ProcessDone \/ setupRetry[ua]
                THEN /\ pc' = [pc EXCEPT !["u"] = "UIdle"]
                ELSE /\ pc' = [pc EXCEPT !["u"] = "UCas"]
          /\ UNCHANGED << urr, cleaned, dsReset, upReset, reason, direct, 
                          respStarted, upDone, notify, cur, setupRetry, beh, 
                          answered, remaining, rsSet, gt, pt, deadlinePassed, 
                          respHdr, replies, attempts, gauge, loopI, phase, err, 
                          clientGone, tryOpen, rheld, npend, retNext, ua >>

UCas == /\ pc["u"] = "UCas"
        /\ IF urr = 0
              THEN /\ urr' = 1
                   /\ respHdr' = (IF beh[ua] = "okclose" THEN "ok" ELSE beh[ua])
                   /\ notify' = 1
              ELSE /\ TRUE
                   /\ UNCHANGED << urr, notify, respHdr >>
        /\ pc' = [pc EXCEPT !["u"] = "UIdle"]
        /\ UNCHANGED << cleaned, dsReset, upReset, reason, direct, respStarted, 
                        upDone, cur, setupRetry, beh, answered, remaining, 
                        rsSet, gt, pt, deadlinePassed, replies, attempts, 
                        gauge, loopI, phase, err, clientGone, tryOpen, rheld, 
                        npend, retNext, ua >>

UReset == /\ pc["u"] = "UReset"
          /\ IF ~setupRetry[ua] /\ upReset = 0
                THEN /\ upReset' = 1
                     /\ reason' = "close"
                     /\ IF FALSE
                           THEN /\ notify' = 1
                                /\ npend' = npend
                           ELSE /\ npend' = npend + 1
                                /\ UNCHANGED notify
                ELSE /\ TRUE
                     /\ UNCHANGED << upReset, reason, notify, npend >>
          /\ pc' = [pc EXCEPT !["u"] = "UIdle"]
          /\ UNCHANGED << urr, cleaned, dsReset, direct, respStarted, upDone, 
                          cur, setupRetry, beh, answered, remaining, rsSet, gt, 
                          pt, deadlinePassed, respHdr, replies, attempts, 
                          gauge, loopI, phase, err, clientGone, tryOpen, rheld, 
                          retNext, ua >>

UDone == /\ pc["u"] = "UDone"
         /\ TRUE
         /\ pc' = [pc EXCEPT !["u"] = "Done"]
         /\ UNCHANGED << urr, cleaned, dsReset, upReset, reason, direct, 
                         respStarted, upDone, notify, cur, setupRetry, beh, 
                         answered, remaining, rsSet, gt, pt, deadlinePassed, 
                         respHdr, replies, attempts, gauge, loopI, phase, err, 
                         clientGone, tryOpen, rheld, npend, retNext, ua >>

upstream == UIdle \/ UGuard \/ UCas \/ UReset \/ UDone

NLoop == /\ pc["n"] = "NLoop"
         /\ npend > 0 \/ pc["w"] \in {"Exit", "FellOut", "Done"}
         /\ IF npend > 0
               THEN /\ npend' = npend - 1
                    /\ notify' = 1
                    /\ pc' = [pc EXCEPT !["n"] = "NLoop"]
               ELSE /\ pc' = [pc EXCEPT !["n"] = "Done"]
                    /\ UNCHANGED << notify, npend >>
         /\ UNCHANGED << urr, cleaned, dsReset, upReset, reason, direct, 
                         respStarted, upDone, cur, setupRetry, beh, answered, 
                         remaining, rsSet, gt, pt, deadlinePassed, respHdr, 
                         replies, attempts, gauge, loopI, phase, err, 
                         clientGone, tryOpen, rheld, retNext, ua >>

notifier == NLoop

CGone == /\ pc["c"] = "CGone"
         /\ \/ /\ cleaned = 0
               /\ clientGone' = TRUE
               /\ IF dsReset = 0
                     THEN /\ dsReset' = 1
                          /\ notify' = 1
                     ELSE /\ TRUE
                          /\ UNCHANGED << dsReset, notify >>
            \/ /\ TRUE
               /\ UNCHANGED <<dsReset, notify, clientGone>>
         /\ pc' = [pc EXCEPT !["c"] = "Done"]
         /\ UNCHANGED << urr, cleaned, upReset, reason, direct, respStarted, 
                         upDone, cur, setupRetry, beh, answered, remaining, 
                         rsSet, gt, pt, deadlinePassed, respHdr, replies, 
                         attempts, gauge, loopI, phase, err, tryOpen, rheld, 
                         npend, retNext, ua >>

client == CGone

(* Allow infinite stuttering to prevent deadlock on termination. *)
Terminating == /\ \A self \in ProcSet: pc[self] = "Done"
               /\ UNCHANGED vars

Next == worker \/ gtimer \/ ptimer \/ upstream \/ notifier \/ client
           \/ Terminating

Spec == /\ Init /\ [][Next]_vars
        /\ WF_vars(worker)
        /\ WF_vars(gtimer)
        /\ WF_vars(ptimer)
        /\ WF_vars(upstream)
        /\ WF_vars(notifier)

Termination == <>(\A self \in ProcSet: pc[self] = "Done")

\* END TRANSLATION

(* ---------------- properties ---------------- *)
WorkerDone == pc["w"] = "Exit"
AtMostOneReply == replies <= 1
NoFallOut      == pc["w"] # "FellOut"
(* C03: when the task loop is left, the stream was cleaned and either replied or the client was gone *)
EndsProperly   == pc["w"] \in {"Exit", "Done"} => (cleaned = 1 /\ (replies = 1 \/ clientGone))
GaugeExact     == gauge = 1 - cleaned
AttemptsBound  == attempts <= 1 + Budget
(* C10: the cluster's retries resource taken for an admitted retry is given back by the time the request is over *)
RetriesReturned == pc["w"] \in {"Exit", "Done"} /\ cleaned = 1 => rheld = 0
RetriesBounded  == rheld \in {0, 1}
(* C17: a per-try timeout belongs to ONE attempt: once the worker has handled the end of that attempt (retry admitted,
   request over) its timer is not armed any more - it cannot expire on the set-up of the next attempt.  (A callback
   that was already running when the attempt ended is another matter: Stop() cannot cancel it, pt = "run".) *)
PerTryTimerOnlyWhileTryOpen == pt = "armed" => tryOpen
NoAttemptAfterReply == [][respStarted => attempts' = attempts]_vars
(* a request whose upstream never answers is completed by the timeout: the worker is never parked for ever.
   TLC reports the hang as a deadlock (worker in Wait, timers spent, nothing left to wake it). *)
Terminates     == <>(pc["w"] = "Done")

(* ---------------- refinement: every step of the implementation-shaped model is a step of the abstract
   life cycle (RequestLifecycle) or leaves its variables unchanged ---------------- *)
R == "r"
Abs == INSTANCE RequestLifecycle WITH
         Rids <- {R}, MaxAttempts <- 100, Defects <- {},
         st <- [x \in {R} |-> IF cleaned = 1 THEN "ended" ELSE "open"],
         replies <- [x \in {R} |-> replies],
         attempts <- [x \in {R} |-> attempts],
         explained <- [x \in {R} |-> IF clientGone THEN {"client"} ELSE {}],
         budget <- [x \in {R} |-> Budget],
         active <- gauge
RefinesAbs == [][Abs!Next]_<<cleaned, replies, attempts, clientGone, gauge>>
====
