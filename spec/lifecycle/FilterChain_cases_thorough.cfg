CONSTANTS
  MaxLen = 4
  MaxReentry = 2
  Envs = {"ok", "retry503", "close", "aterm", "lterm", "atermA", "atermB", "atermC", "atermD", "rterm", "rtermT"}
  Defects = {}
INIT Init
NEXT Next
INVARIANT Emit
CHECK_DEADLOCK FALSE
