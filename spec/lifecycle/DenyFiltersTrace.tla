---- MODULE DenyFiltersTrace ----
(* Trace validation of real requests through the REAL ipaccess / payloadlimit / faultinject stream filters of an
   in-process MOSN (driver harness/cmd/c14 -mode deny) against DenyFilters.  One event per case of DenyFilters' universe:
     case{f, cfg, req, layout, obs}   the listener's stream filters were set to Exec(layout, f) with the real filter
                                      configured from cfg, the request req was sent; obs = what was observed:
         kind, status    what the client got ("response" and its status; "timeout" / "eof" / "error")
         extra           octets that followed the complete response on the client's connection
         fwd, same       requests with the case's token that the scripted upstreams received (until the end of the whole
                         run), and whether the (first) one equals what the client sent (method, path, body, marker header)
         seen            invocations of the recording filters, "<name>@<phase reported by the handler>", in order
         sends           invocations of the recording filters' Append (the reply on its way to the client)
         delayed         the reply took at least the configured fixed_delay
     skip{why}                        the driver gave a case up (foreign traffic on its listener): not judged
   The observed end state is written into the variables of DenyFilters (pc = "done"), the expectations are DenyFilters'
   properties, reported softly, kind by kind; a wrong decision carries the class of the case (Class), a broken contract
   the verdict and the chain layout. *)
EXTENDS DenyFilters, VTrace

tvars == <<vars, l>>

TraceInit == /\ l = 1 /\ c = [f |-> "-"] /\ pc = "chain" /\ pos = 1 /\ i = 1 /\ acc = [x |-> "-"] /\ verdict = None
             /\ seen = <<>> /\ fwd = 0 /\ fwdreq = [none |-> TRUE] /\ replies = <<>>

Decision(o) == IF o.kind # "response" THEN "none" ELSE IF o.status = 200 THEN "pass" ELSE IF o.status \in DenyStatuses THEN "deny" ELSE "other"

TCase ==
  /\ IsEvent("case")
  /\ LET f == Ev.f  cfg == Ev.cfg  req == Ev.req  ly == Ev.layout  o == Ev.obs
         v   == Ref(f, cfg, req)
         cl  == ":" \o Class(f, cfg, req)          \* a wrong DECISION is named by the class of the configuration and request
         cc  == ":" \o v.kind \o ":layout=" \o ly  \* a broken CONTRACT by the verdict and the layout of the chain
         dec == Decision(o)
         post == { k \in 1..Len(o.seen) : o.seen[k] \notin {"pre@B", "pre@R"} } IN
       /\ c' = [f |-> f, cfg |-> cfg, req |-> req, layout |-> ly] /\ pc' = "done" /\ pos' = pos /\ i' = i /\ acc' = acc
       /\ verdict' = [kind |-> dec, status |-> o.status, delayed |-> o.delayed]
       /\ seen' = o.seen /\ fwd' = o.fwd /\ fwdreq' = IF o.same THEN req ELSE [altered |-> TRUE]
       /\ replies' = IF o.kind = "response" THEN <<o.status>> ELSE <<>>
       /\ Expect(dec # "none", "no-reply" \o cl)
       /\ Expect(dec # "other", "unexpected-reply-status" \o cl)
       /\ IF dec \notin {"pass", "deny"} THEN TRUE
          ELSE IF v.kind = "deny" /\ dec = "pass" THEN Expect(FALSE, "denied-request-was-allowed" \o cl)
          ELSE IF v.kind = "pass" /\ dec = "deny" THEN Expect(FALSE, "allowed-request-was-denied" \o cl)
          ELSE /\ Expect(o.status = v.status, "wrong-reply-status" \o cl)
               /\ Expect(o.extra = 0, "not-exactly-one-reply" \o cc)
               /\ IF v.kind = "deny"
                  THEN /\ Expect(o.fwd = 0, "denied-request-forwarded" \o cc)
                       /\ Expect(post = {}, "denied-request-seen-by-later-filter" \o cc)
                       /\ Expect(post # {} \/ o.seen = SeenIfDenied(ly, f), "earlier-filter-skipped-or-repeated" \o cc)
                  ELSE /\ Expect(o.fwd = 1, "passed-request-not-forwarded-exactly-once" \o cc)
                       /\ Expect(o.fwd = 0 \/ o.same, "forwarded-request-altered" \o cc)
                       /\ Expect(o.seen = SeenIfPassed(ly, f), "filter-skipped-or-repeated" \o cc)
               /\ Expect(o.sends = Recorders(ly), "reply-not-through-the-send-filters-once" \o cc)
               /\ Expect(v.delayed => o.delayed, "delay-missing" \o cl)
               /\ Expect(o.delayed => v.delayed, "unexpected-delay" \o cl)

TSkip == IsEvent("skip") /\ UNCHANGED vars

TraceNext == TCase \/ TSkip
TraceSpec == TraceInit /\ [][TraceNext]_tvars
====
