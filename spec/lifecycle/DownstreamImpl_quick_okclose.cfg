CONSTANTS
  MaxA = 2
  Budget = 1
  MaxLoop = 10
  HasTry = FALSE
  Behaviours = {"ok", "5xx", "close", "never", "connfail", "okclose"}
  Defects = {}
SPECIFICATION Spec
INVARIANTS AtMostOneReply NoFallOut EndsProperly GaugeExact AttemptsBound RetriesReturned RetriesBounded PerTryTimerOnlyWhileTryOpen
PROPERTIES NoAttemptAfterReply RefinesAbs
CHECK_DEADLOCK TRUE
