CONSTANTS
  Rids <- RidsOf
  MaxAttempts = 100
  MaxRid = 100000
  Defects = {}
SPECIFICATION TraceSpec
POSTCONDITION Accepted
CHECK_DEADLOCK FALSE
