---- MODULE RequestForward ----
(* How ONE request is forwarded and ended towards the upstream, for every shape of the request (RequestShape.tla):
   the phases DownRecvHeader / DownRecvData / DownRecvTrailer of downStream.receive() with processError in between
   (first attempt), doRetry() (every later attempt: the whole request again in one step), the arming of the response
   timers (onUpstreamRequestSent) and the wait for the upstream.  Part of C03: the request must be ended towards the
   upstream exactly once - by the last part that is appended -, the timers must be armed exactly when that happened,
   and then the request ends with one reply (or, one-way, with none) whatever the upstream does.

   The rule of the code: headers end the request iff there is NO body buffer and no trailers; the data phase runs iff
   there IS a body buffer (of whatever length) and ends the request iff there are no trailers; the trailer phase runs
   iff there are trailers and always ends it.  The three tests must speak about the same thing: a body buffer of
   length zero is a body.

   Defects (named deviations; TLC must reject each, {} must pass):
     "EmptyBodySkipsDataPhase"  the data phase runs only for a body of length > 0 while the header phase still
                                counts a buffer of length zero as a body: nothing ends the request, no timer is armed
     "EmptyBodyEndsAtHeaders"   the header phase takes a buffer of length zero for "no body" while the data phase
                                still runs: the request is ended twice (data after the end)
     "RetryOmitsEmptyBody"      doRetry leaves out a body of length zero: the retried attempt is never ended
     "DataPhaseAlwaysEnds"      the data phase ends the request although trailers follow *)
EXTENDS RequestShape

CONSTANT Defects

VARIABLES form,      \* the form of the request, \in Forms
          env,       \* [refused : the pool refuses the first attempt, answers : the upstream answers complete requests]
          data, trailers,  \* what the forwarding phases see (Seen(form), set by the filter step)
          pc,        \* filter -> hdr -> data -> trl -> after -> wait -> done ;  hdr -> retry -> wait (first attempt refused)
          parts,     \* parts appended to the current upstream request: <<[k |-> "h"|"d"|"t", end |-> BOOLEAN], ...>>
          armed,     \* the response timers are armed
          replies, cleaned
vars == <<form, env, data, trailers, pc, parts, armed, replies, cleaned>>

Oneway == form.proto = "boltoneway"

Init == /\ form \in Forms
        /\ env \in [refused : BOOLEAN, answers : BOOLEAN]
        /\ data = "?" /\ trailers = "?" /\ pc = "filter" /\ parts = <<>> /\ armed = FALSE /\ replies = 0 /\ cleaned = FALSE

(* the three tests of the code *)
HdrEnds   == /\ trailers = "absent"
             /\ \/ data = "absent"
                \/ "EmptyBodyEndsAtHeaders" \in Defects /\ data = "empty"
RunsData  == data # "absent" /\ ~("EmptyBodySkipsDataPhase" \in Defects /\ data = "empty")
DataEnds  == trailers = "absent" \/ "DataPhaseAlwaysEnds" \in Defects
RetryData == data # "absent" /\ ~("RetryOmitsEmptyBody" \in Defects /\ data = "empty")

Part(k, e) == [k |-> k, end |-> e]
Complete   == parts # <<>> /\ parts[Len(parts)].end          \* the upstream has the whole request

Filter == /\ pc = "filter"
          /\ data' = Seen(form).data /\ trailers' = Seen(form).trailers
          /\ pc' = "hdr"
          /\ UNCHANGED <<form, env, parts, armed, replies, cleaned>>

(* DownRecvHeader: appendHeaders takes a stream from the pool; a refusal resets the upstream request and processError
   turns to doRetry *)
Header == /\ pc = "hdr"
          /\ IF env.refused
               THEN pc' = "retry" /\ UNCHANGED <<parts, armed>>
               ELSE /\ parts' = <<Part("h", HdrEnds)>>
                    /\ armed' = (armed \/ HdrEnds)
                    /\ pc' = "data"
          /\ UNCHANGED <<form, env, data, trailers, replies, cleaned>>

DataPhase == /\ pc = "data"
             /\ IF RunsData THEN parts' = Append(parts, Part("d", DataEnds)) /\ armed' = (armed \/ DataEnds)
                            ELSE UNCHANGED <<parts, armed>>
             /\ pc' = "trl"
             /\ UNCHANGED <<form, env, data, trailers, replies, cleaned>>

TrailerPhase == /\ pc = "trl"
                /\ IF trailers = "present" THEN parts' = Append(parts, Part("t", TRUE)) /\ armed' = TRUE
                                           ELSE UNCHANGED <<parts, armed>>
                /\ pc' = "after"
                /\ UNCHANGED <<form, env, data, trailers, replies, cleaned>>

(* phase Oneway: a one-way request is cleaned right after it was forwarded; a two-way request waits *)
After == /\ pc = "after"
         /\ IF Oneway THEN cleaned' = TRUE /\ pc' = "done" ELSE pc' = "wait" /\ UNCHANGED cleaned
         /\ UNCHANGED <<form, env, data, trailers, parts, armed, replies>>

(* doRetry: a new upstream request, all parts at once, then the timers *)
Retry == /\ pc = "retry"
         /\ LET h == <<Part("h", data = "absent" /\ trailers = "absent")>>
                d == IF RetryData THEN <<Part("d", trailers = "absent")>> ELSE <<>>
                t == IF trailers = "present" THEN <<Part("t", TRUE)>> ELSE <<>>
            IN parts' = h \o d \o t
         /\ armed' = TRUE
         /\ pc' = "wait"
         /\ UNCHANGED <<form, env, data, trailers, replies, cleaned>>

(* waitNotify: only an event can end the wait - the upstream's answer (it answers complete requests only) or a timer
   (only an armed one fires) *)
Answer == /\ pc = "wait" /\ env.answers /\ Complete /\ ~Oneway
          /\ replies' = replies + 1 /\ cleaned' = TRUE /\ pc' = "done"
          /\ UNCHANGED <<form, env, data, trailers, parts, armed>>
Timeout == /\ pc = "wait" /\ armed
           /\ replies' = IF Oneway THEN replies ELSE replies + 1
           /\ cleaned' = TRUE /\ pc' = "done"
           /\ UNCHANGED <<form, env, data, trailers, parts, armed>>
Done == pc = "done" /\ UNCHANGED vars

Next == Filter \/ Header \/ DataPhase \/ TrailerPhase \/ After \/ Retry \/ Answer \/ Timeout \/ Done
Spec == Init /\ [][Next]_vars /\ WF_vars(Next)

(* ---- properties ---- *)
Forwarded == pc \in {"after", "wait", "done"}
(* the request is ended towards the upstream exactly once, by the last part appended *)
EndedOnce      == Forwarded => /\ parts # <<>>
                                /\ \A i \in 1..Len(parts) : parts[i].end <=> (i = Len(parts))
NoPartAfterEnd == \A i \in 1..Len(parts) : parts[i].end => i = Len(parts)
(* timers: never before the request is complete, always once it has been forwarded *)
ArmedOnlyWhenComplete == armed => Complete
ArmedWhenForwarded    == Forwarded => armed
AtMostOneReply == replies <= 1
EndsProperly   == cleaned => (replies = 1 \/ Oneway)
NoHang         == pc = "wait" => (ENABLED Answer \/ ENABLED Timeout)
EveryRequestEnds == <>cleaned
====
