CONSTANTS
  MaxLen = 2
  MaxReentry = 2
  Envs = {"ok", "retry503", "close", "aterm", "lterm", "atermA", "atermB", "atermC", "atermD", "rterm", "rtermT"}
  Defects = {"CursorResetOnReentry"}
INIT Init
NEXT Next
INVARIANTS
  OrderedOncePerPass
  ReentryResumes
  NoFilterSkipped
  DeniedNeverForwarded
  AtMostOneReply
  AnswerIsTheReply
  ReplyWentThroughSendFilters
  TerminatedNeverReplies
  EndsWithReplyOrTermination
  OnewayNeverReplies
  DeclineHasNoEffect
CHECK_DEADLOCK FALSE
