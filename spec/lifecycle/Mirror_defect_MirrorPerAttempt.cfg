CONSTANTS
  Policies = {"none", "p0", "p100"}
  MirrorKinds = {"ok", "err", "reset", "hang", "refuse", "nohost", "sick", "nocluster"}
  Shapes = {"bare", "body"}
  Muts = {"none", "route"}
  MaxLen = 2
  Defects = {"MirrorPerAttempt"}
  Emit = FALSE
SPECIFICATION Spec
INVARIANTS TypeOK AtMostOneReply ReplyIsPrimarys AttemptsArePrimarys BoundedTime GaugeReturns MirrorCount CopyFaithful PrimaryCarriesActions
CHECK_DEADLOCK FALSE
