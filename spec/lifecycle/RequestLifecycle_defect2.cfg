CONSTANTS
  Rids = {r1}
  MaxAttempts = 2
  Defects = {"NoCleanOnSilentExit"}
SPECIFICATION Spec
INVARIANTS EndedExplained
CHECK_DEADLOCK FALSE
