---- MODULE FilterChainTrace ----
(* Trace validation of real requests through scripted stream filters (in-process MOSN, driver harness/cmd/c14)
   against FilterChain.  The specification is stepped in lock step with the observable events of the run; every
   event that the specification does not allow in its current state is a MISMATCH (soft: reported with its line,
   the rest of that run is skipped, validation goes on with the next run).  Events:
     run{name, case}                driver: new request; case = {chain, env, script, real?} from FilterChain's Emit
     call{kind, slot, ph, n, v, ok} scripted filter: invocation n of the filter at `slot` returned verdict v;
                                    ph = phase reported by the handler; ok = result of TerminateStream (ts / ac)
     attempt{res}                   hook us.attempt: the request was handed to an upstream connection pool
     upresp / upreset               hooks us.recv / us.reset "taken": the upstream's answer / reset won
     aterm{ok}                      driver: TerminateStream(598) called through a filter's handler from outside
     reply{code}                    hook ds.reply: response headers handed to the client stream
     clean                          hook ds.clean
     cdone{kind, status, extra, marks, ended}   driver: what the client saw; marks = send filters that stamped the response
     quiesce{active, arrivals, ups} driver: requests seen by the scripted upstreams for this request, and by which
     note / new                     informational *)
EXTENDS FilterChain, VTrace

VARIABLE lost    \* the run diverged from the specification (already reported)
tvars == <<vars, l, lost>>

Fresh(ch, e, r, ow) ==
    /\ chain' = ch /\ env' = e /\ real' = r /\ oneway' = ow /\ declined' = FALSE
    /\ LET s == Settle(ch, "B", 1) IN ph' = s.ph /\ cur' = s.cur
    /\ scur' = 1 /\ again' = "none" /\ direct' = 0 /\ pend' = [code |-> 0, local |-> FALSE] /\ hostChosen' = FALSE
    /\ log' = <<>> /\ pass' = 1 /\ marks' = {} /\ fwd' = 0 /\ replies' = 0 /\ reply' = 0 /\ reentries' = 0 /\ alt' = FALSE
    /\ denied' = FALSE /\ answer' = 0 /\ term' = FALSE /\ resumeAt' = 0 /\ bad' = {}

TraceInit == /\ l = 1 /\ lost = FALSE
             /\ chain = <<>> /\ env = "ok" /\ real = [slot |-> 0, code |-> 0] /\ oneway = FALSE /\ declined = FALSE
             /\ ph = "F" /\ cur = 1
             /\ scur = 1 /\ again = "none" /\ direct = 0 /\ pend = [code |-> 0, local |-> FALSE] /\ hostChosen = FALSE
             /\ log = <<>> /\ pass = 1 /\ marks = {} /\ fwd = 0 /\ replies = 0 /\ reply = 0 /\ reentries = 0 /\ alt = FALSE
             /\ denied = FALSE /\ answer = 0 /\ term = FALSE /\ resumeAt = 0 /\ bad = {}

TRun == /\ IsEvent("run")
        /\ Fresh(Ev.case.chain, Ev.case.env,
                 IF Has(Ev.case, "realslot") THEN [slot |-> Ev.case.realslot, code |-> Ev.case.realcode] ELSE [slot |-> 0, code |-> 0],
                 Has(Ev.case, "oneway") /\ Ev.case.oneway)
        /\ lost' = FALSE

(* the run left the specification: report once, skip the rest of the run *)
Diverge(what) == /\ (IF lost THEN TRUE ELSE Expect(FALSE, what)) /\ lost' = TRUE /\ UNCHANGED vars

Answered == denied \/ (pend.code # 0 /\ pend.local) \/ direct # 0

RecvWhy(i) == IF ph \notin RecvKinds
                THEN (IF Answered \/ term THEN "receive-filter-ran-after-the-request-was-answered"
                      ELSE IF Len(log) > 0 /\ log[Len(log)].v \in {"rm", "rc"}
                        THEN "pass-re-entered-for-a-re-entry-verdict-of-the-wrong-phase"
                      ELSE "receive-filter-ran-out-of-phase")
              ELSE IF resumeAt # 0 /\ i # resumeAt THEN "reentry-did-not-resume-at-requesting-filter"
              ELSE IF \E j \in DOMAIN log : log[j].pass = pass /\ log[j].slot = i THEN "receive-filter-twice-in-one-pass"
              ELSE IF NextIn(chain, ph, cur) # 0 /\ i \in DOMAIN chain /\ (chain[i] # ph \/ i > NextIn(chain, ph, cur))
                THEN "receive-filter-skipped"       \* a filter that is due in this pass did not run, a later one did
              ELSE IF i \in DOMAIN chain /\ chain[i] # ph THEN "receive-filter-ran-in-wrong-phase"
              ELSE "receive-filter-order"

SendWhy(i) == IF ph \in {"P", "C", "E"} \/ i \in marks THEN "send-filter-twice-for-one-response"
              ELSE IF ph # "S" THEN "send-filter-ran-without-response"
              ELSE "send-filter-order"

TCall == /\ IsEvent("call")
         /\ IF Ev.kind = "recv"
              THEN IF ~lost /\ CanCallRecv(Ev.slot, Ev.v)
                     THEN /\ Expect(Ev.ph = chain[Ev.slot], "handler-reports-wrong-phase")
                          /\ Expect(Ev.v \notin {"ts", "ac"} \/ Ev.ok = TermOk, "terminate-stream-result-differs")
                          /\ DoCallRecv(Ev.slot, Ev.v) /\ lost' = FALSE
                     ELSE Diverge(RecvWhy(Ev.slot))
              ELSE IF ~lost /\ CanCallSend(Ev.slot, Ev.v)
                     THEN DoCallSend(Ev.slot, Ev.v) /\ lost' = FALSE
                     ELSE Diverge(SendWhy(Ev.slot))

TAttempt == /\ IsEvent("attempt")
            /\ IF ~lost /\ CanForward THEN DoForward /\ lost' = FALSE
               ELSE Diverge(IF Answered \/ term THEN "denied-request-forwarded"
                            ELSE IF ph \in RecvKinds THEN "forwarded-before-receive-filters-finished"
                            ELSE "unexpected-upstream-attempt")

TUpResp == /\ IsEvent("upresp")
           /\ IF ~lost /\ CanUpResp THEN UpResp /\ lost' = FALSE
              ELSE Diverge("upstream-response-taken-unexpectedly")

TUpReset == /\ IsEvent("upreset")
            /\ IF ~lost /\ CanUpReset THEN UpReset /\ lost' = FALSE
               ELSE Diverge("upstream-reset-taken-unexpectedly")

(* TerminateStream from outside: succeeds while the request waits for the upstream, refused after the end *)
TATerm == /\ IsEvent("aterm")
          /\ IF lost THEN UNCHANGED <<vars, lost>>
             ELSE IF Ev.ok
               THEN IF CanATerm THEN ATerm /\ lost' = FALSE ELSE Diverge("terminate-stream-succeeded-after-the-response-or-the-end")
               ELSE IF CanATermDecline THEN DoATermDecline /\ lost' = FALSE     \* declined during a later attempt: no effect
               ELSE IF CanATerm THEN Diverge("terminate-stream-refused-while-waiting")
               ELSE UNCHANGED <<vars, lost>>

TReply == /\ IsEvent("reply")
          /\ IF ~lost /\ CanReply THEN DoReply /\ lost' = FALSE
             ELSE Diverge(IF replies >= 1 THEN "second-reply"
                          ELSE IF term THEN "reply-after-termination"
                          ELSE IF ph = "S" THEN "reply-skipped-send-filters"
                          ELSE "reply-without-cause")

TClean == /\ IsEvent("clean")
          /\ IF ~lost /\ CanClean THEN DoClean /\ lost' = FALSE
             ELSE Diverge(IF ph = "E" THEN "ended-twice"
                          ELSE IF ph = "W" /\ declined THEN "declined-terminate-stream-left-the-request-unanswered"
                          ELSE IF ph = "W" THEN "ended-while-waiting-for-the-upstream"   \* a life-cycle matter (C03), no filter involved
                          ELSE "request-ended-without-reply-or-termination")

SetOf(s) == { s[j] : j \in DOMAIN s }

TCDone == /\ IsEvent("cdone")
          /\ IF lost THEN TRUE ELSE
                     ( /\ Expect(Ev.ended /\ ph = "E", IF ph = "W" /\ declined THEN "declined-terminate-stream-left-the-request-unanswered"
                                 ELSE IF ph = "W" THEN "never-ended-while-waiting-for-the-upstream" ELSE "request-never-ended")
                       /\ Expect(Ev.extra = 0, "client-got-bytes-after-response")
                       /\ Expect((Ev.kind = "response") <=> (replies = 1), "client-view-differs")
                       /\ Expect(Ev.kind # "response" \/ replies # 1 \/ Ev.status = reply,
                                 IF denied /\ answer # 0 THEN "client-did-not-get-the-filters-answer" ELSE "client-got-a-different-response")
                       /\ Expect(Ev.kind # "response" \/ replies # 1 \/ SetOf(Ev.marks) = marks,
                                 "response-did-not-pass-each-send-filter-once") )
          /\ UNCHANGED <<vars, lost>>

TQuiesce == /\ IsEvent("quiesce")
            /\ IF lost THEN TRUE ELSE
                       ( /\ Expect(Ev.arrivals = fwd, IF denied THEN "denied-request-reached-an-upstream" ELSE "upstream-arrivals-differ")
                         /\ Expect(fwd = 0 \/ Ev.arrivals = 0 \/ SetOf(Ev.ups) = {IF alt THEN "u2" ELSE "u1"}, "re-match-route-not-applied")
                         /\ Expect(Ev.active = 0, "request-active-gauge-differs") )
            /\ UNCHANGED <<vars, lost>>

(* the answer of the attempt in flight must still be taken after TerminateStream declined *)
TNote == /\ (IsEvent("note") \/ IsEvent("new"))
         /\ IF ~lost /\ declined /\ ph = "W" /\ Has(Ev, "what") /\ Ev.what = "us.recv" /\ Has(Ev, "a") /\ Ev.a \in {"dropped-cas", "dropped-guard"}
              THEN Diverge("upstream-answer-dropped-after-declined-terminate-stream")
              ELSE UNCHANGED <<vars, lost>>

TraceNext == TRun \/ TCall \/ TAttempt \/ TUpResp \/ TUpReset \/ TATerm \/ TReply \/ TClean \/ TCDone \/ TQuiesce \/ TNote
TraceSpec == TraceInit /\ [][TraceNext]_tvars
====
