CONSTANTS
  Rids = {r1, r2}
  MaxAttempts = 3
  Defects = {}
SPECIFICATION Spec
INVARIANTS AtMostOneReply EndedExplained GaugeExact GaugeNonNeg AttemptsBounded
PROPERTIES NoReplyAfterEnd EndsOnce EveryRequestEnds
CHECK_DEADLOCK FALSE
