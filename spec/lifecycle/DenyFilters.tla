---- MODULE DenyFilters ----
(* The stream filters mosn SHIPS that can deny a request (C14), each as a function of <configuration, request>, and the
   C14 contract on top of their verdict.

     ipaccess      pkg/filter/stream/ipaccess      BeforeRoute   allow / deny rules over addresses, default action,
                                                                 address from a trusted header or from the connection
     payloadlimit  pkg/filter/stream/payloadlimit  AfterRoute    largest request body, listener-wide or per route
     faultinject   pkg/filter/stream/faultinject   AfterRoute    delay, then abort with a status, for the requests that
                                                                 match an upstream cluster and header matchers

   Reference (documented / intended behaviour, read off examples/*_readme/filter/ipaccess, the filters' tests and comments):
     ipaccess      "inspired by ngx_http_access_module": rules are checked in configured order, the FIRST rule whose
                   address set contains the client address decides (allow -> pass, deny -> 403); "default_action ...
                   lowest priority takes effect" when no rule matches.  "header: trusted header to get real ip, if
                   null will get remote addr": the header counts only when configured, an absent header falls back to
                   the connection.  host:port forms name the host.  An address is an ADDRESS, not a text: another
                   textual form of the same IPv6 address matches the same rules.  An address that cannot be parsed
                   matches no rule (stream_filter_test.go: "123" gets the default action).
                   (surprising but documented by that test: default allow + a deny rule for 0.0.0.0/0 lets a request with
                   an unparsable header value through.)
     payloadlimit  the route's per_filter_config REPLACES the listener's configuration (limit and status); limit 0 = off;
                   a request is denied with the configured status iff it has a body LONGER than the limit (a body of
                   exactly the limit passes), however the body is framed on the wire.
     faultinject   the route's per_filter_config replaces the listener's configuration; a request matches iff the
                   configured upstream_cluster is empty or is the cluster of the matched route, and every header matcher
                   holds; a matching request is delayed by fixed_delay iff delay.percentage (0 / 100 here) says so and
                   the delay is > 0, THEN aborted with abort.status iff abort.percentage says so; otherwise it passes.

   Contract (C14): denied  => the upstream receives nothing, the filters behind the denying filter (same phase configured
                              later, or a later phase) do not see the request, the client gets exactly one reply, with the
                              filter's status;
                   passed  => every filter of the chain sees the request once, it is forwarded unchanged exactly once,
                              the client gets exactly the upstream's reply.

   Each filter also has an implementation-shaped scan (one action per decision the code takes); TLC shows scan = reference
   and the contract on the whole bounded universe.  Named deviations (constant Defects), each rejected by its own cfg:
     DenyOverrides                 ipaccess: a matching deny rule wins over an earlier matching allow rule
     DefaultActionIgnored          ipaccess: nothing matched => pass
     HeaderTrustedWhenNotConfigured ipaccess: the address header of the request is believed although none is configured
     ExactRuleComparesText         ipaccess: single-address rules compare the text of the address (what the code did
                                   until f776981eb: found by this binding, fixed)
     LimitOffByOne                 payloadlimit: a body of exactly the limit is denied
     RouteLimitIgnored             payloadlimit: the listener's limit is applied although the route has its own
     AbortPercentIgnored           faultinject: abort configured with percentage 0 still aborts
     UpstreamMatchIgnored          faultinject: upstream_cluster is not compared with the route's cluster
     DelaySkipsAbort               faultinject: a delayed request is not aborted
     DenyStillForwards             chain: the request goes on through the chain after the filter's reply *)
EXTENDS Integers, Sequences, FiniteSets, TLC, Json

CONSTANTS Defects,   \* {} = intended design
          Filters,   \* which filters are explored
          Layouts,   \* chain layouts explored: "solo" "front" "behind" "between"
          MaxRules,  \* ipaccess: longest rule list
          LongLayouts, \* ... layouts explored with rule lists longer than 2
          Lens,      \* payloadlimit: body lengths
          Emit       \* print one CASE line per case

Min(S) == CHOOSE k \in S : \A j \in S : k <= j

Pass(d)    == [kind |-> "pass", status |-> 200, delayed |-> d]
Deny(s, d) == [kind |-> "deny", status |-> s, delayed |-> d]

(* ---------------------------------------------------------------- ipaccess *)
(* address points and the address sets a rule can name: outer = 10.1.0.0/16, inner = 10.1.2.0/24 (nested in outer),
   host = 10.1.2.3 (in both), lo = 127.0.0.1 (where the driver's connections come from), v6host = 2001:db8::1 *)
Nets      == {"outer", "inner", "host", "lo", "v6host"}
ExactNets == {"host", "lo", "v6host"}
Members(n) == CASE n = "outer"  -> {"hin", "iin", "oin"}
                [] n = "inner"  -> {"hin", "iin"}
                [] n = "host"   -> {"hin"}
                [] n = "lo"     -> {"lo"}
                [] n = "v6host" -> {"v6"}
IpRules    == [action : {"allow", "deny"}, net : Nets]
IpRuleLists == UNION { [1..n -> IpRules] : n \in 0..MaxRules }
IpCfgs     == [default : {"allow", "deny"}, header : BOOLEAN, rules : IpRuleLists]
(* what the request carries in the address header: nothing, an address (plain / host:port / another text of the same
   IPv6 address), or something that is no address *)
NoHdr  == [a |-> "-", form |-> "-"]
IpReqs == {NoHdr} \cup { [a |-> p, form |-> "plain"] : p \in {"hin", "iin", "oin", "out", "lo", "v6", "garbage"} }
                  \cup { [a |-> "hin", form |-> "port"], [a |-> "v6", form |-> "alt"] }
Conn   == [a |-> "lo", form |-> "port"]     \* the connection's remote address

RefAddr(cfg, req)  == IF cfg.header /\ req # NoHdr THEN req ELSE Conn
ImplAddr(cfg, req) == IF (cfg.header \/ "HeaderTrustedWhenNotConfigured" \in Defects) /\ req # NoHdr THEN req ELSE Conn
RefContains(n, ea)  == ea.a \in Members(n)
ImplContains(n, ea) == ea.a \in Members(n) /\ ~("ExactRuleComparesText" \in Defects /\ n \in ExactNets /\ ea.form = "alt")
Act(a) == IF a = "allow" THEN Pass(FALSE) ELSE Deny(403, FALSE)

IpHits(cfg, req) == { k \in 1..Len(cfg.rules) : RefContains(cfg.rules[k].net, RefAddr(cfg, req)) }
IpVerdict(cfg, req) == LET M == IpHits(cfg, req) IN IF M = {} THEN Act(cfg.default) ELSE Act(cfg.rules[Min(M)].action)
IpSrc(cfg, req) == IF req = NoHdr THEN (IF cfg.header THEN "connection-header-absent" ELSE "connection")
                   ELSE IF ~cfg.header THEN "connection-header-not-configured"
                   ELSE IF req.a = "garbage" THEN "header-unparsable"
                   ELSE IF req.form = "plain" THEN "header" ELSE "header-" \o req.form
(* the class of a case names what decides it; a header that spells the address in another text form is its own class *)
IpClass(cfg, req) == LET M == IpHits(cfg, req) IN
                       IF IpSrc(cfg, req) = "header-alt" /\ M # {} THEN "address-in-another-text-form" ELSE
                       "by=" \o (IF M = {} THEN "default-" \o cfg.default ELSE "rule" \o ToString(Min(M)) \o "of" \o ToString(Len(cfg.rules)) \o "-" \o cfg.rules[Min(M)].action)
                       \o ":src=" \o IpSrc(cfg, req)

(* ---------------------------------------------------------------- payloadlimit *)
PlRoutes == {"none", "r0", "r4", "r12"}
RouteMax(r) == CASE r = "r0" -> 0 [] r = "r4" -> 4 [] r = "r12" -> 12
(* (observed, not judged: the limit's JSON key is spelled "max_entity_size " - with a trailing blank - in
   v2.StreamPayloadLimit and parser_test.go pins that; a configuration that uses the natural spelling only has NO limit.
   The driver writes both spellings.) *)
PlCfgs == [gmax : {0, 8}, route : PlRoutes]
PlReqs == {[body |-> "none", len |-> 0, framing |-> "-"]} \cup [body : {"some"}, len : Lens, framing : {"cl", "chunked"}]
PlGlobal(cfg)  == [max |-> cfg.gmax, status |-> 413, from |-> "listener"]
PlEff(cfg)     == IF cfg.route = "none" THEN PlGlobal(cfg) ELSE [max |-> RouteMax(cfg.route), status |-> 499, from |-> "route"]
PlVerdict(cfg, req) == LET e == PlEff(cfg) IN
                         IF req.body = "some" /\ e.max # 0 /\ req.len > e.max THEN Deny(e.status, FALSE) ELSE Pass(FALSE)
PlClass(cfg, req) == LET e == PlEff(cfg) IN
                       "limit=" \o (IF e.max = 0 THEN "off" ELSE "on") \o "-by-" \o e.from
                       \o ":body=" \o (IF req.body = "none" THEN "none" ELSE IF req.len = 0 THEN "empty" ELSE IF e.max = 0 THEN "some"
                                       ELSE IF req.len = e.max THEN "at-the-limit" ELSE IF req.len = e.max + 1 THEN "limit+1"
                                       ELSE IF req.len > e.max THEN "above" ELSE "below")
                       \o (IF req.framing = "chunked" THEN ":chunked" ELSE "")

(* ---------------------------------------------------------------- faultinject *)
FiCfgs == [abort : {"none", "p0", "p100"}, delay : {"none", "p0", "p100", "zero"}, upstream : {"", "main", "alt"}, hdr : BOOLEAN,
           ovr : {"none", "abort", "empty"}]
FiReqs == [cluster : {"main", "alt"}, user : {"absent", "alice", "bob"}]
FiEff(cfg) == CASE cfg.ovr = "none"  -> [abort |-> cfg.abort, status |-> 555, delay |-> cfg.delay, upstream |-> cfg.upstream, hdr |-> cfg.hdr, from |-> "listener"]
                [] cfg.ovr = "abort" -> [abort |-> "p100", status |-> 556, delay |-> "none", upstream |-> "", hdr |-> FALSE, from |-> "route"]
                [] cfg.ovr = "empty" -> [abort |-> "none", status |-> 0, delay |-> "none", upstream |-> "", hdr |-> FALSE, from |-> "route"]
FiUpOk(e, req)  == e.upstream = "" \/ e.upstream = req.cluster
FiHdrOk(e, req) == ~e.hdr \/ req.user = "alice"
FiVerdict(cfg, req) == LET e == FiEff(cfg)
                           m == FiUpOk(e, req) /\ FiHdrOk(e, req)
                           d == m /\ e.delay = "p100" IN
                         IF m /\ e.abort = "p100" THEN Deny(e.status, d) ELSE Pass(d)
FiClass(cfg, req) == LET e == FiEff(cfg) IN
                       "abort=" \o e.abort \o ":delay=" \o e.delay \o ":by-" \o e.from
                       \o ":upstream=" \o (IF e.upstream = "" THEN "any" ELSE IF e.upstream = req.cluster THEN "same" ELSE "other")
                       \o ":header=" \o (IF ~e.hdr THEN "any" ELSE req.user)

(* ---------------------------------------------------------------- the reference, for every filter *)
Ref(f, cfg, req) == CASE f = "ipaccess" -> IpVerdict(cfg, req) [] f = "payloadlimit" -> PlVerdict(cfg, req) [] f = "faultinject" -> FiVerdict(cfg, req)
Class(f, cfg, req) == CASE f = "ipaccess" -> IpClass(cfg, req) [] f = "payloadlimit" -> PlClass(cfg, req) [] f = "faultinject" -> FiClass(cfg, req)
DenyStatuses == {403, 413, 499, 555, 556}

(* ---------------------------------------------------------------- the chain around the filter *)
(* layouts: the real filter alone; in front of a recording filter; behind one; between two.  A recording filter in front
   ("pre") runs in the real filter's phase; the one behind ("post") runs in that phase and in every later receive phase.
   Exec = the filter invocations of a request that nobody denies, in order. *)
PhaseOf(f) == IF f = "ipaccess" THEN "B" ELSE "R"
Later(p)   == IF p = "B" THEN <<"R", "H">> ELSE <<"H">>
HasPre(ly)  == ly \in {"behind", "between"}
HasPost(ly) == ly \in {"front", "between"}
Exec(ly, f) == LET p == PhaseOf(f) IN
                 (IF HasPre(ly) THEN <<"pre@" \o p>> ELSE <<>>) \o <<"real">>
                 \o (IF HasPost(ly) THEN <<"post@" \o p>> \o [k \in 1..Len(Later(p)) |-> "post@" \o Later(p)[k]] ELSE <<>>)
RealAt(ly)    == IF HasPre(ly) THEN 2 ELSE 1
SelectRec(s)  == SelectSeq(s, LAMBDA e : e # "real")
SeenIfPassed(ly, f) == SelectRec(Exec(ly, f))
SeenIfDenied(ly, f) == SelectRec(SubSeq(Exec(ly, f), 1, RealAt(ly)))
Recorders(ly) == (IF HasPre(ly) THEN 1 ELSE 0) + (IF HasPost(ly) THEN 1 ELSE 0)

Universe == UNION {
  IF "ipaccess" \in Filters THEN UNION { { [f |-> "ipaccess", cfg |-> c, req |-> r, layout |-> ly] : r \in IpReqs, ly \in IF Len(c.rules) > 2 THEN LongLayouts ELSE Layouts } : c \in IpCfgs } ELSE {},
  IF "payloadlimit" \in Filters THEN { [f |-> "payloadlimit", cfg |-> c, req |-> r, layout |-> ly] : c \in PlCfgs, r \in PlReqs, ly \in Layouts } ELSE {},
  IF "faultinject" \in Filters THEN { [f |-> "faultinject", cfg |-> c, req |-> r, layout |-> ly] : c \in FiCfgs, r \in FiReqs, ly \in Layouts } ELSE {} }

VARIABLES c,       \* the case
          pc,      \* "chain" | "scan" | "decided" | "done"
          pos,     \* next invocation of Exec
          i, acc,  \* scan: step / rule index, what the scan carries along
          verdict, \* what the scan decided
          seen,    \* invocations of recording filters
          fwd,     \* requests the upstream received
          fwdreq,  \* ... and which
          replies  \* statuses the client received
vars == <<c, pc, pos, i, acc, verdict, seen, fwd, fwdreq, replies>>

None == [kind |-> "none", status |-> 0, delayed |-> FALSE]
Init == /\ c \in Universe /\ pc = "chain" /\ pos = 1 /\ i = 1 /\ acc = [x |-> "-"] /\ verdict = None
        /\ seen = <<>> /\ fwd = 0 /\ fwdreq = [none |-> TRUE] /\ replies = <<>>

Ex == Exec(c.layout, c.f)

(* a recording filter is invoked / the real filter starts deciding *)
Invoke == /\ pc = "chain" /\ pos <= Len(Ex)
          /\ IF Ex[pos] = "real" THEN pc' = "scan" /\ i' = 1 /\ acc' = [x |-> "-"] /\ UNCHANGED <<seen, pos>>
             ELSE seen' = Append(seen, Ex[pos]) /\ pos' = pos + 1 /\ UNCHANGED <<pc, i, acc>>
          /\ UNCHANGED <<c, verdict, fwd, fwdreq, replies>>

(* ---- ipaccess: stream_filter.go OnReceive walks the access list; one step per rule *)
ScanIp ==
  /\ pc = "scan" /\ c.f = "ipaccess"
  /\ LET ea == ImplAddr(c.cfg, c.req)
         rs == c.cfg.rules IN
       IF i > Len(rs)
       THEN /\ verdict' = IF acc.x = "allow" \/ "DefaultActionIgnored" \in Defects THEN Pass(FALSE) ELSE Act(c.cfg.default)
            /\ pc' = "decided" /\ UNCHANGED <<i, acc>>
       ELSE LET hit == ImplContains(rs[i].net, ea) IN
              IF hit /\ rs[i].action = "allow"
              THEN IF "DenyOverrides" \in Defects
                   THEN acc' = [x |-> "allow"] /\ i' = i + 1 /\ UNCHANGED <<pc, verdict>>
                   ELSE verdict' = Pass(FALSE) /\ pc' = "decided" /\ UNCHANGED <<i, acc>>
              ELSE IF hit THEN verdict' = Deny(403, FALSE) /\ pc' = "decided" /\ UNCHANGED <<i, acc>>
              ELSE i' = i + 1 /\ UNCHANGED <<pc, verdict, acc>>
  /\ UNCHANGED <<c, pos, seen, fwd, fwdreq, replies>>

(* ---- payloadlimit: payloadlimit.go OnReceive: 1 take the route's configuration if it has one, 2 compare *)
ScanPl ==
  /\ pc = "scan" /\ c.f = "payloadlimit"
  /\ IF i = 1
     THEN /\ acc' = IF "RouteLimitIgnored" \in Defects THEN PlGlobal(c.cfg) ELSE PlEff(c.cfg)
          /\ i' = 2 /\ UNCHANGED <<pc, verdict>>
     ELSE /\ LET over == IF "LimitOffByOne" \in Defects THEN c.req.len >= acc.max ELSE c.req.len > acc.max IN
               verdict' = IF c.req.body = "some" /\ acc.max # 0 /\ over THEN Deny(acc.status, FALSE) ELSE Pass(FALSE)
          /\ pc' = "decided" /\ UNCHANGED <<i, acc>>
  /\ UNCHANGED <<c, pos, seen, fwd, fwdreq, replies>>

(* ---- faultinject: faultinject.go OnReceive: 1 route configuration, 2 upstream, 3 headers, 4 delay, 5 abort *)
ScanFi ==
  /\ pc = "scan" /\ c.f = "faultinject"
  /\ CASE i = 1 -> acc' = FiEff(c.cfg) @@ [d |-> FALSE] /\ i' = 2 /\ UNCHANGED <<pc, verdict>>
       [] i = 2 -> IF FiUpOk(acc, c.req) \/ "UpstreamMatchIgnored" \in Defects THEN i' = 3 /\ UNCHANGED <<pc, verdict, acc>>
                   ELSE verdict' = Pass(FALSE) /\ pc' = "decided" /\ UNCHANGED <<i, acc>>
       [] i = 3 -> IF FiHdrOk(acc, c.req) THEN i' = 4 /\ UNCHANGED <<pc, verdict, acc>>
                   ELSE verdict' = Pass(FALSE) /\ pc' = "decided" /\ UNCHANGED <<i, acc>>
       [] i = 4 -> acc' = [acc EXCEPT !.d = (acc.delay = "p100")] /\ i' = 5 /\ UNCHANGED <<pc, verdict>>
       [] i = 5 -> /\ LET ab == (acc.abort = "p100" \/ (acc.abort = "p0" /\ "AbortPercentIgnored" \in Defects))
                                /\ ~(acc.d /\ "DelaySkipsAbort" \in Defects) IN
                        verdict' = IF ab THEN Deny(acc.status, acc.d) ELSE Pass(acc.d)
                   /\ pc' = "decided" /\ UNCHANGED <<i, acc>>
  /\ UNCHANGED <<c, pos, seen, fwd, fwdreq, replies>>

(* the filter's verdict takes effect: its reply ends the request; otherwise the chain goes on *)
Decide == /\ pc = "decided"
          /\ IF verdict.kind = "deny"
             THEN /\ replies' = Append(replies, verdict.status)
                  /\ IF "DenyStillForwards" \in Defects THEN pc' = "chain" /\ pos' = pos + 1 ELSE pc' = "done" /\ pos' = pos
             ELSE pc' = "chain" /\ pos' = pos + 1 /\ UNCHANGED replies
          /\ UNCHANGED <<c, i, acc, verdict, seen, fwd, fwdreq>>

(* the end of the chain: the request goes to the upstream, whose answer (200) is the reply unless the client has one *)
Forward == /\ pc = "chain" /\ pos > Len(Ex)
           /\ fwd' = fwd + 1 /\ fwdreq' = c.req /\ pc' = "done"
           /\ replies' = IF replies = <<>> THEN <<200>> ELSE replies
           /\ UNCHANGED <<c, pos, i, acc, verdict, seen>>

Finished == pc = "done" /\ UNCHANGED vars      \* (so that a scan that gets stuck is a deadlock)
Next == Invoke \/ ScanIp \/ ScanPl \/ ScanFi \/ Decide \/ Forward \/ Finished
Spec == Init /\ [][Next]_vars

(* ---------------------------------------------------------------- properties *)
ScanIsReference == pc = "done" => verdict = Ref(c.f, c.cfg, c.req)
DeniedIsNeverForwarded == pc = "done" /\ verdict.kind = "deny" =>
                            fwd = 0 /\ seen = SeenIfDenied(c.layout, c.f) /\ replies = <<verdict.status>>
PassedIsForwardedOnce == pc = "done" /\ verdict.kind = "pass" =>
                           fwd = 1 /\ fwdreq = c.req /\ seen = SeenIfPassed(c.layout, c.f) /\ replies = <<200>>

EmitCases == pc = "done" /\ Emit => PrintT(<<"CASE", ToJson(c)>>)
====
