CONSTANTS
  Defects = {}
  Filters = {}
  Layouts = {}
  MaxRules = 0
  LongLayouts = {}
  Lens = {}
  Emit = FALSE
SPECIFICATION TraceSpec
POSTCONDITION Accepted
CHECK_DEADLOCK FALSE
