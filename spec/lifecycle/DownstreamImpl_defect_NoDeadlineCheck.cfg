CONSTANTS
  MaxA = 3
  Budget = 2
  MaxLoop = 10
  HasTry = FALSE
  Behaviours = {"ok", "5xx", "close", "never", "connfail"}
  Defects = {"NoDeadlineCheck"}
SPECIFICATION Spec
INVARIANTS AtMostOneReply NoFallOut EndsProperly GaugeExact AttemptsBound RetriesReturned RetriesBounded PerTryTimerOnlyWhileTryOpen
PROPERTIES NoAttemptAfterReply
CHECK_DEADLOCK TRUE
