---- MODULE FilterPublishTrace ----
(* Trace validation of real publications (harness/cmd/c14 -mode pub) against FilterPublish:
     key{}                fresh listener key (TraceReset)
     pub{list,chain}      AddOrUpdateStreamFilterConfig(key, list) was called; chain = the filters CreateFilterChain of the
                          key's factory then added for a new stream, in order *)
EXTENDS FilterPublish, VTrace
tvars == <<vars, l>>
TraceInit == l = 1 /\ pubs = <<>> /\ fac = <<>>
TKey == IsEvent("key") /\ pubs' = <<>> /\ fac' = <<>>
TPub == /\ IsEvent("pub")
        /\ pubs' = Append(pubs, Ev.list) /\ fac' = Creatable(Ev.list)
        /\ Expect(Ev.chain = Creatable(Ev.list),
                  IF Len(Ev.chain) # Len(Creatable(Ev.list)) THEN "chain-is-not-the-published-list:length"
                  ELSE IF { Ev.chain[i] : i \in DOMAIN Ev.chain } # { Ev.list[i] : i \in DOMAIN Ev.list } \ Uncreatable
                       THEN "chain-is-not-the-published-list:members" ELSE "chain-is-not-the-published-list:order")
TraceNext == TKey \/ TPub
TraceSpec == TraceInit /\ [][TraceNext]_tvars
====
