CONSTANTS
  Routers = {}
  Clusters = {"c1", "c12", "g/c1"}
  Hosts = {"h1", "h2", "h3"}
  Listeners = {}
  MaxOps = 4
  Ops = {"primary", "clusterhosts", "updhosts", "rmhosts", "rmcluster"}
  RCfgs = {}
  Doms = {}
  Rts = {}
  Lbs = {"rr"}
  HostSets = {{"h1"}}
  Attrs = {"a1"}
  LocLists = {}
  CModes = {"dir"}
  RModes = {"inline"}
  Defects = {}
SPECIFICATION Spec
INVARIANTS Coherent LastUpdateWins RemovedGone EndpointsUnion ErrorsChangeNothing FrameCondition EmitCase
CHECK_DEADLOCK FALSE
