---- MODULE ConfigDumpNamesTrace ----
(* Trace validation of real MOSN lives against ConfigDumpNames (C19, names of the name-keyed objects).
   Events (harness/cmd/c19 -mode names), one cycle per collection:
     case{kind,mode,names}     a configuration whose collection `kind` holds one object per name class in names, kept
                               inline or in a directory (operator-written files)
     load{ok}
     dump{n,ok,obs,diff,inherit_diff}
                               n-th persisted document (with the files of the directories); obs[c] = same | absent | other:
                               the object of name class c as found in it, compared with the input object
     reload{ok,diff,present}   second life from the persisted form; present = name classes whose object is in the
                               effective configuration of the second life; diff as in ConfigDumpTrace
   A failure of a collection that holds two names the file naming cannot tell apart is tagged "collide": a class of its own. *)
EXTENDS ConfigDumpNames, VTrace

tvars == <<vars, l>>
S(seq) == { seq[i] : i \in DOMAIN seq }

Colliding == \E c \in objs : HasTwinIn(c, objs)
Tag(c) == IF HasTwinIn(c, objs) THEN "collide-" \o c ELSE c
Pre == "names:" \o kind \o ":" \o mode \o ":"
PreG == Pre \o (IF Colliding THEN "collide:" ELSE "")

TraceInit == /\ l = 1 /\ kind = "none" /\ mode = "inline" /\ objs = {} /\ pc = "idle"
             /\ eff1 = {} /\ eff2 = {} /\ store1 = NoStore /\ store2 = NoStore

TCase == /\ IsEvent("case")
         /\ Ev.kind \in Kinds /\ S(Ev.names) \subseteq NameClasses
         /\ kind' = Ev.kind /\ mode' = Ev.mode /\ objs' = S(Ev.names) /\ pc' = "file"
         /\ eff1' = {} /\ eff2' = {} /\ store1' = NoStore /\ store2' = NoStore

TLoad == /\ IsEvent("load") /\ pc = "file"
         /\ Expect(Ev.ok, PreG \o "load:refused")
         /\ eff1' = objs
         /\ pc' = IF Ev.ok THEN "running" ELSE "rejected"
         /\ UNCHANGED <<kind, mode, objs, store1, eff2, store2>>

ObsOK(tag) == \A c \in objs : Expect(c \in DOMAIN Ev.obs /\ Ev.obs[c] = "same", Pre \o Tag(c) \o ":" \o tag)

TDump1 == /\ IsEvent("dump") /\ Ev.n = 1 /\ pc = "running"
          /\ Expect(Ev.ok, PreG \o "dump1:failed")
          /\ IF Ev.ok
             THEN /\ ObsOK("missing-in-dump1")
                  /\ Expect(Ev.inherit_diff = <<>>, PreG \o "inherit:differs-from-persisted-file")
             ELSE TRUE
          /\ pc' = IF Ev.ok THEN "persisted" ELSE "failed"
          /\ UNCHANGED <<kind, mode, objs, eff1, store1, eff2, store2>>

TReload == /\ IsEvent("reload") /\ pc = "persisted"
           /\ Expect(Ev.ok, PreG \o "reload:refused-own-dump")
           /\ IF Ev.ok
              THEN /\ \A c \in objs : Expect(c \in S(Ev.present), Pre \o Tag(c) \o ":lost-after-reload")
                   /\ Expect(Ev.diff = <<>>, PreG \o "reload:effective-config-differs")
              ELSE TRUE
           /\ eff2' = objs
           /\ pc' = IF Ev.ok THEN "restarted" ELSE "failed"
           /\ UNCHANGED <<kind, mode, objs, eff1, store1, store2>>

TDump2 == /\ IsEvent("dump") /\ Ev.n = 2 /\ pc = "restarted"
          /\ Expect(Ev.ok, PreG \o "dump2:failed")
          /\ IF Ev.ok
             THEN /\ Expect(Ev.diff = <<>>, PreG \o "dump2:differs-from-dump1")
                  /\ ObsOK("missing-in-dump2")
             ELSE TRUE
          /\ pc' = "done"
          /\ UNCHANGED <<kind, mode, objs, eff1, store1, eff2, store2>>

TraceNext == TCase \/ TLoad \/ TDump1 \/ TReload \/ TDump2
TraceSpec == TraceInit /\ [][TraceNext]_tvars
====
