---- MODULE ConfigDumpTrace ----
(* Trace validation of real MOSN lives against ConfigDump (C19).
   One configuration = one cycle driven by harness/cmd/c19 on the real code:
     configmanager.Load(file) -> mosn.Init (cluster manager, server/listeners, router manager register the
     effective configuration) -> DumpConfig() writes the file -> Close -> Load(file) -> Init -> DumpConfig().
   Events:
     case{id,t,a,fmt}           new configuration: t = struct type under test (or "sample"/"scenario"), a = value class per field
     load{ok}                   MOSN accepted / refused the file
     admin{endpoints,diff}      (cases with admin = TRUE) GET /api/v1/config_dump for every endpoint / parameter while the first
                                life runs; diff = paths where the effective configuration differs from what it was before
     dump{n,ok,obs,diff,inherit_diff}
                                n-th persisted document; obs[f] = observation of field f relative to the input value
                                (absent | same | zero | other); diff = paths where document 2 differs from document 1
                                (up to the order of name-keyed lists); inherit_diff = paths where the bytes handed over
                                on hot upgrade differ from the persisted file
     reload{ok,diff}            second life started from the persisted file; diff = paths where the effective
                                configuration held by the second life differs from the first *)
EXTENDS ConfigDump, VTrace

tvars == <<vars, l>>

Typed == ty \in Types

TraceInit == /\ l = 1 /\ ty = "none" /\ file = None /\ pc = "idle" /\ admin = FALSE
             /\ eff1 = None /\ dump1 = None /\ eff2 = None /\ dump2 = None

TCase == /\ IsEvent("case")
         /\ ty' = Ev.t
         /\ file' = IF Ev.t \in Types
                    THEN [f \in FieldsOf[Ev.t] |-> IF f \in DOMAIN Ev.a THEN Ev.a[f] ELSE "unset"]
                    ELSE None
         /\ pc' = "file"
         /\ admin' = (Has(Ev, "admin") /\ Ev.admin)
         /\ eff1' = None /\ dump1' = None /\ eff2' = None /\ dump2' = None

TLoad == /\ IsEvent("load") /\ pc = "file"
         /\ IF Typed
            THEN /\ Expect(Ev.ok = Valid(ty, file), IF Ev.ok THEN "load:accepted-conflicting-fields" ELSE "load:refused")
                 /\ eff1' = Eff(ty, file)
            ELSE /\ IF Has(Ev, "expect_refused") /\ Ev.expect_refused
                    THEN Expect(~Ev.ok, "load:accepted-conflicting-fields")
                    ELSE TRUE
                 /\ eff1' = None
         /\ pc' = IF Ev.ok THEN "running" ELSE "rejected"
         /\ UNCHANGED <<ty, file, dump1, eff2, dump2, admin>>

(* admin config dumps (every endpoint) requested while the first life runs: read-only *)
TAdmin == /\ IsEvent("admin") /\ pc = "running"
          /\ Expect(admin, "admin-dump:not-planned")
          /\ Expect(Ev.diff = <<>>, "admin-dump:altered-effective-config")
          /\ UNCHANGED vars

ObsOK(tag) ==
  IF Typed /\ Has(Ev, "obs")
  THEN LET want == ExpectedObs(ty, file) IN
         \A f \in FieldsOf[ty] :
            Expect(f \in DOMAIN Ev.obs /\ Ev.obs[f] = want[f],
                   tag \o ":" \o f \o ":" \o file[f] \o ":want-" \o want[f])
  ELSE IF Has(Ev, "obs")
       THEN \A f \in DOMAIN Ev.obs : Expect(Ev.obs[f] = "same", tag \o ":" \o f \o ":set:want-same")
       ELSE TRUE

TDump1 == /\ IsEvent("dump") /\ Ev.n = 1 /\ pc = "running"
          /\ Expect(Ev.ok, "dump1:failed")
          /\ IF Ev.ok
             THEN /\ ObsOK("dump1")
                  /\ Expect(Ev.inherit_diff = <<>>, "inherit:differs-from-persisted-file")
             ELSE TRUE
          /\ dump1' = IF Typed THEN Dump(ty, eff1) ELSE None
          /\ pc' = IF Ev.ok THEN "persisted" ELSE "failed"
          /\ UNCHANGED <<ty, file, eff1, eff2, dump2, admin>>

TReload == /\ IsEvent("reload") /\ pc = "persisted"
           /\ Expect(Ev.ok, "reload:refused-own-dump")
           /\ IF Ev.ok THEN Expect(Ev.diff = <<>>, "reload:effective-config-differs") ELSE TRUE
           /\ eff2' = IF Typed THEN Eff(ty, dump1) ELSE None
           /\ pc' = IF Ev.ok THEN "restarted" ELSE "failed"
           /\ UNCHANGED <<ty, file, eff1, dump1, dump2, admin>>

TDump2 == /\ IsEvent("dump") /\ Ev.n = 2 /\ pc = "restarted"
          /\ Expect(Ev.ok, "dump2:failed")
          /\ IF Ev.ok
             THEN /\ Expect(Ev.diff = <<>>, "dump2:differs-from-dump1")
                  /\ ObsOK("dump2")
             ELSE TRUE
          /\ dump2' = IF Typed THEN Dump(ty, eff2) ELSE None
          /\ pc' = "done"
          /\ UNCHANGED <<ty, file, eff1, dump1, eff2, admin>>

TraceNext == TCase \/ TLoad \/ TAdmin \/ TDump1 \/ TReload \/ TDump2
TraceSpec == TraceInit /\ [][TraceNext]_tvars

(* the model's own guarantees, evaluated at every step of the recorded trace *)
ModelFactsPreserved == (Typed /\ pc \in {"restarted", "done"}) => eff2 = eff1
ModelDumpStable     == (Typed /\ pc = "done") => dump2 = dump1
====
