CONSTANTS
  Types <- DemoTypes
  FieldsOf <- DemoFields
  KindOf <- DemoKind
  ClassesOf <- DemoClasses
  ConflictsOf <- DemoConflicts
  SecretOf <- DemoSecret
  Width = 2
  Defects <- DefectAdmin
SPECIFICATION Spec
INVARIANTS AdminReadOnly
CHECK_DEADLOCK FALSE
