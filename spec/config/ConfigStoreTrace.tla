---- MODULE ConfigStoreTrace ----
(* Trace validation of the real managers against ConfigStore (C12, binding B1+B2).
   Events written by harness/cmd/c12 (one history after the other, all names of the universe in every obs):
     new{cm, rm}                       fresh managers, empty effective configuration (TraceReset); cm / rm = clusters / routers are
                                       dumped "inline" or into a clusters_configs / router_configs directory ("dir")
     op{kind, <args>, err [,panic]]    one runtime update applied to the real code, err = it returned an error
     obs{lr, fr, lc, fc, ll, fl}       after the op: what the LIVE objects answer (lr lc ll) and what objects FRESHLY
                                       built from the dumped configuration answer (fr fc fl)
                                         routers:   name -> <<"absent">> | <<"nil">> | answers to Probes
                                         clusters:  name -> [st, lb, hosts = <<[h, a]>>, sup]   (a = attribute class of the host, sup = hosts returned by ChooseHost)
                                         listeners: name -> "absent" | variant
     restart{fr, fc, fl}               the managers were torn down and re-created from the dump (fresh MOSN)
   Every expectation is a soft Expect, so one divergence does not hide the next one. *)
EXTENDS ConfigStore, VTrace

tvars == <<vars, l>>
S(seq) == { seq[i] : i \in DOMAIN seq }
(* host maps are logged as sequences of [h |-> address id, a |-> attribute class] *)
HM(seq) == [ x \in { seq[i].h : i \in DOMAIN seq } |-> seq[CHOOSE i \in DOMAIN seq : seq[i].h = x].a ]
Locs(seq) == [ i \in DOMAIN seq |-> HM(seq[i]) ]

TraceInit == l = 1 /\ InitWith("inline", "inline")

Reset == /\ lR' = [r \in Routers |-> AbsentR] /\ sR' = [r \in Routers |-> AbsentR]
         /\ lC' = [c \in Clusters |-> AbsentC] /\ sC' = [c \in Clusters |-> AbsentC]
         /\ lL' = [n \in Listeners |-> AbsentL] /\ sL' = [n \in Listeners |-> AbsentL]
         /\ cDir' = NoFiles /\ rDir' = [r \in Routers |-> NoFiles] /\ rInl' = {}
         /\ err' = FALSE /\ pre' = pre /\ hist' = hist

(* new{cm, rm}: storage mode of the dumped clusters / routers in this history *)
TNew == IsEvent("new") /\ Reset /\ cMode' = Ev.cm /\ rMode' = Ev.rm

(* obs only lists the names of the history's universe; a name that is live must be among them *)
Seen(f, x) == x \in DOMAIN f

Apply(e) ==
  CASE e.kind = "routers"      -> DoRouters(e.r, e.vhs)
    [] e.kind = "nilrouters"   -> DoNilRouters
    [] e.kind = "addroute"     -> DoAddRoute(e.r, e.dom, e.rt)
    [] e.kind = "rmroutes"     -> DoRmRoutes(e.r, e.dom)
    [] e.kind = "primary"      -> DoPrimary(e.c, e.lb)
    [] e.kind = "clusterhosts" -> DoClusterHosts(e.c, e.lb, HM(e.hs))
    [] e.kind = "updhosts"     -> DoUpdHosts(e.c, HM(e.hs))
    [] e.kind = "append"       -> DoAppend(e.c, HM(e.hs))
    [] e.kind = "rmhosts"      -> DoRmHosts(e.c, S(e.hs))
    [] e.kind = "rmcluster"    -> DoRmCluster(S(e.cs))
    [] e.kind = "endpoints"    -> DoEndpoints(e.c, Locs(e.locs))
    [] e.kind = "listener"     -> DoListener(e.n, e.v)
    [] e.kind = "rmlistener"   -> DoRmListener(e.n)

TOp == /\ IsEvent("op")
       /\ Apply(Ev)
       /\ InlStep(Ev.kind, IF Ev.kind = "routers" THEN Ev.r ELSE "-", IF Ev.kind = "routers" /\ Has(Ev, "path") THEN Ev.path ELSE TRUE)
       /\ Dump               \* the driver dumps the effective configuration after every operation
       /\ Expect(~Has(Ev, "panic"), "operation-panicked")
       /\ Expect(Ev.err = err', "error-result")
       /\ pre' = pre /\ hist' = hist

(* one observed cluster against the specification's cluster: membership, then the attributes of the members *)
Addrs(o) == { o.hosts[i].h : i \in DOMAIN o.hosts }
ClusterOk(o, c) ==
  /\ o.st = c.st
  /\ c.st = "ok" => /\ o.lb = c.lb
                    /\ Len(o.hosts) = Cardinality(Addrs(o))     \* no address twice
                    /\ Addrs(o) = DOMAIN c.hosts
AttrsOk(o, c) ==   \* every member carries the attributes of the LAST update that named its address
  ClusterOk(o, c) => \A i \in DOMAIN o.hosts : o.hosts[i].a = c.hosts[o.hosts[i].h]
SupportOk(o) ==   \* host selection only returns members; round robin returns every member
  /\ S(o.sup) \subseteq Addrs(o)
  /\ (o.hosts # << >>) => o.sup # << >>
  /\ o.lb = "rr" => S(o.sup) = Addrs(o)

TObs == /\ IsEvent("obs")
        /\ \A r \in Routers :
             IF Seen(Ev.lr, r)
             THEN /\ Expect(Ev.lr[r] = ViewR(lR[r]), "router-live-differs-from-spec")
                  /\ Expect(Ev.fr[r] = ViewR(BuildR(RebuildR(r))), "router-dump-differs-from-spec")
                  /\ Expect(Ev.lr[r] = Ev.fr[r], "router-live-differs-from-dump")
             ELSE Expect(lR[r].st = "absent", "observation-misses-a-live-object")
        /\ \A c \in Clusters :
             IF Seen(Ev.lc, c)
             THEN /\ Expect(ClusterOk(Ev.lc[c], lC[c]), "cluster-live-differs-from-spec")
                  /\ Expect(ClusterOk(Ev.fc[c], BuildC(RebuildC(c))), "cluster-dump-differs-from-spec")
                  /\ Expect(AttrsOk(Ev.lc[c], lC[c]), "host-attributes-live-differ-from-last-update")
                  /\ Expect(AttrsOk(Ev.fc[c], BuildC(RebuildC(c))), "host-attributes-dump-differ-from-last-update")
                  /\ Expect(Ev.lc[c].st = Ev.fc[c].st /\ Ev.lc[c].lb = Ev.fc[c].lb /\ S(Ev.lc[c].hosts) = S(Ev.fc[c].hosts),
                            "cluster-live-differs-from-dump")
                  /\ Expect(SupportOk(Ev.lc[c]) /\ SupportOk(Ev.fc[c]), "host-selection-outside-host-set")
             ELSE Expect(lC[c].st = "absent", "observation-misses-a-live-object")
        /\ \A n \in Listeners :
             IF Seen(Ev.ll, n)
             THEN /\ Expect(Ev.ll[n] = lL[n], "listener-live-differs-from-spec")
                  /\ Expect(Ev.fl[n] = sL[n], "listener-dump-differs-from-spec")
                  /\ Expect(Ev.ll[n] = Ev.fl[n], "listener-live-differs-from-dump")
             ELSE Expect(lL[n] = AbsentL, "observation-misses-a-live-object")
        /\ UNCHANGED vars

TRestart == /\ IsEvent("restart")
            /\ \A r \in Routers : Seen(Ev.fr, r) => Expect(Ev.fr[r] = ViewR(lR[r]), "router-after-restart-differs")
            /\ \A c \in Clusters : Seen(Ev.fc, c) =>
                  Expect(ClusterOk(Ev.fc[c], lC[c]) /\ AttrsOk(Ev.fc[c], lC[c]) /\ SupportOk(Ev.fc[c]), "cluster-after-restart-differs")
            /\ \A n \in Listeners : Seen(Ev.fl, n) => Expect(Ev.fl[n] = lL[n], "listener-after-restart-differs")
            /\ UNCHANGED vars

TraceNext == TNew \/ TOp \/ TObs \/ TRestart
TraceSpec == TraceInit /\ [][TraceNext]_tvars
====
