CONSTANTS
  Endpoints = {"full", "mosnconfig"}
  Defects = {}
SPECIFICATION TraceSpec
POSTCONDITION Accepted
CHECK_DEADLOCK FALSE
