CONSTANTS
  NameClasses = {"short", "prefix", "sep", "sepu", "n123", "n124", "n127", "n128", "n129", "n200", "n200b"}
  Kinds = {"cluster", "vhost", "listener", "router"}
  MaxObjs = 3
  Defects = {}
SPECIFICATION TraceSpec
POSTCONDITION Accepted
CHECK_DEADLOCK FALSE
