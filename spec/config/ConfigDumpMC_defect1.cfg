CONSTANTS
  Types <- DemoTypes
  FieldsOf <- DemoFields
  KindOf <- DemoKind
  ClassesOf <- DemoClasses
  ConflictsOf <- DemoConflicts
  SecretOf <- DemoSecret
  Width = 2
  Defects <- DefectMarshalDrops
SPECIFICATION Spec
INVARIANTS FactsPreserved
CHECK_DEADLOCK FALSE
