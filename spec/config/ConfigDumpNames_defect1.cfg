CONSTANTS
  NameClasses = {"short", "prefix", "sep", "sepu", "n123", "n124", "n127", "n128", "n129", "n200", "n200b"}
  Kinds = {"cluster", "vhost", "listener", "router"}
  MaxObjs = 2
  Defects = {"NameCollision"}
SPECIFICATION Spec
INVARIANTS NamesPreserved
CHECK_DEADLOCK FALSE
