---- MODULE ConfigRedact ----
(* Admin config dump and TLS private keys, property C20.
   Anchors: pkg/configmanager/redact.go (redactedCopy / getMOSNConfigRedacted), effectiveconfig.go
   (DumpJSON, HandleMOSNConfig), pkg/admin/server/apis.go (ConfigDump and its query variants),
   runtime updates through the listener adapter, the cluster manager adapter and SetExtend.

   A *position* is a place of the configuration where a TLS context (with an inline private key) can
   be stored.  The effective configuration is abstracted to the set of positions that currently hold a
   key.  Every dump endpoint shows a *view* (a subset of the positions); the response must show the
   placeholder instead of each key in its view, and producing it must leave the stored configuration
   (live and persisted) exactly as it was. *)
EXTENDS Integers, Sequences, FiniteSets, TLC, Json

CONSTANTS Positions,   \* where a TLS context can be configured
          Endpoints,   \* admin dump endpoints / parameters
          MaxOps,      \* length of the enumerated operation histories
          Defects      \* named ways for the redaction to go wrong

(* one filter chain holds either a single context or a context set: configuring one replaces the other *)
Excl(p) == CASE p = "lis_ctx" -> {"lis_set"} [] p = "lis_set" -> {"lis_ctx"} [] OTHER -> {}
KeysAt(p) == IF p = "lis_set" THEN 2 ELSE 1

ViewOf(e) == CASE e = "full"                          -> Positions
               [] e = "mosnconfig"                    -> {"cm", "lis_ctx", "lis_set", "sf"}
                    \* transferConfig (every persist / hot-upgrade hand-over) leaves the listeners in MosnConfig.Servers[0]
               [] e \in {"allclusters", "cluster"}    -> {"clu"}
               [] e \in {"alllisteners", "listener"}  -> {"lis_ctx", "lis_set", "sf"}
               [] OTHER                               -> {}     \* allrouters, router: no TLS below a router

(* positions the redactor walks: all of them in the intended design *)
Walked == IF "UnwalkedExtends" \in Defects THEN Positions \ {"ext"} ELSE Positions

VARIABLES stored,    \* positions holding a real key in the effective configuration (live = persisted form)
          truth,     \* ghost: positions an operator configured a key at (never touched by dumps)
          leaked,    \* positions whose key appeared in the last response
          redacted,  \* number of placeholders in the last response
          hist
vars == <<stored, truth, leaked, redacted, hist>>

RECURSIVE Sum(_)
Sum(S) == IF S = {} THEN 0 ELSE LET x == CHOOSE y \in S : TRUE IN KeysAt(x) + Sum(S \ {x})

Init == /\ stored \in {{}, Positions \ {"lis_set"}, Positions \ {"lis_ctx"}}
        /\ truth = stored /\ leaked = {} /\ redacted = 0
        /\ hist = <<[op |-> "init", init |-> stored]>>

(* positions with a modelled runtime update; any further position of the generated type graph (names "g:<path>",
   added by the check at run time) is placed through the initial file only *)
Runtime == {"lis_ctx", "lis_set", "clu", "cm", "ext", "sf"}

Place(p) == /\ p \in Runtime
            /\ stored' = (stored \ Excl(p)) \cup {p}
            /\ truth' = (truth \ Excl(p)) \cup {p}
            /\ leaked' = {} /\ redacted' = 0
            /\ hist' = Append(hist, [op |-> "place", p |-> p])

Dump(e) == LET inView == stored \cap ViewOf(e) IN
           /\ leaked' = inView \ Walked
           /\ redacted' = Sum(inView \cap Walked)
           /\ stored' = IF "RedactInPlace" \in Defects THEN stored \ (inView \cap Walked) ELSE stored
           /\ truth' = truth
           /\ hist' = Append(hist, [op |-> "dump", e |-> e])

Next == /\ Len(hist) <= MaxOps
        /\ \/ \E p \in Positions : Place(p)
           \/ \E e \in Endpoints : Dump(e)
Spec == Init /\ [][Next]_vars

(* ---------- C20 ---------- *)
NoLeak        == leaked = {}
DumpIsPure    == stored = truth      \* TLS keeps working, the restart file keeps the real keys

EmitCase == (Len(hist) = MaxOps + 1 /\ hist[MaxOps + 1].op = "dump") =>
              PrintT(<<"CASE", ToJson([init |-> hist[1].init, ops |-> SubSeq(hist, 2, Len(hist))])>>)
====
