---- MODULE ConfigRedact ----
(* Admin config dump and TLS private keys, property C20.
   Anchors: pkg/configmanager/redact.go (redactedCopy / getMOSNConfigRedacted / redactUntyped),
   effectiveconfig.go (DumpJSON, HandleMOSNConfig), pkg/admin/server/apis.go (ConfigDump and its query
   variants), runtime updates through the listener adapter, the cluster manager adapter and SetExtend.

   A *position* is a place of the configuration where TLS contexts (with inline private keys) can be
   stored; a *slot* <<p, i>> is the i-th context at position p.  Single-context positions have slot 0
   only; the typed context set of a filter chain has two; the ARRAY positions - a list of contexts
   inside an untyped filter config ("sfa") and a list of servers with a context each inside an extend
   ("exta") - have ArrayLen elements of which any subset carries an inline key (the others are
   contexts without one: SDS, disabled, plain server).  The effective configuration is abstracted to
   the set of slots that currently hold a key.  Every dump endpoint shows a *view* (a subset of the
   positions); the response must show the placeholder instead of each key in its view, and producing
   it must leave the stored configuration (live and persisted) exactly as it was. *)
EXTENDS Integers, Sequences, FiniteSets, TLC, Json

CONSTANTS Positions,   \* where TLS contexts can be configured
          Endpoints,   \* admin dump endpoints / parameters
          MaxOps,      \* length of the enumerated operation histories
          ArrayLen,    \* number of elements of the array-shaped positions
          KeyForms,    \* textual forms a configured private_key can have (one per history)
          KeySpells,   \* spellings of the key NAME used at the untyped positions (one per history)
          Defects      \* named ways for the redaction to go wrong

ArrayPos == {"sfa", "exta"} \cap Positions
Untyped  == {"ext", "sf", "sfa", "exta"}     \* found by key name in untyped configs; every other position is a typed TLSConfig

(* The value of private_key.  MOSN's TLS code (mtls ConfigHooks.GetCertificate) takes a value as an inline key when it
   CONTAINS "-----BEGIN", and the PEM decoder skips whatever precedes or follows the key block; anything else names a key
   file.  All inline forms are secrets; a path is not (it may be shown or replaced).
     pem        the PEM block alone                      lead_ws    white space / a newline before it
     preamble   text before it (openssl pkcs12 -nodes: "Bag Attributes ...")
     trailing   text after it                            crlf       CRLF line ends
     two_blocks EC PARAMETERS + EC PRIVATE KEY (openssl ecparam -genkey)
     path       the path of a key file *)
(* The NAME of the key at the untyped positions.  The filters / extends that own such a config decode it with
   encoding/json into v2.TLSConfig, which matches the field name case-insensitively, and the JSON parser resolves
   escapes in names: every case variant and every escaped spelling of "private_key" configures a key (and must be
   redacted); "privateKey" does not (the consumer ignores it: not a TLS key as far as MOSN is concerned).
     exact  private_key     title  Private_Key     upper  PRIVATE_KEY     escaped  private\u005fkey     camel  privateKey *)
NameAccepted(sp) == sp # "camel"
Secret(f) == f # "path"
StartsWithHeader(f) == f \in {"pem", "trailing", "crlf", "two_blocks"}

(* one filter chain holds either a single context or a context set: configuring one replaces the other *)
Excl(p) == CASE p = "lis_ctx" -> {"lis_set"} [] p = "lis_set" -> {"lis_ctx"} [] OTHER -> {}

(* which elements may carry a key when position p is (re)configured *)
Patterns(p) == CASE p \in ArrayPos -> SUBSET (0..(ArrayLen - 1))
                 [] p = "lis_set"  -> {{0, 1}}
                 [] OTHER          -> {{0}}
Full(p) == CASE p \in ArrayPos -> 0..(ArrayLen - 1) [] p = "lis_set" -> {0, 1} [] OTHER -> {0}
SlotsOf(P, K(_)) == UNION { { <<p, i>> : i \in K(p) } : p \in P }
FirstOnly(p) == IF p \in ArrayPos THEN {0} ELSE Full(p)

ViewOf(e) == CASE e = "full"                          -> Positions
               [] e = "mosnconfig"                    -> {"cm"}
                    \* (the code under verification used to leave the listeners of the last persist below
                    \*  mosn_config.servers[0] as well - see ConfigRedactRace; more placeholders than required are fine)
               [] e \in {"allclusters", "cluster"}    -> {"clu"}
               [] e \in {"alllisteners", "listener"}  -> {"lis_ctx", "lis_set", "sf", "sfa"}
               [] OTHER                               -> {}     \* allrouters, router: no TLS below a router

VARIABLES stored,    \* slots holding a real key in the effective configuration (live = persisted form)
          truth,     \* ghost: slots an operator configured a key at (never touched by dumps)
          leaked,    \* slots whose key appeared in the last response
          redacted,  \* number of placeholders in the last response
          form,      \* the form of every key configured in this history
          spell,     \* the spelling of the key name at the untyped positions in this history
          hist
vars == <<stored, truth, leaked, redacted, form, spell, hist>>

(* is the value configured at position p a TLS private key at all *)
SecretAt(p) == Secret(form) /\ (p \in Untyped => NameAccepted(spell))

(* slots the redactor reaches: all of them in the intended design *)
Reached(st) ==
  { s \in st :
      /\ ~("UnwalkedExtends" \in Defects /\ s[1] \in {"ext", "exta"})
      \* "inline" decided by how the value STARTS: a working inline key with something in front is taken for a path
      /\ ~("PrefixOnlyInline" \in Defects /\ s[1] \notin Untyped /\ ~StartsWithHeader(form))
      \* the walk over untyped configs compares the key name byte for byte (and pre-screens the raw bytes of an extend)
      /\ ~("ExactKeyNameOnly" \in Defects /\ s[1] \in Untyped
            /\ (spell \in {"title", "upper"} \/ (spell = "escaped" /\ s[1] \in {"ext", "exta"})))
      \* an array whose LAST element has nothing to redact is handed back as it was
      /\ ~("ArrayLastOnly" \in Defects /\ s[1] \in ArrayPos /\ <<s[1], ArrayLen - 1>> \notin st) }

Init == /\ stored \in { {},
                        SlotsOf(Positions \ {"lis_set"}, Full),
                        SlotsOf(Positions \ {"lis_ctx"}, Full),
                        SlotsOf(Positions \ {"lis_set"}, FirstOnly) }   \* arrays: first element keyed, the rest plain
        /\ form \in KeyForms /\ spell \in KeySpells
        /\ truth = stored /\ leaked = {} /\ redacted = 0
        /\ hist = <<[op |-> "init", init |-> stored, form |-> form, spell |-> spell]>>

(* positions with a modelled runtime update; any further position of the generated type graph (names "g:<path>",
   added by the check at run time) is placed through the initial file only *)
Runtime == {"lis_ctx", "lis_set", "clu", "cm", "ext", "sf", "sfa", "exta"}

Replace(st, p, K) == { s \in st : s[1] \notin (Excl(p) \cup {p}) } \cup { <<p, i>> : i \in K }

Place(p, K) == /\ p \in Runtime
               /\ stored' = Replace(stored, p, K)
               /\ truth' = Replace(truth, p, K)
               /\ leaked' = {} /\ redacted' = 0 /\ form' = form /\ spell' = spell
               /\ hist' = Append(hist, [op |-> "place", p |-> p, k |-> K])

Dump(e) == LET inView == { s \in stored : s[1] \in ViewOf(e) } IN
           /\ leaked' = { s \in inView \ Reached(inView) : SecretAt(s[1]) }
           /\ redacted' = Cardinality(Reached(inView))
           /\ stored' = IF "RedactInPlace" \in Defects THEN stored \ Reached(inView) ELSE stored
           /\ truth' = truth /\ form' = form /\ spell' = spell
           /\ hist' = Append(hist, [op |-> "dump", e |-> e])

Next == /\ Len(hist) <= MaxOps
        /\ \/ \E p \in Positions : \E K \in Patterns(p) : Place(p, K)
           \/ \E e \in Endpoints : Dump(e)
Spec == Init /\ [][Next]_vars

(* ---------- C20 ---------- *)
NoLeak        == leaked = {}          \* per key: no slot's key in any response
DumpIsPure    == stored = truth       \* TLS keeps working, the restart file keeps the real keys

EmitCase == (Len(hist) = MaxOps + 1 /\ hist[MaxOps + 1].op = "dump") =>
              PrintT(<<"CASE", ToJson([form |-> form, spell |-> spell, init |-> hist[1].init, ops |-> SubSeq(hist, 2, Len(hist))])>>)
====
