CONSTANTS
  Routers = {"r1", "r2"}
  Clusters = {"c1", "c2", "c12", "g/c1"}
  Hosts = {"h1", "h2", "h3"}
  Listeners = {"l1"}
  MaxOps = 0
  Ops = {}
  RCfgs = {}
  Doms = {}
  Rts = {}
  Lbs = {}
  HostSets = {}
  Attrs = {"a1", "a2"}
  LocLists = {}
  CModes = {}
  RModes = {}
  Defects = {}
SPECIFICATION TraceSpec
POSTCONDITION Accepted
CHECK_DEADLOCK FALSE
