---- MODULE ConfigRedactRaceTrace ----
(* Trace validation of forced interleavings of a persist and an admin dump on the real code (C20).
   harness/cmd/c19 -mode race drives the two operations in goroutines of their own and holds them at the verif gates
   cfg.transfer.snapshot / cfg.transfer.stored / cfg.redact.copied / cfg.redact.done, releasing them in the order TLC enumerated.
     race{id,prior,e}      fresh MOSN with real keys in a listener context, a cluster, the cluster manager and a filter config;
                           prior: a quiet persist has run before; e: the dump endpoint
     step{s}               the step s (Ts Tw Tm Rc Rr Rm Rw; Rw = the handler's WriteHeader was let through and the body written) was let run to its end
     result{diverged,persist_placeholder,persist_diff,leaked,live_diff}
                           persist_diff = paths where the bytes the raced persist produced differ from a quiet persist taken
                           afterwards; leaked = keys found in the response; live_diff = effective configuration before / after *)
EXTENDS ConfigRedactRace, VTrace

tvars == <<vars, l>>

TraceInit == /\ l = 1 /\ pP = "idle" /\ pD = "idle" /\ cell = "none" /\ rewritten = {} /\ out = "none" /\ resp = "none" /\ made = "none" /\ bufp = FALSE
             /\ prior = FALSE /\ ep = "full" /\ sched = <<>>

TRace == /\ IsEvent("race")
         /\ Ev.e \in Endpoints
         /\ pP' = "start" /\ pD' = "start" /\ cell' = "none" /\ rewritten' = {} /\ out' = "none" /\ resp' = "none" /\ made' = "none" /\ bufp' = FALSE
         /\ prior' = Ev.prior /\ ep' = Ev.e /\ sched' = <<>>

TStep == /\ IsEvent("step")
         /\ \/ Ev.s = "Ts" /\ Ts
            \/ Ev.s = "Tw" /\ Tw
            \/ Ev.s = "Tm" /\ Tm
            \/ Ev.s = "Rc" /\ Rc
            \/ Ev.s = "Rr" /\ Rr
            \/ Ev.s = "Rm" /\ Rm
            \/ Ev.s = "Rw" /\ Rw

Pre == "race:" \o ep \o ":"

TResult == /\ IsEvent("result") /\ pP = "done" /\ pD = "done"
           /\ Expect(~Ev.diverged, Pre \o "schedule-not-forced")
           /\ Expect(~Ev.persist_placeholder, Pre \o "placeholder-in-raced-persist")
           /\ Expect(Ev.persist_diff = <<>>, Pre \o "raced-persist-differs-from-quiet-persist")
           /\ Expect(Ev.leaked = <<>>, Pre \o "key-in-response")
           /\ Expect(Ev.live_diff = <<>>, Pre \o "live-config-altered")
           /\ UNCHANGED vars

TraceNext == TRace \/ TStep \/ TResult
TraceSpec == TraceInit /\ [][TraceNext]_tvars
====
