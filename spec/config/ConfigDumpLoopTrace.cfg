CONSTANTS
  UpdateKinds = {"cluster", "hosts", "listener", "router", "extend"}
  MaxUpdates = 100
  MaxSteps = 100000000
  Defects = {}
SPECIFICATION TraceSpec
POSTCONDITION Accepted
CHECK_DEADLOCK FALSE
