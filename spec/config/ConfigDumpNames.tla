---- MODULE ConfigDumpNames ----
(* The NAME dimension of the name-keyed objects of a MOSN configuration over the cycle
   load -> register -> dump -> reload -> dump (property C19; companion of ConfigDump.tla, which treats
   the fields of one object).
   Anchors: pkg/config/v2/upstream.go ClusterManagerConfig.{Marshal,Unmarshal}JSON, pkg/config/v2/route.go
   RouterConfiguration.{Marshal,Unmarshal}JSON (directory mode: one file per cluster / virtual host, the
   file name derived from the object's name: cut to MaxFilePath = 128 bytes, path separators replaced,
   ".json" appended; the loader reads every file of the directory whose extension is ".json"),
   pkg/configmanager/effectiveconfig.go (maps keyed by name), dump_action.go transferConfig.

   A collection (clusters, virtual hosts of a router table, listeners, router tables) is a set of
   objects identified by their names; names are abstracted to *name classes* with the attributes the
   file naming depends on.  Storage mode: inline (a JSON list) or dir (one file per object).
   `Defects` names the ways the file naming can go wrong:
     "NameCollision"    two different names are given the same file (what the code under verification does
                        for names that differ only after byte 128, or only in '/' versus '_')
     "TruncateAfterExt" the name is cut to 128 bytes after the extension was appended: the extension of
                        names longer than 123 bytes is damaged and the loader skips the file *)
EXTENDS Integers, Sequences, FiniteSets, TLC, Json

CONSTANTS NameClasses,   \* name classes used in this run
          Kinds,         \* collections: "cluster", "vhost", "listener", "router"
          MaxObjs,       \* how many objects a collection holds at most
          Defects

MaxFilePath == 128
ExtLen == 5   \* ".json"

(* attributes of a name class: length in bytes; twin = the class whose name differs from this one only in a way
   the file naming does not see (same first 128 bytes / '_' where the other has '/') *)
LenOf(c) == CASE c = "short" -> 9 [] c = "prefix" -> 4 [] c = "sep" -> 6 [] c = "sepu" -> 6
              [] c = "n123" -> 123 [] c = "n124" -> 124 [] c = "n127" -> 127 [] c = "n128" -> 128
              [] c = "n129" -> 129 [] c = "n200" -> 200 [] c = "n200b" -> 200 [] OTHER -> 8
TwinOf(c) == CASE c = "sepu" -> "sep" [] c = "n200b" -> "n200" [] OTHER -> c
HasTwinIn(c, S) == \E d \in S : d # c /\ (TwinOf(c) = d \/ TwinOf(d) = c)

DirKinds == {"cluster", "vhost"}                 \* collections that can be kept in a directory
ModesOf(k) == IF k \in DirKinds THEN {"inline", "dir"} ELSE {"inline"}

(* the file an object of name class c is written to: <<identity of the stem, extension intact>> *)
FileOf(c) == LET stem == IF "NameCollision" \in Defects THEN TwinOf(c) ELSE c
                 extOK == ~("TruncateAfterExt" \in Defects /\ LenOf(c) + ExtLen > MaxFilePath)
             IN <<stem, extOK>>

(* a directory written from the objects S: one object per file; when two objects claim a file either may win *)
Stores(S) == { st \in [ { FileOf(c) : c \in S } -> S ] : \A f \in DOMAIN st : FileOf(st[f]) = f }
(* what the loader finds in a directory *)
Readable(st) == { st[f] : f \in { g \in DOMAIN st : g[2] } }

VARIABLES kind, mode, objs, pc, eff1, store1, eff2, store2
vars == <<kind, mode, objs, pc, eff1, store1, eff2, store2>>

NoStore == [f \in {} |-> "none"]

Init == /\ kind \in Kinds /\ mode \in ModesOf(kind)
        /\ objs \in { S \in SUBSET NameClasses : S # {} /\ Cardinality(S) <= MaxObjs }
        /\ pc = "file" /\ eff1 = {} /\ eff2 = {} /\ store1 = NoStore /\ store2 = NoStore

(* the initial directory is written by an operator: file names are free, every object is found *)
Load1  == /\ pc = "file" /\ eff1' = objs /\ pc' = "running"
          /\ UNCHANGED <<kind, mode, objs, store1, eff2, store2>>
Dump1  == /\ pc = "running" /\ pc' = "persisted"
          /\ IF mode = "dir" THEN store1' \in Stores(eff1) ELSE store1' = [f \in { <<c, TRUE>> : c \in eff1 } |-> f[1]]
          /\ UNCHANGED <<kind, mode, objs, eff1, eff2, store2>>
Reload == /\ pc = "persisted" /\ eff2' = Readable(store1) /\ pc' = "restarted"
          /\ UNCHANGED <<kind, mode, objs, eff1, store1, store2>>
Dump2  == /\ pc = "restarted" /\ pc' = "done"
          /\ IF mode = "dir" THEN store2' \in Stores(eff2) ELSE store2' = [f \in { <<c, TRUE>> : c \in eff2 } |-> f[1]]
          /\ UNCHANGED <<kind, mode, objs, eff1, store1, eff2>>

Next == Load1 \/ Dump1 \/ Reload \/ Dump2
Spec == Init /\ [][Next]_vars

(* ---------- C19 for named objects ---------- *)
NamesPreserved == pc \in {"restarted", "done"} => eff2 = eff1          \* every named object present after reload
AllWritten     == pc \in {"persisted", "restarted", "done"} => { store1[f] : f \in DOMAIN store1 } = eff1
DumpStable     == pc = "done" => store2 = store1

(* one CASE line per collection, consumed by the Go driver *)
EmitCase == pc = "file" => PrintT(<<"CASE", ToJson([kind |-> kind, mode |-> mode, names |-> objs])>>)
====
