---- MODULE ConfigDumpLoopTrace ----
(* Trace validation of the real dump loop against ConfigDumpLoop (C19).  harness/cmd/c19 -mode loop starts a MOSN with
   auto_config on, applies real runtime updates (cluster manager adapter, listener adapter, router manager, SetExtend) and
   runs DumpConfig() in a goroutine held at the verif gates cfg.dump.taken / cfg.dump.transferred, so that updates land
   exactly where TLC placed them.
     loop{id}            fresh MOSN, persisted file = running configuration
     step{a,kind}        update of the given kind / take / transfer / write happened
     noop                a round returned at once (flag down); the rest of the history is skipped
     quiesce{diff,rounds}
                         after the history two more rounds of the loop were run without any gate; diff = paths where the
                         persisted file differs from what a persist of the running configuration gives *)
EXTENDS ConfigDumpLoop, VTrace

tvars == <<vars, l>>

TraceInit == l = 1 /\ Init

TLoop == /\ IsEvent("loop")
         /\ flag' = 0 /\ eff' = 0 /\ snap' = 0 /\ file' = 0 /\ pc' = "idle" /\ late' = "none" /\ hist' = <<>>

TStep == /\ IsEvent("step")
         /\ \/ Ev.a = "update" /\ Update(Ev.kind)
            \/ Ev.a = "take" /\ Take
            \/ Ev.a = "transfer" /\ Transfer
            \/ Ev.a = "write" /\ Write

(* a round of the real loop returned without doing anything: the real flag was down.  How the code keeps its flag is
   its own business (not judged); the model follows it, and the file is judged at quiescence *)
TNoop == /\ IsEvent("noop") /\ pc = "idle"
         /\ flag' = 0
         /\ UNCHANGED <<eff, snap, file, pc, late, hist>>

TQuiesce == /\ IsEvent("quiesce") /\ Quiescent
            /\ Expect(Ev.diff = <<>>, "loop:persisted-file-behind-running-config:latest-update-" \o late)
            /\ UNCHANGED vars

TraceNext == TLoop \/ TStep \/ TNoop \/ TQuiesce
TraceSpec == TraceInit /\ [][TraceNext]_tvars
====
