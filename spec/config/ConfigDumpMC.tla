---- MODULE ConfigDumpMC ----
(* Stand-alone instance of ConfigDump over a small synthetic type graph: one struct with a field of
   every kind, and a filter chain with its mutually exclusive TLS fields.  The check replaces this
   graph by the one generated from the tree under verification (ConfigTypeGraphData, written at run time). *)
EXTENDS ConfigDump

DemoTypes == {"S", "FC"}
DemoFields == [t \in DemoTypes |-> IF t = "S" THEN {"o", "k", "p", "n", "w", "s", "d", "c"} ELSE {"tls_context", "tls_context_set", "match"}]
DemoKind == [t \in DemoTypes |->
               IF t = "S" THEN ("o" :> "omit" @@ "k" :> "keep" @@ "p" :> "ptr" @@ "n" :> "ptrnull" @@ "w" :> "pair" @@ "s" :> "struct" @@ "d" :> "default" @@ "c" :> "clamp")
               ELSE ("tls_context" :> "reshape" @@ "tls_context_set" :> "reshape" @@ "match" :> "omit")]
DemoClasses == [t \in DemoTypes |->
               IF t = "S" THEN [f \in DemoFields[t] |-> IF f = "s" THEN {"unset", "zero", "typ"} ELSE Classes]
               ELSE [f \in DemoFields[t] |-> {"unset", "zero", "typ"}]]
DemoConflicts == [t \in DemoTypes |-> IF t = "FC" THEN {{"tls_context", "tls_context_set"}} ELSE {}]
DemoSecret == [t \in DemoTypes |-> IF t = "S" THEN {"o", "p"} ELSE {}]
NoDefects == {}
DefectMarshalDrops == {"MarshalDrops"}
DefectPtrZero == {"PtrZeroOmitted"}
DefectPair == {"PairNotInverse"}
DefectAdmin == {"AdminDumpWritesThrough"}
====
