---- MODULE ConfigRedactTrace ----
(* Trace validation of real admin dumps against ConfigRedact (C20).  Events (harness/cmd/c19 -mode redact):
     new{id,init,form}      fresh MOSN started from a file with a TLS context (distinct real key) at every slot [p,i] in init
     accepts{spell,ok}   json.Unmarshal of {"<spelling>": "k"} into v2.TLSConfig set PrivateKey
     start{ok}
     place{p,k,ok}       runtime update configuring position p with fresh keys at the elements k (listener adapter /
                         cluster manager adapter / UpdateTLSManager / SetExtend)
     dump{e,status,leaked,redacted,live_diff,persisted_diff}
                         GET /api/v1/config_dump with endpoint parameter e; leaked = slots "p#i/<key pattern of p>" whose current key
                         (or "retired" for a replaced one) occurs in the body; redacted = number of placeholders in the body;
                         live_diff / persisted_diff = paths where the effective configuration / the restart bytes
                         differ from what they were before the request
     final{kept,placeholder_in_file,handshake,reload}
                         kept = positions whose real key is in the file MOSN persists; handshake = a TLS handshake against
                         the listener's context built from the live configuration succeeds; reload = a new MOSN starts from the file *)
EXTENDS ConfigRedact, VTrace

tvars == <<vars, l>>
S(seq) == { seq[i] : i \in DOMAIN seq }

TraceInit == /\ l = 1 /\ stored = {} /\ truth = {} /\ leaked = {} /\ redacted = 0 /\ hist = <<>> /\ form = "pem" /\ spell = "exact"

FormTag == (IF form = "pem" THEN "" ELSE ":key-" \o form) \o (IF spell = "exact" THEN "" ELSE ":name-" \o spell)

Slots(seq) == { <<seq[i][1], seq[i][2]>> : i \in DOMAIN seq }

TNew == /\ IsEvent("new")
        /\ \A s \in Slots(Ev.init) : s[1] \in Positions
        /\ stored' = Slots(Ev.init) /\ truth' = Slots(Ev.init) /\ leaked' = {} /\ redacted' = 0 /\ hist' = <<>>
        /\ form' = IF Has(Ev, "form") THEN Ev.form ELSE "pem"
        /\ form' \in KeyForms
        /\ spell' = IF Has(Ev, "spell") THEN Ev.spell ELSE "exact"
        /\ spell' \in KeySpells

(* what the consumer of an untyped config (json.Unmarshal into v2.TLSConfig) makes of the spelling *)
TAccepts == /\ IsEvent("accepts")
            /\ Expect(Ev.ok = NameAccepted(Ev.spell), "key-name:" \o Ev.spell \o ":consumer-disagrees-with-model")
            /\ UNCHANGED vars

TStart == /\ IsEvent("start")
          /\ Expect(Ev.ok, "start:refused")
          /\ UNCHANGED vars

TPlace == /\ IsEvent("place")
          /\ Ev.p \in Positions
          /\ Expect(Ev.ok, "place:" \o Ev.p \o ":refused")
          /\ stored' = Replace(stored, Ev.p, S(Ev.k))
          /\ truth' = Replace(truth, Ev.p, S(Ev.k))
          /\ UNCHANGED <<leaked, redacted, hist, form, spell>>

TDump == /\ IsEvent("dump")
         /\ Ev.e \in Endpoints
         /\ LET inView == { s \in stored : s[1] \in ViewOf(Ev.e) } IN
              /\ Expect(Ev.status = 200, "dump:" \o Ev.e \o ":status")
              /\ \A x \in S(Ev.leaked) : Expect(x.p # "retired" /\ x.p \in Positions /\ ~SecretAt(x.p), "leak:" \o Ev.e \o ":" \o x.s \o FormTag)
              /\ Expect(Ev.redacted >= Cardinality({ s \in inView : SecretAt(s[1]) }), "placeholder-missing:" \o Ev.e \o FormTag)   \* every key in view is replaced by the placeholder
              /\ Expect(Ev.live_diff = <<>>, "dump-altered-live-config:" \o Ev.e)
              /\ Expect(Ev.persisted_diff = <<>>, "dump-altered-persisted-config:" \o Ev.e)
         /\ UNCHANGED vars

TFinal == /\ IsEvent("final")
          /\ \A p \in { s[1] : s \in truth } : Expect(p \in S(Ev.kept), "persisted-file-lost-key:" \o p)
          /\ Expect(~Ev.placeholder_in_file, "placeholder-in-persisted-file")
          /\ Expect(Ev.handshake, "tls-handshake-fails-after-dumps" \o FormTag)
          /\ Expect(Ev.reload, "restart-from-persisted-file-fails" \o FormTag)
          /\ UNCHANGED vars

TraceNext == TNew \/ TAccepts \/ TStart \/ TPlace \/ TDump \/ TFinal
TraceSpec == TraceInit /\ [][TraceNext]_tvars
====
