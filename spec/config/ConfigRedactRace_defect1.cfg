CONSTANTS
  Endpoints = {"full", "mosnconfig"}
  Defects = {"SharedServers"}
SPECIFICATION Spec
INVARIANTS NoLeak
CHECK_DEADLOCK FALSE
