CONSTANTS
  Types <- DemoTypes
  FieldsOf <- DemoFields
  KindOf <- DemoKind
  ClassesOf <- DemoClasses
  ConflictsOf <- DemoConflicts
  SecretOf <- DemoSecret
  Width = 2
  Defects <- NoDefects
SPECIFICATION Spec
INVARIANTS FactsPreserved DumpStable SetSurvives AdminReadOnly
CHECK_DEADLOCK FALSE
