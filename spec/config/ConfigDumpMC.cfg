CONSTANTS
  Types <- DemoTypes
  FieldsOf <- DemoFields
  KindOf <- DemoKind
  ClassesOf <- DemoClasses
  ConflictsOf <- DemoConflicts
  Width = 2
  Defects <- NoDefects
SPECIFICATION Spec
INVARIANTS FactsPreserved DumpStable SetSurvives
CHECK_DEADLOCK FALSE
