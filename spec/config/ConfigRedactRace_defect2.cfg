CONSTANTS
  Endpoints = {"full", "mosnconfig"}
  Defects = {"SharedServers"}
SPECIFICATION Spec
INVARIANTS PersistIntact
CHECK_DEADLOCK FALSE
