---- MODULE ConfigRedactRace ----
(* An admin config dump overlapping a persist of the configuration (property C20: "producing the dump never alters
   the live or persisted configuration", "no response contains a key").
   Anchors: pkg/configmanager/dump_action.go transferConfig (the dump loop's DumpConfig and the hot-upgrade hand-over
   InheritMosnconfig), pkg/configmanager/redact.go redactedMosnConfig (full dump and ?mosnconfig).  Both run under the
   READ lock of the configuration, i.e. concurrently.

   Each operation is split where the code has a step:
     persist  Ts  snapshot: wait2dump := conf.MosnConfig (the Servers slice header is copied, its elements are shared)
              Tw  the freshly collected listeners are stored into wait2dump.Servers[0].Listeners
              Tm  json.Marshal(wait2dump)
     dump     Rc  dst := src (same sharing)
              Rr  every listener found below dst.Servers[0] is redacted
              Rm  json.Marshal of the result
              Rw  the marshalled bytes are handed to the connection (the handler's w.WriteHeader / w.Write)
   Intended design (Defects = {}): both operations work on storage of their own.  "SharedServers" is what the code under
   verification does: Servers[0] is one cell shared by the live configuration, the persist and the dump, Tw writes it and Rr
   rewrites the listeners it finds there in place.  "ResponseInPooledBuffer": both operations marshal into buffers recycled
   through one pool and the response bytes still live in such a buffer when they are written: a persist that marshals
   between Rm and Rw (into a buffer large enough to be reused: an earlier persist has run) overwrites them. *)
EXTENDS Integers, Sequences, FiniteSets, TLC, Json

CONSTANTS Endpoints,   \* dump endpoints that go through redactedMosnConfig
          Defects

VARIABLES pP, pD,      \* program counters of the persist and of the dump
          cell,        \* which listener slice the shared Servers[0].Listeners refers to: "none" | "old" | "new"
          rewritten,   \* slices whose elements were replaced by redacted copies
          out,         \* what the persist produced: "none" | "real" | "redacted"
          resp,        \* what the response shows below mosn_config.servers: "none" | "clean" | "real"
          made,        \* what the dump marshalled (Rm), before it is written
          bufp,        \* the persist has marshalled since the dump marshalled (matters with pooled buffers only)
          prior, ep, sched
vars == <<pP, pD, cell, rewritten, out, resp, made, bufp, prior, ep, sched>>

Shared == "SharedServers" \in Defects

Init == /\ pP = "start" /\ pD = "start" /\ rewritten = {} /\ out = "none" /\ resp = "none" /\ made = "none" /\ bufp = FALSE
        /\ prior \in BOOLEAN                       \* an earlier, quiet persist has already run
        /\ cell = IF prior /\ Shared THEN "old" ELSE "none"
        /\ ep \in Endpoints /\ sched = <<>>

Step(s) == sched' = Append(sched, s)

Ts == /\ pP = "start" /\ pP' = "snap" /\ Step("Ts")
      /\ UNCHANGED <<pD, cell, rewritten, out, resp, made, bufp, prior, ep>>
Tw == /\ pP = "snap" /\ pP' = "stored" /\ Step("Tw")
      /\ cell' = IF Shared THEN "new" ELSE cell
      /\ UNCHANGED <<pD, rewritten, out, resp, made, bufp, prior, ep>>
Tm == /\ pP = "stored" /\ pP' = "done" /\ Step("Tm")
      /\ out' = IF Shared /\ cell \in rewritten THEN "redacted" ELSE "real"
      /\ /\ bufp' = (pD = "marshaled")
      /\ UNCHANGED <<pD, cell, rewritten, resp, made, prior, ep>>

Rc == /\ pD = "start" /\ pD' = "copied" /\ Step("Rc")
      /\ UNCHANGED <<pP, cell, rewritten, out, resp, made, bufp, prior, ep>>
Rr == /\ pD = "copied" /\ pD' = "redone" /\ Step("Rr")
      /\ rewritten' = IF Shared /\ cell # "none" THEN rewritten \cup {cell} ELSE rewritten
      /\ UNCHANGED <<pP, cell, out, resp, made, bufp, prior, ep>>
Rm == /\ pD = "redone" /\ pD' = "marshaled" /\ Step("Rm")
      /\ made' = IF Shared /\ cell # "none" /\ cell \notin rewritten THEN "real" ELSE "clean"
      /\ bufp' = FALSE
      /\ UNCHANGED <<pP, cell, rewritten, out, resp, prior, ep>>
Rw == /\ pD = "marshaled" /\ pD' = "done" /\ Step("Rw")
      /\ resp' = IF "ResponseInPooledBuffer" \in Defects /\ bufp /\ prior THEN "real" ELSE made
      /\ UNCHANGED <<pP, cell, rewritten, out, made, bufp, prior, ep>>

Next == Ts \/ Tw \/ Tm \/ Rc \/ Rr \/ Rm \/ Rw
Spec == Init /\ [][Next]_vars

(* ---------- C20 ---------- *)
NoLeak        == resp # "real"
PersistIntact == out # "redacted"

(* one CASE line per complete interleaving, consumed by the Go driver *)
EmitCase == (pP = "done" /\ pD = "done") => PrintT(<<"CASE", ToJson([prior |-> prior, e |-> ep, sched |-> sched])>>)
====
