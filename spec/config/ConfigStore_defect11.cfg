CONSTANTS
  Routers = {"r1"}
  Clusters = {}
  Hosts = {"h1", "h2", "h3"}
  Listeners = {}
  MaxOps = 3
  Ops = {"routers", "nilrouters", "addroute", "rmroutes"}
  RCfgs = {"A", "B"}
  Doms = {"a.com"}
  Rts = {"x1"}
  Lbs = {}
  HostSets = {}
  Attrs = {"a1"}
  LocLists = {}
  CModes = {"inline"}
  RModes = {"dir"}
  Defects = {"PathlessUpdateKeepsDirectory"}
SPECIFICATION Spec
INVARIANTS Coherent LastUpdateWins RemovedGone EndpointsUnion ErrorsChangeNothing FrameCondition
CHECK_DEADLOCK FALSE
