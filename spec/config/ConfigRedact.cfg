CONSTANTS
  Positions = {"lis_ctx", "lis_set", "clu", "cm", "ext", "sf", "sfa", "exta"}
  Endpoints = {"full", "mosnconfig", "allrouters", "allclusters", "alllisteners", "router", "cluster", "listener"}
  MaxOps = 2
  KeyForms = {"pem"}
  KeySpells = {"exact"}
  ArrayLen = 3
  Defects = {}
SPECIFICATION Spec
INVARIANTS NoLeak DumpIsPure EmitCase
CHECK_DEADLOCK FALSE
