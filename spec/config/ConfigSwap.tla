---- MODULE ConfigSwap ----
(* Publication of a new configuration object versus concurrent lookups (last clause of C12).
   Code: routers_manager.go AddOrUpdateRouters (table built aside, pointer swapped under rw.mux,
   GetRouters loads it once), cluster_manager.go UpdateCluster (new cluster built and its hosts
   inherited BEFORE clustersMap.Store), cluster.go UpdateHosts (one snapshot pointer), xDS
   ConvertUpdateEndpoints (one host-set replacement per assignment).
   A published object has two cells (virtual-host index / route list, load balancer / host set,
   first / second locality); version v carries the value v in both, 0 is the initial object.
   Defects: "HalfwayVisible"  the new object becomes visible before it is complete
            "TwoLoads"        a lookup loads the two cells separately *)
EXTENDS Integers, Sequences, FiniteSets, TLC

CONSTANTS NVersions, Lookups, Defects

VARIABLES cellA, cellB,        \* what a lookup can read
          upc, nextV,          \* updater
          begun, done,         \* newest update whose call has begun / returned
          lpc, ra, rb, lo, hi  \* per lookup: pc, values read, window of versions live during the lookup
vars == <<cellA, cellB, upc, nextV, begun, done, lpc, ra, rb, lo, hi>>

Init == /\ cellA = 0 /\ cellB = 0 /\ upc = "idle" /\ nextV = 1 /\ begun = 0 /\ done = 0
        /\ lpc = [x \in Lookups |-> "start"] /\ ra = [x \in Lookups |-> 0] /\ rb = [x \in Lookups |-> 0]
        /\ lo = [x \in Lookups |-> 0] /\ hi = [x \in Lookups |-> 0]

UBegin == /\ upc = "idle" /\ nextV <= NVersions /\ upc' = "built" /\ begun' = nextV
          /\ UNCHANGED <<cellA, cellB, nextV, done, lpc, ra, rb, lo, hi>>
UPublish == /\ upc = "built"
            /\ cellA' = nextV
            /\ IF "HalfwayVisible" \in Defects THEN cellB' = cellB /\ upc' = "half"
                                               ELSE cellB' = nextV /\ upc' = "published"
            /\ UNCHANGED <<nextV, begun, done, lpc, ra, rb, lo, hi>>
UPublish2 == /\ upc = "half" /\ cellB' = nextV /\ upc' = "published"
             /\ UNCHANGED <<cellA, nextV, begun, done, lpc, ra, rb, lo, hi>>
UEnd == /\ upc = "published" /\ done' = nextV /\ nextV' = nextV + 1 /\ upc' = "idle"
        /\ UNCHANGED <<cellA, cellB, begun, lpc, ra, rb, lo, hi>>

LStart(x) == /\ lpc[x] = "start" /\ lo' = [lo EXCEPT ![x] = done] /\ lpc' = [lpc EXCEPT ![x] = "load"]
             /\ UNCHANGED <<cellA, cellB, upc, nextV, begun, done, ra, rb, hi>>
LLoad(x) == /\ lpc[x] = "load"
            /\ ra' = [ra EXCEPT ![x] = cellA]
            /\ IF "TwoLoads" \in Defects THEN rb' = rb /\ lpc' = [lpc EXCEPT ![x] = "load2"]
                                         ELSE rb' = [rb EXCEPT ![x] = cellB] /\ lpc' = [lpc EXCEPT ![x] = "end"]
            /\ UNCHANGED <<cellA, cellB, upc, nextV, begun, done, lo, hi>>
LLoad2(x) == /\ lpc[x] = "load2" /\ rb' = [rb EXCEPT ![x] = cellB] /\ lpc' = [lpc EXCEPT ![x] = "end"]
             /\ UNCHANGED <<cellA, cellB, upc, nextV, begun, done, ra, lo, hi>>
LEnd(x) == /\ lpc[x] = "end" /\ hi' = [hi EXCEPT ![x] = begun] /\ lpc' = [lpc EXCEPT ![x] = "done"]
           /\ UNCHANGED <<cellA, cellB, upc, nextV, begun, done, ra, rb, lo>>

Next == UBegin \/ UPublish \/ UPublish2 \/ UEnd \/ \E x \in Lookups : LStart(x) \/ LLoad(x) \/ LLoad2(x) \/ LEnd(x)
Spec == Init /\ [][Next]_vars

(* a finished lookup was served entirely by ONE configuration that was live during the lookup *)
OneVersion == \A x \in Lookups : lpc[x] = "done" => ra[x] = rb[x] /\ ra[x] \in lo[x]..hi[x]
====
