CONSTANTS
  Routers = {}
  Clusters = {"c1", "g/c1"}
  Hosts = {"h1", "h2", "h3"}
  Listeners = {}
  MaxOps = 3
  Ops = {"primary", "clusterhosts", "updhosts", "rmhosts", "rmcluster"}
  RCfgs = {}
  Doms = {}
  Rts = {}
  Lbs = {"rr"}
  HostSets = {{"h1"}}
  Attrs = {"a1"}
  LocLists = {}
  CModes = {"dir"}
  RModes = {"inline"}
  Defects = {"SweepUsesRawName"}
SPECIFICATION Spec
INVARIANTS Coherent LastUpdateWins RemovedGone EndpointsUnion ErrorsChangeNothing FrameCondition 
CHECK_DEADLOCK FALSE
