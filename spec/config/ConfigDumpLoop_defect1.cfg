CONSTANTS
  UpdateKinds = {"cluster"}
  MaxUpdates = 2
  MaxSteps = 8
  Defects = {"ClearAfterWrite"}
SPECIFICATION Spec
INVARIANTS FileUpToDate
CHECK_DEADLOCK FALSE
