CONSTANTS
  Routers = {"r1"}
  Clusters = {}
  Hosts = {"h1", "h2", "h3"}
  Listeners = {}
  MaxOps = 4
  Ops = {"routers", "nilrouters", "addroute", "rmroutes"}
  RCfgs = {"A", "B", "C", "E", "D"}
  Doms = {"a.com", "zz.com"}
  Rts = {"x1"}
  Lbs = {}
  HostSets = {}
  Attrs = {"a1"}
  LocLists = {}
  CModes = {"inline"}
  RModes = {"dir"}
  Defects = {}
SPECIFICATION Spec
INVARIANTS Coherent LastUpdateWins RemovedGone EndpointsUnion ErrorsChangeNothing FrameCondition EmitCase
CHECK_DEADLOCK FALSE
