CONSTANTS
  Positions = {"lis_ctx", "lis_set", "clu", "cm", "ext", "sf", "sfa", "exta"}
  Endpoints = {"full", "mosnconfig", "allrouters", "allclusters", "alllisteners", "router", "cluster", "listener"}
  MaxOps = 1
  KeyForms = {"pem", "lead_ws", "preamble", "trailing", "crlf", "two_blocks", "path"}
  KeySpells = {"exact", "title", "upper", "escaped", "camel"}
  ArrayLen = 3
  Defects = {"ExactKeyNameOnly"}
SPECIFICATION Spec
INVARIANTS NoLeak
CHECK_DEADLOCK FALSE
