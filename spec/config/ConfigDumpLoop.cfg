CONSTANTS
  UpdateKinds = {"cluster", "hosts", "listener", "router", "extend"}
  MaxUpdates = 2
  MaxSteps = 8
  Defects = {}
SPECIFICATION Spec
INVARIANTS FileUpToDate EmitCase
CHECK_DEADLOCK FALSE
