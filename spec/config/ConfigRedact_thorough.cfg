CONSTANTS
  Positions = {"lis_ctx", "lis_set", "clu", "cm", "ext", "sf"}
  Endpoints = {"full", "mosnconfig", "allrouters", "allclusters", "alllisteners", "router", "cluster", "listener"}
  MaxOps = 4
  Defects = {}
SPECIFICATION Spec
INVARIANTS NoLeak DumpIsPure EmitCase
CHECK_DEADLOCK FALSE
