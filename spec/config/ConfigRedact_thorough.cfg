CONSTANTS
  Positions = {"lis_ctx", "lis_set", "clu", "cm", "ext", "sf", "sfa", "exta"}
  Endpoints = {"full", "mosnconfig", "allrouters", "allclusters", "alllisteners", "router", "cluster", "listener"}
  MaxOps = 4
  KeyForms = {"pem"}
  KeySpells = {"exact"}
  ArrayLen = 2
  Defects = {}
SPECIFICATION Spec
INVARIANTS NoLeak DumpIsPure
CHECK_DEADLOCK FALSE
