---- MODULE ConfigDump ----
(* Load -> register -> dump -> reload -> dump of a MOSN configuration, property C19.
   Anchors: pkg/config/v2/*.go (the paired custom MarshalJSON/UnmarshalJSON), pkg/configmanager/
   load_config.go, parser.go (defaults applied while the configuration is registered),
   effectiveconfig.go (the in-memory model), dump_action.go (transferConfig / DumpConfig).

   The configuration is abstracted per struct type of the *generated* type graph (a reflection walk
   over v2.MOSNConfig in the tree under verification): a struct value is a function from its
   json-visible fields to value classes.  What happens to a field on the way round depends only on
   its *kind*, which the generator derives from the Go type and the json tag:

     omit     `omitempty` on a scalar, slice, map, interface, raw message: the zero value is not written
     keep     no `omitempty` (or a DurationConfig, a struct for encoding/json): always written
     ptr      pointer with `omitempty`: nil is not written, a pointer to a zero value is written
     ptrnull  pointer without `omitempty`: nil is written as null
     pair     pointer to a value with its own MarshalJSON/UnmarshalJSON pair that keeps a private copy of the
              serialised form (TLS sds_source: SecretConfigWrapper); the pair must be inverse
     struct   nested struct: always written
     default  a zero value is replaced by a default while the configuration is registered
     clamp    the value is forced into a range while the configuration is registered
     reshape  filter-chain tls_context / tls_context_set: always dumped as tls_context_set

   Between start-up and the persisted dump an operator may query the admin API (GET /api/v1/config_dump, any
   endpoint): a READ-ONLY step - it shows placeholders instead of keys, and must not change the effective
   configuration nor, therefore, any later persisted dump (AdminDump; enumerated for the types that can hold a key).

   One action per step of the cycle the running proxy performs; `Defects` names ways for a
   marshaler pair to go wrong (checked to be *rejected*: the invariants are not vacuous). *)
EXTENDS Integers, Sequences, FiniteSets, TLC, Json

CONSTANTS Types,      \* struct types of the type graph
          FieldsOf,   \* [Types -> set of json field names]
          KindOf,     \* [Types -> [field -> kind]]
          ClassesOf,  \* [Types -> [field -> set of value classes the generator can materialise]]
          ConflictsOf,\* [Types -> set of two-element sets of fields MOSN refuses to load together]
          SecretOf,   \* [Types -> fields that can hold a TLS private key: private_key itself, untyped containers (filter
                      \*  configs, extends, per-filter maps) whose typical value embeds a tls_context]
          Width,      \* how many fields deviate from the base assignment (1 or 2)
          Defects

Kinds   == {"omit", "keep", "ptr", "ptrnull", "pair", "struct", "default", "clamp", "reshape"}
Classes == {"unset", "zero", "typ", "bound"}       \* what a configuration file can say about a field

(* ---------- the cycle, field by field ---------- *)

\* in-memory value after json.Unmarshal: Go has no "unset" except for pointers
LoadV(k, c) == IF c \in {"unset", "null"} THEN (IF k \in {"ptr", "ptrnull", "pair"} THEN "nil" ELSE "zero") ELSE c

\* registration into the effective configuration (ParseClusterConfig, ParseListenerConfig, handler defaults)
RegV(k, m) == CASE k = "default" /\ m = "zero"            -> "dflt"
                [] k = "clamp" /\ m \in {"zero", "bound"} -> "clamped"
                [] OTHER                                  -> m

\* what transferConfig + json.Marshal write for the field ("unset" = key not written)
DumpV(k, m) == CASE "MarshalDrops" \in Defects /\ k = "omit"             -> "unset"   \* json:"-" on the marshal side only
                 [] "PairNotInverse" \in Defects /\ k = "pair" /\ m \in {"typ", "bound"} -> "zero" \* the wrapper keeps its name, loses its payload
                 [] "PtrZeroOmitted" \in Defects /\ k = "ptr" /\ m = "zero" -> "unset" \* omitempty applied to the pointee
                 [] m = "nil"                                             -> IF k = "ptrnull" THEN "null" ELSE "unset"
                 [] k = "omit" /\ m = "zero"                              -> "unset"
                 [] OTHER                                                 -> m

Eff(t, file)  == [f \in FieldsOf[t] |-> RegV(KindOf[t][f], LoadV(KindOf[t][f], file[f]))]
Dump(t, eff)  == [f \in FieldsOf[t] |-> DumpV(KindOf[t][f], eff[f])]

Valid(t, file) == \A p \in ConflictsOf[t] : \E f \in p : file[f] = "unset"

(* ---------- state machine ---------- *)

VARIABLES ty, file, pc, eff1, dump1, eff2, dump2,
          admin      \* whether admin config dumps are requested while the first life is running
vars == <<ty, file, pc, eff1, dump1, eff2, dump2, admin>>

Base(t, b, f) == IF b = "typ" /\ "typ" \in ClassesOf[t][f] THEN "typ" ELSE "unset"

(* base assignment (everything unset / everything typical) with up to Width fields deviating *)
Assignments(t) ==
  LET F == FieldsOf[t] IN
  IF F = {} THEN {[f \in F |-> "unset"]}
  ELSE IF Width = 1
  THEN { [f \in F |-> IF f = f1 THEN c1 ELSE Base(t, b, f)] :
           <<b, f1, c1>> \in { x \in {"unset", "typ"} \X F \X Classes : x[3] \in ClassesOf[t][x[2]] } }
  ELSE { [f \in F |-> IF f = f1 THEN c1 ELSE IF f = f2 THEN c2 ELSE Base(t, b, f)] :
           <<b, f1, c1, f2, c2>> \in { x \in {"unset", "typ"} \X F \X Classes \X F \X Classes :
                                         x[3] \in ClassesOf[t][x[2]] /\ x[5] \in ClassesOf[t][x[4]] } }

None == [x \in {} |-> "unset"]

Init == /\ ty \in Types
        /\ file \in Assignments(ty)
        /\ pc = "file"
        /\ admin \in (IF SecretOf[ty] # {} THEN BOOLEAN ELSE {FALSE})
        /\ eff1 = None /\ dump1 = None /\ eff2 = None /\ dump2 = None

Load1   == /\ pc = "file" /\ Valid(ty, file)
           /\ eff1' = Eff(ty, file) /\ pc' = IF admin THEN "queried-next" ELSE "running"
           /\ UNCHANGED <<ty, file, dump1, eff2, dump2, admin>>
Reject  == /\ pc = "file" /\ ~Valid(ty, file)
           /\ pc' = "rejected" /\ UNCHANGED <<ty, file, eff1, dump1, eff2, dump2, admin>>
(* the admin dump builds a redacted COPY; writing the placeholder through shared storage is the named defect *)
AdminDump == /\ pc = "queried-next"
             /\ eff1' = IF "AdminDumpWritesThrough" \in Defects
                         THEN [f \in DOMAIN eff1 |-> IF f \in SecretOf[ty] /\ eff1[f] \in {"typ", "bound"} THEN "redacted" ELSE eff1[f]]
                         ELSE eff1
             /\ pc' = "running"
             /\ UNCHANGED <<ty, file, dump1, eff2, dump2, admin>>
Dump1   == /\ pc = "running"
           /\ dump1' = Dump(ty, eff1) /\ pc' = "persisted"
           /\ UNCHANGED <<ty, file, eff1, eff2, dump2, admin>>
Reload  == /\ pc = "persisted"
           /\ eff2' = Eff(ty, dump1) /\ pc' = "restarted"
           /\ UNCHANGED <<ty, file, eff1, dump1, dump2, admin>>
Dump2   == /\ pc = "restarted"
           /\ dump2' = Dump(ty, eff2) /\ pc' = "done"
           /\ UNCHANGED <<ty, file, eff1, dump1, eff2, admin>>

Next == Load1 \/ Reject \/ AdminDump \/ Dump1 \/ Reload \/ Dump2
Spec == Init /\ [][Next]_vars

(* ---------- C19 ---------- *)

\* a restart from the persisted file reproduces the running proxy
FactsPreserved == pc \in {"restarted", "done"} => eff2 = eff1
\* a second dump equals the first
DumpStable     == pc = "done" => dump2 = dump1
\* no field MOSN understands is dropped or re-typed: what the file set survives in the dump
SetSurvives    == pc \in {"persisted", "restarted", "done"} =>
                    \A f \in FieldsOf[ty] :
                      LET k == KindOf[ty][f] IN
                        /\ (file[f] = "typ" => dump1[f] = "typ")
                        /\ (file[f] = "bound" /\ k # "clamp" => dump1[f] = "bound")
                        /\ (file[f] = "zero" /\ k \in {"ptr", "ptrnull", "pair", "keep", "struct", "reshape"} => dump1[f] = "zero")

\* an admin dump is read-only: the running configuration is what was loaded
AdminReadOnly  == pc = "running" => eff1 = Eff(ty, file)

(* ---------- what the harness must observe on the real code (used by ConfigDumpTrace) ---------- *)

\* observation of a field in a persisted document, relative to the value the input file gave it:
\*   absent | same (present, equal to the input value) | zero (present, a zero value) | other
ObsOf(k, c, d) == CASE d = "unset"                  -> "absent"
                    [] d \in {"dflt", "clamped"}    -> "other"
                    [] d = "null"                   -> "zero"
                    [] d = c                        -> "same"      \* c # "unset" here
                    [] d = "zero"                   -> "zero"
                    [] OTHER                        -> "other"
ExpectedObs(t, a) == LET d == Dump(t, Eff(t, a)) IN [f \in FieldsOf[t] |-> ObsOf(KindOf[t][f], a[f], d[f])]

(* one CASE line per abstract configuration, consumed by the Go driver *)
EmitCase == pc = "file" => PrintT(<<"CASE", ToJson([t |-> ty, a |-> file, admin |-> admin])>>)
====
