CONSTANTS
  Endpoints = {"full", "mosnconfig"}
  Defects = {"ResponseInPooledBuffer"}
SPECIFICATION Spec
INVARIANTS NoLeak
CHECK_DEADLOCK FALSE
