CONSTANTS
  Positions = {"lis_ctx", "lis_set", "clu", "cm", "ext", "sf", "sfa", "exta"}
  Endpoints = {"full", "mosnconfig", "allrouters", "allclusters", "alllisteners", "router", "cluster", "listener"}
  MaxOps = 2
  KeyForms = {"pem"}
  KeySpells = {"exact"}
  ArrayLen = 3
  Defects = {"ArrayLastOnly"}
SPECIFICATION Spec
INVARIANTS NoLeak
CHECK_DEADLOCK FALSE
