CONSTANTS
  Endpoints = {"full", "mosnconfig"}
  Defects = {}
SPECIFICATION Spec
INVARIANTS NoLeak PersistIntact EmitCase
CHECK_DEADLOCK FALSE
