CONSTANTS
  Positions = {"lis_ctx", "lis_set", "clu", "cm", "ext", "sf"}
  Endpoints = {"full", "mosnconfig", "allrouters", "allclusters", "alllisteners", "router", "cluster", "listener"}
  MaxOps = 2
  Defects = {"UnwalkedExtends"}
SPECIFICATION Spec
INVARIANTS NoLeak
CHECK_DEADLOCK FALSE
