CONSTANTS
  UpdateKinds = {"cluster", "hosts", "listener", "router", "extend"}
  MaxUpdates = 3
  MaxSteps = 11
  Defects = {}
SPECIFICATION Spec
INVARIANTS FileUpToDate EmitCase
CHECK_DEADLOCK FALSE
