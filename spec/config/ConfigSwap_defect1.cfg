CONSTANTS
  NVersions = 3
  Lookups = {l1, l2}
  Defects = {"HalfwayVisible"}
SPECIFICATION Spec
INVARIANT OneVersion
CHECK_DEADLOCK FALSE
