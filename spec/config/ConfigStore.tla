---- MODULE ConfigStore ----
(* Runtime configuration updates of MOSN and the configuration it dumps (property C12).
   Code: pkg/router/routers_manager.go (AddOrUpdateRouters / AddRoute / RemoveAllRoutes),
         pkg/upstream/cluster/cluster_manager.go (UpdateCluster, UpdateHosts, RemovePrimaryCluster,
         refreshHostsConfig), istio/istio1106/xds/conv/update.go (ConvertUpdateEndpoints),
         pkg/server/handler.go + adapter.go (AddOrUpdateListener / DeleteListener),
         pkg/configmanager/effectiveconfig.go (SetRouter, SetClusterConfig, SetHosts, ...).
   Every mutator changes the LIVE object (route table, cluster + host set, listener) and then
   records the new configuration in the STORED (effective) configuration, which is what
   transferConfig() dumps and what a restarted MOSN is built from.
   One action per operation (each is one critical section of its manager); the variables are
      lR, lC, lL   live routers / clusters / listeners
      sR, sC, sL   stored configuration
   The property: what the live objects answer == what objects freshly built from the stored
   configuration answer (Coherent, i.e. Rebuild(Dump(live)) = live after EVERY operation), the last update wins (also for the attributes of a host address named again), removed objects are gone, an endpoint
   assignment is the union of its localities, failed operations change nothing.
   The storage mode of the dump is part of the configuration space: clusters are written inline or as one file
   per cluster into the `clusters_configs` directory, the virtual hosts of a router inline or as one file per
   virtual host into its `router_configs` directory (config/v2 ClusterManagerConfig / RouterConfiguration
   MarshalJSON: read the directory, write one file per entry under a sanitised name, delete the files no entry
   owns; UnmarshalJSON reads the directory back).  cDir / rDir model the directories, a dump follows every operation.
   `Defects` switches on the named ways this design can go wrong (the *_defect cfgs must be rejected). *)
EXTENDS Integers, Sequences, FiniteSets, TLC, Json

CONSTANTS Routers,    \* router configuration names
          Clusters,   \* cluster names
          Hosts,      \* host ids
          Listeners,  \* listener names
          MaxOps,     \* length of the enumerated operation histories
          Ops,        \* enabled operation kinds (subset of AllOps)
          RCfgs,      \* names of router configurations used as arguments (see RouterCfg)
          Doms,       \* domains used by AddRoute / RemoveAllRoutes
          Rts,        \* names of single routes used by AddRoute (see RtDef)
          Lbs,        \* load balancer types used as cluster configuration variants
          HostSets,   \* sets of host addresses used as arguments
          Attrs,      \* attribute classes of a host (a1 = weight 1 / version v1, a2 = weight 2 / version v2)
          LocLists,   \* names of locality lists used by UpdateEndpoints (see LocDef)
          CModes,     \* storage modes of the dumped clusters to enumerate: subset of {"inline", "dir"}
          RModes,     \* storage modes of the dumped routers to enumerate
          Defects

AllOps == {"routers", "nilrouters", "addroute", "rmroutes",
           "primary", "clusterhosts", "updhosts", "append", "rmhosts", "rmcluster", "endpoints",
           "listener", "rmlistener"}

None == "none"

(* ---------------- argument universe (cfg files cannot write tuples / records) ---------------- *)
Rt(p, c) == [pre |-> p, cl |-> c]
VH(n, d, rs) == [name |-> n, dom |-> d, routes |-> rs]
(* virtual host names (the file names in directory mode): one with a path separator, one a prefix of another *)
RouterCfg(k) ==
  CASE k = "A" -> << VH("web", "*", << Rt("/", "c1") >>) >>
    [] k = "B" -> << VH("web/a", "a.com", << Rt("/x", "c2"), Rt("/", "c1") >>), VH("web", "*", << Rt("/", "c2") >>) >>
    [] k = "C" -> << VH("web/a", "a.com", << >>) >>                          \* no default virtual host
    [] k = "E" -> << >>                                                      \* no virtual host: table cannot be built
    [] k = "D" -> << VH("web", "*", << Rt("/", "c1") >>), VH("web2", "*", << Rt("/", "c2") >>) >>   \* duplicate default: invalid
(* the file name an entry is written under: path separators are replaced (strings.ReplaceAll(name, sep, "_")) *)
KeyOf(n) == CASE n = "g/c1" -> "g_c1" [] n = "web/a" -> "web_a" [] OTHER -> n
KeyOrder == << "c1", "c12", "c2", "g_c1", "web", "web2", "web_a" >>     \* directory listing order (ioutil.ReadDir sorts)
RtDef(n) == CASE n = "x1" -> Rt("/x", "c1") [] n = "s2" -> Rt("/", "c2") [] n = "x2" -> Rt("/x", "c2") [] n = "s1" -> Rt("/", "c1")
Uni(S, a) == [h \in S |-> a]          \* the host map giving every address of S the attribute class a
LocDef(n, a) ==
  CASE n = "L0" -> << >>
    [] n = "L1" -> << Uni({"h1"}, a) >>
    [] n = "L2" -> << Uni({"h1"}, a), Uni({"h2"}, a) >>
    [] n = "L3" -> << Uni({"h1", "h2"}, a), Uni({"h3"}, a) >>
    [] n = "L2e" -> << Uni({"h2"}, a), Uni({}, a) >>      \* a locality without endpoints after one with endpoints

(* probe requests: <<Host header, path>> *)
Probes == << <<"a.com", "/x">>, <<"a.com", "/y">>, <<"zz.com", "/x">>, <<"zz.com", "/y">> >>

VARIABLES lR, sR, lC, sC, lL, sL,
          cMode, rMode,   \* storage mode of the dumped clusters / routers: "inline" | "dir" (fixed during a history)
          cDir,           \* clusters_configs directory: file name -> [n |-> cluster name, v |-> cluster]
          rDir,           \* per router its router_configs directory: file name -> virtual host
          rInl,           \* routers (storage mode "dir") whose latest configuration arrived WITHOUT a router_configs path
                          \* (admin API, xDS): from then on the router is stored inline, its directory is no longer written
          err,     \* did the last operation report an error
          pre,     \* <<lR, sR, lC, sC, lL, sL>> before the last operation
          hist
vars == <<lR, sR, lC, sC, lL, sL, cMode, rMode, cDir, rDir, rInl, err, pre, hist>>
state == <<lR, sR, lC, sC, lL, sL>>

(* ---------------- routers ---------------- *)
AbsentR == [st |-> "absent", vhs |-> << >>]
Valid(vhs) == Len(vhs) > 0 /\ \A i, j \in DOMAIN vhs : i # j => vhs[i].dom # vhs[j].dom
(* NewRouters(cfg): the table, or nil when it cannot be built *)
BuildR(s) == IF s.st = "absent" THEN AbsentR
             ELSE IF Valid(s.vhs) THEN [st |-> "ok", vhs |-> s.vhs] ELSE [st |-> "nil", vhs |-> << >>]

MinOf(S) == CHOOSE x \in S : \A y \in S : x <= y
(* findVirtualHostIndex: exact domain, else the default virtual host, else 0 *)
FindVH(vhs, host) ==
  LET ex == { i \in DOMAIN vhs : vhs[i].dom = host }
      df == { i \in DOMAIN vhs : vhs[i].dom = "*" }
  IN IF ex # {} THEN MinOf(ex) ELSE IF df # {} THEN MinOf(df) ELSE 0
MatchIn(routes, path) ==
  LET hits == { i \in DOMAIN routes : routes[i].pre = "/" \/ routes[i].pre = path }
  IN IF hits = {} THEN None ELSE routes[MinOf(hits)].cl
(* what a router answers on the probe requests *)
ViewR(l) == IF l.st # "ok" THEN << l.st >>
            ELSE [ i \in 1..Len(Probes) |->
                   LET v == FindVH(l.vhs, Probes[i][1])
                   IN IF v = 0 THEN None ELSE MatchIn(l.vhs[v].routes, Probes[i][2]) ]

Same(vs) == UNCHANGED vs

DoRouters(r, vhs) ==
  /\ IF lR[r].st = "absent"
     THEN  \* a new name is always stored, even when no table can be built (RDS placeholder)
          /\ lR' = [lR EXCEPT ![r] = BuildR([st |-> "set", vhs |-> vhs])]
          /\ sR' = [sR EXCEPT ![r] = [st |-> "set", vhs |-> vhs]]
          /\ err' = FALSE
     ELSE IF Valid(vhs)
          THEN /\ lR' = [lR EXCEPT ![r] = [st |-> "ok", vhs |-> vhs]]
               /\ sR' = IF "RouterUpdateNotRecorded" \in Defects THEN sR
                        ELSE [sR EXCEPT ![r] = [st |-> "set", vhs |-> vhs]]
               /\ err' = FALSE
          ELSE Same(<<lR, sR>>) /\ err' = TRUE
  /\ Same(<<lC, sC, lL, sL>>)

DoNilRouters == Same(state) /\ err' = TRUE

DoAddRoute(r, dom, rt) ==
  /\ CASE lR[r].st = "absent" -> Same(<<lR, sR>>) /\ err' = FALSE     \* unknown name: silently ignored
       [] lR[r].st = "nil"    -> Same(<<lR, sR>>) /\ err' = TRUE
       [] lR[r].st = "ok"     ->
            LET i == FindVH(lR[r].vhs, dom) IN
            IF i = 0 THEN Same(<<lR, sR>>) /\ err' = TRUE
            ELSE /\ lR' = [lR EXCEPT ![r].vhs[i].routes = Append(@, rt)]
                 /\ sR' = IF "AddRouteLiveOnly" \in Defects THEN sR
                          ELSE [sR EXCEPT ![r].vhs[i].routes = Append(@, rt)]
                 /\ err' = FALSE
  /\ Same(<<lC, sC, lL, sL>>)

DoRmRoutes(r, dom) ==
  /\ CASE lR[r].st = "absent" -> Same(<<lR, sR>>) /\ err' = FALSE
       [] lR[r].st = "nil"    -> Same(<<lR, sR>>) /\ err' = TRUE
       [] lR[r].st = "ok"     ->
            LET i == FindVH(lR[r].vhs, dom) IN
            IF i = 0 THEN Same(<<lR, sR>>) /\ err' = TRUE
            ELSE /\ lR' = [lR EXCEPT ![r].vhs[i].routes = << >>]
                 /\ sR' = [sR EXCEPT ![r].vhs[i].routes = << >>]
                 /\ err' = FALSE
  /\ Same(<<lC, sC, lL, sL>>)

(* ---------------- clusters ---------------- *)
(* a host set maps each member address to its attributes (weight, metadata ...): NewHostSet keeps one host
   per address, and for an address named again by a later update the LAST update wins *)
NoHosts == [h \in {} |-> "a1"]
Merge(old, new) == [h \in DOMAIN old \cup DOMAIN new |-> IF h \in DOMAIN new THEN new[h] ELSE old[h]]
Without(f, S) == [h \in DOMAIN f \ S |-> f[h]]
RECURSIVE UnionLocs(_)
UnionLocs(locs) == IF Len(locs) = 0 THEN NoHosts ELSE Merge(UnionLocs(Tail(locs)), Head(locs))
AbsentC == [st |-> "absent", lb |-> "", hosts |-> NoHosts]
OkC(lb, hs) == [st |-> "ok", lb |-> lb, hosts |-> hs]
BuildC(s) == s     \* NewCluster(cfg) + UpdateClusterHosts(cfg.hosts)
ViewC(c) == c

(* refreshHostsConfig: the stored host list is re-read from the live snapshot *)
Refresh(c, newLive) == IF "HostsNotRecorded" \in Defects /\ sC[c].st = "ok"
                       THEN sC
                       ELSE [sC EXCEPT ![c].hosts = newLive.hosts]

(* AddOrUpdatePrimaryCluster: new cluster object, hosts inherited from the old one *)
DoPrimary(c, lb) ==
  LET nl == OkC(lb, IF lC[c].st = "ok" THEN lC[c].hosts ELSE NoHosts) IN
  /\ lC' = [lC EXCEPT ![c] = nl]
  /\ sC' = [sC EXCEPT ![c] = IF "PrimaryForgetsHosts" \in Defects THEN OkC(lb, NoHosts) ELSE nl]
  /\ err' = FALSE /\ Same(<<lR, sR, lL, sL>>)

(* AddOrUpdateClusterAndHost: new cluster object with exactly these hosts *)
DoClusterHosts(c, lb, S) ==
  /\ lC' = [lC EXCEPT ![c] = OkC(lb, S)]
  /\ sC' = [sC EXCEPT ![c] = OkC(lb, S)]
  /\ err' = FALSE /\ Same(<<lR, sR, lL, sL>>)

HostOp(c, newHosts) ==
  /\ IF lC[c].st = "absent" THEN Same(<<lC, sC>>) /\ err' = TRUE
     ELSE LET nl == [lC[c] EXCEPT !.hosts = newHosts] IN
          /\ lC' = [lC EXCEPT ![c] = nl]
          /\ sC' = Refresh(c, nl)
          /\ err' = FALSE
  /\ Same(<<lR, sR, lL, sL>>)

DoUpdHosts(c, H) == HostOp(c, H)
(* AppendClusterHosts: an appended host replaces a present host with the same address *)
DoAppend(c, H)   == HostOp(c, IF "AppendKeepsOld" \in Defects THEN Merge(H, lC[c].hosts) ELSE Merge(lC[c].hosts, H))
DoRmHosts(c, S)  == HostOp(c, Without(lC[c].hosts, S))

(* RemovePrimaryCluster(names...): all or nothing *)
DoRmCluster(CS) ==
  /\ IF \A c \in CS : lC[c].st = "ok"
     THEN /\ lC' = [c \in Clusters |-> IF c \in CS THEN AbsentC ELSE lC[c]]
          /\ sC' = IF "RemoveKeepsStored" \in Defects THEN sC
                   ELSE [c \in Clusters |-> IF c \in CS THEN AbsentC ELSE sC[c]]
          /\ err' = FALSE
     ELSE Same(<<lC, sC>>) /\ err' = TRUE
  /\ Same(<<lR, sR, lL, sL>>)

(* xDS ClusterLoadAssignment: the endpoints of ALL localities *)
DoEndpoints(c, locs) ==
  HostOp(c, IF "EndpointsLastLocalityWins" \in Defects /\ Len(locs) > 0
            THEN locs[Len(locs)] ELSE UnionLocs(locs))

(* ---------------- listeners (abstract value: the configured variant) ---------------- *)
AbsentL == "absent"
DoListener(n, v) ==      \* AddOrUpdateListener with the same address: add, or update in place
  /\ lL' = [lL EXCEPT ![n] = v] /\ sL' = [sL EXCEPT ![n] = v]
  /\ err' = FALSE /\ Same(<<lR, sR, lC, sC>>)
DoRmListener(n) ==       \* DeleteListener: unknown names are accepted silently
  /\ lL' = [lL EXCEPT ![n] = AbsentL]
  /\ sL' = IF "ListenerDeleteNotRecorded" \in Defects THEN sL ELSE [sL EXCEPT ![n] = AbsentL]
  /\ err' = FALSE /\ Same(<<lR, sR, lC, sC>>)

(* ---------------- the dump and what a restarted MOSN reads back ---------------- *)
NoFiles == [k \in {} |-> 0]
(* one directory-mode dump: list the directory, write one file per entry, delete the listed files no entry owns *)
Owned(names) == IF "SweepUsesRawName" \in Defects THEN names ELSE { KeyOf(n) : n \in names }
DumpDir(old, names, Content(_)) ==
  LET written == [k \in { KeyOf(n) : n \in names } |-> Content(CHOOSE n \in names : KeyOf(n) = k)]
      swept == DOMAIN old \ Owned(names)
  IN [k \in DOMAIN written \ swept |-> written[k]]
Dump ==
  /\ cDir' = IF cMode = "dir"
             THEN LET CC(c) == [n |-> c, v |-> sC'[c]]
                  IN DumpDir(cDir, { c \in Clusters : sC'[c].st = "ok" }, CC)
             ELSE cDir
  /\ rDir' = [r \in Routers |->
               IF rMode = "dir" /\ r \notin rInl' /\ sR'[r].st = "set"
               THEN LET vhs == sR'[r].vhs
                        VC(n) == vhs[CHOOSE i \in DOMAIN vhs : vhs[i].name = n]
                    IN DumpDir(rDir[r], { vhs[i].name : i \in DOMAIN vhs }, VC)
               ELSE rDir[r]]
  /\ UNCHANGED <<cMode, rMode>>
(* the stored configuration as a restarted MOSN loads it *)
RebuildC(c) == IF cMode = "inline" THEN sC[c]
               ELSE LET ks == { k \in DOMAIN cDir : cDir[k].n = c }
                    IN IF ks = {} THEN AbsentC ELSE cDir[CHOOSE k \in ks : TRUE].v
(* "PathlessUpdateKeepsDirectory": the path of the directory a router was loaded from survives a path-less update, so
   the stored router names the directory AND carries inline virtual hosts - a configuration the loader refuses *)
RebuildR(r) == IF rMode = "inline" \/ sR[r].st = "absent" THEN sR[r]
               ELSE IF r \in rInl THEN (IF "PathlessUpdateKeepsDirectory" \in Defects THEN AbsentR ELSE sR[r])
               ELSE LET Present(k) == k \in DOMAIN rDir[r]
                        ks == SelectSeq(KeyOrder, Present)
                    IN [st |-> "set", vhs |-> [i \in 1..Len(ks) |-> rDir[r][ks[i]]]]

(* ---------------- behaviours ---------------- *)
(* arguments: every address set with one attribute class for all its members *)
HostMaps == { Uni(S, a) : S \in HostSets, a \in Attrs }
LocArgs == { LocDef(n, a) : n \in LocLists, a \in Attrs }
InitWith(cm, rm) ==
        /\ lR = [r \in Routers |-> AbsentR] /\ sR = [r \in Routers |-> AbsentR]
        /\ lC = [c \in Clusters |-> AbsentC] /\ sC = [c \in Clusters |-> AbsentC]
        /\ lL = [n \in Listeners |-> AbsentL] /\ sL = [n \in Listeners |-> AbsentL]
        /\ cMode = cm /\ rMode = rm /\ cDir = NoFiles /\ rDir = [r \in Routers |-> NoFiles] /\ rInl = {}
        /\ err = FALSE /\ pre = <<lR, sR, lC, sC, lL, sL>> /\ hist = << >>
Init == \E cm \in CModes, rm \in RModes : InitWith(cm, rm)

(* a successful routers update says where the router is stored from now on: with the path of its directory, or inline *)
InlStep(kind, r, path) ==
  rInl' = IF kind = "routers" /\ ~err' /\ rMode = "dir" THEN (IF path THEN rInl \ {r} ELSE rInl \cup {r}) ELSE rInl
PathChoices == IF rMode = "dir" THEN BOOLEAN ELSE {TRUE}
(* the effective configuration is dumped after every operation *)
Log(rec) == /\ hist' = Append(hist, rec) /\ pre' = state
            /\ InlStep(rec.op, IF rec.op = "routers" THEN rec.r ELSE "-", IF rec.op = "routers" THEN rec.path ELSE TRUE)
            /\ Dump

Next ==
  /\ Len(hist) < MaxOps
  /\ \/ "routers" \in Ops /\ \E r \in Routers, k \in RCfgs, pth \in PathChoices :
          DoRouters(r, RouterCfg(k)) /\ Log([op |-> "routers", r |-> r, k |-> k, vhs |-> RouterCfg(k), path |-> pth])
     \/ "nilrouters" \in Ops /\ DoNilRouters /\ Log([op |-> "nilrouters"])
     \/ "addroute" \in Ops /\ \E r \in Routers, d \in Doms, n \in Rts :
          DoAddRoute(r, d, RtDef(n)) /\ Log([op |-> "addroute", r |-> r, dom |-> d, rt |-> RtDef(n)])
     \/ "rmroutes" \in Ops /\ \E r \in Routers, d \in Doms :
          DoRmRoutes(r, d) /\ Log([op |-> "rmroutes", r |-> r, dom |-> d])
     \/ "primary" \in Ops /\ \E c \in Clusters, lb \in Lbs :
          DoPrimary(c, lb) /\ Log([op |-> "primary", c |-> c, lb |-> lb])
     \/ "clusterhosts" \in Ops /\ \E c \in Clusters, lb \in Lbs, H \in HostMaps :
          DoClusterHosts(c, lb, H) /\ Log([op |-> "clusterhosts", c |-> c, lb |-> lb, hs |-> H])
     \/ "updhosts" \in Ops /\ \E c \in Clusters, H \in HostMaps :
          DoUpdHosts(c, H) /\ Log([op |-> "updhosts", c |-> c, hs |-> H])
     \/ "append" \in Ops /\ \E c \in Clusters, H \in HostMaps \ {NoHosts} :
          DoAppend(c, H) /\ Log([op |-> "append", c |-> c, hs |-> H])
     \/ "rmhosts" \in Ops /\ \E c \in Clusters, S \in HostSets \ {{}} :
          DoRmHosts(c, S) /\ Log([op |-> "rmhosts", c |-> c, hs |-> S])
     \/ "rmcluster" \in Ops /\ \E CS \in (SUBSET Clusters) \ {{}} :
          DoRmCluster(CS) /\ Log([op |-> "rmcluster", cs |-> CS])
     \/ "endpoints" \in Ops /\ \E c \in Clusters, L \in LocArgs :
          DoEndpoints(c, L) /\ Log([op |-> "endpoints", c |-> c, locs |-> L])
     \/ "listener" \in Ops /\ \E n \in Listeners, v \in {"v1", "v2"} :
          DoListener(n, v) /\ Log([op |-> "listener", n |-> n, v |-> v])
     \/ "rmlistener" \in Ops /\ \E n \in Listeners :
          DoRmListener(n) /\ Log([op |-> "rmlistener", n |-> n])
Spec == Init /\ [][Next]_vars

(* ---------------- C12 ---------------- *)
(* live objects answer exactly what objects rebuilt from the stored configuration answer *)
Coherent == /\ \A r \in Routers : ViewR(lR[r]) = ViewR(BuildR(RebuildR(r)))
            /\ \A c \in Clusters : ViewC(lC[c]) = ViewC(BuildC(RebuildC(c)))
            /\ \A n \in Listeners : lL[n] = sL[n]

Last == hist[Len(hist)]
Done(k) == hist # << >> /\ Last.op = k /\ ~err

LastUpdateWins ==
  /\ Done("routers") => /\ ViewR(lR[Last.r]) = ViewR(BuildR([st |-> "set", vhs |-> Last.vhs]))
                        /\ sR[Last.r] = [st |-> "set", vhs |-> Last.vhs]
  /\ Done("primary") => lC[Last.c].st = "ok" /\ lC[Last.c].lb = Last.lb /\ lC[Last.c].hosts = pre[3][Last.c].hosts
  /\ Done("clusterhosts") => lC[Last.c] = OkC(Last.lb, Last.hs) /\ sC[Last.c] = OkC(Last.lb, Last.hs)
  /\ Done("updhosts") => lC[Last.c].hosts = Last.hs /\ sC[Last.c].hosts = Last.hs
  /\ Done("append") => \A h \in DOMAIN Last.hs : lC[Last.c].hosts[h] = Last.hs[h] /\ sC[Last.c].hosts[h] = Last.hs[h]
  /\ Done("listener") => lL[Last.n] = Last.v /\ sL[Last.n] = Last.v

RemovedGone ==
  /\ Done("rmcluster") => \A c \in Last.cs : lC[c].st = "absent" /\ sC[c].st = "absent"
  /\ Done("rmlistener") => lL[Last.n] = AbsentL /\ sL[Last.n] = AbsentL
  /\ Done("rmhosts") => DOMAIN lC[Last.c].hosts \cap Last.hs = {} /\ DOMAIN sC[Last.c].hosts \cap Last.hs = {}
  /\ Done("append") => DOMAIN lC[Last.c].hosts = DOMAIN pre[3][Last.c].hosts \cup DOMAIN Last.hs
  /\ (Done("rmroutes") /\ lR[Last.r].st = "ok") =>
        LET i == FindVH(lR[Last.r].vhs, Last.dom) IN
          /\ lR[Last.r].vhs[i].routes = << >>
          /\ BuildR(sR[Last.r]).vhs[i].routes = << >>

EndpointsUnion ==
  Done("endpoints") => /\ DOMAIN lC[Last.c].hosts = UNION { DOMAIN Last.locs[i] : i \in DOMAIN Last.locs }
                       /\ \A i \in DOMAIN Last.locs : \A h \in DOMAIN Last.locs[i] : lC[Last.c].hosts[h] = Last.locs[i][h]
                       /\ sC[Last.c].hosts = lC[Last.c].hosts

(* an operation that reports an error changes nothing; an operation changes only the family it names *)
ErrorsChangeNothing == err => state = pre
FrameCondition ==
  hist # << >> =>
    /\ Last.op \in {"routers", "nilrouters", "addroute", "rmroutes"} => <<lC, sC, lL, sL>> = <<pre[3], pre[4], pre[5], pre[6]>>
    /\ Last.op \in {"primary", "clusterhosts", "updhosts", "append", "rmhosts", "rmcluster", "endpoints"} =>
          <<lR, sR, lL, sL>> = <<pre[1], pre[2], pre[5], pre[6]>>
    /\ Last.op \in {"listener", "rmlistener"} => <<lR, sR, lC, sC>> = <<pre[1], pre[2], pre[3], pre[4]>>

(* one CASE line per complete history, consumed by the Go driver *)
EmitCase == (Len(hist) = MaxOps) =>
              PrintT(<<"CASE", ToJson([ops |-> hist, cm |-> cMode, rm |-> rMode, cl |-> Clusters, rt |-> Routers, ls |-> Listeners])>>)
====
