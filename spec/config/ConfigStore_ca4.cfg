CONSTANTS
  Routers = {}
  Clusters = {"c1"}
  Hosts = {"h1", "h2", "h3"}
  Listeners = {}
  MaxOps = 4
  Ops = {"primary", "clusterhosts", "updhosts", "append", "rmhosts", "rmcluster", "endpoints"}
  RCfgs = {}
  Doms = {}
  Rts = {}
  Lbs = {"rr"}
  HostSets = {{"h1"}, {"h1", "h2"}}
  Attrs = {"a1", "a2"}
  LocLists = {"L1", "L3"}
  CModes = {"inline"}
  RModes = {"inline"}
  Defects = {}
SPECIFICATION Spec
INVARIANTS Coherent LastUpdateWins RemovedGone EndpointsUnion ErrorsChangeNothing FrameCondition EmitCase
CHECK_DEADLOCK FALSE
