CONSTANTS
  Routers = {}
  Clusters = {"c1"}
  Hosts = {"h1", "h2", "h3"}
  Listeners = {}
  MaxOps = 4
  Ops = {"primary", "clusterhosts", "updhosts", "append", "rmhosts", "rmcluster", "endpoints"}
  RCfgs = {}
  Doms = {}
  Rts = {}
  Lbs = {"rr", "rand"}
  HostSets = {{}, {"h1"}, {"h1", "h2"}, {"h2", "h3"}}
  Attrs = {"a1"}
  LocLists = {"L0", "L1", "L2", "L3", "L2e"}
  CModes = {"inline"}
  RModes = {"inline"}
  Defects = {}
SPECIFICATION Spec
INVARIANTS Coherent LastUpdateWins RemovedGone EndpointsUnion ErrorsChangeNothing FrameCondition EmitCase
CHECK_DEADLOCK FALSE
