CONSTANTS
  Routers = {"r1"}
  Clusters = {"c1"}
  Hosts = {"h1", "h2", "h3"}
  Listeners = {"l1"}
  MaxOps = 3
  Ops = {"routers", "addroute", "rmroutes", "primary", "clusterhosts", "updhosts", "append", "rmhosts", "rmcluster", "endpoints", "listener", "rmlistener"}
  RCfgs = {"A", "B"}
  Doms = {"a.com"}
  Rts = {"x1"}
  Lbs = {"rr"}
  HostSets = {{"h1", "h2"}}
  Attrs = {"a1", "a2"}
  LocLists = {"L3"}
  CModes = {"inline"}
  RModes = {"inline"}
  Defects = {"PrimaryForgetsHosts"}
SPECIFICATION Spec
INVARIANTS Coherent LastUpdateWins RemovedGone EndpointsUnion ErrorsChangeNothing FrameCondition 
CHECK_DEADLOCK FALSE
