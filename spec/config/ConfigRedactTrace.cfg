CONSTANTS
  Positions = {"lis_ctx", "lis_set", "clu", "cm", "ext", "sf", "sfa", "exta"}
  Endpoints = {"full", "mosnconfig", "allrouters", "allclusters", "alllisteners", "router", "cluster", "listener"}
  MaxOps = 0
  KeyForms = {"pem", "lead_ws", "preamble", "trailing", "crlf", "two_blocks", "path"}
  KeySpells = {"exact", "title", "upper", "escaped", "camel"}
  ArrayLen = 3
  Defects = {}
SPECIFICATION TraceSpec
POSTCONDITION Accepted
CHECK_DEADLOCK FALSE
