---- MODULE ConfigSwapTrace ----
(* Trace validation of real lookups concurrent with real updates against ConfigSwap's OneVersion (C12 last clause).
   The driver (harness/cmd/c12 -mode swap) writes, in the order the calls really happened:
     new{scn, kind, vhs|hs}   new scenario; the initial configuration (version 0)
     ubegin{kind, vhs|hs}     the updater is about to call the update API with this router configuration / host set
     uend{}                   the update API returned
     lstart{id}               a lookup is about to start
     lend{id, kind, i, r}     route lookup: probe request i was routed to cluster r
     lend{id, kind, hs, pick} host lookup: the snapshot had host set hs and ChooseHost answered pick
   What a version must answer is derived from its configuration by ConfigStore (ViewR), not by the code.
   A lookup may have been served by any version v with  ended-before-lstart <= v <= begun-before-lend;
   anything else (a mixture, a half-built object, a failure) is rejected. *)
EXTENDS ConfigStore, VTrace

VARIABLES vals,   \* vals[v+1] = value of version v (begun versions)
          done,   \* number of updates that returned
          lo      \* lookup id -> done at its start
svars == <<vals, done, lo>>
tvars == <<svars, vars, l>>
S(seq) == { seq[i] : i \in DOMAIN seq }

(* what a version must answer: the probe table of its router configuration / its host set *)
Val(e) == IF e.kind = "route" THEN ViewR(BuildR([st |-> "set", vhs |-> e.vhs])) ELSE e.hs

(* does version value v explain the lookup result r?  kind "route": v = table (answers to all probes),
   r = <<probe index as string, answer>>;  kind "hosts": v = host set, r = [hs, pick] *)
Explains(v, e) ==
  IF e.kind = "route" THEN (IF Len(v) = 1 THEN v[1] = e.r ELSE v[e.i] = e.r)
  ELSE /\ S(e.hs) = S(v) /\ Len(e.hs) = Cardinality(S(v))
       /\ (e.pick = "none") = (v = << >>)
       /\ e.pick # "none" => e.pick \in S(v)

TraceInit == l = 1 /\ InitWith("inline", "inline") /\ vals = << >> /\ done = 0 /\ lo = [x \in {} |-> 0]
TNew == IsEvent("new") /\ vals' = << Val(Ev) >> /\ done' = 0 /\ lo' = [x \in {} |-> 0]
TBegin == IsEvent("ubegin") /\ vals' = Append(vals, Val(Ev)) /\ UNCHANGED <<done, lo>>
TEnd == IsEvent("uend") /\ done' = Len(vals) - 1 /\ UNCHANGED <<vals, lo>>
TLStart == IsEvent("lstart") /\ lo' = [x \in DOMAIN lo \cup {Ev.id} |-> IF x = Ev.id THEN done ELSE lo[x]] /\ UNCHANGED <<vals, done>>
TLEnd == /\ IsEvent("lend") /\ Ev.id \in DOMAIN lo
         /\ Expect(\E v \in lo[Ev.id]..(Len(vals) - 1) : Explains(vals[v + 1], Ev), "lookup-not-served-by-one-live-version")
         /\ lo' = [x \in DOMAIN lo \ {Ev.id} |-> lo[x]]
         /\ UNCHANGED <<vals, done>>
TraceNext == (TNew \/ TBegin \/ TEnd \/ TLStart \/ TLEnd) /\ UNCHANGED vars
TraceSpec == TraceInit /\ [][TraceNext]_tvars
====
