---- MODULE ConfigDumpLoop ----
(* The dump loop that keeps the persisted configuration file up with the running configuration (property C19:
   "... so a restart or hot upgrade from the persisted file reproduces the running proxy").
   Anchors: pkg/configmanager/dump_action.go DumpConfigHandler / DumpConfig / setDump / getDump, effectiveconfig.go
   tryDump (every runtime update marks the configuration as changed), pkg/server/reconfigure.go (DumpConfig before the
   hot-upgrade hand-over).

   One action per step the code has: a runtime update changes the effective configuration and raises the flag; a round
   of the loop takes the flag (compare-and-swap 1 -> 0) BEFORE it snapshots the configuration, then writes the file.
   An update that lands after the snapshot therefore finds the flag down, raises it again, and the next round writes it.
   "ClearAfterWrite" is the named way to get this wrong: the flag is only looked at first and cleared once the file is
   written - an update landing in between is never persisted. *)
EXTENDS Integers, Sequences, FiniteSets, TLC, Json

CONSTANTS UpdateKinds,   \* runtime updates (cluster, hosts, listener, router, extend)
          MaxUpdates,    \* updates per history
          MaxSteps,
          Defects

VARIABLES flag,     \* "configuration changed" flag of the dump loop
          eff,      \* version of the running (effective) configuration = number of updates applied
          snap,     \* version captured by the round in progress
          file,     \* version in the persisted file
          pc,       \* the round: "idle" | "taken" | "transferred"
          late,     \* where the latest update landed relative to a round in progress
          hist
vars == <<flag, eff, snap, file, pc, late, hist>>

Init == flag = 0 /\ eff = 0 /\ snap = 0 /\ file = 0 /\ pc = "idle" /\ late = "none" /\ hist = <<>>

Update(k) == /\ eff < MaxUpdates
             /\ eff' = eff + 1 /\ flag' = 1
             /\ late' = CASE pc = "taken" -> "after-take" [] pc = "transferred" -> "after-snapshot" [] OTHER -> "none"
             /\ hist' = Append(hist, [a |-> "update", kind |-> k])
             /\ UNCHANGED <<snap, file, pc>>

Take == /\ pc = "idle" /\ flag = 1
        /\ flag' = IF "ClearAfterWrite" \in Defects THEN flag ELSE 0
        /\ pc' = "taken" /\ hist' = Append(hist, [a |-> "take", kind |-> "-"])
        /\ UNCHANGED <<eff, snap, file, late>>

Transfer == /\ pc = "taken"
            /\ snap' = eff /\ pc' = "transferred" /\ hist' = Append(hist, [a |-> "transfer", kind |-> "-"])
            /\ UNCHANGED <<flag, eff, file, late>>

Write == /\ pc = "transferred"
         /\ file' = snap /\ pc' = "idle" /\ hist' = Append(hist, [a |-> "write", kind |-> "-"])
         /\ flag' = IF "ClearAfterWrite" \in Defects THEN 0 ELSE flag
         /\ UNCHANGED <<eff, snap, late>>

Next == /\ Len(hist) < MaxSteps
        /\ \/ \E k \in UpdateKinds : Update(k)
           \/ Take \/ Transfer \/ Write
Spec == Init /\ [][Next]_vars

(* ---------- C19 ---------- *)
Quiescent == pc = "idle" /\ flag = 0
\* whenever the loop has nothing left to do, the file describes the running configuration
FileUpToDate == Quiescent => file = eff

(* one CASE line per history that ends quiescent after at least one round, consumed by the Go driver *)
EmitCase == (Quiescent /\ hist # <<>> /\ hist[Len(hist)].a = "write") => PrintT(<<"CASE", ToJson([steps |-> hist])>>)
====
