CONSTANTS
  Fields = {1}
  Sizes = {0}
  MaxOps = 1
  Defects = {}
SPECIFICATION TraceSpec
POSTCONDITION Accepted
CHECK_DEADLOCK FALSE
