CONSTANTS
  Fields = {1}
  Sizes = {0}
  MaxOps = 1
  MaxSets = 2
  Limits = {1000000}
  Defects = {}
SPECIFICATION TraceSpec
POSTCONDITION Accepted
CHECK_DEADLOCK FALSE
