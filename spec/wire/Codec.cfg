CONSTANTS
  Codecs = {"bolt", "boltv2", "dubbo", "dubbothrift", "tars"}
  Dirs = {"req", "oneway", "resp"}
  ClassLens = {0, 1, 7, 255, 256, 65535}
  ValLens = {1000000, 0, 5, 245, 246}
  BodyLens = {0, 1, 40, 255, 256, 65535, 65536}
  SvcLens = {3, 32, 1024}
  DefClass = 7
  DefVal = 5
  DefBody = 40
  DefSvc = 3
  StarK = 1
  MaxPairs = 2
  Fills = {"zero", "ones", "rand"}
  MutVals = {0, 9}
  MutBodies = {0, 1, 300}
  FillTargets = {65535, 65536, 70009}
  IdFirst = {"new"}
  IdSecond = {"max"}
  MaxMut = 1
  MaxFwd = 2
  MaxOps = 3
  Defects = {}
SPECIFICATION Spec
INVARIANTS Faithful EmitCase
CHECK_DEADLOCK FALSE
