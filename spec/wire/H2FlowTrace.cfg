CONSTANTS
  Streams = {1}
  Bodies = {0}
  Wins = {0}
  ConnWins = {0}
  Incs = {1}
  Mfs = 1
  MaxOps = 0
  Defects = {}
SPECIFICATION TraceSpec
POSTCONDITION Accepted
CHECK_DEADLOCK FALSE
