---- MODULE Hpack ----
(* HPACK (RFC 7541) compression context shared by one encoder and one decoder (property C18, part 1).
   Shape of the implementation (pkg/module/http2/hpack, a fork of golang.org/x/net/http2/hpack):
     encode.go  Encoder.SetMaxDynamicTableSize : remember the smallest size since the last block, set the
                                                 flag tableSizeUpdate, shrink/evict the encoder's table   (Setting)
                Encoder.WriteField             : pending size update(s) first; static full match, dynamic full
                                                 match -> indexed; otherwise literal, with incremental
                                                 indexing iff not sensitive and the entry fits             (Field)
     hpack.go   Decoder.Write/parse*           : one representation at a time: indexed | literal with
                                                 incremental indexing | without indexing | never indexed |
                                                 dynamic table size update (only at the start of a block,
                                                 never above the size the decoder's side announced)       (EndBlock)
     tables.go  dynamicTable.add/evict         : FIFO, entry size = len(name)+len(value)+32, evict oldest while
                                                 size > max (an entry larger than max empties the table)
   Encoder and decoder share nothing but the wire (sequence of representations) and the SETTINGS value
   (SETTINGS_HEADER_TABLE_SIZE announced by the decoder's side, applied by the encoder's side).

   Defects (named ways this design goes wrong; TLC must reject each):
     "IgnoreSetting"   the encoder's side does not apply the announced size at all
                       (what MClientConn.processSettings of the pinned code does)
     "NoSizeUpdate"    the encoder shrinks its own table but never signals it
     "OnlyFinalUpdate" several changes between two blocks: only the last one is signalled (RFC 7541 4.2)
     "NoEvict"         the encoder adds an entry without evicting
     "MutedNoInsert"   the decoder stops maintaining its table where the receiver stops collecting the header list
                       (a block is only "skipped" for the application, never for the compression context)

   The receiver of a header list (mhttp2.go MFramer.readMetaFrame, the user of the decoder) collects the fields the
   decoder emits while the list stays within its header-list limit (SETTINGS_MAX_HEADER_LIST_SIZE, RFC 7540 6.5.2: a
   field counts name + value + 32) and is well-formed (RFC 7540 8.1.2.1: no pseudo header after a regular one).  At the
   first field that crosses the limit / is malformed it *mutes* the decoder (Decoder.SetEmitEnabled(false)): nothing
   more is handed on, the frame is delivered Truncated, resp. refused with a stream error - and the connection stays
   up.  So the rest of the block must still be decoded (RFC 7540 4.3, RFC 7541 2.3.2: the dynamic table is updated by
   EVERY block that is decoded, emitted or not): every literal with incremental indexing behind the point of muting
   enters the table with its name and value, because later blocks refer to it.                              (RcvOne) *)
EXTENDS Integers, Sequences, FiniteSets, TLC, Json

CONSTANTS Fields,   \* subset of DOMAIN FieldTab: the header fields a history may use
          Sizes,    \* values SETTINGS_HEADER_TABLE_SIZE may take
          MaxOps,   \* bound on the field / end-of-block operations of a history
          MaxSets,  \* bound on its SETTINGS changes (at most two between two blocks: "reduce, then grow")
          Limits,   \* header-list limits of the receiving side (1000000 = Inf: the bare decoder, no receiver in front)
          Defects

(* ---------------- data ---------------- *)
FieldTab == <<
  [n |-> ":method",       v |-> "GET",    s |-> FALSE],   \* 1 full match in the static table (index 2)
  [n |-> ":status",       v |-> "201",    s |-> FALSE],   \* 2 name in the static table only; size 42
  [n |-> "x-a",           v |-> "1",      s |-> FALSE],   \* 3 new name; size 36
  [n |-> "x-a",           v |-> "22",     s |-> FALSE],   \* 4 repeated name, other value; size 37
  [n |-> "x-bb",          v |-> "a-longer-value-that-huffman-coding-shrinks", s |-> FALSE],  \* 5 size 78
  [n |-> "authorization", v |-> "s3cr3t", s |-> TRUE],    \* 6 sensitive: never indexed
  [n |-> "cookie",        v |-> "k=v",    s |-> FALSE],   \* 7 static name; size 41
  [n |-> "x-a",           v |-> "1",      s |-> TRUE] >>  \* 8 sensitive twin of 3

P(a, b) == [n |-> a, v |-> b]
Static == <<
  P(":authority", ""), P(":method", "GET"), P(":method", "POST"), P(":path", "/"), P(":path", "/index.html"),
  P(":scheme", "http"), P(":scheme", "https"), P(":status", "200"), P(":status", "204"), P(":status", "206"),
  P(":status", "304"), P(":status", "400"), P(":status", "404"), P(":status", "500"), P("accept-charset", ""),
  P("accept-encoding", "gzip, deflate"), P("accept-language", ""), P("accept-ranges", ""), P("accept", ""),
  P("access-control-allow-origin", ""), P("age", ""), P("allow", ""), P("authorization", ""),
  P("cache-control", ""), P("content-disposition", ""), P("content-encoding", ""), P("content-language", ""),
  P("content-length", ""), P("content-location", ""), P("content-range", ""), P("content-type", ""),
  P("cookie", ""), P("date", ""), P("etag", ""), P("expect", ""), P("expires", ""), P("from", ""), P("host", ""),
  P("if-match", ""), P("if-modified-since", ""), P("if-none-match", ""), P("if-range", ""),
  P("if-unmodified-since", ""), P("last-modified", ""), P("link", ""), P("location", ""), P("max-forwards", ""),
  P("proxy-authenticate", ""), P("proxy-authorization", ""), P("range", ""), P("referer", ""), P("refresh", ""),
  P("retry-after", ""), P("server", ""), P("set-cookie", ""), P("strict-transport-security", ""),
  P("transfer-encoding", ""), P("user-agent", ""), P("vary", ""), P("via", ""), P("www-authenticate", "") >>
NStatic == Len(Static)

Inf == 1000000                          \* "no size change pending"
Min(a, b) == IF a < b THEN a ELSE b

(* ---------------- the dynamic table (newest entry first = index order 62, 63, ...) ---------------- *)
EntSize(e) == Len(e.n) + Len(e.v) + 32
RECURSIVE TabSize(_)
TabSize(t) == IF t = <<>> THEN 0 ELSE EntSize(Head(t)) + TabSize(Tail(t))
RECURSIVE Evict(_, _)
Evict(t, max) == IF t = <<>> \/ TabSize(t) <= max THEN t ELSE Evict(SubSeq(t, 1, Len(t) - 1), max)
Add(t, e, max) == Evict(<<e>> \o t, max)
At(t, i) == IF i \in 1..NStatic THEN Static[i] ELSE t[i - NStatic]     \* caller checks the range
ValidIdx(t, i) == i \in 1..(NStatic + Len(t))

(* ---------------- the receiver of the decoded fields (readMetaFrame's emit function) ----------------
   room = what is left of the limit, reg = a regular field was seen, muted = emitting is switched off,
   why = "ok" | "truncated" | "malformed", got = the fields collected *)
Pseudo == {":method", ":scheme", ":authority", ":path", ":status"}
Rcv0(limit) == [room |-> limit, reg |-> FALSE, muted |-> FALSE, why |-> "ok", got |-> <<>>]
RcvOne(r, f) ==
  IF r.muted THEN r
  ELSE IF f.n \in Pseudo /\ r.reg THEN [r EXCEPT !.muted = TRUE, !.why = "malformed"]
  ELSE IF Len(f.n) + Len(f.v) + 32 > r.room THEN [r EXCEPT !.muted = TRUE, !.why = "truncated"]
  ELSE [r EXCEPT !.room = @ - (Len(f.n) + Len(f.v) + 32), !.got = Append(@, f), !.reg = @ \/ f.n \notin Pseudo]
\* MetaHeadersFrame.checkPseudos on what was collected: a pseudo header twice, request and response pseudo headers mixed
BadPseudos(fs) == \E i, j \in DOMAIN fs : /\ i < j /\ fs[i].n \in Pseudo /\ fs[j].n \in Pseudo
                                          /\ (fs[i].n = fs[j].n \/ (fs[i].n = ":status") # (fs[j].n = ":status"))
\* "ok" / "truncated": the list `got` is delivered (flagged Truncated); "malformed": stream error, nothing delivered
Verdict(r) == IF r.why = "malformed" \/ BadPseudos(r.got) THEN "malformed" ELSE r.why

(* ---------------- the decoder: meaning of a wire (sequence of representations) ----------------
   representation r: k \in {"idx","inc","lit","nev","upd"}; i = index (idx: whole field; literals: name index or 0;
   upd: the new size); n, v = literal name (when i = 0) and value *)
Rep(k, i, n, v) == [k |-> k, i |-> i, n |-> n, v |-> v]
DecState(t, max, limit) == [tab |-> t, max |-> max, out |-> <<>>, ok |-> TRUE, start |-> TRUE, upds |-> <<>>, rcv |-> Rcv0(limit)]
\* the table does not depend on rcv - unless the defect couples them
Inserts(d) == ~("MutedNoInsert" \in Defects /\ d.rcv.muted)
DecOne(d, r, allowed) ==
  IF ~d.ok THEN d
  ELSE IF r.k = "upd" THEN
         IF ~d.start \/ r.i > allowed THEN [d EXCEPT !.ok = FALSE]
         ELSE [d EXCEPT !.max = r.i, !.tab = Evict(d.tab, r.i), !.upds = Append(d.upds, r.i)]
  ELSE IF r.k = "idx" THEN
         IF ~ValidIdx(d.tab, r.i) THEN [d EXCEPT !.ok = FALSE]
         ELSE LET f == [n |-> At(d.tab, r.i).n, v |-> At(d.tab, r.i).v, s |-> FALSE]
              IN [d EXCEPT !.out = Append(d.out, f), !.start = FALSE, !.rcv = RcvOne(d.rcv, f)]
  ELSE IF r.i # 0 /\ ~ValidIdx(d.tab, r.i) THEN [d EXCEPT !.ok = FALSE]
  ELSE LET name == IF r.i = 0 THEN r.n ELSE At(d.tab, r.i).n
           f    == [n |-> name, v |-> r.v, s |-> (r.k = "nev")]
       IN [d EXCEPT !.out = Append(d.out, f), !.start = FALSE, !.rcv = RcvOne(d.rcv, f),
                    !.tab = IF r.k = "inc" /\ Inserts(d) THEN Add(d.tab, P(name, r.v), d.max) ELSE d.tab]
RECURSIVE DecRun(_, _, _)
DecRun(d, w, allowed) == IF w = <<>> THEN d ELSE DecRun(DecOne(d, Head(w), allowed), Tail(w), allowed)
DecodeWire(w, t, max, allowed, limit) == DecRun(DecState(t, max, limit), w, allowed)

NV(fs) == [i \in DOMAIN fs |-> P(fs[i].n, fs[i].v)]
MinOf(sq) == IF sq = <<>> THEN Inf ELSE CHOOSE x \in {sq[i] : i \in DOMAIN sq} : \A j \in DOMAIN sq : x <= sq[j]

(* what RFC 7541 4.2 / RFC 7540 6.5.2 demand of the block that follows size changes: `pend` is the smallest size
   announced since the previous block, `before` the table maximum in force before the block *)
SignalOK(upds, pend, before) == pend < before => MinOf(upds) <= pend

(* ---------------- the encoder ---------------- *)
LastIdx(sq, test(_)) == LET is == { i \in DOMAIN sq : test(sq[i]) } IN
                        IF is = {} THEN 0 ELSE CHOOSE i \in is : \A j \in is : j <= i
FirstIdx(sq, test(_)) == LET is == { i \in DOMAIN sq : test(sq[i]) } IN
                         IF is = {} THEN 0 ELSE CHOOSE i \in is : \A j \in is : i <= j
\* tables.go search: newest entry with that pair / name; the static table "newest" is the highest index
Search(t, f) ==
  LET sfull == LastIdx(Static, LAMBDA e : e.n = f.n /\ e.v = f.v)
      sname == LastIdx(Static, LAMBDA e : e.n = f.n)
      dfull == FirstIdx(t, LAMBDA e : e.n = f.n /\ e.v = f.v)
      dname == FirstIdx(t, LAMBDA e : e.n = f.n)
  IN IF sfull # 0 THEN [i |-> sfull, full |-> TRUE]
     ELSE IF dfull # 0 THEN [i |-> dfull + NStatic, full |-> TRUE]
     ELSE IF sname = 0 /\ dname # 0 THEN [i |-> dname + NStatic, full |-> FALSE]
     ELSE [i |-> sname, full |-> FALSE]

VARIABLES encTab, encMax, encMin, encUpd,     \* encoder: table, its maximum, smallest size since last signal, flag
          decTab, decMax, decAllowed,         \* decoder: table, its maximum, the size its side announced
          pend, wire, inb,                    \* ghost: smallest announced size since last block; current block
          out, status, hist,
          limit, got, verdict                 \* receiver: its header-list limit; what it collected from the last block
vars == <<encTab, encMax, encMin, encUpd, decTab, decMax, decAllowed, pend, wire, inb, out, status, hist, limit, got, verdict>>

Op(k, a) == [k |-> k, a |-> a]

Init == /\ encTab = <<>> /\ encMax = 4096 /\ encMin = Inf /\ encUpd = FALSE
        /\ decTab = <<>> /\ decMax = 4096 /\ decAllowed = 4096
        /\ pend = Inf /\ wire = <<>> /\ inb = <<>> /\ out = <<>> /\ status = "idle" /\ hist = <<>>
        /\ limit \in Limits /\ got = <<>> /\ verdict = ""

NOps(h)  == Len(SelectSeq(h, LAMBDA o : o.k # "s"))
NSets(h) == Len(SelectSeq(h, LAMBDA o : o.k = "s"))
TwoSets(h) == Len(h) >= 2 /\ h[Len(h)].k = "s" /\ h[Len(h) - 1].k = "s"
Open == status \in {"idle", "done"} /\ NOps(hist) < MaxOps
\* the previous block stays visible (ghost) until the next operation starts a new one
CurWire == IF status = "done" THEN <<>> ELSE wire
CurIn   == IF status = "done" THEN <<>> ELSE inb

(* the decoder's side announces SETTINGS_HEADER_TABLE_SIZE = v between two blocks; the encoder's side applies it *)
Setting(v) ==
  /\ Open /\ CurIn = <<>>
  /\ NSets(hist) < MaxSets /\ ~TwoSets(hist) /\ NOps(hist) + 2 <= MaxOps     \* a block can still follow
  /\ decAllowed' = v /\ pend' = Min(pend, v)
  /\ IF "IgnoreSetting" \in Defects THEN UNCHANGED <<encTab, encMax, encMin, encUpd>>
     ELSE /\ encMax' = Min(v, 4096)
          /\ encTab' = Evict(encTab, Min(v, 4096))
          /\ encMin' = IF "OnlyFinalUpdate" \in Defects THEN Inf ELSE Min(encMin, Min(v, 4096))
          /\ encUpd' = ("NoSizeUpdate" \notin Defects)
  /\ hist' = Append(hist, Op("s", v)) /\ status' = "idle"
  /\ wire' = <<>> /\ inb' = <<>> /\ out' = <<>> /\ got' = <<>> /\ verdict' = ""
  /\ UNCHANGED <<decTab, decMax, limit>>

Field(k) ==
  /\ Open /\ NOps(hist) + 1 < MaxOps           \* room for the EndBlock
  /\ LET f    == FieldTab[k]
         pre  == IF encUpd THEN (IF encMin < encMax THEN <<Rep("upd", encMin, "", "")>> ELSE <<>>)
                                \o <<Rep("upd", encMax, "", "")>>
                 ELSE <<>>
         sr   == Search(encTab, f)
         idxg == ~f.s /\ EntSize(f) <= encMax
         rep  == IF sr.full THEN Rep("idx", sr.i, "", "")
                 ELSE Rep(IF idxg THEN "inc" ELSE IF f.s THEN "nev" ELSE "lit", sr.i, IF sr.i = 0 THEN f.n ELSE "", f.v)
     IN /\ wire' = CurWire \o pre \o <<rep>>
        /\ encTab' = IF ~sr.full /\ idxg
                     THEN (IF "NoEvict" \in Defects THEN <<P(f.n, f.v)>> \o encTab ELSE Add(encTab, P(f.n, f.v), encMax))
                     ELSE encTab
        /\ encUpd' = FALSE /\ encMin' = Inf
        /\ inb' = Append(CurIn, f)
  /\ hist' = Append(hist, Op("f", k)) /\ status' = "idle" /\ out' = <<>> /\ got' = <<>> /\ verdict' = ""
  /\ UNCHANGED <<encMax, decTab, decMax, decAllowed, pend, limit>>

(* the block travels; the decoder runs it to its end whatever the receiver makes of the list: `out` is what the block
   means, `got` what the receiver hands on.  None of the verdicts ends the connection: the history goes on *)
EndBlock ==
  /\ status = "idle" /\ inb # <<>>
  /\ LET d == DecodeWire(wire, decTab, decMax, decAllowed, limit) IN
       /\ decTab' = d.tab /\ decMax' = d.max /\ out' = d.out
       /\ got' = d.rcv.got /\ verdict' = Verdict(d.rcv)
       /\ status' = IF d.ok /\ d.max <= decAllowed /\ SignalOK(d.upds, pend, decMax) THEN "done" ELSE "error"
  /\ pend' = Inf
  /\ hist' = Append(hist, Op("e", Len(inb)))
  /\ UNCHANGED <<encTab, encMax, encMin, encUpd, decAllowed, wire, inb, limit>>

Next == EndBlock \/ (\E k \in Fields : Field(k)) \/ (\E v \in Sizes : Setting(v))
Spec == Init /\ [][Next]_vars

(* ---------------- properties (shared with the trace spec as predicates) ---------------- *)
FieldReps(w) == SelectSeq(w, LAMBDA r : r.k # "upd")
SameList(o, i) == Len(o) = Len(i) /\ \A j \in DOMAIN i : o[j].n = i[j].n /\ o[j].v = i[j].v
\* a sensitive field never enters a table, and when it travels as a literal it is marked never-indexed
SensitiveOK(w, i, o) == LET rs == FieldReps(w) IN
   Len(rs) = Len(i) => \A j \in DOMAIN i : i[j].s =>
        /\ rs[j].k # "inc"
        /\ rs[j].k \in {"lit", "nev"} => rs[j].k = "nev" /\ (j \in DOMAIN o => o[j].s)

NoError       == status # "error"               \* wire valid, size within the announced one, smallest size signalled
RoundTrip     == status = "done" => SameList(out, inb)
TablesEqual   == status = "done" => decTab = encTab /\ decMax = encMax
SizeBound     == TabSize(encTab) <= encMax /\ TabSize(decTab) <= decMax
SensitiveKept == status = "done" => SensitiveOK(wire, inb, out)
\* the receiver hands on a prefix of the list within its limit - the whole list iff the verdict is "ok" - or nothing
RECURSIVE ListSize(_)
ListSize(fs) == IF fs = <<>> THEN 0 ELSE Len(Head(fs).n) + Len(Head(fs).v) + 32 + ListSize(Tail(fs))
Delivered == status = "done" =>
   /\ Len(got) <= Len(inb) /\ SameList(got, SubSeq(inb, 1, Len(got))) /\ ListSize(got) <= limit
   /\ (verdict = "ok") = (Len(got) = Len(inb) /\ ~BadPseudos(got))
   /\ verdict = "truncated" => ListSize(SubSeq(inb, 1, Len(got) + 1)) > limit

(* one CASE per maximal history of complete blocks; the fields travel with the case so that the driver has no table of its own *)
CaseOps == [i \in DOMAIN hist |->
              IF hist[i].k = "f"
              THEN [k |-> "f", a |-> hist[i].a, n |-> FieldTab[hist[i].a].n, v |-> FieldTab[hist[i].a].v, s |-> FieldTab[hist[i].a].s]
              ELSE [k |-> hist[i].k, a |-> hist[i].a, n |-> "", v |-> "", s |-> FALSE]]
EmitCase == (status \in {"done", "error"} /\ NOps(hist) >= MaxOps - 1) => PrintT(<<"CASE", ToJson([ops |-> CaseOps, limit |-> limit])>>)
====
