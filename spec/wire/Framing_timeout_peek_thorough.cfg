CONSTANTS
  MaxFrames = 2
  Lens = {3, 5}
  H = 3
  Preface = 0
  Peek = 1
  MaxTimeouts = 2
  Priors = {0, 1, 2}
  DispatchBound = 2
  Defects = {}
SPECIFICATION Spec
INVARIANTS InOrderOnce NoEarly Prompt Consumed PrefaceOnce NoError NoByteLost LoopUntilDry SameForEveryCut
CHECK_DEADLOCK FALSE
