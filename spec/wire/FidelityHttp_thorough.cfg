CONSTANTS
  Pairs = {"h1h1", "h2h2"}
  Segs = {"a", "%2F", "%20", "..", ".", "", "*", "a%3Fb", "a;b", "a+b", "%E4%BD%A0"}
  MaxSegs = 3
  Queries = {"-", "?", "x=1", "x=%2F&y=", "a=b%20c&a=+", "x=1?y=2"}
  Methods = {"GET", "POST", "PUT", "DELETE", "HEAD"}
  BodyLens = {0, 1, 65536, 1048576}
  HdrKinds = {"plain", "mixedcase", "empty", "multi", "long"}
  Statuses = {200, 204, 404, 500}
  RespBodyLens = {0, 5, 65536}
  Retries = {0, 1}
  Defects = {}
SPECIFICATION Spec
INVARIANTS UriPreserved BodyPreserved EmitCase
CHECK_DEADLOCK FALSE
