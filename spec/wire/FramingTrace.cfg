CONSTANTS
  MaxFrames = 1
  Lens = {1}
  H = 1
  Defects = {}
SPECIFICATION TraceSpec
POSTCONDITION Accepted
CHECK_DEADLOCK FALSE
