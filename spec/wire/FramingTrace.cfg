CONSTANTS
  MaxFrames = 1
  Lens = {1}
  H = 1
  Preface = 0
  Peek = 0
  MaxTimeouts = 0
  Priors = {0}
  DispatchBound = 2
  Defects = {}
SPECIFICATION TraceSpec
POSTCONDITION Accepted
CHECK_DEADLOCK FALSE
