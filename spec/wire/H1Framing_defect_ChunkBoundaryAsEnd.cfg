CONSTANTS
  Defects = {"ChunkBoundaryAsEnd"}
SPECIFICATION SpecStar
INVARIANTS ReqFidelity RespFidelity TruncationNotDelivered NoLeak NoRequestAfterClose EndExact
CHECK_DEADLOCK FALSE
