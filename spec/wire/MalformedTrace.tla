---- MODULE MalformedTrace ----
(* Trace validation of the real xprotocol decoders and matchers against Malformed (C08 part 1).
   Events (driver harness/cmd/c08, mode xdec):
     xdec{case,layout,codec,field,mut,n,runs,tailsame,ms}
         the first n bytes of (mutated frame ++ pristine frame) given to the real XProtocol.Decode once per kind of
         memory behind the supplied bytes (runs[i] = [tail, out, consumed, alloc]); tailsame = all runs agree;
         ms[i] = [p, res, same]: answer of matcher p on the same bytes
     rand{codec,count,outs,over,morecons,taildiff,overalloc,mpanic,mdiff,bad}   summary of a batch of seeded random strings
     skip{case,why}
   The expectation of every step is recomputed here from the layout data of the specification. *)
EXTENDS Malformed, VTrace

tvars == <<vars, l>>

TraceInit == /\ l = 1 /\ lay = "bolt_req" /\ fld = "class" /\ mut = "none" /\ n = 0
             /\ pc = "done" /\ out = "none" /\ consumed = 0 /\ alloc = 0 /\ maxread = 0

CheckRun(L, v, nn, vis, r) ==
  /\ Expect(r.out # "panic", "decoder-panics")
  /\ Expect(r.out # "loop", "decoder-loops")
  /\ Expect(NoFrameFromMissing(L, v, nn, r.out), "frame-from-missing-bytes")
  /\ Expect(FrameExact(L, v, r.out, r.consumed), "frame-length-not-announced")
  /\ Expect(MoreConsumesNothing(r.out, r.consumed), "need-more-consumed-bytes")
  /\ Expect(r.consumed <= nn, "consumed-more-than-received")
  /\ Expect(vis \/ r.out \in {"panic", "loop"} \/ PristinePrefix(L, nn, r.out),
            IF nn < TrueLen(L) THEN "valid-prefix-not-need-more" ELSE "valid-frame-not-decoded")
  /\ Expect(AllocAfterArrival(L, v, nn, r.alloc), "alloc-before-arrival")
  /\ Expect(r.dup = 0, "pooled-buffer-given-back-twice")

CheckMatch(L, vis, m) ==
  /\ Expect(m.res \in {"again", "success", "failed"}, "matcher-" \o m.res)
  /\ Expect(m.same, "matcher-reads-outside-received-bytes")
  /\ Expect((m.p = L.codec /\ ~vis) => m.res # "failed", "matcher-fails-valid-prefix")

TXdec == /\ IsEvent("xdec")
         /\ Ev.layout \in DOMAIN Layouts
         /\ LET L == Layouts[Ev.layout] IN
              /\ Ev.field \in FieldNames(L) /\ Ev.mut \in Muts /\ MutVal(L, Ev.field, Ev.mut) # -1
              /\ LET v == Vals(L, Ev.field, Ev.mut)  vis == Visible(L, Ev.field, Ev.mut, Ev.n) IN
                   /\ \A i \in DOMAIN Ev.runs : CheckRun(L, v, Ev.n, vis, Ev.runs[i])
                   /\ Expect(Ev.tailsame, "reads-outside-received-bytes")
                   /\ \A i \in DOMAIN Ev.ms : CheckMatch(L, vis, Ev.ms[i])
         /\ lay' = Ev.layout /\ fld' = Ev.field /\ mut' = Ev.mut /\ n' = Ev.n
         /\ UNCHANGED <<pc, out, consumed, alloc, maxread>>

TRand == /\ IsEvent("rand")
         /\ Expect(Ev.outs.panic = 0, "decoder-panics")
         /\ Expect(Ev.outs.loop = 0, "decoder-loops")
         /\ Expect(Ev.over = 0, "consumed-more-than-received")
         /\ Expect(Ev.morecons = 0, "need-more-consumed-bytes")
         /\ Expect(Ev.taildiff = 0, "reads-outside-received-bytes")
         /\ Expect(Ev.overalloc = 0, "alloc-before-arrival")
         /\ Expect(Ev.mpanic = 0, "matcher-panics")
         /\ Expect(Ev.mdiff = 0, "matcher-reads-outside-received-bytes")
         /\ UNCHANGED vars

(* str{codec,layout,name,n,runs,tailsame,ms}: a directed string (Malformed!Directed) *)
TStr == /\ IsEvent("str")
        /\ \E d \in Directed : d.layout = Ev.layout /\ d.name = Ev.name
        /\ \A i \in DOMAIN Ev.runs : LET r == Ev.runs[i] IN
              /\ Expect(r.out # "panic", "decoder-panics")
              /\ Expect(r.out # "loop", "decoder-loops")
              /\ Expect(r.consumed <= Ev.n, "consumed-more-than-received")
              /\ Expect(r.out = "more" => r.consumed = 0, "need-more-consumed-bytes")
              /\ Expect(StrOK_Alloc(r.out, r.alloc, Ev.n), "alloc-before-arrival")
              /\ Expect(r.dup = 0, "pooled-buffer-given-back-twice")
        /\ Expect(Ev.tailsame, "reads-outside-received-bytes")
        /\ \A i \in DOMAIN Ev.ms : Expect(Ev.ms[i].res \in {"again", "success", "failed"}, "matcher-panics")
        /\ UNCHANGED vars

TSkip == IsEvent("skip") /\ UNCHANGED vars

TraceNext == TXdec \/ TRand \/ TStr \/ TSkip
TraceSpec == TraceInit /\ [][TraceNext]_tvars
====
