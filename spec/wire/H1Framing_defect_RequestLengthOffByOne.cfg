CONSTANTS
  Defects = {"RequestLengthOffByOne"}
SPECIFICATION SpecStar
INVARIANTS ReqFidelity RespFidelity TruncationNotDelivered NoLeak NoRequestAfterClose EndExact
CHECK_DEADLOCK FALSE
