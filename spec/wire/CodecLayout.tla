---- MODULE CodecLayout ----
(* Frame layouts of the xprotocol codecs as DATA (property C01; anchors pkg/protocol/xprotocol/<codec>/{decoder,encoder,types}.go).
   A layout is what a peer implementation needs to know to build and to parse a frame:
     fixed   length of the fixed header
     idoff/idw   where the request id MOSN rewrites sits and how wide it is (idoff = -1: located by the codec's own
                 structure: dubbo-thrift id is the last 8 bytes of the thrift header, tars id is tagged field 4)
     pins    bytes whose value the codec fixes for this kind of frame (protocol code, command type, magic, flag)
     lens    length fields: part they count, offset, width in bytes
     parts   order of the variable parts after the fixed header
   The driver receives the layout inside every case and uses it (not its own knowledge) to place the length
   fields, to patch the request id into the expected bytes and to parse what the real encoder produced. *)
EXTENDS Integers, Sequences

LF(part, off, w) == [part |-> part, off |-> off, w |-> w]
Pin(off, val)    == [off |-> off, val |-> val]

Layouts == [
  bolt_req    |-> [kind |-> "kv", fixed |-> 22, idoff |-> 5, idw |-> 4, pins |-> <<Pin(0, 1), Pin(1, 1)>>,
                   lens |-> <<LF("class", 14, 2), LF("hdr", 16, 2), LF("body", 18, 4)>>, parts |-> <<"class", "hdr", "body">>],
  bolt_oneway |-> [kind |-> "kv", fixed |-> 22, idoff |-> 5, idw |-> 4, pins |-> <<Pin(0, 1), Pin(1, 2)>>,
                   lens |-> <<LF("class", 14, 2), LF("hdr", 16, 2), LF("body", 18, 4)>>, parts |-> <<"class", "hdr", "body">>],
  bolt_resp   |-> [kind |-> "kv", fixed |-> 20, idoff |-> 5, idw |-> 4, pins |-> <<Pin(0, 1), Pin(1, 0)>>,
                   lens |-> <<LF("class", 12, 2), LF("hdr", 14, 2), LF("body", 16, 4)>>, parts |-> <<"class", "hdr", "body">>],
  boltv2_req  |-> [kind |-> "kv", fixed |-> 24, idoff |-> 6, idw |-> 4, pins |-> <<Pin(0, 2), Pin(2, 1)>>,
                   lens |-> <<LF("class", 16, 2), LF("hdr", 18, 2), LF("body", 20, 4)>>, parts |-> <<"class", "hdr", "body">>],
  boltv2_oneway |-> [kind |-> "kv", fixed |-> 24, idoff |-> 6, idw |-> 4, pins |-> <<Pin(0, 2), Pin(2, 2)>>,
                   lens |-> <<LF("class", 16, 2), LF("hdr", 18, 2), LF("body", 20, 4)>>, parts |-> <<"class", "hdr", "body">>],
  boltv2_resp |-> [kind |-> "kv", fixed |-> 22, idoff |-> 6, idw |-> 4, pins |-> <<Pin(0, 2), Pin(2, 0)>>,
                   lens |-> <<LF("class", 14, 2), LF("hdr", 16, 2), LF("body", 18, 4)>>, parts |-> <<"class", "hdr", "body">>],
  \* dubbo: magic 0xdabb, flag = request|twoway|serialization 2 (0xC2), response 0x02, one-way request 0x82
  dubbo_req   |-> [kind |-> "dubbo", fixed |-> 16, idoff |-> 4, idw |-> 8, pins |-> <<Pin(0, 218), Pin(1, 187), Pin(2, 194)>>,
                   lens |-> <<LF("body", 12, 4)>>, parts |-> <<"body">>],
  dubbo_oneway |-> [kind |-> "dubbo", fixed |-> 16, idoff |-> 4, idw |-> 8, pins |-> <<Pin(0, 218), Pin(1, 187), Pin(2, 130)>>,
                   lens |-> <<LF("body", 12, 4)>>, parts |-> <<"body">>],
  dubbo_resp  |-> [kind |-> "dubbo", fixed |-> 16, idoff |-> 4, idw |-> 8, pins |-> <<Pin(0, 218), Pin(1, 187), Pin(2, 2)>>,
                   lens |-> <<LF("body", 12, 4)>>, parts |-> <<"body">>],
  \* dubbo-thrift: u32 (frame-4) | magic 0xdabc | u32 (frame-4) | u16 thrift-header length | version (constant 1) | string service | i64 id | thrift message
  thrift_req  |-> [kind |-> "thrift", fixed |-> 13, idoff |-> -1, idw |-> 8, pins |-> <<Pin(4, 218), Pin(5, 188), Pin(12, 1)>>,
                   lens |-> <<LF("frame-4", 0, 4), LF("frame-4", 6, 4), LF("thdr", 10, 2)>>, parts |-> <<"svc", "id", "body">>],
  thrift_resp |-> [kind |-> "thrift", fixed |-> 13, idoff |-> -1, idw |-> 8, pins |-> <<Pin(4, 218), Pin(5, 188), Pin(12, 1)>>,
                   lens |-> <<LF("frame-4", 0, 4), LF("frame-4", 6, 4), LF("thdr", 10, 2)>>, parts |-> <<"svc", "id", "body">>],
  \* tars: u32 frame length (including itself) | tars-encoded RequestPacket / ResponsePacket (request id = tag 4 / tag 3)
  tars_req    |-> [kind |-> "tars", fixed |-> 4, idoff |-> -1, idw |-> 4, pins |-> <<>>,
                   lens |-> <<LF("frame", 0, 4)>>, parts |-> <<"body">>],
  tars_resp   |-> [kind |-> "tars", fixed |-> 4, idoff |-> -1, idw |-> 4, pins |-> <<>>,
                   lens |-> <<LF("frame", 0, 4)>>, parts |-> <<"body">>]
]

LayoutName(codec, dir) ==
  CASE codec = "bolt"        -> "bolt_" \o dir
    [] codec = "boltv2"      -> "boltv2_" \o dir
    [] codec = "dubbo"       -> "dubbo_" \o dir
    [] codec = "dubbothrift" -> "thrift_" \o dir
    [] codec = "tars"        -> "tars_" \o dir

HasDir(codec, dir) == LayoutName(codec, dir) \in DOMAIN Layouts
LayoutOf(codec, dir) == Layouts[LayoutName(codec, dir)]

(* codecs whose header map is encoded in the frame (ordered key/value block); for the others the header map is a
   routing view derived from the payload (service, method ...) that has no wire representation *)
KvCodec(codec) == codec \in {"bolt", "boltv2"}

(* TLC integers are 32 bit: a 4- or 8-byte field can hold every length within the bounds explored (< 2^31) *)
Pow256(w) == IF w = 1 THEN 256 ELSE IF w = 2 THEN 65536 ELSE 2147483647
====
