---- MODULE Codec ----
(* Forwarding fidelity of the xprotocol codecs (property C01, component level).
   Anchors: pkg/protocol/xprotocol/{bolt,boltv2,dubbo,dubbothrift,tars}/{decoder,encoder,command}.go and
   pkg/stream/xprotocol/stream.go endStream (SetRequestId; Encode; Write).

   Shape of the implementation: Decode copies the frame out of the connection's read buffer into a private
   `raw` and keeps the decoded content as views of it; header/body mutators set dirty bits; Encode takes the
   fast path (patch the request id into raw and hand raw out) when no dirty bit is set and otherwise rebuilds
   the frame from the live fields, recomputing every length field.  One action per API call / decision.

   Abstract content = lengths (class, ordered header pairs <<key id, key length, value length>>, body); the
   byte values are concretised by the driver (seeded), which also owns the byte-identity oracle. `raw`, `rbuf`
   and out.bytes are identity tokens ("orig" = the bytes that were received, "garbage" = anything else). *)
EXTENDS Integers, Sequences, FiniteSets, TLC, Json, CodecLayout

CONSTANTS Codecs,       \* subset of {"bolt","boltv2","dubbo","dubbothrift","tars"}
          Dirs,         \* subset of {"req","oneway","resp"}
          ClassLens, ValLens, BodyLens, SvcLens,    \* length classes of received frames (ValLens may contain FILL (1000000) = fill the header block to 65535)
          DefClass, DefVal, DefBody, DefSvc,        \* the unremarkable value of each dimension
          StarK,        \* at most StarK dimensions of a received frame are off their unremarkable value
          MaxPairs,     \* header pairs in a received frame
          Fills,        \* value classes of the fixed fields: "zero", "ones", "rand" (anything but "rand" counts as a dimension off its unremarkable value)
          MutVals, MutBodies, FillTargets,          \* arguments of mutations; FillTargets = header block lengths to hit exactly
          IdFirst, IdSecond,                        \* request-id classes of the first / second forward: "same","new","zero","max"
          MaxMut, MaxFwd, MaxOps,
          Defects       \* {} = intended design

VARIABLES codec, dir, fill,
          recvd,      \* content as received
          content,    \* live content
          touched,    \* ghost: some call changed header or body since Recv
          dirtyH, dirtyB,
          rawtok,     \* identity of the bytes in the private copy
          rbuf,       \* identity of the bytes in the connection's read buffer
          out,        \* what the last Forward handed to the connection
          hist
vars == <<codec, dir, fill, recvd, content, touched, dirtyH, dirtyB, rawtok, rbuf, out, hist>>

FILL == 1000000
KL(k) == k + 1                       \* key length of key id k ("k1" padded)
Pair(k, vl) == [k |-> k, kl |-> KL(k), vl |-> vl]

RECURSIVE Block(_)
Block(h) == IF h = <<>> THEN 0 ELSE 8 + Head(h).kl + Head(h).vl + Block(Tail(h))

PartLen(c, part) == CASE part = "class" -> c.class [] part = "hdr" -> Block(c.hdrs) [] part = "body" -> c.body [] OTHER -> 0
Lens(c) == [class |-> c.class, hdr |-> Block(c.hdrs), body |-> c.body]
Lay == LayoutOf(codec, dir)
RepresentableIn(c, lay) == \A i \in DOMAIN lay.lens : PartLen(c, lay.lens[i].part) < Pow256(lay.lens[i].w)
Representable(c) == RepresentableIn(c, Lay)
TruncIn(c, lay) ==
  LET W(part) == IF \E i \in DOMAIN lay.lens : lay.lens[i].part = part
                 THEN Pow256((CHOOSE f \in {lay.lens[i] : i \in DOMAIN lay.lens} : f.part = part).w) ELSE Pow256(4)
  IN [class |-> c.class % W("class"), hdr |-> Block(c.hdrs) % W("hdr"), body |-> c.body % W("body")]

HasKey(h, k) == \E i \in DOMAIN h : h[i].k = k
SetPair(h, k, vl) == IF HasKey(h, k)
                     THEN LET i == CHOOSE j \in DOMAIN h : h[j].k = k /\ \A m \in 1..(j - 1) : h[m].k # k
                          IN [h EXCEPT ![i] = Pair(k, vl)]
                     ELSE Append(h, Pair(k, vl))
DelPair(h, k) == IF HasKey(h, k)
                 THEN LET i == CHOOSE j \in DOMAIN h : h[j].k = k /\ \A m \in 1..(j - 1) : h[m].k # k
                      IN SubSeq(h, 1, i - 1) \o SubSeq(h, i + 1, Len(h))
                 ELSE h
Without(h, k) == SelectSeq(h, LAMBDA p : p.k # k)

(* ---- received frames ---- *)
NFill(f) == Cardinality({i \in DOMAIN f : f[i] = FILL})
RECURSIVE OtherSum(_, _)
OtherSum(f, i) == IF i = 0 THEN 0 ELSE (IF f[i] = FILL THEN 0 ELSE 8 + KL(i) + f[i]) + OtherSum(f, i - 1)
Resolve(f) == [i \in DOMAIN f |-> Pair(i, IF f[i] = FILL THEN 65535 - OtherSum(f, Len(f)) - 8 - KL(i) ELSE f[i])]
HdrSeqs == { Resolve(f) : f \in { g \in UNION { [1..n -> ValLens] : n \in 0..MaxPairs } : NFill(g) <= 1 } }
DefHdrs == <<Pair(1, DefVal)>>

Shapes(c) == IF KvCodec(c)
             THEN [class : ClassLens, hdrs : HdrSeqs, body : BodyLens, svc : {0}]
             ELSE [class : {0}, hdrs : {<<>>}, body : BodyLens, svc : SvcLens]
B(x) == IF x THEN 1 ELSE 0
OffDefault(c, s) == IF KvCodec(c) THEN B(s.class # DefClass) + B(s.hdrs # DefHdrs) + B(s.body # DefBody)
                    ELSE B(s.body # DefBody) + B(s.svc # DefSvc)

NoOut == [kind |-> "none"]

Init == /\ codec \in Codecs /\ dir \in Dirs /\ HasDir(codec, dir) /\ fill \in Fills
        /\ recvd \in Shapes(codec)
        /\ \A i \in DOMAIN recvd.hdrs : recvd.hdrs[i].vl >= 0
        /\ RepresentableIn(recvd, LayoutOf(codec, dir))
        /\ OffDefault(codec, recvd) + B(fill # "rand") <= StarK
        /\ content = recvd /\ touched = FALSE /\ dirtyH = FALSE /\ dirtyB = FALSE
        /\ rawtok = "orig" /\ rbuf = "orig" /\ out = NoOut /\ hist = <<>>

(* ---- API calls (parameterised: the trace specification applies the same actions with recorded arguments) ---- *)
DoSet(k, vl) ==
  /\ vl >= 0
  /\ IF KvCodec(codec)
     THEN /\ content' = [content EXCEPT !.hdrs = SetPair(@, k, vl)]
          /\ touched' = TRUE
          /\ dirtyH' = IF "ForgetDirtyHeader" \in Defects THEN dirtyH ELSE TRUE
     ELSE UNCHANGED <<content, touched, dirtyH>>        \* derived routing view: no wire representation
  /\ UNCHANGED <<codec, dir, fill, recvd, dirtyB, rawtok, rbuf, out>>

DoDel(k) ==
  /\ IF KvCodec(codec) /\ HasKey(content.hdrs, k)
     THEN /\ content' = [content EXCEPT !.hdrs = DelPair(@, k)]
          /\ touched' = TRUE
          /\ dirtyH' = IF "ForgetDirtyHeader" \in Defects THEN dirtyH ELSE TRUE
     ELSE UNCHANGED <<content, touched, dirtyH>>
  /\ UNCHANGED <<codec, dir, fill, recvd, dirtyB, rawtok, rbuf, out>>

DoGet(k) == UNCHANGED <<codec, dir, fill, recvd, content, touched, dirtyH, dirtyB, rawtok, rbuf, out>>

DoBody(n) ==
  /\ content' = [content EXCEPT !.body = n]
  /\ touched' = TRUE
  /\ dirtyB' = IF "ForgetDirtyBody" \in Defects THEN dirtyB ELSE TRUE
  /\ UNCHANGED <<codec, dir, fill, recvd, dirtyH, rawtok, rbuf, out>>

DoSameBody == UNCHANGED <<codec, dir, fill, recvd, content, touched, dirtyH, dirtyB, rawtok, rbuf, out>>   \* SetData(GetData())

(* the connection reads the next bytes into the same read buffer *)
DoScribble ==
  /\ rbuf' = "garbage"
  /\ rawtok' = IF "AliasReadBuffer" \in Defects THEN "garbage" ELSE rawtok
  /\ out' = IF "AliasReadBuffer" \in Defects /\ out.kind = "raw" THEN [out EXCEPT !.bytes = "garbage"] ELSE out
  /\ UNCHANGED <<codec, dir, fill, recvd, content, touched, dirtyH, dirtyB>>

(* the connection has written the buffer, gives it back to the pool and the pool hands the memory to someone else *)
DoReuse ==
  /\ out.kind # "none"
  /\ rawtok' = IF "NoRetain" \in Defects /\ out.kind = "raw" THEN "garbage" ELSE rawtok
  /\ UNCHANGED <<codec, dir, fill, recvd, content, touched, dirtyH, dirtyB, rbuf, out>>

DoFwd(idc) ==
  /\ LET fast == ~dirtyH /\ ~dirtyB
         mk(kind, bytes, c, lens) == [kind |-> kind, bytes |-> bytes, content |-> c, lens |-> lens, id |-> idc, want |-> content]
     IN out' = IF fast THEN mk("raw", rawtok, recvd, Lens(recvd))
               ELSE IF Representable(content) THEN mk("enc", "fresh", content, Lens(content))
               ELSE IF "Uint16Truncate" \in Defects THEN mk("enc", "fresh", content, TruncIn(content, Lay))
               ELSE mk("refused", "fresh", content, Lens(content))
  /\ UNCHANGED <<codec, dir, fill, recvd, content, touched, dirtyH, dirtyB, rawtok, rbuf>>

(* ---- bounded enumeration of behaviours ---- *)
Count(kind) == Cardinality({i \in DOMAIN hist : hist[i].op = kind})
NMut == Cardinality({i \in DOMAIN hist : hist[i].op \in {"set", "del", "get", "body", "samebody"}})
Rec(op, k, n, id) == [op |-> op, k |-> k, n |-> n, id |-> id]
Log(r) == hist' = Append(hist, r)

FillVal(k, target) == target - Block(Without(content.hdrs, k)) - 8 - KL(k)

Next ==
  /\ Len(hist) < MaxOps
  /\ \/ /\ NMut < MaxMut
        /\ \/ \E k \in 1..(MaxPairs + 1), vl \in MutVals : DoSet(k, vl) /\ Log(Rec("set", k, vl, ""))
           \/ \E k \in 1..(MaxPairs + 1), t \in FillTargets :
                 KvCodec(codec) /\ FillVal(k, t) >= 0 /\ DoSet(k, FillVal(k, t)) /\ Log(Rec("set", k, FillVal(k, t), ""))
           \/ \E k \in 1..(MaxPairs + 1) : DoDel(k) /\ Log(Rec("del", k, 0, ""))
           \/ DoGet(1) /\ Log(Rec("get", 1, 0, ""))
           \/ \E n \in MutBodies : DoBody(n) /\ Log(Rec("body", 0, n, ""))
           \/ DoSameBody /\ Log(Rec("samebody", 0, 0, ""))
     \/ Count("scribble") = 0 /\ DoScribble /\ Log(Rec("scribble", 0, 0, ""))
     \/ Count("reuse") = 0 /\ DoReuse /\ Log(Rec("reuse", 0, 0, ""))
     \/ /\ Count("fwd") < MaxFwd
        /\ \E idc \in (IF Count("fwd") = 0 THEN IdFirst ELSE IdSecond) : DoFwd(idc) /\ Log(Rec("fwd", 0, 0, idc))

Spec == Init /\ [][Next]_vars

(* ---- the property ---- *)
Faithful ==
  out.kind # "none" =>
    /\ out.kind = "raw" => out.bytes = "orig"                              \* byte identity, also after the read buffer / pool memory is reused
    /\ (~touched /\ out.want = recvd) => out.kind = "raw"                  \* unmodified frame: forwarded verbatim
    /\ out.kind = "refused" => ~Representable(out.want)                    \* refused only when it cannot be represented
    /\ out.kind # "refused" => /\ out.content = out.want                   \* decodes to exactly the (modified) content
                               /\ out.lens = Lens(out.want)                \* every length field is the true length
                               /\ Representable(out.want)

LastIsFwd == hist # <<>> /\ hist[Len(hist)].op = "fwd"
(* a behaviour is emitted when it ends in a forward and cannot be extended to a longer one that ends in a forward *)
EmitCase == (LastIsFwd /\ (Count("fwd") = MaxFwd \/ Len(hist) = MaxOps)) =>
              PrintT(<<"CASE", ToJson([codec |-> codec, dir |-> dir, fill |-> fill, lay |-> Lay, shape |-> recvd, ops |-> hist])>>)
====
