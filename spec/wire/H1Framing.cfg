CONSTANTS
  Defects = {}
SPECIFICATION SpecStar
INVARIANTS ReqFidelity RespFidelity TruncationNotDelivered NoLeak NoRequestAfterClose EndExact EmitCase
CHECK_DEADLOCK FALSE
