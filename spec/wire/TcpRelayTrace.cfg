CONSTANTS
  Sizes = {}
  MaxOps = 0
  Defects = {}
SPECIFICATION TraceSpec
POSTCONDITION Accepted
CHECK_DEADLOCK FALSE
