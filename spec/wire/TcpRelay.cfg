CONSTANTS
  Sizes = {1, 4096, 70000}
  MaxOps = 4
  Defects = {}
SPECIFICATION Spec
INVARIANTS InOrderPrefix NothingLostBeforeEof EmitCase
CHECK_DEADLOCK FALSE
