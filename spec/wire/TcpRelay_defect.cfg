CONSTANTS
  Sizes = {1, 4096}
  MaxOps = 3
  Defects = {"CloseNoFlush"}
SPECIFICATION Spec
INVARIANTS InOrderPrefix NothingLostBeforeEof
CHECK_DEADLOCK FALSE
