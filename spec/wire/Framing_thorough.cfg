CONSTANTS
  MaxFrames = 3
  Lens = {3, 5}
  H = 3
  Defects = {}
SPECIFICATION Spec
INVARIANTS InOrderOnce NoEarly Prompt Consumed NoError SameForEveryCut EmitCase
CHECK_DEADLOCK FALSE
