---- MODULE CodecTrace ----
(* Trace validation of the real xprotocol codecs against Codec (C01, binding B1/B2).
   Events (driver harness/cmd/c01, one run per behaviour TLC enumerated from Codec):
     recv{codec,dir,fill,content,framelen,consumed,err,deq,idok,panic}
                           the frame the driver built from the case (layout from CodecLayout) was handed to the real
                           Decode inside a read buffer that continues with the next frame (acts as TraceReset)
     mut{op,k,n,panic}     header/body call made through the api.XFrame / HeaderMap interface
     scribble{outsame}     the read buffer was overwritten; outsame = buffers already handed out by Encode still hold the same bytes
     reuse                 handed-out buffers were released as the connection does after the write; pool memory re-served
     fwd{id,err,total,lens,lfok,ident,semeq,refeq,idok,panic}
                           SetRequestId + Encode: ident = output equals the received bytes except the id field;
                           semeq = ident, or (tars) a tars peer reads the same packet from both;
                           refeq = output equals the reference encoding of the driver's shadow content;
                           lens = the length fields found in the output, lfok = they add up to the output's size *)
EXTENDS Codec, VTrace

tvars == <<vars, l>>

TraceInit == /\ l = 1 /\ codec = "bolt" /\ dir = "req" /\ fill = "rand"
             /\ recvd = [class |-> 0, hdrs |-> <<>>, body |-> 0, svc |-> 0] /\ content = recvd
             /\ touched = FALSE /\ dirtyH = FALSE /\ dirtyB = FALSE /\ rawtok = "orig" /\ rbuf = "orig"
             /\ out = NoOut /\ hist = <<>>

FrameLen(c, lay) == lay.fixed + c.class + Block(c.hdrs) + c.body

TRecv == /\ IsEvent("recv")
         /\ codec' = Ev.codec /\ dir' = Ev.dir /\ fill' = Ev.fill
         /\ recvd' = Ev.content /\ content' = Ev.content
         /\ touched' = FALSE /\ dirtyH' = FALSE /\ dirtyB' = FALSE /\ rawtok' = "orig" /\ rbuf' = "orig"
         /\ out' = NoOut /\ hist' = <<>>
         /\ Expect(~Ev.panic, "decode-panic")
         /\ Expect(Ev.err = "", "well-formed-frame-not-decoded")
         /\ Expect(Ev.err # "" \/ Ev.consumed = Ev.framelen, "decode-consumed-wrong-length")
         /\ Expect(Ev.err # "" \/ Ev.deq, "decoded-content-differs")
         /\ Expect(Ev.err # "" \/ Ev.idok, "decoded-request-id-differs")
         /\ Expect(LayoutOf(Ev.codec, Ev.dir).kind \notin {"kv", "dubbo"}
                     \/ Ev.framelen = FrameLen(Ev.content, LayoutOf(Ev.codec, Ev.dir)), "driver-frame-length")

TMut == /\ IsEvent("mut")
        /\ Expect(~Ev.panic, "mutator-panic")
        /\ \/ Ev.op = "set" /\ DoSet(Ev.k, Ev.n)
           \/ Ev.op = "del" /\ DoDel(Ev.k)
           \/ Ev.op = "get" /\ DoGet(Ev.k)
           \/ Ev.op = "body" /\ DoBody(Ev.n)
           \/ Ev.op = "samebody" /\ DoSameBody
        /\ UNCHANGED hist

TScribble == /\ IsEvent("scribble")
             /\ DoScribble
             /\ Expect(Ev.outsame, "encoded-frame-changed-by-read-buffer-reuse")
             /\ UNCHANGED hist

TReuse == /\ IsEvent("reuse") /\ DoReuse /\ UNCHANGED hist

TFwd == /\ IsEvent("fwd")
        /\ DoFwd(Ev.id)
        /\ UNCHANGED hist
        /\ Expect(~Ev.panic, "encode-panic")
        /\ LET o == out' IN
             IF Ev.err # ""
             THEN Expect(o.kind = "refused", "representable-frame-refused")
             ELSE /\ Expect(o.kind # "refused", "unrepresentable-frame-not-refused")
                  /\ Expect(Ev.idok, "request-id-not-rewritten")
                  /\ Expect(o.kind # "raw" \/ Ev.ident, "unmodified-frame-not-byte-identical")
                  /\ Expect(o.kind # "raw" \/ Ev.semeq, "unmodified-frame-content-differs")
                  /\ Expect(o.kind = "refused" \/ Ev.lfok, "length-fields-inconsistent")
                  /\ Expect(o.kind = "refused" \/ Ev.lens = [class |-> o.lens.class, hdr |-> o.lens.hdr, body |-> o.lens.body],
                            "length-field-not-true-length")
                  /\ Expect(o.kind # "enc" \/ Ev.refeq, "modified-frame-encodes-to-different-content")

TraceNext == TRecv \/ TMut \/ TScribble \/ TReuse \/ TFwd
TraceSpec == TraceInit /\ [][TraceNext]_tvars
====
