CONSTANTS
  Codecs = {}
  Dirs = {}
  ClassLens = {}
  ValLens = {}
  BodyLens = {}
  SvcLens = {}
  DefClass = 0
  DefVal = 0
  DefBody = 0
  DefSvc = 0
  StarK = 0
  MaxPairs = 0
  Fills = {}
  MutVals = {}
  MutBodies = {}
  FillTargets = {}
  IdFirst = {}
  IdSecond = {}
  MaxMut = 0
  MaxFwd = 0
  MaxOps = 0
  Defects = {}
SPECIFICATION TraceSpec
POSTCONDITION Accepted
CHECK_DEADLOCK FALSE
