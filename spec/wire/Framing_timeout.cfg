CONSTANTS
  MaxFrames = 2
  Lens = {3}
  H = 3
  Preface = 0
  Peek = 0
  MaxTimeouts = 1
  Priors = {0, 1, 2}
  DispatchBound = 2
  Defects = {}
SPECIFICATION Spec
INVARIANTS InOrderOnce NoEarly Prompt Consumed PrefaceOnce NoError NoByteLost LoopUntilDry SameForEveryCut EmitCase
CHECK_DEADLOCK FALSE
