---- MODULE Framing ----
(* Message extraction from a byte stream that arrives in arbitrary chunks (property C07).
   Shape of the implementation:
     network/connection.go doRead/onRead   : a chunk is appended to the connection's readBuffer   (Feed)
     stream/xprotocol/conn.go Dispatch      : loop { Decode(buffer) } until empty / need-more / error (Decode)
     <proto>/protocol.go Decode + decoder.go: header known after H bytes; (nil,nil) WITHOUT draining when
                                              fewer bytes than the frame length are buffered; otherwise Drain
                                              exactly the frame and hand it to the stream layer
   The byte stream is the concatenation of `frames` (their lengths); a position is a byte offset.
   A "model byte" is a zone of a concrete frame (first byte | up to inside the length field | up to the end of
   the fixed header | body but the last byte | last byte), so that the chunkings TLC enumerates are the
   combinations of cut classes of DESIGN C07; the Go driver maps zone ends to concrete offsets per protocol.

   Defects (named ways this design goes wrong; TLC must reject each):
     "OffByOne"       need-more test passes one byte early (`<` vs `<=`)
     "DrainHeader"    Drain of the header length only
     "ConsumePartial" a need-more answer drops the bytes seen so far
     "PrefaceFlagEarly" the connection preface is marked as read before it was complete
   Connection preface (HTTP/2: the fixed 24-byte client preface, protocol/http2/codec.go serverCodec.Decode +
   MFramer.ReadPreface): when Preface > 0 the stream starts with a unit of that many bytes which the decoder
   must consume exactly once before the first frame; a need-more answer on it consumes nothing and changes
   no decoder state (`pre`). Its model bytes are the zones first byte | middle | last byte - 1 | last byte.
   Transport under the read buffer (network/connection.go doRead, mtls/conn.go): a read may end because the read
   deadline expired (Timeout); that is a normal event on an idle connection: the bytes the transport had taken
   off the wire so far are delivered with it, nothing is lost, buffer and decoder state stay as they are.
   Peek = 1 models the wrapper of a TLS-inspector listener serving a plain-text client (mtls.Conn): the first byte
   of the connection is peeked off the wire before the read loop starts and is handed out in front of the data
   of the first Read - also when that Read ends with the deadline error.
     "ShortCountAfterTimeout" a read that ends with the deadline error does not account for the bytes it took
   Capacity of the read buffer (connection.go startReadLoop / netpoll: "shrink the read buffer" after a timed-out
   read): the buffer grows while frames larger than its default size pass (`prior` = size class of a frame that was
   delivered and fully consumed BEFORE the behaviour starts: 0 small, 1 larger than the default buffer, 2 several
   times larger; `cap` = capacity class now). A read that times out without data gives a grown buffer back ONLY IF
   IT IS EMPTY: capacity may change, content may not.
     "ShrinkDropsBufferedBytes" the shrink after a timed-out read frees a buffer that still holds unconsumed bytes *)
EXTENDS Integers, Sequences, FiniteSets, TLC, Json

CONSTANTS MaxFrames,  \* frames per stream: 1..MaxFrames
          Lens,       \* admissible frame lengths (model bytes), all >= H
          H,          \* bytes needed before the frame length is known (fixed header)
          Preface,    \* length of the connection preface (0 = the protocol has none)
          Peek,       \* bytes the transport wrapper peeks off the wire before the first Read (0 | 1)
          MaxTimeouts,\* read deadlines that may expire during one behaviour
          Priors,     \* size classes of the frame consumed before the behaviour starts (buffer capacity history)
          Defects

VARIABLES frames,  \* sequence of frame lengths: the input stream
          fed,     \* bytes read from the socket so far
          cons,    \* bytes drained from the read buffer so far (buffer = stream[cons+1 .. fed])
          out,     \* what was handed to the stream layer: sequence of [start, len] byte ranges
          pc,      \* "read" | "dispatch" | "error"
          pre,     \* decoder flag: connection preface "pending" | "done"
          held,    \* bytes the transport took off the wire but has not yet appended to the read buffer
          lost,    \* bytes taken off the wire that will never reach the read buffer (must stay 0)
          pauses,  \* history: offsets (bytes sent so far) at which a read deadline expired
          prior,   \* size class of the frame that passed before (constant during a behaviour)
          cap,     \* capacity class of the read buffer: 0 = default size, > 0 = grown
          cuts     \* history: offsets at which the stream was cut (for case emission)
vars == <<frames, fed, cons, out, pc, pre, held, lost, pauses, prior, cap, cuts>>

(* ---------------- stream geometry (shared with the trace spec) ---------------- *)
RECURSIVE Off(_, _)
Off(fs, k) == IF k = 0 THEN 0 ELSE fs[k] + Off(fs, k - 1)      \* end offset of frame k
Total(fs) == Off(fs, Len(fs))
Complete(fs, n) ==                                              \* number of frames wholly inside the first n bytes
  LET ks == { k \in 0..Len(fs) : Off(fs, k) <= n } IN CHOOSE k \in ks : \A j \in ks : j <= k
FrameAt(fs, pos) ==                                             \* frame starting at offset pos, 0 if none
  LET is == { i \in 1..Len(fs) : Off(fs, i - 1) = pos } IN IF is = {} THEN 0 ELSE CHOOSE i \in is : TRUE
Range(fs, i) == [start |-> Off(fs, i - 1), len |-> fs[i]]

(* ---------------- what C07 demands, as predicates on (frames, fed, cons, out) ---------------- *)
\* the frames come out in order, each exactly once, with exactly their own bytes
InOrderOnceOK(fs, o) == /\ Len(o) <= Len(fs)
                        /\ \A i \in 1..Len(o) : o[i] = Range(fs, i)
\* nothing is handed over before its last byte arrived
NoEarlyOK(fs, f, o)  == Len(o) <= Complete(fs, f)
\* when Dispatch returns every complete frame has been handed over
PromptOK(fs, f, o)   == Len(o) = Complete(fs, f)
\* an incomplete frame consumes nothing; complete frames are consumed entirely
ConsumedOK(us, f, c) == c = Off(us, Complete(us, f))

(* ---------------- behaviour ---------------- *)
Init == /\ \E n \in 1..MaxFrames : frames \in [1..n -> Lens]
        /\ fed = 0 /\ cons = 0 /\ out = <<>> /\ pc = "read" /\ cuts = <<>>
        /\ pre = IF Preface > 0 THEN "pending" ELSE "done"
        /\ held = 0 /\ lost = 0 /\ pauses = <<>>
        /\ prior \in Priors /\ cap = prior

Sent == fed + held + lost                                 \* bytes the peer has written so far
StreamLen == Preface + Total(frames)
FFed  == IF fed > Preface THEN fed - Preface ELSE 0      \* bytes of the frame part read so far
FCons == cons - Preface                                  \* bytes of the frame part drained so far

Feed(n) == /\ pc = "read" /\ Sent + n <= StreamLen
           /\ cuts' = Append(cuts, Sent + n)
           /\ IF Peek = 1 /\ Sent = 0 /\ n = 1
              THEN /\ held' = 1 /\ fed' = fed /\ pc' = "read"     \* peeked; the first Read waits for more
              ELSE /\ fed' = fed + held + n /\ held' = 0 /\ pc' = "dispatch"
           /\ UNCHANGED <<frames, cons, out, pre, lost, pauses, prior, cap>>

(* the read deadline expires while the read loop waits for the peer *)
Buffered == fed - cons

Timeout == /\ pc = "read" /\ Len(pauses) < MaxTimeouts /\ Sent < StreamLen
           /\ ~(Peek = 1 /\ Sent = 0)                  \* no deadline is armed while the inspector peeks
           /\ pauses' = Append(pauses, Sent)
           /\ IF held > 0
              THEN \* the timed-out read still delivers what the transport held: handled like any read
                   /\ IF "ShortCountAfterTimeout" \in Defects
                      THEN fed' = fed /\ lost' = lost + held
                      ELSE fed' = fed + held /\ lost' = lost
                   /\ UNCHANGED <<cons, cap>>
              ELSE \* nothing read: the read loop may give a grown buffer back
                   /\ fed' = fed
                   /\ IF cap > 0 /\ Buffered = 0
                      THEN cap' = 0 /\ UNCHANGED <<cons, lost>>                       \* legitimate shrink
                      ELSE IF cap > 0 /\ "ShrinkDropsBufferedBytes" \in Defects
                      THEN cap' = 0 /\ cons' = fed /\ lost' = lost + Buffered        \* content freed with the buffer
                      ELSE UNCHANGED <<cons, lost, cap>>
           /\ held' = 0
           /\ pc' = IF fed' > fed THEN "dispatch" ELSE "read"
           /\ UNCHANGED <<frames, out, pre, prior, cuts>>

Decode == /\ pc = "dispatch"
          /\ LET i == IF lost > 0 THEN 0 ELSE FrameAt(frames, FCons) IN   \* after a loss the buffer is not the stream
             IF Buffered <= 0 THEN                         \* buffer empty: Dispatch returns
                  pc' = "read" /\ UNCHANGED <<cons, out, pre>>
             ELSE IF pre = "pending" THEN
                  IF Buffered < Preface THEN               \* need more: nothing consumed, no state changed
                       /\ pc' = "read" /\ UNCHANGED <<cons, out>>
                       /\ pre' = IF "PrefaceFlagEarly" \in Defects THEN "done" ELSE "pending"
                  ELSE /\ cons' = cons + Preface /\ pre' = "done" /\ pc' = "dispatch" /\ out' = out
             ELSE IF i = 0 THEN                            \* decoder looks at bytes that are no frame start
                  pc' = "error" /\ UNCHANGED <<cons, out, pre>>
             ELSE LET L == frames[i]
                      need == IF "OffByOne" \in Defects THEN L - 1 ELSE L
                  IN IF Buffered < H \/ Buffered < need THEN    \* need more data
                          /\ pc' = "read" /\ out' = out /\ pre' = pre
                          /\ cons' = IF "ConsumePartial" \in Defects THEN fed ELSE cons
                     ELSE /\ out' = Append(out, [start |-> FCons, len |-> L])
                          /\ cons' = cons + (IF "DrainHeader" \in Defects THEN H ELSE L)
                          /\ pc' = "dispatch" /\ pre' = pre
          /\ UNCHANGED <<frames, fed, cuts, held, lost, pauses, prior, cap>>

Next == Decode \/ Timeout \/ \E n \in 1..StreamLen : Feed(n)
Spec == Init /\ [][Next]_vars

(* ---------------- properties ---------------- *)
InOrderOnce == InOrderOnceOK(frames, out)
NoEarly     == NoEarlyOK(frames, FFed, out)
Prompt      == pc = "read" => PromptOK(frames, FFed, out)
Consumed    == pc = "read" => IF fed < Preface THEN cons = 0 ELSE ConsumedOK(frames, FFed, FCons)
PrefaceOnce == (pre = "pending" => cons = 0 /\ out = <<>>) /\ (pre = "done" => cons >= Preface)
NoError     == pc # "error"
NoByteLost  == lost = 0 /\ held <= Peek /\ lost + fed + held <= StreamLen
\* segmentation independence: at the end of the stream the output is the input, whatever the cuts were
SameForEveryCut == (pc = "read" /\ fed = StreamLen) => out = [i \in 1..Len(frames) |-> Range(frames, i)]

(* one CASE per complete chunking of a frame vector *)
EmitCase == (pc = "read" /\ fed = StreamLen) => PrintT(<<"CASE", ToJson([frames |-> frames, cuts |-> cuts, pre |-> Preface, pauses |-> pauses, prior |-> prior])>>)
====
