---- MODULE Framing ----
(* Message extraction from a byte stream that arrives in arbitrary chunks (property C07).
   Shape of the implementation:
     network/connection.go doRead/onRead   : a chunk is appended to the connection's readBuffer   (Feed)
     stream/xprotocol/conn.go Dispatch      : loop { Decode(buffer) } until empty / need-more / error (Decode)
     <proto>/protocol.go Decode + decoder.go: header known after H bytes; (nil,nil) WITHOUT draining when
                                              fewer bytes than the frame length are buffered; otherwise Drain
                                              exactly the frame and hand it to the stream layer
   The byte stream is the concatenation of `frames` (their lengths); a position is a byte offset.
   A "model byte" is a zone of a concrete frame (first byte | up to inside the length field | up to the end of
   the fixed header | body but the last byte | last byte), so that the chunkings TLC enumerates are the
   combinations of cut classes of DESIGN C07; the Go driver maps zone ends to concrete offsets per protocol.

   Defects (named ways this design goes wrong; TLC must reject each):
     "OffByOne"       need-more test passes one byte early (`<` vs `<=`)
     "DrainHeader"    Drain of the header length only
     "ConsumePartial" a need-more answer drops the bytes seen so far
     "PrefaceFlagEarly" the connection preface is marked as read before it was complete
   Connection preface (HTTP/2: the fixed 24-byte client preface, protocol/http2/codec.go serverCodec.Decode +
   MFramer.ReadPreface): when Preface > 0 the stream starts with a unit of that many bytes which the decoder
   must consume exactly once before the first frame; a need-more answer on it consumes nothing and changes
   no decoder state (`pre`). Its model bytes are the zones first byte | middle | last byte - 1 | last byte.
   Transport under the read buffer (network/connection.go doRead, mtls/conn.go): a read may end because the read
   deadline expired (Timeout); that is a normal event on an idle connection: the bytes the transport had taken
   off the wire so far are delivered with it, nothing is lost, buffer and decoder state stay as they are.
   Peek = 1 models the wrapper of a TLS-inspector listener serving a plain-text client (mtls.Conn): the first byte
   of the connection is peeked off the wire before the read loop starts and is handed out in front of the data
   of the first Read - also when that Read ends with the deadline error.
     "ShortCountAfterTimeout" a read that ends with the deadline error does not account for the bytes it took
   Capacity of the read buffer (connection.go startReadLoop / netpoll: "shrink the read buffer" after a timed-out
   read): the buffer grows while frames larger than its default size pass (`prior` = size class of a frame that was
   delivered and fully consumed BEFORE the behaviour starts: 0 small, 1 larger than the default buffer, 2 several
   times larger; `cap` = capacity class now). A read that times out without data gives a grown buffer back ONLY IF
   IT IS EMPTY: capacity may change, content may not.
     "ShrinkDropsBufferedBytes" the shrink after a timed-out read frees a buffer that still holds unconsumed bytes
   The Dispatch loop (stream/xprotocol/conn.go, stream/http2/stream.go, stream/http/stream.go Dispatch): ONE call per
   read that brought bytes; nothing calls it again until the next read brings bytes. It therefore has to go round
   until the buffer holds no complete unit any more - however many units one read made available. `handled` counts
   the units the call in progress has extracted; the number of frames that become complete with one read (Burst) is
   a dimension of the cases: 0, 1, a few, and MORE THAN ANY PER-CALL BOUND an implementation might have (in the model:
   DispatchBound = 2, bursts of 3; the driver realises the class with several hundred / a thousand frames per read).
     "BoundedFramesPerDispatch" a call handles at most DispatchBound units and returns although a complete frame is
                                still buffered: that frame waits for bytes that may never come *)
EXTENDS Integers, Sequences, FiniteSets, TLC, Json

CONSTANTS MaxFrames,  \* frames per stream: 1..MaxFrames
          Lens,       \* admissible frame lengths (model bytes), all >= H
          H,          \* bytes needed before the frame length is known (fixed header)
          Preface,    \* length of the connection preface (0 = the protocol has none)
          Peek,       \* bytes the transport wrapper peeks off the wire before the first Read (0 | 1)
          MaxTimeouts,\* read deadlines that may expire during one behaviour
          Priors,     \* size classes of the frame consumed before the behaviour starts (buffer capacity history)
          DispatchBound, \* units one Dispatch call handles under defect "BoundedFramesPerDispatch"
          Defects

VARIABLES frames,  \* sequence of frame lengths: the input stream
          fed,     \* bytes read from the socket so far
          cons,    \* bytes drained from the read buffer so far (buffer = stream[cons+1 .. fed])
          out,     \* what was handed to the stream layer: sequence of [start, len] byte ranges
          pc,      \* "read" | "dispatch" | "error"
          pre,     \* decoder flag: connection preface "pending" | "done"
          held,    \* bytes the transport took off the wire but has not yet appended to the read buffer
          lost,    \* bytes taken off the wire that will never reach the read buffer (must stay 0)
          pauses,  \* history: offsets (bytes sent so far) at which a read deadline expired
          prior,   \* size class of the frame that passed before (constant during a behaviour)
          cap,     \* capacity class of the read buffer: 0 = default size, > 0 = grown
          cuts,    \* history: offsets at which the stream was cut (for case emission)
          handled  \* units extracted by the Dispatch call in progress (0 while the read loop waits)
vars == <<frames, fed, cons, out, pc, pre, held, lost, pauses, prior, cap, cuts, handled>>

(* ---------------- stream geometry (shared with the trace spec) ----------------
   Predicates talk about END OFFSETS: es[k] = offset just behind frame k (strictly increasing). The model derives
   them from the lengths (Ends); the trace spec has them recorded and checks them against the recorded lengths
   (EndsOf) - nothing is trusted, and a stream of a thousand frames costs O(n) per judged step. *)
RECURSIVE Off(_, _)
Off(fs, k) == IF k = 0 THEN 0 ELSE fs[k] + Off(fs, k - 1)      \* end offset of frame k
Total(fs) == Off(fs, Len(fs))
Ends(fs) == [k \in 1..Len(fs) |-> Off(fs, k)]
EndsOf(fs, es) == /\ Len(es) = Len(fs)
                  /\ \A k \in 1..Len(fs) : fs[k] >= 1 /\ es[k] = (IF k = 1 THEN 0 ELSE es[k - 1]) + fs[k]
EndAt(es, k) == IF k = 0 THEN 0 ELSE es[k]
Complete(es, n) == Cardinality({ k \in 1..Len(es) : es[k] <= n })  \* number of frames wholly inside the first n bytes
\* the same number, computed from an earlier point of the same stream: k0 = Complete(es, n0), n0 <= n; every frame has
\* at least one byte, so at most n - n0 further frames can have become complete (the trace spec's O(chunk) form;
\* its agreement with the definition is an invariant of the model: CompleteFromAgrees)
CompleteFrom(es, k0, n0, n) ==
  LET hi == IF k0 + (n - n0) < Len(es) THEN k0 + (n - n0) ELSE Len(es)
  IN k0 + Cardinality({ k \in (k0 + 1)..hi : es[k] <= n })
FrameAt(es, pos) ==                                             \* frame starting at offset pos, 0 if none
  LET is == { i \in 1..Len(es) : EndAt(es, i - 1) = pos } IN IF is = {} THEN 0 ELSE CHOOSE i \in is : TRUE
Range(es, i) == [start |-> EndAt(es, i - 1), len |-> es[i] - EndAt(es, i - 1)]

(* ---------------- what C07 demands, as predicates on (end offsets, fed, cons, out) ---------------- *)
\* the frames come out in order, each exactly once, with exactly their own bytes
\* (general form: `o` is what came out behind the first `base` frames, which came out as they should)
InOrderOnceFromOK(es, base, o) == /\ base + Len(o) <= Len(es)
                                  /\ \A i \in 1..Len(o) : o[i] = Range(es, base + i)
InOrderOnceOK(es, o) == InOrderOnceFromOK(es, 0, o)
\* nothing is handed over before its last byte arrived
NoEarlyOK(es, f, o)  == Len(o) <= Complete(es, f)
\* when Dispatch returns every complete frame has been handed over
PromptOK(es, f, o)   == Len(o) = Complete(es, f)
\* an incomplete frame consumes nothing; complete frames are consumed entirely
ConsumedOK(us, f, c) == c = EndAt(us, Complete(us, f))

(* ---------------- behaviour ---------------- *)
Init == /\ \E n \in 1..MaxFrames : frames \in [1..n -> Lens]
        /\ fed = 0 /\ cons = 0 /\ out = <<>> /\ pc = "read" /\ cuts = <<>>
        /\ pre = IF Preface > 0 THEN "pending" ELSE "done"
        /\ held = 0 /\ lost = 0 /\ pauses = <<>>
        /\ prior \in Priors /\ cap = prior
        /\ handled = 0

E == Ends(frames)                                        \* end offsets of the frames of this behaviour
Sent == fed + held + lost                                 \* bytes the peer has written so far
StreamLen == Preface + Total(frames)
FFed  == IF fed > Preface THEN fed - Preface ELSE 0      \* bytes of the frame part read so far
FCons == cons - Preface                                  \* bytes of the frame part drained so far

(* one read that brings bytes is followed by ONE Dispatch call *)
Feed(n) == /\ pc = "read" /\ Sent + n <= StreamLen
           /\ cuts' = Append(cuts, Sent + n)
           /\ IF Peek = 1 /\ Sent = 0 /\ n = 1
              THEN /\ held' = 1 /\ fed' = fed /\ pc' = "read"     \* peeked; the first Read waits for more
              ELSE /\ fed' = fed + held + n /\ held' = 0 /\ pc' = "dispatch"
           /\ handled' = 0
           /\ UNCHANGED <<frames, cons, out, pre, lost, pauses, prior, cap>>

(* the read deadline expires while the read loop waits for the peer *)
Buffered == fed - cons

Timeout == /\ pc = "read" /\ Len(pauses) < MaxTimeouts /\ Sent < StreamLen
           /\ ~(Peek = 1 /\ Sent = 0)                  \* no deadline is armed while the inspector peeks
           /\ pauses' = Append(pauses, Sent)
           /\ IF held > 0
              THEN \* the timed-out read still delivers what the transport held: handled like any read
                   /\ IF "ShortCountAfterTimeout" \in Defects
                      THEN fed' = fed /\ lost' = lost + held
                      ELSE fed' = fed + held /\ lost' = lost
                   /\ UNCHANGED <<cons, cap>>
              ELSE \* nothing read: the read loop may give a grown buffer back - and does NOT call Dispatch
                   /\ fed' = fed
                   /\ IF cap > 0 /\ Buffered = 0
                      THEN cap' = 0 /\ UNCHANGED <<cons, lost>>                       \* legitimate shrink
                      ELSE IF cap > 0 /\ "ShrinkDropsBufferedBytes" \in Defects
                      THEN cap' = 0 /\ cons' = fed /\ lost' = lost + Buffered        \* content freed with the buffer
                      ELSE UNCHANGED <<cons, lost, cap>>
           /\ held' = 0
           /\ pc' = IF fed' > fed THEN "dispatch" ELSE "read"
           /\ handled' = 0
           /\ UNCHANGED <<frames, out, pre, prior, cuts>>

(* One round of the Dispatch loop. The call returns (pc' = "read") ONLY when the buffer is empty or its head is an
   incomplete unit; every other round extracts one unit and goes round again, without any bound on the rounds. *)
Decode == /\ pc = "dispatch"
          /\ LET i == IF lost > 0 THEN 0 ELSE FrameAt(E, FCons) IN   \* after a loss the buffer is not the stream
             IF "BoundedFramesPerDispatch" \in Defects /\ handled >= DispatchBound THEN
                  \* "enough work for one read event": the call returns whatever is still buffered
                  pc' = "read" /\ handled' = 0 /\ UNCHANGED <<cons, out, pre>>
             ELSE IF Buffered <= 0 THEN                    \* buffer empty: Dispatch returns
                  pc' = "read" /\ handled' = 0 /\ UNCHANGED <<cons, out, pre>>
             ELSE IF pre = "pending" THEN
                  IF Buffered < Preface THEN               \* need more: nothing consumed, no state changed
                       /\ pc' = "read" /\ handled' = 0 /\ UNCHANGED <<cons, out>>
                       /\ pre' = IF "PrefaceFlagEarly" \in Defects THEN "done" ELSE "pending"
                  ELSE /\ cons' = cons + Preface /\ pre' = "done" /\ pc' = "dispatch" /\ out' = out
                       /\ handled' = handled + 1
             ELSE IF i = 0 THEN                            \* decoder looks at bytes that are no frame start
                  pc' = "error" /\ UNCHANGED <<cons, out, pre, handled>>
             ELSE LET L == frames[i]
                      need == IF "OffByOne" \in Defects THEN L - 1 ELSE L
                  IN IF Buffered < H \/ Buffered < need THEN    \* need more data
                          /\ pc' = "read" /\ handled' = 0 /\ out' = out /\ pre' = pre
                          /\ cons' = IF "ConsumePartial" \in Defects THEN fed ELSE cons
                     ELSE /\ out' = Append(out, [start |-> FCons, len |-> L])
                          /\ cons' = cons + (IF "DrainHeader" \in Defects THEN H ELSE L)
                          /\ pc' = "dispatch" /\ pre' = pre
                          /\ handled' = handled + 1
          /\ UNCHANGED <<frames, fed, cuts, held, lost, pauses, prior, cap>>

Next == Decode \/ Timeout \/ \E n \in 1..StreamLen : Feed(n)
Spec == Init /\ [][Next]_vars

(* ---------------- properties ---------------- *)
InOrderOnce == InOrderOnceOK(E, out)
NoEarly     == NoEarlyOK(E, FFed, out)
Prompt      == pc = "read" => PromptOK(E, FFed, out)
Consumed    == pc = "read" => IF fed < Preface THEN cons = 0 ELSE ConsumedOK(E, FFed, FCons)
PrefaceOnce == (pre = "pending" => cons = 0 /\ out = <<>>) /\ (pre = "done" => cons >= Preface)
NoError     == pc # "error"
NoByteLost  == lost = 0 /\ held <= Peek /\ lost + fed + held <= StreamLen
\* the contract of the Dispatch loop, stated on the buffer: when the call has returned, the head of the buffer is
\* not a complete unit (nothing calls Dispatch again before new bytes arrive, and they may never arrive)
LoopUntilDry == (pc = "read" /\ lost = 0 /\ pre = "done") =>
                   LET i == FrameAt(E, FCons) IN i = 0 \/ Buffered < frames[i]
\* (the incremental count used by the trace specification is the count)
CompleteFromAgrees == \A n0 \in 0..FFed : CompleteFrom(E, Complete(E, n0), n0, FFed) = Complete(E, FFed)
\* segmentation independence: at the end of the stream the output is the input, whatever the cuts were
SameForEveryCut == (pc = "read" /\ fed = StreamLen) => out = [i \in 1..Len(frames) |-> Range(E, i)]

(* Burst: the largest number of frames that became complete with ONE read of this behaviour (a case dimension) *)
FrOff(c) == IF c > Preface THEN c - Preface ELSE 0
PerRead(j) == Complete(E, FrOff(cuts[j])) - Complete(E, FrOff(IF j = 1 THEN 0 ELSE cuts[j - 1]))
Burst == IF cuts = <<>> THEN 0
         ELSE LET bs == { PerRead(j) : j \in 1..Len(cuts) } IN CHOOSE b \in bs : \A x \in bs : x <= b

(* one CASE per complete chunking of a frame vector *)
EmitCase == (pc = "read" /\ fed = StreamLen) => PrintT(<<"CASE", ToJson([frames |-> frames, cuts |-> cuts, pre |-> Preface, pauses |-> pauses, prior |-> prior, burst |-> Burst])>>)
====
