---- MODULE FidelityHttpTrace ----
(* Trace validation of an in-process MOSN (HTTP listeners) against FidelityHttp.
   Events (driver):
     req{pair,method,uri,body,hdr,status,rbody,retry}   the request the client wrote (acts as TraceReset)
     seen{arrived,attempt,method,uri,bodylen,bodyeq,hdreq}   what the recording upstream received, one event per attempt
                                                  (arrived = FALSE: nothing came)
     resp{ok,status,bodyeq,hdreq}                 what the client received back *)
EXTENDS FidelityHttp, VTrace

tvars == <<vars, l>>
TraceInit == l = 1 /\ phase = "idle" /\ seen = <<>>
             /\ req = [uri |-> "", method |-> "", body |-> 0]

TReq == /\ IsEvent("req")
        /\ req' = [uri |-> Ev.uri, method |-> Ev.method, body |-> Ev.body] /\ phase' = "send" /\ seen' = <<>>

(* one event per upstream attempt (a retried request is seen more than once; every attempt must be faithful) *)
TSeen == /\ IsEvent("seen") /\ phase \in {"send", "seen"}
         /\ phase' = "seen" /\ seen' = Append(seen, [uri |-> Ev.uri, method |-> Ev.method, body |-> Ev.bodylen]) /\ UNCHANGED req
         /\ Expect(Ev.arrived, "request-not-forwarded")
         /\ Expect(~Ev.arrived \/ Ev.method = req.method, "method-changed")
         /\ Expect(~Ev.arrived \/ Ev.uri = req.uri, "request-uri-changed")
         /\ Expect(~Ev.arrived \/ Ev.bodyeq, "request-body-changed")
         /\ Expect(~Ev.arrived \/ Ev.hdreq, "request-headers-changed")

TResp == /\ IsEvent("resp") /\ phase = "seen"
         /\ phase' = "done" /\ UNCHANGED <<req, seen>>
         /\ Expect(Ev.ok, "no-response")
         /\ Expect(~Ev.ok \/ Ev.statuseq, "response-status-changed")
         /\ Expect(~Ev.ok \/ Ev.bodyeq, "response-body-changed")
         /\ Expect(~Ev.ok \/ Ev.hdreq, "response-headers-changed")

TraceNext == TReq \/ TSeen \/ TResp
TraceSpec == TraceInit /\ [][TraceNext]_tvars
====
