---- MODULE FidelityHttpTrace ----
(* Trace validation of an in-process MOSN (HTTP listeners) against FidelityHttp.
   Events (driver):
     req{pair,method,uri,body,hdr,status,rbody}   the request the client wrote (acts as TraceReset)
     seen{arrived,method,uri,bodyeq,hdreq,te}     what the recording upstream received (arrived = FALSE: nothing came)
     resp{ok,status,bodyeq,hdreq}                 what the client received back *)
EXTENDS FidelityHttp, VTrace

tvars == <<vars, l>>
TraceInit == l = 1 /\ phase = "idle" /\ seen = [uri |-> "", method |-> ""]
             /\ req = [uri |-> "", method |-> ""]

TReq == /\ IsEvent("req")
        /\ req' = [uri |-> Ev.uri, method |-> Ev.method] /\ phase' = "send" /\ seen' = [uri |-> "", method |-> ""]

TSeen == /\ IsEvent("seen") /\ phase = "send"
         /\ phase' = "seen" /\ seen' = [uri |-> Ev.uri, method |-> Ev.method] /\ UNCHANGED req
         /\ Expect(Ev.arrived, "request-not-forwarded")
         /\ Expect(~Ev.arrived \/ Ev.method = req.method, "method-changed")
         /\ Expect(~Ev.arrived \/ Ev.uri = req.uri, "request-uri-changed")
         /\ Expect(~Ev.arrived \/ Ev.bodyeq, "request-body-changed")
         /\ Expect(~Ev.arrived \/ Ev.hdreq, "request-headers-changed")

TResp == /\ IsEvent("resp") /\ phase = "seen"
         /\ phase' = "done" /\ UNCHANGED <<req, seen>>
         /\ Expect(Ev.ok, "no-response")
         /\ Expect(~Ev.ok \/ Ev.statuseq, "response-status-changed")
         /\ Expect(~Ev.ok \/ Ev.bodyeq, "response-body-changed")
         /\ Expect(~Ev.ok \/ Ev.hdreq, "response-headers-changed")

TraceNext == TReq \/ TSeen \/ TResp
TraceSpec == TraceInit /\ [][TraceNext]_tvars
====
