---- MODULE MalformedH2 ----
(* Malformed HTTP/2 frames and HPACK blocks (property C08, part 2).
   Anchors: pkg/module/http2/mhttp2.go MFramer.ReadFrame / readMetaFrame, frame.go parsers and checkFrameOrder,
            hpack/hpack.go Decoder.Write / Close.

   ReadFrame(data, off), in the shape of the code:
     fewer than 9 bytes at off                       -> AGAIN
     length field > max read size (1 MiB)            -> error (before any payload byte is needed)
     payload not completely buffered                 -> AGAIN, nothing consumed
     type specific parser (fixed sizes, padding, stream 0 rules)   -> error | frame
     frame order (CONTINUATION exactly after HEADERS/CONTINUATION without END_HEADERS, same stream)
     HEADERS: the CONTINUATION frames that follow are read AT THE OFFSET BEHIND THE PREVIOUS ONE until END_HEADERS,
              the concatenated fragments go through the HPACK decoder; everything is drained at once
   Defect "ContOffsetStuck": the offset is not advanced inside that loop (the second CONTINUATION is read where the
   first one is) - with two CONTINUATION frames the loop never ends.

   A frame case is a sequence of frame shapes plus the number of bytes supplied; one ReadFrame call at offset 0. *)
EXTENDS Integers, Sequences, FiniteSets, TLC, Json

CONSTANTS Defects, Emit, Tier

MaxRead == 1048576
BlockLen == 40            \* bytes of each header block piece the driver builds (HEADERS: request pseudo headers + fields,
                          \* CONTINUATION: regular fields); the driver checks the number

DATA == 0  HEADERS == 1  PRIORITY == 2  RST == 3  SETTINGS == 4  PING == 6  GOAWAY == 7  WUPDATE == 8  CONT == 9  UNKNOWN == 42
Types == {DATA, HEADERS, PRIORITY, RST, SETTINGS, PING, GOAWAY, WUPDATE, CONT, UNKNOWN}

(* a frame shape: t type, fl flags (set of names), sid, P bytes of payload present on the wire, L value of the length
   field, pad value of the pad-length byte (first payload byte when PADDED), frag: which part of the block it carries *)
Shape(t, fl, sid, P, L, pad) == [t |-> t, fl |-> fl, sid |-> sid, P |-> P, L |-> L, pad |-> pad]

TrueP(t, fl) ==
  LET extra == (IF "PADDED" \in fl THEN 1 ELSE 0) + (IF "PRIORITY" \in fl /\ t = HEADERS THEN 5 ELSE 0) IN
  CASE t = DATA -> 8 + extra
    [] t = HEADERS -> BlockLen + extra
    [] t = PRIORITY -> 5
    [] t = RST -> 4
    [] t = SETTINGS -> IF "ACK" \in fl THEN 0 ELSE 6
    [] t = PING -> 8
    [] t = GOAWAY -> 8
    [] t = WUPDATE -> 4
    [] t = CONT -> BlockLen
    [] t = UNKNOWN -> 5

FlagSets(t) ==
  CASE t = DATA -> {{}, {"PADDED"}}
    [] t = HEADERS -> {{"END_HEADERS"}, {"END_HEADERS", "PADDED"}, {"END_HEADERS", "PRIORITY"}, {"END_HEADERS", "PADDED", "PRIORITY"}}
    [] t = SETTINGS -> {{}, {"ACK"}}
    [] t = CONT -> {{"END_HEADERS"}}
    [] OTHER -> {{}}

LenMuts(P) == { x \in {P, P - 1, P + 1, 0, 1, 2, 3, 4, 5, 6, 8, 32767, 32768, 65535, 65536, MaxRead - 1, MaxRead, MaxRead + 1, 8388607, 8388608, 16777215} : x >= 0 }
Pads(t, fl, L) == IF "PADDED" \notin fl THEN {0}
                  ELSE LET room == L - 1 - (IF "PRIORITY" \in fl /\ t = HEADERS THEN 5 ELSE 0) IN
                       { x \in {0, 1, room - 1, room, room + 1, 127, 128, 255} : x >= 0 /\ x <= 255 }

(* ------------------------------------------------------------------ single frames with a mutated length field *)
SingleSet ==
  UNION { UNION { UNION { UNION { { <<Shape(t, fl, sid, TrueP(t, fl), L, pad)>> : pad \in Pads(t, fl, L) }
      : L \in LenMuts(TrueP(t, fl)) } : sid \in {0, 1} } : fl \in FlagSets(t) } : t \in Types }

(* ------------------------------------------------------------------ HEADERS + CONTINUATION sequences, lengths true *)
H(end)       == Shape(HEADERS, IF end THEN {"END_HEADERS"} ELSE {}, 1, BlockLen, BlockLen, 0)
C(sid, end)  == Shape(CONT, IF end THEN {"END_HEADERS"} ELSE {}, sid, BlockLen, BlockLen, 0)
Other(t)     == Shape(t, {}, IF t = DATA THEN 1 ELSE 0, TrueP(t, {}), TrueP(t, {}), 0)

ContSet == { <<H(TRUE)>>, <<H(FALSE)>>,
             <<H(FALSE), C(1, TRUE)>>, <<H(FALSE), C(1, FALSE)>>, <<H(FALSE), C(3, TRUE)>>,
             <<H(FALSE), Other(DATA)>>, <<H(FALSE), Other(PING)>>, <<H(FALSE), H(TRUE)>>,
             <<H(FALSE), C(1, FALSE), C(1, TRUE)>>, <<H(FALSE), C(1, FALSE), C(1, FALSE)>>,
             <<H(FALSE), C(1, FALSE), C(3, TRUE)>>, <<H(FALSE), C(1, FALSE), Other(PING)>>,
             <<H(FALSE), C(1, FALSE), C(1, FALSE), C(1, TRUE)>>,
             <<H(TRUE), C(1, TRUE)>>, <<C(1, TRUE)>>, <<C(0, TRUE)>> }

Size(f) == 9 + f.P
RECURSIVE Total(_, _)
Total(fs, k) == IF k = 0 THEN 0 ELSE Size(fs[k]) + Total(fs, k - 1)

(* numbers of supplied bytes: around every frame boundary and header end *)
Cuts(fs) ==
  LET raw == UNION { { Total(fs, k - 1), Total(fs, k - 1) + 1, Total(fs, k - 1) + 8, Total(fs, k - 1) + 9, Total(fs, k - 1) + 10,
                       Total(fs, k - 1) + 9 + fs[k].L - 1, Total(fs, k - 1) + 9 + fs[k].L,
                       Total(fs, k) - 1, Total(fs, k) } : k \in 1..Len(fs) }
  IN IF Tier = "thorough" /\ Len(fs) > 1 THEN 0..Total(fs, Len(fs)) ELSE { c \in raw : c >= 0 /\ c <= Total(fs, Len(fs)) }

(* ------------------------------------------------------------------ the type specific parsers: "frame" | "error" | "either" *)
(* HEADERS: an empty header block fragment is a frame (RFC 7540 6.2, golang.org/x/net; the fork refused it until fix 5f1451a2d) *)
Parse(f) ==
  LET t == f.t  L == f.L  fl == f.fl
      afterPad == IF "PADDED" \in fl THEN L - 1 ELSE L
      afterPrio == IF "PRIORITY" \in fl THEN afterPad - 5 ELSE afterPad
  IN CASE t = DATA     -> IF f.sid = 0 \/ afterPad < 0 \/ f.pad > afterPad THEN "error" ELSE "frame"
       [] t = HEADERS  -> IF f.sid = 0 \/ afterPad < 0 \/ afterPrio < 0 \/ afterPrio - f.pad < 0 THEN "error" ELSE "frame"
       [] t = PRIORITY -> IF f.sid = 0 \/ L # 5 THEN "error" ELSE "frame"
       [] t = RST      -> IF f.sid = 0 \/ L # 4 THEN "error" ELSE "frame"
       [] t = SETTINGS -> IF ("ACK" \in fl /\ L > 0) \/ f.sid # 0 \/ L % 6 # 0 THEN "error" ELSE "frame"
       [] t = PING     -> IF f.sid # 0 \/ L # 8 THEN "error" ELSE "frame"
       [] t = GOAWAY   -> IF f.sid # 0 \/ L < 8 THEN "error" ELSE "frame"
       [] t = WUPDATE  -> IF L # 4 THEN "error" ELSE "frame"
       [] t = CONT     -> IF f.sid = 0 THEN "error" ELSE "frame"
       [] t = UNKNOWN  -> "frame"

(* does the fragment the frame carries equal its share of the valid block *)
WholeFragment(f) == f.L = f.P /\ f.pad = 0 /\ "PADDED" \notin f.fl /\ "PRIORITY" \notin f.fl

(* ------------------------------------------------------------------ ReadFrame at frame index k, n bytes supplied in total.
   Result: [out, used] ; out \in {"frame","again","error","either","loop"}; used = bytes drained when out = "frame".
   `fuel` bounds the CONTINUATION loop: running out of it means the loop does not terminate. *)
RECURSIVE ReadMeta(_, _, _, _, _, _)
ReadMeta(fs, n, hk, k, whole, fuel) ==
  \* hk = index of the HEADERS frame; k = index of the frame the loop reads next; whole = all fragments so far are shares of the valid block
  IF fuel = 0 THEN [out |-> "loop", used |-> 0]
  ELSE IF k > Len(fs) THEN [out |-> "again", used |-> 0]
  ELSE LET off == Total(fs, k - 1)  f == fs[k] IN
       IF n - off < 9 THEN [out |-> "again", used |-> 0]
       ELSE IF f.L > MaxRead THEN [out |-> "error", used |-> 0]
       ELSE IF f.L > n - off - 9 THEN [out |-> "again", used |-> 0]
       ELSE IF Parse(f) = "error" THEN [out |-> "error", used |-> 0]
       ELSE IF f.t # CONT \/ f.sid # fs[hk].sid THEN [out |-> "error", used |-> 0]
       ELSE IF "END_HEADERS" \in f.fl
            THEN [out |-> IF whole /\ WholeFragment(f) THEN "frame" ELSE "either", used |-> Total(fs, k)]
            ELSE ReadMeta(fs, n, hk, IF "ContOffsetStuck" \in Defects THEN k ELSE k + 1, whole /\ WholeFragment(f), fuel - 1)

ReadFrame(fs, n) ==
  LET f == fs[1] IN
  IF n < 9 THEN [out |-> "again", used |-> 0]
  ELSE IF f.L > MaxRead THEN [out |-> "error", used |-> 0]
  ELSE IF f.L > n - 9 THEN [out |-> "again", used |-> 0]
  ELSE IF Parse(f) = "error" THEN [out |-> "error", used |-> 0]
  ELSE IF f.t = CONT THEN [out |-> "error", used |-> 0]                      \* no HEADERS before it
  ELSE IF f.t # HEADERS THEN [out |-> "frame", used |-> 9 + f.L]
  ELSE IF "END_HEADERS" \in f.fl
       THEN [out |-> IF WholeFragment(f) THEN "frame" ELSE "either", used |-> 9 + f.L]
       ELSE ReadMeta(fs, n, 1, 2, WholeFragment(f), Len(fs) + 2)

(* ------------------------------------------------------------------ HPACK blocks: representations and their meaning *)
R(name, hex, len, kind) == [name |-> name, hex |-> hex, len |-> len, kind |-> kind]
Reps == {
  R("idx-static",     "82",                     1, "field"),
  R("idx-zero",       "80",                     1, "bad"),
  R("idx-dyn1",       "be",                     1, "dyn1"),        \* valid iff the dynamic table has an entry
  R("idx-far",        "ffe11f",                 3, "bad"),          \* index 4223
  R("lit-inc",        "400361626303646566",     9, "insert"),
  R("lit-nameidx",    "04032f6162",             5, "field"),
  R("size-4096",      "3fe11f",                 3, "size"),
  R("size-4097",      "3fe21f",                 3, "bad"),
  R("varint-overflow","ffffffffffffffffffffff01", 12, "bad"),
  R("lit-name-huge",  "407fffffff7f",           6, "needmore")      \* string length 2^28+..: never complete
}

(* meaning of a sequence of representations cut after c bytes: "ok" | "error" | "either" for Write + Close *)
RECURSIVE HpackWalk(_, _, _, _, _)
HpackWalk(rs, k, c, dyn, first) ==
  IF k > Len(rs) \/ c = 0 THEN "ok"
  ELSE LET r == rs[k] IN
       IF r.kind = "bad" /\ c >= r.len THEN "error"
       ELSE IF r.kind = "bad" THEN "either"                       \* cut inside a bad representation: reported now or at Close
       ELSE IF c < r.len \/ r.kind = "needmore" THEN "error"      \* truncated: Close reports it
       ELSE IF r.kind = "dyn1" /\ dyn = 0 THEN "error"
       ELSE IF r.kind = "size" /\ ~first THEN "either"
       ELSE HpackWalk(rs, k + 1, c - r.len, IF r.kind = "insert" THEN dyn + 1 ELSE dyn, FALSE)

RECURSIVE SeqLen(_, _)
SeqLen(rs, k) == IF k = 0 THEN 0 ELSE rs[k].len + SeqLen(rs, k - 1)
HpackSeqs == { <<r>> : r \in Reps } \cup { <<r1, r2>> : r1 \in Reps, r2 \in Reps }

(* ------------------------------------------------------------------ HPACK integer fields (RFC 7541 5.1) at their type boundaries.
   Every integer of a header block is a prefix-coded varint that hpack.readVarInt accepts up to 2^63 + 2^n - 2 (nine
   continuation bytes); the decoder keeps it in a uint64 and compares / converts it:
     table index      (indexed field 7-bit prefix; literal with incremental indexing 6; without indexing 4; never indexed 4)
                      valid iff 1 <= i <= 61 + entries of the dynamic table
     string length    (name / value of a literal, 7-bit prefix, with or without the Huffman flag)
                      valid iff that many bytes follow (and <= the configured maximum string length)
     table size update (5-bit prefix)   valid iff <= the allowed maximum (4096)
   Value classes: the small ones are numbers, the large ones are symbols (TLC integers are 32 bit); all large ones lie
   above every bound of the model.  The ones with bit 63 set become negative when converted to int (Go int = int64),
   the ones with bit 31 set when converted to int32, 2^32 and above lose bits when converted to uint32.
   Defects (TLC must reject each):
     "SignedIndexCheck"     the index bound is tested after conversion to int
     "SignedStringLength"   the string length is compared after conversion to int
     "TruncatedSizeUpdate"  the size update is compared after conversion to uint32 *)
Classes == <<"zero", "maxvalid", "maxvalid1", "i31m1", "i31", "u32m1", "u32", "p62", "i63m1", "i63", "maxacc", "overflow">>
ClassSet == { Classes[i] : i \in DOMAIN Classes }
BigClasses == {"i31m1", "i31", "u32m1", "u32", "p62", "i63m1", "i63", "maxacc"}
Bit63(c) == c \in {"i63", "maxacc"}                \* negative as int64
Mod32Small(c) == c = "u32"                         \* 2^32: zero as uint32

Fills == {"empty", "partly", "full"}
DynLen(fill) == CASE fill = "empty" -> 0 [] fill = "partly" -> 2 [] fill = "full" -> 107   \* entries of 38 bytes in a 4096 byte table
StaticLen == 61
AllowedTableSize == 4096
TrueStrLen == 3

(* field: prefix bits n, pattern of the first byte above the prefix, what the mutated integer is *)
HF(name, n, base, what) == [name |-> name, n |-> n, base |-> base, what |-> what]
HpFields == {
  HF("indexed",        7, 128, "index"),
  HF("lit-inc-idx",    6, 64,  "index"),
  HF("lit-noidx-idx",  4, 0,   "index"),
  HF("lit-never-idx",  4, 16,  "index"),
  HF("size-update",    5, 32,  "size"),
  HF("name-len",       7, 0,   "strlen"),
  HF("value-len",      7, 0,   "strlen"),
  HF("name-len-huff",  7, 128, "strlen"),
  HF("value-len-huff", 7, 128, "strlen")
}

(* the number a small class stands for; -1 for the symbolic ones *)
SmallVal(f, c, fill) ==
  LET mv == CASE f.what = "index" -> StaticLen + DynLen(fill) [] f.what = "size" -> AllowedTableSize [] f.what = "strlen" -> TrueStrLen IN
  CASE c = "zero" -> 0 [] c = "maxvalid" -> mv [] c = "maxvalid1" -> mv + 1 [] OTHER -> -1

HpIntApplicable(f, c) == ~(f.name \in {"name-len-huff", "value-len-huff"} /\ c \in {"zero", "maxvalid"})   \* valid Huffman data is C18's subject

(* what Write + Close of the block must answer (the block ends right behind the field's own data) *)
HpIntExpect(f, c, fill) ==
  CASE c = "overflow" -> "error"
    [] c \in BigClasses -> "error"
    [] f.what = "index" -> IF c = "maxvalid" THEN "ok" ELSE "error"      \* 0: no entry / for a literal: a new name whose value is missing
    [] f.what = "size"  -> IF c = "maxvalid1" THEN "error" ELSE "ok"
    [] f.what = "strlen" -> IF c = "maxvalid1" THEN "error" ELSE "ok"

(* the comparisons as the decoder performs them *)
HpIntImpl(f, c, fill) ==
  CASE c = "overflow" -> "error"                                        \* readVarInt: more than nine continuation bytes
    [] f.what = "index" ->
         IF c = "zero" THEN "error"
         ELSE IF c \in BigClasses THEN (IF "SignedIndexCheck" \in Defects /\ Bit63(c) THEN "panic" ELSE "error")
         ELSE IF c = "maxvalid" THEN "ok" ELSE "error"
    [] f.what = "strlen" ->
         IF c \in BigClasses THEN (IF "SignedStringLength" \in Defects /\ Bit63(c) THEN "panic" ELSE "error")
         ELSE IF c = "maxvalid1" THEN "error" ELSE "ok"
    [] f.what = "size" ->
         IF c \in BigClasses THEN (IF "TruncatedSizeUpdate" \in Defects /\ Mod32Small(c) THEN "ok" ELSE "error")
         ELSE IF c = "maxvalid1" THEN "error" ELSE "ok"

HpIntCases == { [field |-> f, class |-> c, fill |-> fill] : f \in HpFields, c \in ClassSet, fill \in Fills }

ASSUME \A x \in HpIntCases : HpIntApplicable(x.field, x.class) => HpIntImpl(x.field, x.class, x.fill) = HpIntExpect(x.field, x.class, x.fill)

(* where a case runs: the bare decoder with and without a string limit, the server-side and the client-side framer *)
HpTargets == {"decoder-1m", "decoder-unlimited", "server-framer", "client-framer"}

ASSUME Emit => \A x \in HpIntCases : \A tg \in HpTargets : HpIntApplicable(x.field, x.class) =>
  PrintT(<<"CASE", ToJson([kind |-> "hpint", field |-> x.field.name, n |-> x.field.n, base |-> x.field.base, what |-> x.field.what,
                           class |-> x.class, val |-> SmallVal(x.field, x.class, x.fill), fill |-> x.fill, dyn |-> DynLen(x.fill),
                           target |-> tg, expect |-> HpIntExpect(x.field, x.class, x.fill)])>>)

(* ------------------------------------------------------------------ value fields of HTTP/2 frames at their type boundaries
   WINDOW_UPDATE increment: 31 bits, the reserved bit is masked off, 0 is an error.
   SETTINGS value: 32 bits; the parser refuses only INITIAL_WINDOW_SIZE (id 4) above 2^31-1. *)
FV(t, id, vname, tg, expect) == [kind |-> "fval", t |-> t, id |-> id, vname |-> vname, target |-> tg, expect |-> expect]
FrameValCases ==
  { FV(WUPDATE, sid, v, tg, IF v \in {"zero", "i31"} THEN "error" ELSE "frame") :
      sid \in {0, 1}, v \in {"zero", "one", "i31m1", "i31", "u32m1"}, tg \in {"server-framer", "client-framer"} }
  \cup { FV(SETTINGS, id, v, tg, IF id = 4 /\ v \in {"i31", "u32m1"} THEN "error" ELSE "frame") :
           id \in 1..6, v \in {"zero", "one", "i31m1", "i31", "u32m1"}, tg \in {"server-framer", "client-framer"} }
ASSUME Emit => \A x \in FrameValCases : PrintT(<<"CASE", ToJson(x)>>)

(* ------------------------------------------------------------------ SETTINGS: the same identifier several times in one frame
   RFC 7540 6.5: "The values in the SETTINGS frame MUST be processed in the order they appear"; 6.5.2 gives the legal range
   of every parameter and makes a value outside of it a connection error.  Every occurrence is a value of the
   parameter, so a frame is refused iff ANY occurrence is absurd - in particular an absurd LAST occurrence (the one that
   stays in force) must be refused exactly like a single absurd value, whatever legal value stands in front of it.
   (The unchanged code validates each occurrence while it applies them in order, on the server side; x/net's own
   server loop refuses duplicate identifiers altogether, MOSN's MServerConn / MClientConn do not.)
   After an accepted frame the connection must still be able to send a message with a body.
   Defects (TLC must reject each):
     "ValidateFirstOccurrence"  the range check looks at the first occurrence of an identifier, all occurrences are applied
     "NoRangeCheck"             values are applied without a range check (a MAX_FRAME_SIZE of 0 makes the DATA writer spin) *)
SV(id, v) == [id |-> id, v |-> v]
LegalOf(id)  == CASE id = 1 -> "4096" [] id = 2 -> "zero" [] id = 3 -> "100" [] id = 4 -> "65535" [] id = 5 -> "16384" [] id = 6 -> "1m"
AbsurdOf(id) == CASE id = 2 -> {"two"} [] id = 4 -> {"i31", "u32m1"} [] id = 5 -> {"zero", "16383", "p24", "u32m1"} [] OTHER -> {}
OtherLegalOf(id) == CASE id = 1 -> {"u32m1"} [] id = 3 -> {"u32m1"} [] id = 5 -> {"p24m1"} [] id = 6 -> {"u32m1"} [] OTHER -> {}
ValuesOf(id) == {LegalOf(id)} \cup AbsurdOf(id) \cup OtherLegalOf(id)
Absurd(x) == x.v \in AbsurdOf(x.id)

SettingLists ==
  LET single == { <<SV(id, v)>> : id \in 1..6, v \in { w \in {"4096", "zero", "two", "100", "65535", "i31", "u32m1", "16384", "16383", "p24", "p24m1", "1m"} : TRUE } }
      ok1 == { l \in single : l[1].v \in ValuesOf(l[1].id) }
      pairs == UNION { { <<SV(id, a), SV(id, b)>> : a \in ValuesOf(id), b \in ValuesOf(id) } : id \in 1..6 }
      triples == UNION { UNION { { <<SV(id, LegalOf(id)), SV(id, x), SV(id, LegalOf(id))>>, <<SV(id, x), SV(id, LegalOf(id)), SV(id, LegalOf(id))>>,
                                   <<SV(id, LegalOf(id)), SV(id, LegalOf(id)), SV(id, x)>> } : x \in AbsurdOf(id) } : id \in {2, 4, 5} }
      mixed == { <<SV(5, LegalOf(5)), SV(4, "i31")>>, <<SV(4, LegalOf(4)), SV(5, "zero")>>, <<SV(5, "zero"), SV(4, LegalOf(4)), SV(5, LegalOf(5))>> }
  IN ok1 \cup pairs \cup triples \cup mixed

AnyAbsurd(l) == \E i \in DOMAIN l : Absurd(l[i])
SListExpect(l) == IF AnyAbsurd(l) THEN "refused" ELSE "accepted"

(* the connection, in the shape of the code: validate, then apply in order; what the writer does afterwards *)
FirstOf(l, id) == l[CHOOSE i \in DOMAIN l : l[i].id = id /\ \A j \in DOMAIN l : l[j].id = id => i <= j]
LastOf(l, id)  == l[CHOOSE i \in DOMAIN l : l[i].id = id /\ \A j \in DOMAIN l : l[j].id = id => i >= j]
Ids(l) == { l[i].id : i \in DOMAIN l }
SListImpl(l) ==
  LET refused == IF "NoRangeCheck" \in Defects THEN FALSE
                 ELSE IF "ValidateFirstOccurrence" \in Defects THEN \E id \in Ids(l) : Absurd(FirstOf(l, id))
                 ELSE AnyAbsurd(l)
      mfs == IF 5 \in Ids(l) THEN LastOf(l, 5).v ELSE "16384"
  IN IF refused THEN [handled |-> "refused", write |-> "skipped"]
     ELSE [handled |-> "accepted", write |-> IF mfs = "zero" THEN "loop" ELSE "sent"]

ASSUME \A l \in SettingLists : LET r == SListImpl(l) IN r.handled = SListExpect(l) /\ r.write # "loop"

ASSUME Emit => \A l \in SettingLists : \A tg \in {"server-conn", "client-conn"} :
  PrintT(<<"CASE", ToJson([kind |-> "slist", target |-> tg, items |-> l, expect |-> SListExpect(l)])>>)

(* ------------------------------------------------------------------ frames that are well-formed but illegal in the state of
   their stream (RFC 7540 5.1, 5.1.1, 6.1-6.10, 8.1).  A case is a legal prefix that brings stream 1 into a state, then one
   test frame; the connection object answers the test frame with
     "ok"            accepted or ignored, the connection goes on
     "stream-error"  RST_STREAM for that stream, the connection goes on
     "conn-error"    GOAWAY / the connection is given up
   and nothing else: no panic, no endless loop, and the PROCESS survives (a runtime fatal error - double unlock,
   concurrent map write - is not recoverable by the read loop).  Unless the answer was a connection error the
   connection must serve the next request.
   Steps: [op, sid, end, n]; incoming frames H (request/response HEADERS), T (HEADERS with regular fields only = trailers),
   HO (HEADERS without END_HEADERS), D, W, R, P, C, PP; local actions resp (server sends the response on sid),
   req (client opens stream sid with a request).
   Defects (TLC must reject each):
     "DataOnClosedAccepted"  DATA for a stream that is not open is taken as body
     "FatalOnClosedData"     the branch for DATA on a stream that is no longer open breaks the process (e.g. unlocks twice) *)
St(op, sid, end, n) == [op |-> op, sid |-> sid, end |-> end, n |-> n]
Refused == {"stream-error", "conn-error"}
NonFatal == {"ok", "stream-error", "conn-error"}

ServerStates == [
  idle           |-> <<>>,
  open           |-> <<St("H", 1, FALSE, 0)>>,
  hcr            |-> <<St("H", 1, TRUE, 0)>>,
  hcr_data       |-> <<St("H", 1, FALSE, 0), St("D", 1, TRUE, 5)>>,
  hcr_trailers   |-> <<St("H", 1, FALSE, 0), St("T", 1, TRUE, 0)>>,
  closed_resp    |-> <<St("H", 1, TRUE, 0), St("resp", 1, TRUE, 0)>>,
  reset_peer     |-> <<St("H", 1, FALSE, 0), St("R", 1, FALSE, 0)>> ]

TestFrames == [
  D0 |-> St("D", 1, FALSE, 0), D5 |-> St("D", 1, FALSE, 5), D5end |-> St("D", 1, TRUE, 5),
  Hend |-> St("H", 1, TRUE, 0), Hopen |-> St("H", 1, FALSE, 0), T |-> St("T", 1, TRUE, 0),
  C |-> St("C", 1, TRUE, 0), W |-> St("W", 1, FALSE, 1), R |-> St("R", 1, FALSE, 0), P |-> St("P", 1, FALSE, 0) ]

IsData(fn) == fn \in {"D0", "D5", "D5end"}
HalfClosed(sn) == sn \in {"hcr", "hcr_data", "hcr_trailers"}
Gone(sn) == sn \in {"closed_resp", "reset_peer"}

(* RFC 7540 5.1 for a server; where the RFC leaves a choice (frames shortly after a stream was closed) every non-fatal answer *)
ServerAllowed(sn, fn) ==
  CASE fn = "P" -> {"ok"}
    [] fn = "C" -> Refused                                              \* no header block is open
    [] sn = "idle" -> (IF fn \in {"Hend", "Hopen"} THEN {"ok"}
                       ELSE IF fn = "W" THEN NonFatal      \* RFC: connection error; the code ignores a WINDOW_UPDATE for a stream it does not know (harmless)
                       ELSE Refused)
    [] sn = "open" -> (CASE IsData(fn) -> {"ok"} [] fn = "T" -> {"ok"} [] fn = "W" -> {"ok"}
                         [] fn = "R" -> {"ok", "stream-error"}          \* the reset is handed upwards as a stream error
                         [] OTHER -> Refused)                           \* a second HEADERS with pseudo-headers
    [] HalfClosed(sn) -> (CASE fn = "W" -> {"ok"} [] fn = "R" -> {"ok", "stream-error"} [] OTHER -> Refused)
    [] Gone(sn) -> (CASE IsData(fn) -> IF "DataOnClosedAccepted" \in Defects THEN {"ok"} ELSE NonFatal
                      [] fn \in {"Hend", "Hopen", "T"} -> Refused
                      [] OTHER -> NonFatal)

SC(name, target, steps, allowed) == [name |-> name, target |-> target, steps |-> steps, allowed |-> allowed]
StateNames == {"idle", "open", "hcr", "hcr_data", "hcr_trailers", "closed_resp", "reset_peer"}
FrameNames == {"D0", "D5", "D5end", "Hend", "Hopen", "T", "C", "W", "R", "P"}

ServerSeqCases ==
  { SC(sn \o "/" \o fn, "server-conn", Append(ServerStates[sn], TestFrames[fn]), ServerAllowed(sn, fn)) : sn \in StateNames, fn \in FrameNames }
  \cup {
    SC("stream0/D", "server-conn", <<St("D", 0, FALSE, 5)>>, Refused), SC("stream0/H", "server-conn", <<St("H", 0, TRUE, 0)>>, Refused),
    SC("stream0/R", "server-conn", <<St("R", 0, FALSE, 0)>>, Refused), SC("stream0/P", "server-conn", <<St("P", 0, FALSE, 0)>>, Refused),
    SC("stream0/C", "server-conn", <<St("C", 0, TRUE, 0)>>, Refused),  SC("stream0/W", "server-conn", <<St("W", 0, FALSE, 1)>>, {"ok"}),
    SC("even-id/H", "server-conn", <<St("H", 2, TRUE, 0)>>, Refused),
    SC("lower-id/H", "server-conn", <<St("H", 3, TRUE, 0), St("H", 1, TRUE, 0)>>, Refused),
    SC("next-id/H", "server-conn", <<St("H", 1, TRUE, 0), St("resp", 1, TRUE, 0), St("H", 3, TRUE, 0)>>, {"ok"}),
    SC("block-open/H", "server-conn", <<St("HO", 1, TRUE, 0), St("H", 3, TRUE, 0)>>, Refused),
    SC("block-open/D", "server-conn", <<St("HO", 1, FALSE, 0), St("D", 1, FALSE, 5)>>, Refused),
    SC("block-open/P", "server-conn", <<St("HO", 1, TRUE, 0), St("P", 1, FALSE, 0)>>, Refused),
    SC("block-open/C", "server-conn", <<St("HO", 1, TRUE, 0), St("C", 1, TRUE, 0)>>, {"ok"}),
    SC("two-streams/D-on-closed", "server-conn", <<St("H", 1, TRUE, 0), St("H", 3, FALSE, 0), St("D", 1, FALSE, 5)>>, Refused),
    SC("push-promise", "server-conn", <<St("PP", 1, FALSE, 0)>>, Refused) }

(* the client-side connection: what an upstream may send for streams MOSN opened, closed, or never opened *)
ClientSeqCases == {
    SC("none/H", "client-conn", <<St("H", 1, TRUE, 0)>>, NonFatal),     SC("none/D", "client-conn", <<St("D", 1, FALSE, 5)>>, Refused),
    SC("none/W", "client-conn", <<St("W", 1, FALSE, 1)>>, NonFatal),    SC("none/R", "client-conn", <<St("R", 1, FALSE, 0)>>, NonFatal),
    SC("none/PP", "client-conn", <<St("PP", 1, FALSE, 0)>>, Refused),   SC("none/H-even", "client-conn", <<St("H", 2, TRUE, 0)>>, NonFatal),
    SC("none/D-even", "client-conn", <<St("D", 2, FALSE, 5)>>, Refused), SC("none/C", "client-conn", <<St("C", 1, TRUE, 0)>>, Refused),
    SC("sent/H", "client-conn", <<St("req", 1, TRUE, 0), St("H", 1, FALSE, 0)>>, {"ok"}),
    SC("sent/Hend", "client-conn", <<St("req", 1, TRUE, 0), St("H", 1, TRUE, 0)>>, {"ok"}),
    SC("sent/D-before-headers", "client-conn", <<St("req", 1, TRUE, 0), St("D", 1, FALSE, 5)>>, Refused),
    SC("sent/W", "client-conn", <<St("req", 1, TRUE, 0), St("W", 1, FALSE, 1)>>, {"ok"}),
    SC("sent/R", "client-conn", <<St("req", 1, TRUE, 0), St("R", 1, FALSE, 0)>>, {"ok", "stream-error"}),
    SC("sent/PP", "client-conn", <<St("req", 1, TRUE, 0), St("PP", 1, FALSE, 0)>>, Refused),
    SC("sent/D-other-stream", "client-conn", <<St("req", 1, TRUE, 0), St("D", 3, FALSE, 5)>>, Refused),
    SC("answering/D", "client-conn", <<St("req", 1, TRUE, 0), St("H", 1, FALSE, 0), St("D", 1, FALSE, 5)>>, {"ok"}),
    SC("answering/Dend", "client-conn", <<St("req", 1, TRUE, 0), St("H", 1, FALSE, 0), St("D", 1, TRUE, 5)>>, {"ok"}),
    SC("answering/T", "client-conn", <<St("req", 1, TRUE, 0), St("H", 1, FALSE, 0), St("T", 1, TRUE, 0)>>, {"ok"}),
    SC("answering/H-second-open", "client-conn", <<St("req", 1, TRUE, 0), St("H", 1, FALSE, 0), St("T", 1, FALSE, 0)>>, Refused),
    SC("answered/D", "client-conn", <<St("req", 1, TRUE, 0), St("H", 1, TRUE, 0), St("D", 1, FALSE, 5)>>, NonFatal),
    SC("answered/D0", "client-conn", <<St("req", 1, TRUE, 0), St("H", 1, TRUE, 0), St("D", 1, FALSE, 0)>>, NonFatal),
    SC("answered/H", "client-conn", <<St("req", 1, TRUE, 0), St("H", 1, TRUE, 0), St("H", 1, TRUE, 0)>>, NonFatal),
    SC("answered/W", "client-conn", <<St("req", 1, TRUE, 0), St("H", 1, TRUE, 0), St("W", 1, FALSE, 1)>>, NonFatal),
    SC("answered/R", "client-conn", <<St("req", 1, TRUE, 0), St("H", 1, TRUE, 0), St("R", 1, FALSE, 0)>>, NonFatal),
    SC("answered/PP", "client-conn", <<St("req", 1, TRUE, 0), St("H", 1, TRUE, 0), St("PP", 1, FALSE, 0)>>, Refused) }

SeqCases == ServerSeqCases \cup ClientSeqCases

(* the server's DATA handling in the shape of the code: the branch for a stream that is no longer open *)
SeqImplDataGone == IF "FatalOnClosedData" \in Defects THEN "fatal" ELSE "stream-error"
ASSUME \A c \in ServerSeqCases : c.allowed # {} /\ c.allowed \subseteq NonFatal
ASSUME \A sn \in {"hcr", "hcr_data", "hcr_trailers", "closed_resp", "reset_peer"} : \A fn \in {"D0", "D5", "D5end"} :
         SeqImplDataGone \in ServerAllowed(sn, fn) /\ (HalfClosed(sn) => "ok" \notin ServerAllowed(sn, fn))

SetToSeq(S) == CHOOSE q \in [1..Cardinality(S) -> S] : \A i, j \in 1..Cardinality(S) : i # j => q[i] # q[j]
ASSUME Emit => \A c \in SeqCases :
  PrintT(<<"CASE", ToJson([kind |-> "seq", name |-> c.name, target |-> c.target, steps |-> c.steps, allowed |-> SetToSeq(c.allowed)])>>)

(* ------------------------------------------------------------------ the machine: one case, one call *)
VARIABLES kind, frames, reps, n, pc, res
vars == <<kind, frames, reps, n, pc, res>>

Init == /\ pc = "start" /\ res = [out |-> "none", used |-> 0]
        /\ \/ /\ kind = "frame" /\ reps = <<>>
              /\ frames \in (IF Tier = "defect" THEN ContSet ELSE SingleSet \cup ContSet)
              /\ n \in Cuts(frames)
           \/ /\ kind = "hpack" /\ frames = <<>> /\ Tier # "defect"
              /\ reps \in HpackSeqs
              /\ n \in 0..SeqLen(reps, Len(reps))

Call == /\ pc = "start" /\ pc' = "done"
        /\ res' = IF kind = "frame" THEN ReadFrame(frames, n)
                  ELSE [out |-> HpackWalk(reps, 1, n, 0, TRUE), used |-> n]
        /\ UNCHANGED <<kind, frames, reps, n>>

Next == Call
Spec == Init /\ [][Next]_vars

(* properties of the design *)
InvTerminates == res.out # "loop"
InvNoFrameFromMissing == (pc = "done" /\ kind = "frame" /\ res.out = "frame") => res.used <= n

EmitCase == (Emit /\ pc = "done") =>
  PrintT(<<"CASE", ToJson([kind |-> kind, n |-> n, expect |-> res.out, used |-> res.used,
                           frames |-> [i \in 1..Len(frames) |-> [t |-> frames[i].t, sid |-> frames[i].sid, P |-> frames[i].P, L |-> frames[i].L,
                                         pad |-> frames[i].pad, padded |-> "PADDED" \in frames[i].fl, prio |-> "PRIORITY" \in frames[i].fl,
                                         endh |-> "END_HEADERS" \in frames[i].fl, ack |-> "ACK" \in frames[i].fl]],
                           reps |-> [i \in 1..Len(reps) |-> [name |-> reps[i].name, hex |-> reps[i].hex]]])>>)
====
