CONSTANTS
  Defects = {}
  Emit = TRUE
  Tier = "quick"
SPECIFICATION Spec
INVARIANTS InvTerminates InvNoFrameFromMissing EmitCase
CHECK_DEADLOCK FALSE
