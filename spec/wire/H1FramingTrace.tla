---- MODULE H1FramingTrace ----
(* Trace validation of an in-process MOSN (HTTP/1 listener -> HTTP/1 cluster) whose two peers are RAW sockets of the
   driver (harness/cmd/h1framing) against H1Framing: the same Exchange function the model checker steps.
   Events:
     case{spec}     a fresh downstream connection and a fresh upstream; spec = the case as TLC printed it (TraceReset)
     x{...}         one exchange: its description again (flat), what the upstream saw (u_*: number of arrivals, method,
                    uri / header fields / body equal to what the client wrote, connection and position on it, whether it
                    came on a connection the upstream had announced to close) and what the client got (c_*: kind =
                    resp | eof | cut | timeout | garbled | notsent, status, from the upstream of THIS exchange (X-Up),
                    of another one (foreign), body / header fields equal to what the upstream wrote, interim responses)
     end{...}       the end of the downstream connection: octets after the last response, closed by the proxy after a
                    request that asked for it, garbage the upstream received
   Judged are only things a client or an upstream can observe.  The re-framing itself (chunked -> Content-Length) is
   not: the content and where it ends are. *)
EXTENDS H1Framing, VTrace

tvars == <<vars, l>>
TraceInit == l = 1 /\ cs = [ex |-> <<>>, pipe |-> FALSE] /\ i = 0 /\ px = PX0 /\ obs = <<>>

TCase == /\ IsEvent("case")
         /\ cs' = [ex |-> Ev.spec.ex, pipe |-> Ev.spec.pipe]
         /\ i' = 0 /\ px' = Start(cs') /\ obs' = <<>>

TX == /\ IsEvent("x") /\ i < Len(cs.ex)
      /\ LET n == i + 1
             e == cs.ex[n]
             r == Exchange(px, n, e, cs.pipe)
             lenient == n > 1 /\ cs.ex[n - 1].extra # ""       \* the upstream sent octets beyond its previous message
             mustUp == r.cl.kind = "up" /\ ~Undecided(e) /\ ~lenient
             gotUp == Ev.c_kind = "resp" /\ Ev.c_fromup
             whole == r.cl.content = Sent(n, "s", e.sk)         \* the model delivers the whole body the upstream sent
             bodyOk == IF r.cl.content = <<>> THEN Ev.c_blen = 0 ELSE (whole /\ Ev.c_bodyeq)
         IN /\ px' = r.px /\ i' = n /\ obs' = <<>> /\ UNCHANGED cs
            \* ---- the request as the upstream saw it
            /\ Expect(~(r.up # None /\ ~lenient /\ Ev.u_n = 0), "request-not-forwarded")
            /\ Expect(Ev.u_n <= 1, "request-forwarded-more-than-once")
            /\ Expect(~(Ev.u_n >= 1 /\ Ev.u_m # e.m), "request-method-changed")
            /\ Expect(~(Ev.u_n >= 1 /\ ~Ev.u_urieq), "request-uri-changed")
            /\ Expect(~(Ev.u_n >= 1 /\ ~Ev.u_hdreq), "request-headers-changed")
            /\ Expect(~(Ev.u_n >= 1 /\ r.up # None /\ r.up.content = Sent(n, "q", e.qk) /\ ~Ev.u_bodyeq),
                      IF Ev.u_blen < Ev.qlen THEN "request-body-truncated" ELSE "request-body-changed")
            /\ Expect(~(Ev.u_n >= 1 /\ Ev.u_after), "request-on-upstream-connection-after-its-close")
            \* ---- the response as the client got it: never anything of another exchange
            /\ Expect(~Ev.c_foreign, "response-of-another-exchange")
            /\ Expect(~Ev.c_leak, "response-body-holds-octets-of-another-exchange")
            /\ Expect(~(Ev.c_kind = "garbled"), "response-garbled")
            /\ Expect(~(e.exp /\ ~Ev.c_got100), "expect-100-continue-not-answered")
            /\ Expect(~(Ev.c_kind \in {"timeout", "eof", "cut"} /\ Ev.c_interim # <<>>), "interim-response-not-followed-by-final")
            /\ Expect(~(Ev.c_kind = "timeout" /\ Ev.c_interim = <<>> /\ (e.exp => Ev.c_got100)), "no-response")
            /\ Expect(~(mustUp /\ Ev.c_kind \in {"eof", "cut", "notsent"} /\ Ev.c_interim = <<>>), "no-response")
            /\ Expect(~(mustUp /\ Ev.c_kind = "resp" /\ ~Ev.c_fromup /\ ~Ev.c_foreign), "response-replaced-by-local-reply")
            \* a message the upstream did not finish is not delivered as a complete one
            /\ Expect(~(r.cl.kind = "local" /\ gotUp),
                      IF e.sf \in {"eof", "eof10"} THEN "close-delimited-response-accepted-after-reset" ELSE "truncated-response-delivered-as-complete")
            \* whenever the upstream's response is delivered it is the response, whole
            /\ Expect(~(gotUp /\ r.cl.kind = "up" /\ Ev.c_status # r.cl.st), "response-status-changed")
            /\ Expect(~(gotUp /\ r.cl.kind = "up" /\ ~bodyOk),
                      IF r.cl.content = <<>> THEN "body-on-a-bodiless-response" ELSE IF Ev.c_prefix THEN "response-body-truncated" ELSE "response-body-changed")
            /\ Expect(~(gotUp /\ r.cl.kind = "up" /\ ~Ev.c_hdreq), "response-headers-changed")
            /\ Expect(~(gotUp /\ r.cl.kind = "up" /\ r.cl.clen >= 0 /\ r.cl.content = <<>> /\ e.sf = "nobody" /\ Ev.c_clen # Ev.slen),
                      "content-length-of-bodiless-response-changed")

TEnd == /\ IsEvent("end")
        /\ UNCHANGED vars
        /\ Expect(Ev.extra = 0, "octets-after-the-last-response")
        /\ Expect(~(Ev.wantsclose /\ ~Ev.dead /\ ~Ev.pclosed), "connection-not-closed-after-close-request")
        /\ Expect(Ev.strays = 0, "garbage-on-the-upstream-connection")
TNote == IsEvent("note") /\ UNCHANGED vars

TraceNext == TCase \/ TX \/ TEnd \/ TNote
TraceSpec == TraceInit /\ [][TraceNext]_tvars
====
