CONSTANTS
  Defects = {"FatalOnClosedData"}
  Emit = FALSE
  Tier = "defect"
SPECIFICATION Spec
INVARIANTS InvTerminates InvNoFrameFromMissing
CHECK_DEADLOCK FALSE
