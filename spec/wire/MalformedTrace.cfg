CONSTANTS
  LayoutNames = {"bolt_req"}
  Defects = {}
  Emit = FALSE
SPECIFICATION TraceSpec
POSTCONDITION Accepted
CHECK_DEADLOCK FALSE
