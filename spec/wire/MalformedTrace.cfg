CONSTANTS
  LayoutNames = {"bolt_req"}
  Defects = {}
  Dense = FALSE
  Emit = FALSE
SPECIFICATION TraceSpec
POSTCONDITION Accepted
CHECK_DEADLOCK FALSE
