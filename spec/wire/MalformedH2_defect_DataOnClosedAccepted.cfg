CONSTANTS
  Defects = {"DataOnClosedAccepted"}
  Emit = FALSE
  Tier = "defect"
SPECIFICATION Spec
INVARIANTS InvTerminates InvNoFrameFromMissing
CHECK_DEADLOCK FALSE
