---- MODULE H1Framing ----
(* HTTP/1 MESSAGE FRAMING through the proxy (property C01): how the END of a message is determined on each hop, and
   what that means for the exchange that follows on the same connections.

   Shape of the implementation (pkg/stream/http/stream.go, pkg/stream/http/connpool.go, fasthttp http.go/header.go):
     ServerRead    serverStreamConnection.serve: Request.ReadLimitBody / ContinueReadBody on the downstream
                   connection's reader - Content-Length n: exactly n octets; Transfer-Encoding chunked: chunks up to
                   the last-chunk; neither: no body.  `Expect: 100-continue`: the interim 100 is written first.
                   The reader keeps what it did not consume (a pipelined request) for the next round of the loop.
     FwdWire       clientStream.AppendHeaders/AppendData/endStream + Request.Write: the buffered request is written to
                   the upstream with a Content-Length (or without any framing field if there is no body and the
                   method is GET/HEAD): chunked -> length is a permitted re-framing, the CONTENT is not touched.
     ClientRead    clientStreamConnection.serve: Response.Read on the upstream connection's reader (streamConnection.Read:
                   io.EOF iff the upstream closed cleanly = CheckReasonError mapped RemoteClose to UpstreamReset) -
                   interim (1xx) responses are passed over, the final head decides: response to HEAD / 204 / 304: no
                   body whatever the fields say; chunked; Content-Length; neither: the body is everything up to a CLEAN
                   end of the connection.
     pooling       ConnectionClose() -> OnGoAway -> closeConn; close event -> client.closed; OnResetStream -> closeConn;
                   onStreamDestroy returns the connection to the pool otherwise.  Bytes the upstream sent beyond its
                   message stay in the connection's reader: the connection must not serve another exchange.
     Deliver       serverStream.AppendHeaders/AppendData/endStream + Response.Write: status and fields of the upstream,
                   body with a Content-Length (none for HEAD/204/304), downstream connection closed after a request
                   that said `Connection: close` or was HTTP/1.0 without keep-alive.

   A wire is a sequence of tokens: H (a message head), D (a piece of body content sent plainly), K (the same piece
   inside a chunk), Z (last-chunk and end of the trailer section), J (octets that belong to no message), FIN / RST (how
   the sender ended the connection).  Content pieces carry <<exchange, direction, index>>: content of one exchange
   inside another one is visible as such.

   Every stage is a function; Exchange composes them.  The model checker (Next) and the trace specification
   (H1FramingTrace) step the same function. *)
EXTENDS Integers, Sequences, FiniteSets, TLC, Json

CONSTANTS Defects    \* {} | one of the switches below; TLC must reject each (the universes of cases: H1FramingMC)
(* CloseDelimitedTreatedAsReset   a clean end of the upstream connection is reported to the reader as an error
   HeadResponseBodyAwaited        the body announced by the fields of a response to HEAD is read
   ChunkBoundaryAsEnd             the end of the connection at a chunk boundary ends a chunked body
   FixedLengthShortAccepted       the end of the connection ends a body shorter than its Content-Length
   LeftoverBytesToNextExchange    a connection with unread octets beyond the response goes back to the pool
   OnlyContinueSkipped            of the interim responses only `100 Continue` is passed over
   EmptyChunkedAnnounced          a chunked request with an empty body is forwarded announcing chunks that never come
   ReuseAfterCloseAnnounced       `Connection: close` of the upstream does not keep the connection out of the pool
   RequestLengthOffByOne          the request body reader takes one unit more than the Content-Length *)

VARIABLES cs,    \* the case: [ex |-> sequence of exchanges, pipe |-> all requests are written before the first response is read]
          i,     \* exchanges completed
          px,    \* the proxy and its wires (record, see PX0)
          obs    \* per exchange: what the upstream saw and what the client got
vars == <<cs, i, px, obs>>

None == [none |-> TRUE]

D(x, d, j) == [t |-> "D", x |-> x, d |-> d, j |-> j]
K(x, d, j) == [t |-> "K", x |-> x, d |-> d, j |-> j]
Z == [t |-> "Z"]
J(x) == [t |-> "J", x |-> x]
FIN == [t |-> "FIN"]
RST == [t |-> "RST"]
IsEnd(tok) == tok.t \in {"FIN", "RST"}

(* what a peer reads as content *)
Content(b) == [n \in DOMAIN b |-> IF b[n].t \in {"D", "K"} THEN <<b[n].x, b[n].d, b[n].j>> ELSE <<0, b[n].t, 0>>]
Sent(x, d, k) == [j \in 1..k |-> <<x, d, j>>]
Plain(b) == [n \in DOMAIN b |-> IF b[n].t = "K" THEN D(b[n].x, b[n].d, b[n].j) ELSE b[n]]
Range(s) == {s[n] : n \in DOMAIN s}

PX0 == [dw |-> <<>>,          \* client -> proxy: written by the client, not yet read by the proxy
        uid |-> 0,            \* upstream connections opened so far (= the number of the current one)
        pooled |-> FALSE,     \* the current upstream connection is in the pool
        rx |-> <<>>,          \* upstream -> proxy: not yet read by the proxy on the current connection
        nth |-> 0,            \* requests written on the current upstream connection
        announced |-> FALSE]  \* the upstream announced the end of the current connection, or ended it

(* ---------------------------------------------------------------- the readers (fasthttp: readBody and friends) *)
Res(st, body, rest) == [st |-> st, body |-> body, rest |-> rest]

(* appendBodyFixedSize: exactly n units; the end of the stream before that is an error.  Octets are octets: whatever
   comes next is taken.  "block": nothing more comes and nobody ends the connection - a timer ends the exchange. *)
RECURSIVE ReadFixed(_, _, _)
ReadFixed(w, n, acc) ==
  IF n = 0 THEN Res("ok", acc, w)
  ELSE IF w = <<>> THEN Res("block", acc, w)
  ELSE IF IsEnd(Head(w)) THEN (IF Head(w).t = "FIN" /\ "FixedLengthShortAccepted" \in Defects THEN Res("ok", acc, w) ELSE Res("err", acc, w))
  ELSE ReadFixed(Tail(w), n - 1, Append(acc, Head(w)))

(* readBodyChunked + ReadTrailer: chunks up to the last-chunk; anything else is an error *)
RECURSIVE ReadChunked(_, _)
ReadChunked(w, acc) ==
  IF w = <<>> THEN Res("block", acc, w)
  ELSE LET h == Head(w) IN
       IF h.t = "Z" THEN Res("ok", acc, Tail(w))
       ELSE IF h.t = "K" THEN ReadChunked(Tail(w), Append(acc, h))
       ELSE IF h.t = "FIN" /\ "ChunkBoundaryAsEnd" \in Defects THEN Res("ok", acc, w)
       ELSE Res("err", acc, w)

(* readBodyIdentity: everything up to the end of the stream; complete iff that end was clean (io.EOF) *)
RECURSIVE ReadIdentity(_, _)
ReadIdentity(w, acc) ==
  IF w = <<>> THEN Res("block", acc, w)
  ELSE LET h == Head(w) IN
       IF h.t = "FIN" THEN (IF "CloseDelimitedTreatedAsReset" \in Defects THEN Res("err", acc, w) ELSE Res("ok", acc, w))
       ELSE IF h.t = "RST" THEN Res("err", acc, w)
       ELSE ReadIdentity(Tail(w), Append(acc, h))

(* ---------------------------------------------------------------- the messages of the peers *)
ReqWire(x, e) ==
  <<[t |-> "H", dir |-> "q", x |-> x, m |-> e.m, ver |-> e.ver, cc |-> e.cc, exp |-> e.exp, fr |-> e.qf, n |-> e.qk]>> \o
  (CASE e.qf = "cl" -> [j \in 1..e.qk |-> D(x, "q", j)]
     [] e.qf = "ch" -> [j \in 1..e.qk |-> K(x, "q", j)] \o <<Z>>
     [] OTHER -> <<>>)

Interim(st) == st >= 100 /\ st < 200 /\ st # 101
BodilessStatus(st) == st \in {204, 304} \/ Interim(st)
Bodiless(e) == e.m = "HEAD" \/ BodilessStatus(e.st)

(* what the header fields alone say about the body: a bodiless response may still carry a Content-Length; without any
   length it looks close-delimited *)
FieldFraming(e) == CASE e.sf \in {"eof", "eof10"} -> "eof"
                     [] e.sf = "nobody" -> (IF e.scl THEN "cl" ELSE "eof")
                     [] OTHER -> e.sf
RespWire(x, e) ==
  LET interim == IF e.pre = 0 THEN <<>>
                 ELSE <<[t |-> "H", dir |-> "s", x |-> x, st |-> e.pre, fr |-> "eof", n |-> 0, close |-> FALSE, hascl |-> FALSE]>>
      head == [t |-> "H", dir |-> "s", x |-> x, st |-> e.st, fr |-> FieldFraming(e), n |-> e.sk,
               close |-> e.sclose \/ e.sf \in {"eof", "eof10"}, hascl |-> e.sf = "cl" \/ e.scl]
      np == IF e.uc = "cut" THEN e.cut ELSE e.sk
      body == CASE e.sf = "ch" -> [j \in 1..np |-> K(x, "s", j)] \o (IF e.uc = "cut" THEN <<>> ELSE <<Z>>)
                [] e.sf = "nobody" -> <<>>
                [] OTHER -> [j \in 1..np |-> D(x, "s", j)]
      extra == CASE e.extra = "junk" -> <<J(x)>>
                 [] e.extra = "resp" -> <<[t |-> "H", dir |-> "s", x |-> 0, st |-> 200, fr |-> "cl", n |-> 1, close |-> FALSE, hascl |-> TRUE], D(0, "s", 1)>>
                 [] OTHER -> <<>>
      end == CASE e.uc \in {"fin", "cut"} -> <<FIN>> [] e.uc = "rst" -> <<RST>> [] OTHER -> <<>>
  IN interim \o <<head>> \o body \o extra \o end

(* ---------------------------------------------------------------- the proxy *)
(* serverStreamConnection.serve: one request from the downstream reader *)
ServerRead(dw) ==
  LET h == Head(dw)
      n == IF "RequestLengthOffByOne" \in Defects /\ h.n > 0 THEN h.n + 1 ELSE h.n
      r == CASE h.fr = "cl" -> ReadFixed(Tail(dw), n, <<>>)
             [] h.fr = "ch" -> ReadChunked(Tail(dw), <<>>)
             [] OTHER -> Res("ok", <<>>, Tail(dw))
  IN [h |-> h, st |-> r.st, body |-> r.body, rest |-> r.rest]

(* clientStream + Request.Write: Content-Length iff there is a body or the method normally has one *)
FwdWire(h, body) ==
  LET hasBody == body # <<>> \/ h.m \notin {"GET", "HEAD"}
      fr == IF hasBody THEN "cl" ELSE IF h.fr = "ch" /\ "EmptyChunkedAnnounced" \in Defects THEN "ch" ELSE "none"
  IN <<[t |-> "H", dir |-> "q", x |-> h.x, m |-> h.m, ver |-> "11", cc |-> FALSE, exp |-> FALSE, fr |-> fr, n |-> Len(body)]>> \o Plain(body)

(* clientStreamConnection.serve: one response from the upstream reader *)
RECURSIVE ClientRead(_, _)
ClientRead(w, isHead) ==
  IF w = <<>> THEN [st |-> "block", rest |-> w]
  ELSE LET h == Head(w) IN
       IF h.t # "H" THEN [st |-> "err", rest |-> w]        \* the connection ended, or octets that are no status line
       ELSE IF Interim(h.st) /\ (h.st = 100 \/ "OnlyContinueSkipped" \notin Defects) THEN ClientRead(Tail(w), isHead)
       ELSE LET skip == (isHead /\ "HeadResponseBodyAwaited" \notin Defects) \/ BodilessStatus(h.st)
                mode == IF skip THEN "none" ELSE h.fr
                r == CASE mode = "cl" -> ReadFixed(Tail(w), h.n, <<>>)
                       [] mode = "ch" -> ReadChunked(Tail(w), <<>>)
                       [] mode = "eof" -> ReadIdentity(Tail(w), <<>>)
                       [] OTHER -> Res("ok", <<>>, Tail(w))
            IN [st |-> r.st, h |-> h, mode |-> mode, body |-> r.body, rest |-> r.rest]

(* one exchange: x-th of the case, e its description.  Returns the next proxy state and the two observations. *)
Exchange(p, x, e, pipe) ==
  LET dw == IF pipe THEN p.dw ELSE p.dw \o ReqWire(x, e)
      sr == ServerRead(dw)
      reuse == p.pooled
      uid == IF reuse THEN p.uid ELSE p.uid + 1
      nth == IF reuse THEN p.nth + 1 ELSE 1
      fw == FwdWire(sr.h, sr.body)
      ur == ServerRead(fw)                        \* the upstream reads by the same rules (RFC 7230 3.3.3)
      arrived == sr.st = "ok" /\ ur.st = "ok"
      up == IF arrived THEN [conn |-> uid, nth |-> nth, m |-> ur.h.m, fr |-> ur.h.fr, content |-> Content(ur.body),
                             rest |-> ur.rest, after |-> reuse /\ p.announced]
            ELSE None
      rx == (IF reuse THEN p.rx ELSE <<>>) \o (IF arrived THEN RespWire(x, e) ELSE <<>>)
      cr == IF sr.st = "ok" THEN ClientRead(rx, sr.h.m = "HEAD") ELSE [st |-> "err", rest |-> rx]
      ok == cr.st = "ok"
      closed == cr.rest # <<>> /\ IsEnd(Head(cr.rest))
      leftover == cr.rest # <<>> /\ ~IsEnd(Head(cr.rest))
      pooled == /\ ok
                /\ ~(cr.h.close /\ "ReuseAfterCloseAnnounced" \notin Defects)
                /\ cr.mode # "eof" /\ ~(cr.mode = "none" /\ cr.h.fr = "eof" /\ ~BodilessStatus(cr.h.st))
                /\ ~closed
                /\ (~leftover \/ "LeftoverBytesToNextExchange" \in Defects)
      cl == IF ok THEN [kind |-> "up", x |-> cr.h.x, st |-> cr.h.st, content |-> Content(cr.body),
                        clen |-> IF cr.h.hascl THEN cr.h.n ELSE -1]
            ELSE [kind |-> "local", x |-> x, st |-> IF cr.st = "block" THEN 504 ELSE 502, content |-> <<>>, clen |-> -1]
  IN [px |-> [dw |-> IF sr.st = "ok" THEN sr.rest ELSE <<>>, uid |-> uid, pooled |-> pooled, rx |-> IF pooled THEN cr.rest ELSE <<>>,
              nth |-> nth, announced |-> e.sclose \/ e.sf \in {"eof", "eof10"} \/ e.uc # "keep"],
      up |-> up, cl |-> cl, dclose |-> sr.h.cc \/ sr.h.ver = "10", got100 |-> sr.h.exp]

RECURSIVE AllReqs(_, _)
AllReqs(ex, x) == IF x > Len(ex) THEN <<>> ELSE ReqWire(x, ex[x]) \o AllReqs(ex, x + 1)
Start(c) == [PX0 EXCEPT !.dw = IF c.pipe THEN AllReqs(c.ex, 1) ELSE <<>>]

Next == /\ i < Len(cs.ex)
        /\ LET r == Exchange(px, i + 1, cs.ex[i + 1], cs.pipe)
           IN px' = r.px /\ obs' = Append(obs, [e |-> cs.ex[i + 1], up |-> r.up, cl |-> r.cl])
        /\ i' = i + 1 /\ UNCHANGED cs

(* ---------------------------------------------------------------- properties *)
Done == i = Len(cs.ex)
(* the upstream delimited its reply: the message is complete.  A reset after a length-delimited message leaves open
   whether all of it left the sender (SO_LINGER 0 discards what was not yet sent): either outcome is legitimate. *)
Truncated(e) == e.uc = "cut" \/ (e.sf \in {"eof", "eof10"} /\ e.uc = "rst")
Undecided(e) == e.uc = "rst" /\ ~Truncated(e)
(* the exchange before came from an upstream that sent octets beyond its message: this one may be refused, never confused *)
Tainted(n) == n > 1 /\ obs[n - 1].e.extra # ""

ReqFidelity == Done => \A n \in DOMAIN obs : LET o == obs[n] IN
                 /\ o.up # None /\ o.up.m = o.e.m
                 /\ o.up.content = Sent(n, "q", o.e.qk)      \* same content, ended where the client ended it
                 /\ o.up.rest = <<>>
RespFidelity == Done => \A n \in DOMAIN obs : LET o == obs[n] IN
                  (~Truncated(o.e) /\ ~Undecided(o.e) /\ ~Tainted(n)) =>
                     /\ o.cl.kind = "up" /\ o.cl.x = n /\ o.cl.st = o.e.st
                     /\ o.cl.content = (IF Bodiless(o.e) THEN <<>> ELSE Sent(n, "s", o.e.sk))
                     /\ (o.e.sf = "nobody" /\ o.e.scl) => o.cl.clen = o.e.sk
(* a message the upstream did not finish never reaches the client as a complete one; a close-delimited response is
   complete iff the upstream closed cleanly after it *)
TruncationNotDelivered == Done => \A n \in DOMAIN obs : Truncated(obs[n].e) => obs[n].cl.kind = "local"
NoLeak == Done => \A n \in DOMAIN obs : LET o == obs[n] IN
            /\ o.cl.kind = "up" => (o.cl.x = n /\ \A c \in Range(o.cl.content) : c[1] = n /\ c[2] = "s")
            /\ o.up # None => \A c \in Range(o.up.content) : c[1] = n /\ c[2] = "q"
NoRequestAfterClose == Done => \A n \in DOMAIN obs : obs[n].up # None => ~obs[n].up.after
EndExact == Done => px.dw = <<>>       \* every octet the client wrote was consumed as part of exactly one request

EmitCase == i = 0 => PrintT(<<"CASE", ToJson(cs)>>)
====
