CONSTANTS
  Defects = {"NoRangeCheck"}
  Emit = FALSE
  Tier = "defect"
SPECIFICATION Spec
INVARIANTS InvTerminates InvNoFrameFromMissing
CHECK_DEADLOCK FALSE
