---- MODULE H2Frames ----
(* HTTP/2 frame reader over a byte buffer that fills in arbitrary pieces (property C18, part 2).
   Shape of the implementation (pkg/module/http2/mhttp2.go):
     MFramer.ReadFrame(data, off)   : 9-byte frame header at `off`; ErrAGAIN (nothing consumed) while the header or the
                                      payload is incomplete; parse; checkFrameOrder; for HEADERS call readMetaFrame;
                                      finally Drain(size + msize) unless the frame is a CONTINUATION           (Read)
     MFramer.readMetaFrame(.., off) : collect the header block: while END_HEADERS is missing read the next frame (which
                                      checkFrameOrder guarantees to be a CONTINUATION of the same stream) at the
                                      offset behind the previous one; any ErrAGAIN makes the whole HEADERS unit
                                      ErrAGAIN; then HPACK-decode the concatenated fragments
   What reaches the stream layer is a sequence of *units*: one per non-header frame, and ONE MetaHeadersFrame per
   HEADERS + 0..n CONTINUATION.  Padding and priority fields are stripped by the frame parsers.
   Model bytes: every wire frame is 1 byte of frame header plus (if it has a payload) 1 byte of payload; the Go
   driver uses the real byte lengths and cuts at every byte offset.

   Defects (named ways this design goes wrong; TLC must reject each):
     "NoAdvance"      readMetaFrame re-reads the first CONTINUATION for ever when a block has two or more
                      (the pinned code: the offset was never advanced)
     "DrainFirstOnly" only the HEADERS frame is drained, the CONTINUATIONs stay in the buffer
     "PartialBlock"   a header block whose CONTINUATION has not arrived yet is delivered without it *)
EXTENDS Integers, Sequences, FiniteSets, TLC, Json

CONSTANTS MaxUnits,   \* units per sequence: 1..MaxUnits
          Conts,      \* numbers of CONTINUATION frames after a HEADERS frame, e.g. 0..3
          Pads,       \* padding lengths (0 = not padded)
          DataLens,   \* DATA payload lengths (without padding)
          Defects

U(t, sid, fl, pad, prio, conts, n) == [t |-> t, sid |-> sid, fl |-> fl, pad |-> pad, prio |-> prio, conts |-> conts, n |-> n]
(* fl = END_STREAM (HEADERS, DATA) or ACK (SETTINGS, PING); n = payload length / increment / error code / count *)
UnitSet ==
       { U("HEADERS", 1, fl, pad, pr, c, 0) : fl \in BOOLEAN, pad \in Pads, pr \in BOOLEAN, c \in Conts }
  \cup { U("DATA", 1, fl, pad, FALSE, 0, n) : fl \in BOOLEAN, pad \in Pads, n \in DataLens }
  \cup { U("SETTINGS", 0, fl, 0, FALSE, 0, IF fl THEN 0 ELSE 2) : fl \in BOOLEAN }
  \cup { U("WINDOW_UPDATE", sid, FALSE, 0, FALSE, 0, 7) : sid \in {0, 1} }
  \cup { U("PING", 0, fl, 0, FALSE, 0, 8) : fl \in BOOLEAN }
  \cup { U("RST_STREAM", 1, FALSE, 0, FALSE, 0, 8), U("PRIORITY", 1, FALSE, 0, TRUE, 0, 0), U("GOAWAY", 0, FALSE, 0, FALSE, 0, 1) }

(* ---------------- wire geometry ---------------- *)
HasPayload(u) == ~(u.t = "SETTINGS" /\ u.fl) /\ ~(u.t = "DATA" /\ u.n = 0 /\ u.pad = 0)
\* wire frames of one unit: [last |-> is the last frame of its unit, len |-> model bytes]
WFrames(u) == IF u.t = "HEADERS" THEN [j \in 1..(u.conts + 1) |-> [last |-> (j = u.conts + 1), len |-> 2]]
              ELSE <<[last |-> TRUE, len |-> IF HasPayload(u) THEN 2 ELSE 1]>>
RECURSIVE Flat(_)
Flat(us) == IF us = <<>> THEN <<>> ELSE WFrames(Head(us)) \o Flat(Tail(us))
RECURSIVE SumLen(_, _)
SumLen(fs, k) == IF k = 0 THEN 0 ELSE fs[k].len + SumLen(fs, k - 1)       \* end offset of wire frame k
FrameAt(fs, pos) == LET is == { i \in 1..Len(fs) : SumLen(fs, i - 1) = pos } IN IF is = {} THEN 0 ELSE CHOOSE i \in is : TRUE

(* geometry in terms of unit lengths (shared with the trace spec, which knows the real byte lengths) *)
RECURSIVE Off(_, _)
Off(ls, k) == IF k = 0 THEN 0 ELSE ls[k] + Off(ls, k - 1)
Complete(ls, n) == LET ks == { k \in 0..Len(ls) : Off(ls, k) <= n } IN CHOOSE k \in ks : \A j \in ks : j <= k
ULen(u) == SumLen(WFrames(u), Len(WFrames(u)))
ULens(us) == [i \in DOMAIN us |-> ULen(us[i])]

(* what the reader must hand over for a unit: padding gone, CONTINUATIONs merged *)
Parsed(u) == [t |-> u.t, sid |-> u.sid, fl |-> u.fl, prio |-> u.prio, n |-> u.n]

VARIABLES units, fed, cons, out, pc
vars == <<units, fed, cons, out, pc>>

Init == /\ \E k \in 1..MaxUnits : units \in [1..k -> UnitSet]
        /\ fed = 0 /\ cons = 0 /\ out = <<>> /\ pc = "read"

Total == Off(ULens(units), Len(units))

Feed(n) == /\ pc = "read" /\ fed + n <= Total
           /\ fed' = fed + n /\ pc' = "dispatch"
           /\ UNCHANGED <<units, cons, out>>

\* index (in the flat wire-frame sequence) of the last frame of the block starting at frame i, 0 if not all buffered
RECURSIVE BlockEnd(_, _, _)
BlockEnd(fs, j, limit) == IF SumLen(fs, j) > limit THEN 0
                          ELSE IF fs[j].last THEN j ELSE BlockEnd(fs, j + 1, limit)
\* which unit a flat frame index belongs to
UnitOf(us, i) == CHOOSE k \in 1..Len(us) : Len(Flat(SubSeq(us, 1, k - 1))) < i /\ i <= Len(Flat(SubSeq(us, 1, k)))

Read == /\ pc = "dispatch"
        /\ LET fs == Flat(units)
               i  == FrameAt(fs, cons)
           IN IF fed - cons <= 0 THEN pc' = "read" /\ UNCHANGED <<cons, out>>
              ELSE IF i = 0 THEN pc' = "error" /\ UNCHANGED <<cons, out>>            \* not at a frame boundary
              ELSE IF SumLen(fs, i) > fed THEN pc' = "read" /\ UNCHANGED <<cons, out>>   \* ErrAGAIN: header or payload short
              ELSE LET k == UnitOf(units, i)
                       u == units[k]
                       e == BlockEnd(fs, i, fed)
                   IN IF u.t # "HEADERS" \/ fs[i].last THEN
                           /\ out' = Append(out, Parsed(u)) /\ cons' = SumLen(fs, i) /\ pc' = "dispatch"
                      ELSE IF "PartialBlock" \in Defects /\ e = 0 THEN
                           /\ out' = Append(out, [Parsed(u) EXCEPT !.n = 0 - 1]) /\ cons' = SumLen(fs, i) /\ pc' = "dispatch"
                      ELSE IF e = 0 THEN pc' = "read" /\ UNCHANGED <<cons, out>>       \* a CONTINUATION is missing: ErrAGAIN
                      ELSE IF "NoAdvance" \in Defects /\ e - i >= 2 THEN pc' = "livelock" /\ UNCHANGED <<cons, out>>
                      ELSE /\ out' = Append(out, Parsed(u))
                           /\ cons' = IF "DrainFirstOnly" \in Defects THEN SumLen(fs, i) ELSE SumLen(fs, e)
                           /\ pc' = "dispatch"
        /\ UNCHANGED <<units, fed>>

Next == Read \/ \E n \in 1..Total : Feed(n)
Spec == Init /\ [][Next]_vars

(* ---------------- properties (predicates shared with the trace spec) ---------------- *)
ExpectedOut(us, k) == [i \in 1..k |-> Parsed(us[i])]
InOrderOnce == Len(out) <= Len(units) /\ out = ExpectedOut(units, Len(out))
NoEarly     == Len(out) <= Complete(ULens(units), fed)
Prompt      == pc = "read" => Len(out) = Complete(ULens(units), fed)
Consumed    == pc = "read" => cons = Off(ULens(units), Complete(ULens(units), fed))
Terminates  == pc \notin {"error", "livelock"}
SameForEveryCut == (pc = "read" /\ fed = Total) => out = ExpectedOut(units, Len(units))

EmitCase == (fed = 0 /\ pc = "read") => PrintT(<<"CASE", ToJson([units |-> units])>>)
====
