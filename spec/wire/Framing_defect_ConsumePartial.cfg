CONSTANTS
  MaxFrames = 2
  Lens = {3, 5}
  H = 3
  Defects = {"ConsumePartial"}
SPECIFICATION Spec
INVARIANTS InOrderOnce NoEarly Prompt Consumed NoError SameForEveryCut
CHECK_DEADLOCK FALSE
