CONSTANTS
  MaxFrames = 2
  Lens = {3, 5}
  H = 3
  Preface = 0
  Peek = 0
  MaxTimeouts = 0
  Priors = {0}
  Defects = {"ConsumePartial"}
SPECIFICATION Spec
INVARIANTS InOrderOnce NoEarly Prompt Consumed PrefaceOnce NoError NoByteLost SameForEveryCut
CHECK_DEADLOCK FALSE
