---- MODULE Malformed ----
(* Decoding of malformed input by the xprotocol codecs (property C08, part 1).
   Anchors: pkg/protocol/xprotocol/<codec>/{protocol,decoder}.go, mosn.io/pkg/header.DecodeHeader.

   Shape of the implementation (every codec's Decode follows it):
     S_Min       fewer than `min` bytes buffered                      -> (nil,nil)  "more"
     S_Lens      read the length fields, announced frame length A
     S_Complete  fewer than A bytes buffered                          -> (nil,nil)  "more", nothing allocated
     S_Copy      allocate A bytes, copy, Drain(A)
     S_Inner     parse the inner structure (bolt: key/value block)    -> frame | error
   A CASE is <layout, one length field, mutation of its value, number of bytes supplied>.  The bytes supplied
   are the first n bytes of  mutated frame ++ pristine next frame.

   Defects (named ways this design goes wrong; TLC must reject each):
     "AllocBeforeComplete"  the frame is allocated from the announced length before the completeness test
     "NoCompleteCheck"      the completeness test is missing (slices beyond the received bytes)
     "CompleteIgnoresBias"  completeness tested against the length field, not against field + bias
                            (dubbo-thrift: the first length counts the frame minus its own 4 bytes)
     "UncheckedKvLen"       the key/value walk reads a 4-byte length without checking that 4 bytes remain
                            (what header.DecodeHeader does: 1-3 dangling bytes panic) *)
EXTENDS Integers, Sequences, FiniteSets, TLC, Json

CONSTANTS LayoutNames,  \* subset of DOMAIN Layouts to explore
          Defects,
          Emit,         \* TRUE: print one CASE line per case
          Dense         \* TRUE (thorough tier): every number of supplied bytes 0..2T instead of the boundary points

Big == 2000000000         \* stands for 2^32-1 in comparisons (TLC integers are 32 bit)
Large == 16777216         \* 16 MiB: an absurd length that is still safe to try for real

LF(name, off, w, role) == [name |-> name, off |-> off, w |-> w, role |-> role]

(* role "part": the field counts a variable part, frame = fixed + sum of parts
   role "total": frame = value + bias          role "inner": does not determine the frame length *)
KV == <<7, 3, 1, 5>>      \* string lengths of the key/value block of the pristine bolt frame: service=svc, k=v0001

Layouts == [
  bolt_req    |-> [codec |-> "bolt",   dir |-> "req",  kind |-> "parts", fixed |-> 22, min |-> 22, bias |-> 0, lo |-> 0, hi |-> Big,
                   fields |-> <<LF("class", 14, 2, "part"), LF("hdr", 16, 2, "part"), LF("body", 18, 4, "part")>>,
                   true |-> [class |-> 9, hdr |-> 32, body |-> 12], kv |-> TRUE],
  bolt_resp   |-> [codec |-> "bolt",   dir |-> "resp", kind |-> "parts", fixed |-> 20, min |-> 20, bias |-> 0, lo |-> 0, hi |-> Big,
                   fields |-> <<LF("class", 12, 2, "part"), LF("hdr", 14, 2, "part"), LF("body", 16, 4, "part")>>,
                   true |-> [class |-> 9, hdr |-> 32, body |-> 12], kv |-> TRUE],
  boltv2_req  |-> [codec |-> "boltv2", dir |-> "req",  kind |-> "parts", fixed |-> 24, min |-> 24, bias |-> 0, lo |-> 0, hi |-> Big,
                   fields |-> <<LF("class", 16, 2, "part"), LF("hdr", 18, 2, "part"), LF("body", 20, 4, "part")>>,
                   true |-> [class |-> 9, hdr |-> 32, body |-> 12], kv |-> TRUE],
  boltv2_resp |-> [codec |-> "boltv2", dir |-> "resp", kind |-> "parts", fixed |-> 22, min |-> 22, bias |-> 0, lo |-> 0, hi |-> Big,
                   fields |-> <<LF("class", 14, 2, "part"), LF("hdr", 16, 2, "part"), LF("body", 18, 4, "part")>>,
                   true |-> [class |-> 9, hdr |-> 32, body |-> 12], kv |-> TRUE],
  dubbo_req   |-> [codec |-> "dubbo",  dir |-> "req",  kind |-> "parts", fixed |-> 16, min |-> 16, bias |-> 0, lo |-> 0, hi |-> Big,
                   fields |-> <<LF("body", 12, 4, "part")>>, true |-> [body |-> 38], kv |-> FALSE],
  dubbo_resp  |-> [codec |-> "dubbo",  dir |-> "resp", kind |-> "parts", fixed |-> 16, min |-> 16, bias |-> 0, lo |-> 0, hi |-> Big,
                   fields |-> <<LF("body", 12, 4, "part")>>, true |-> [body |-> 12], kv |-> FALSE],
  thrift_req  |-> [codec |-> "dubbothrift", dir |-> "req",  kind |-> "total", fixed |-> 13, min |-> 6, bias |-> 4, lo |-> 0, hi |-> Big,
                   fields |-> <<LF("outer", 0, 4, "total"), LF("msglen", 6, 4, "inner"), LF("hdrlen", 10, 2, "inner")>>,
                   true |-> [outer |-> 58, msglen |-> 58, hdrlen |-> 29], kv |-> FALSE],
  thrift_resp |-> [codec |-> "dubbothrift", dir |-> "resp", kind |-> "total", fixed |-> 13, min |-> 6, bias |-> 4, lo |-> 0, hi |-> Big,
                   fields |-> <<LF("outer", 0, 4, "total"), LF("msglen", 6, 4, "inner"), LF("hdrlen", 10, 2, "inner")>>,
                   true |-> [outer |-> 58, msglen |-> 58, hdrlen |-> 29], kv |-> FALSE],
  \* tars: the length counts itself; lengths below 4 or above 10 MiB are no frame at all
  tars_req    |-> [codec |-> "tars",   dir |-> "req",  kind |-> "total", fixed |-> 4, min |-> 4, bias |-> 0, lo |-> 4, hi |-> 10485760,
                   fields |-> <<LF("total", 0, 4, "total")>>, true |-> [total |-> 50], kv |-> FALSE],
  tars_resp   |-> [codec |-> "tars",   dir |-> "resp", kind |-> "total", fixed |-> 4, min |-> 4, bias |-> 0, lo |-> 4, hi |-> 10485760,
                   fields |-> <<LF("total", 0, 4, "total")>>, true |-> [total |-> 36], kv |-> FALSE]
]

(* value classes of a length field.  Besides the small corruptions: the boundaries of the integer types the decoders keep
   the value in - the codecs read a 2-byte field into a uint16 and a 4-byte field into a uint32 and convert to int (64 bit)
   for arithmetic; dubbo and dubbo-thrift also add constants to the uint32 itself (decodeFrame), which wraps:
     "sbm1","sb"   2^(8w-1)-1 and 2^(8w-1): the sign bit of an int16 / int32 holding the field
     "wrap0"       2^32 - c, c = what the decoder adds to the field (fixed header length / the 4 uncounted bytes): the
                   sum is 0 in uint32 arithmetic;   "wrapm1": one less (the sum is 2^32-1) *)
Muts == {"none", "zero", "one", "two", "three", "minus1", "plus1", "large", "sbm1", "sb", "wrapm1", "wrap0", "max"}

FieldOf(L, f) == LET is == { i \in DOMAIN L.fields : L.fields[i].name = f } IN L.fields[CHOOSE i \in is : TRUE]
FieldNames(L) == { L.fields[i].name : i \in DOMAIN L.fields }
MaxOf(w) == IF w = 1 THEN 255 ELSE IF w = 2 THEN 65535 ELSE Big

(* what a decoder adds to the field before it compares *)
WrapBase(L, f) == LET r == FieldOf(L, f).role IN
                  IF r = "part" THEN L.fixed ELSE IF r = "total" THEN L.bias ELSE 4

(* value written into field f under mutation m; -1 = mutation not applicable; Big = above every bound of the model
   (the driver writes the number the class stands for) *)
MutVal(L, f, m) ==
  LET t == L.true[f]  w == FieldOf(L, f).w IN
  CASE m = "none"   -> t
    [] m = "zero"   -> IF t = 0 THEN -1 ELSE 0
    [] m = "one"    -> IF t = 1 THEN -1 ELSE 1
    [] m = "two"    -> IF t = 2 THEN -1 ELSE 2
    [] m = "three"  -> IF t = 3 THEN -1 ELSE 3
    [] m = "minus1" -> IF t <= 1 THEN -1 ELSE t - 1
    [] m = "plus1"  -> t + 1
    [] m = "large"  -> IF w = 4 THEN Large ELSE -1
    [] m = "sbm1"   -> IF w = 2 THEN 32767 ELSE Big
    [] m = "sb"     -> IF w = 2 THEN 32768 ELSE Big
    [] m = "wrapm1" -> IF w = 4 /\ WrapBase(L, f) > 0 THEN Big ELSE -1
    [] m = "wrap0"  -> IF w = 4 /\ WrapBase(L, f) > 0 THEN Big ELSE -1
    [] m = "max"    -> MaxOf(w)

Vals(L, f, m) == [g \in FieldNames(L) |-> IF g = f THEN MutVal(L, f, m) ELSE L.true[g]]

RECURSIVE SumParts(_, _, _)
SumParts(L, v, k) == IF k = 0 THEN 0
                     ELSE (IF L.fields[k].role = "part" THEN v[L.fields[k].name] ELSE 0) + SumParts(L, v, k - 1)
TotalField(L) == L.fields[CHOOSE i \in DOMAIN L.fields : L.fields[i].role = "total"].name

(* announced frame length under the values v *)
Announced(L, v) == IF L.kind = "parts" THEN L.fixed + SumParts(L, v, Len(L.fields))
                   ELSE v[TotalField(L)] + L.bias
TrueLen(L) == Announced(L, L.true)
(* is the announced length a frame length at all (tars: 4..10 MiB) *)
LenValid(L, v) == L.kind = "parts" \/ (v[TotalField(L)] >= L.lo /\ v[TotalField(L)] <= L.hi)

(* is the mutated field (partly) inside the first n bytes *)
Visible(L, f, m, n) == m # "none" /\ FieldOf(L, f).off < n

(* numbers of supplied bytes worth trying: every boundary of the layout, of the true and of the announced frame *)
Points(L, f, m) ==
  LET T == TrueLen(L)  A == Announced(L, Vals(L, f, m))  fl == FieldOf(L, f)
      hs == L.fixed + (IF "class" \in FieldNames(L) THEN L.true["class"] ELSE 0)
      he == hs + (IF "hdr" \in FieldNames(L) THEN L.true["hdr"] ELSE 0)
      raw == {0, 1, 2, 3, L.min - 1, L.min, L.min + 1, fl.off - 1, fl.off, fl.off + 1, fl.off + fl.w - 1, fl.off + fl.w,
              fl.off + fl.w + 1, L.fixed - 1, L.fixed, L.fixed + 1, hs - 1, hs, hs + 1, he - 1, he, he + 1,
              T - 4, T - 3, T - 2, T - 1, T, T + 1, T + 3, T + 7, 2 * T, A - 4, A - 1, A, A + 1}
  IN IF Dense THEN 0..(2 * T) ELSE { p \in raw : p >= 0 /\ p <= 2 * T }

(* ------------------------------------------------------------------ the contract (what C08 demands)
   out \in {"frame","more","error","panic","loop"}; consumed = bytes drained; alloc = bytes allocated;
   tailsame = the answer does not depend on memory beyond the n bytes supplied *)
AllocBound(n) == 1048576 + 16 * n

NeverPanics(out)          == out \notin {"panic", "loop"}
\* a frame needs its bytes: none can be produced from fewer bytes than it announces, nor from an invalid length
NoFrameFromMissing(L, v, n, out) == out = "frame" => (LenValid(L, v) /\ n >= Announced(L, v))
\* a frame is exactly the announced bytes
FrameExact(L, v, out, consumed) == out = "frame" => consumed = Announced(L, v)
\* asking for more consumes nothing
MoreConsumesNothing(out, consumed) == out = "more" => consumed = 0
\* a prefix of a pristine stream is never an error, and the whole frame is a frame
PristinePrefix(L, n, out) == IF n < TrueLen(L) THEN out = "more" ELSE out = "frame"
\* memory is not committed for bytes that have not arrived
AllocAfterArrival(L, v, n, alloc) == (~LenValid(L, v) \/ n < Announced(L, v)) => alloc <= AllocBound(n)

(* ------------------------------------------------------------------ directed strings: absurd lengths of INNER structures
   (the frame itself is complete; a length inside its payload announces bytes that are not there).  `at` is a hex
   pattern of the pristine frame, `patch` replaces it.  Contract: the generic one (StrOK below). *)
DS(layout, name, at, patch) == [layout |-> layout, codec |-> Layouts[layout].codec, name |-> name, at |-> at, patch |-> patch]
Directed == {
  DS("bolt_req",    "key-length-minus-one",      "0000000773657276", "ffffffff73657276"),
  DS("bolt_req",    "key-length-2g",             "0000000773657276", "7fffffff73657276"),
  DS("bolt_req",    "key-length-sign-bit",       "0000000773657276", "8000000073657276"),
  DS("boltv2_resp", "key-length-sign-bit",       "0000000773657276", "8000000073657276"),
  DS("bolt_req",    "value-length-minus-two",    "00000003737663",   "fffffffe737663"),
  DS("bolt_req",    "value-swallows-next-key",   "00000003737663",   "00000008737663"),
  DS("boltv2_resp", "value-swallows-next-key",   "00000003737663",   "00000008737663"),
  DS("bolt_resp",   "key-length-2g",             "0000000773657276", "7fffffff73657276"),
  DS("boltv2_req",  "key-length-minus-one",      "0000000773657276", "ffffffff73657276"),
  DS("boltv2_req",  "key-length-2g",             "0000000773657276", "7fffffff73657276"),
  DS("boltv2_resp", "value-length-minus-two",    "00000003737663",   "fffffffe737663"),
  DS("dubbo_req",   "hessian-string-64k",        "05322e302e32",     "53ffff2e302e"),
  DS("dubbo_req",   "hessian-string-chunked",    "05322e302e32",     "52ffff2e302e"),
  DS("dubbo_req",   "hessian-second-string-64k", "087376632e74",     "53ffff632e74"),
  DS("dubbo_req",   "hessian-string-bad-byte-a", "05322e302e32",     "05322e302ed6"),
  DS("dubbo_req",   "hessian-string-bad-byte-b", "087376632e74",     "0873f6632e74"),
  DS("dubbo_req",   "hessian-string-bad-bytes",  "322e302e32087376", "322e302ed60873f6"),
  DS("thrift_req",  "service-length-2g",         "0100000008737663", "017fffffff737663"),
  DS("thrift_req",  "service-length-sign-bit",   "0100000008737663", "0180000000737663"),
  DS("thrift_req",  "service-length-negative",   "0100000008737663", "01ffffffff737663"),
  DS("thrift_req",  "method-length-2g",          "0000000463616c6c", "7fffffff63616c6c"),
  DS("thrift_resp", "method-length-2g",          "0000000463616c6c", "7fffffff63616c6c"),
  DS("thrift_resp", "service-length-16m",        "0100000008737663", "0101000000737663"),
  DS("tars_req",    "sbuffer-length-as-int32",   "7d00000c",         "7d00020c"),
  DS("tars_req",    "sbuffer-length-as-int16",   "7d00000c",         "7d00017f"),
  DS("tars_resp",   "sbuffer-length-as-int32",   "6d00000c",         "6d00020c"),
  DS("tars_resp",   "sbuffer-length-negative",   "6d00000c",         "6d0000ff"),
  DS("tars_resp",   "sbuffer-list-negative-length", "6d00000c",      "69009f0c"),
  DS("tars_resp",   "map-head-instead-of-string", "86026f6b",        "98026f6b"),
  DS("tars_req",    "servant-string4-2g",        "56087376632e",     "577fffffff2e")
}

(* generic contract for a byte string of n bytes given to a decoder *)
StrOK_NoPanic(o)           == o \notin {"panic", "loop"}
StrOK_Consumed(o, c, nn)   == c <= nn /\ (o = "more" => c = 0)
StrOK_Alloc(o, a, nn)      == a <= AllocBound(nn)

ASSUME Emit => \A d \in Directed : PrintT(<<"CASE", ToJson(d)>>)

(* ------------------------------------------------------------------ the decoder, in the shape of the code *)
VARIABLES lay, fld, mut, n,        \* the case
          pc, out, consumed, alloc, maxread
vars == <<lay, fld, mut, n, pc, out, consumed, alloc, maxread>>

L0 == Layouts[lay]
V0 == Vals(L0, fld, mut)
A0 == Announced(L0, V0)

Init == /\ lay \in LayoutNames
        /\ fld \in FieldNames(Layouts[lay])
        /\ mut \in Muts
        /\ MutVal(Layouts[lay], fld, mut) # -1
        /\ (mut = "none" => fld = Layouts[lay].fields[1].name)
        /\ n \in Points(Layouts[lay], fld, mut)
        /\ pc = "min" /\ out = "none" /\ consumed = 0 /\ alloc = 0 /\ maxread = 0

Finish(o, c) == pc' = "done" /\ out' = o /\ consumed' = c

S_Min == /\ pc = "min"
         /\ IF n < L0.min THEN Finish("more", 0) /\ UNCHANGED <<alloc, maxread>>
            ELSE pc' = "lens" /\ maxread' = L0.min /\ UNCHANGED <<out, consumed, alloc>>
         /\ UNCHANGED <<lay, fld, mut, n>>

S_Lens == /\ pc = "lens"
          /\ IF ~LenValid(L0, V0) THEN Finish("more", 0) /\ UNCHANGED alloc     \* tars: PACKAGE_ERROR is answered like PACKAGE_LESS
             ELSE /\ pc' = "complete"
                  /\ alloc' = IF "AllocBeforeComplete" \in Defects THEN A0 ELSE 0
                  /\ UNCHANGED <<out, consumed>>
          /\ UNCHANGED <<lay, fld, mut, n, maxread>>

NeedTest == IF "CompleteIgnoresBias" \in Defects THEN A0 - L0.bias ELSE A0

S_Complete == /\ pc = "complete"
              /\ IF "NoCompleteCheck" \notin Defects /\ n < NeedTest
                 THEN Finish("more", 0)
                 ELSE pc' = "copy" /\ UNCHANGED <<out, consumed>>
              /\ UNCHANGED <<lay, fld, mut, n, alloc, maxread>>

S_Copy == /\ pc = "copy"
          /\ alloc' = A0 /\ maxread' = A0
          /\ pc' = "inner"
          /\ UNCHANGED <<lay, fld, mut, n, out, consumed>>

(* the key/value walk of header.DecodeHeader over a block of B bytes that starts at the true block start:
   idx = offset in the block, k = next string of the pristine block (beyond it the bytes are foreign) *)
RECURSIVE KvWalk(_, _, _)
KvWalk(B, idx, k) ==
  IF idx >= B THEN "ok"
  ELSE IF idx + 4 > B THEN (IF "UncheckedKvLen" \in Defects THEN "panic" ELSE "error")
  ELSE IF k > Len(KV) THEN "foreign"
  ELSE IF idx + 4 + KV[k] > B THEN "error"
  ELSE KvWalk(B, idx + 4 + KV[k], k + 1)

S_Inner == /\ pc = "inner"
           /\ IF L0.kv /\ V0["class"] = L0.true["class"]
              THEN LET r == KvWalk(V0["hdr"], 0, 1) IN
                   CASE r = "ok"      -> Finish("frame", A0)
                     [] r = "error"   -> Finish("error", A0)
                     [] r = "panic"   -> Finish("panic", A0)
                     [] r = "foreign" -> \E o \in {"frame", "error"} : Finish(o, A0)
              ELSE IF mut = "none" THEN Finish("frame", A0)
              ELSE \E o \in {"frame", "error"} : Finish(o, IF o = "frame" THEN A0 ELSE 0)   \* content no longer the pristine one
           /\ UNCHANGED <<lay, fld, mut, n, alloc, maxread>>

Next == S_Min \/ S_Lens \/ S_Complete \/ S_Copy \/ S_Inner
Spec == Init /\ [][Next]_vars

Done == pc = "done"
(* the design satisfies the contract on every case *)
InvNoPanic   == Done => NeverPanics(out)
InvNoMissing == Done => NoFrameFromMissing(L0, V0, n, out)
InvExact     == Done => FrameExact(L0, V0, out, consumed) /\ MoreConsumesNothing(out, consumed)
InvPristine  == (Done /\ ~Visible(L0, fld, mut, n)) => PristinePrefix(L0, n, out)
InvAlloc     == AllocAfterArrival(L0, V0, n, alloc)
InvNoOOB     == maxread <= n          \* never reads outside the received bytes

EmitCase == (Emit /\ pc = "min") =>
  PrintT(<<"CASE", ToJson([layout |-> lay, codec |-> L0.codec, dir |-> L0.dir, field |-> fld, mut |-> mut,
                           off |-> FieldOf(L0, fld).off, w |-> FieldOf(L0, fld).w, val |-> MutVal(L0, fld, mut),
                           wrapbase |-> WrapBase(L0, fld),
                           n |-> n, T |-> TrueLen(L0), A |-> A0, valid |-> LenValid(L0, V0),
                           vis |-> Visible(L0, fld, mut, n), true |-> L0.true])>>)
====
