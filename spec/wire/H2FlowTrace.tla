---- MODULE H2FlowTrace ----
(* Trace validation of a real MOSN against H2Flow (C18 part 3, binding B2).
   harness/cmd/c18 -mode flow runs MOSN in process and talks to it with a raw-frame peer built on the reference
   Framer (golang.org/x/net/http2): as the client of MOSN's HTTP/2 listener (dir = srv: response bodies flow from
   MOSN to the peer) or as the upstream server of MOSN's HTTP/2 client (dir = cli: request bodies).  The peer
   follows the schedules TLC enumerated from H2Flow.tla, never returns flow-control credit on its own, and
   records what it did and what it saw, in the order of its single event loop:
     conn{dir,cw}          new connection: connection window cw (65535), default settings in force
     set{iws,mfs}          the peer's SETTINGS were acknowledged (sent only while the sender is quiet)
     open{s,body,prime}    stream s will carry `body` bytes towards the peer
     wu{s,n}               WINDOW_UPDATE sent (s = 0: connection)
     data{s,n,end,bad}     DATA frame received: n = flow-controlled length, bad = content is not what was sent
     end{s}                END_STREAM on a HEADERS frame
     hdr{s,ok,why}         header block of s decoded by the reference hpack decoder under the announced table size
     sync{to}              the peer waited until, by its books, the sender can send nothing more (to = it gave up
                           after the deadline), then exchanged a PING
     quiesce               end of a case: everything needed had been granted
     err{what}             RST_STREAM / GOAWAY / connection closed / unreadable frame / request failed *)
EXTENDS H2Flow, VTrace

VARIABLE tmfs
tvars == <<vars, tmfs, l>>

Empty == [x \in {} |-> 0]
TraceInit == /\ l = 1 /\ tmfs = 16384
             /\ body = Empty /\ sent = Empty /\ ended = Empty /\ sgrant = Empty
             /\ iws = 65535 /\ cgrant = 65535 /\ csent = 0 /\ lastN = 0
             /\ swin = Empty /\ cwin = 0 /\ asleep = Empty /\ over = FALSE /\ hist = <<>> /\ flushed = FALSE /\ cfg = 0 /\ mfs = 0 /\ big = FALSE
Unused == UNCHANGED <<swin, cwin, asleep, over, hist, flushed, cfg, mfs, big>>

TConn == /\ IsEvent("conn")
         /\ body' = Empty /\ sent' = Empty /\ ended' = Empty /\ sgrant' = Empty
         /\ iws' = 65535 /\ cgrant' = Ev.cw /\ csent' = 0 /\ lastN' = 0 /\ tmfs' = 16384
         /\ Unused

Live == { s \in DOMAIN body : ~ended[s] }

TSet == /\ IsEvent("set")
        /\ Expect(QuietP(body, sent, ended, sgrant, cgrant, csent), "harness-settings-while-sender-busy")
        /\ iws' = Ev.iws /\ tmfs' = Ev.mfs
        /\ sgrant' = [s \in DOMAIN sgrant |-> IF s \in Live THEN sgrant[s] + (Ev.iws - iws) ELSE sgrant[s]]
        /\ UNCHANGED <<body, sent, ended, cgrant, csent, lastN>> /\ Unused

TOpen == /\ IsEvent("open")
         /\ Ev.s \notin DOMAIN body                       \* (stream ids are never reused on a connection)
         /\ body' = (Ev.s :> Ev.body) @@ body /\ sent' = (Ev.s :> 0) @@ sent
         /\ ended' = (Ev.s :> FALSE) @@ ended /\ sgrant' = (Ev.s :> iws) @@ sgrant
         /\ UNCHANGED <<iws, cgrant, csent, lastN, tmfs>> /\ Unused

TWu == /\ IsEvent("wu")
       /\ IF Ev.s = 0 THEN cgrant' = cgrant + Ev.n /\ UNCHANGED sgrant
          ELSE /\ sgrant' = IF Ev.s \in DOMAIN sgrant THEN [sgrant EXCEPT ![Ev.s] = @ + Ev.n] ELSE sgrant
               /\ UNCHANGED cgrant
       /\ UNCHANGED <<body, sent, ended, iws, csent, lastN, tmfs>> /\ Unused

TData == /\ IsEvent("data")
         /\ Expect(Ev.s \in DOMAIN body, "data-on-unknown-stream")
         /\ IF Ev.s \in DOMAIN body
            THEN LET s == Ev.s n == Ev.n IN
                 \* (an empty DATA frame, e.g. the one carrying END_STREAM, is not subject to flow control: RFC 7540 6.9.1)
                 /\ Expect(n = 0 \/ sent[s] + n <= sgrant[s], "stream-window-exceeded")
                 /\ Expect(n = 0 \/ csent + n <= cgrant, "connection-window-exceeded")
                 /\ Expect(n <= tmfs, "frame-size-exceeded")
                 /\ Expect(sent[s] + n <= body[s], "body-overrun")
                 /\ Expect(~ended[s], "data-after-end-of-stream")
                 /\ Expect(Ev.end => sent[s] + n = body[s], "end-of-stream-before-body-complete")
                 /\ Expect(~Ev.bad, "data-corrupted")
                 /\ sent' = [sent EXCEPT ![s] = @ + n]
                 /\ ended' = [ended EXCEPT ![s] = @ \/ Ev.end]
            ELSE UNCHANGED <<sent, ended>>
         /\ csent' = csent + Ev.n /\ lastN' = Ev.n
         /\ UNCHANGED <<body, iws, sgrant, cgrant, tmfs>> /\ Unused

TEnd == /\ IsEvent("end")
        /\ IF Ev.s \in DOMAIN body
           THEN /\ Expect(sent[Ev.s] = body[Ev.s], "end-of-stream-before-body-complete")
                /\ ended' = [ended EXCEPT ![Ev.s] = TRUE]
           ELSE UNCHANGED ended
        /\ UNCHANGED <<body, sent, iws, sgrant, cgrant, csent, lastN, tmfs>> /\ Unused

THdr == /\ IsEvent("hdr")
        /\ Expect(Ev.ok, "header-block-rejected")
        /\ UNCHANGED <<body, sent, ended, iws, sgrant, cgrant, csent, lastN, tmfs>> /\ Unused

(* "delivers the complete body as window updates arrive": at a sync point nothing sendable is left *)
TSync == /\ IsEvent("sync")
         /\ Expect(QuietP(body, sent, ended, sgrant, cgrant, csent), "stalled-with-open-window")
         /\ UNCHANGED <<body, sent, ended, iws, sgrant, cgrant, csent, lastN, tmfs>> /\ Unused

(* end of a case; the streams that have ended leave the books (the connection lives on for thousands of cases) *)
Restrict(f, S) == [x \in S |-> f[x]]
TQuiesce == /\ IsEvent("quiesce")
            /\ Expect(\A s \in DOMAIN body : sent[s] = body[s], "body-incomplete")
            /\ Expect(\A s \in DOMAIN body : ended[s], "stream-not-ended")
            /\ body' = Restrict(body, Live) /\ sent' = Restrict(sent, Live)
            /\ ended' = Restrict(ended, Live) /\ sgrant' = Restrict(sgrant, Live)
            /\ UNCHANGED <<iws, cgrant, csent, lastN, tmfs>> /\ Unused

TErr == /\ IsEvent("err")
        /\ Expect(FALSE, "peer-saw-error")
        /\ UNCHANGED <<body, sent, ended, iws, sgrant, cgrant, csent, lastN, tmfs>> /\ Unused

TraceNext == TConn \/ TSet \/ TOpen \/ TWu \/ TData \/ TEnd \/ THdr \/ TSync \/ TQuiesce \/ TErr
TraceSpec == TraceInit /\ [][TraceNext]_tvars
====
