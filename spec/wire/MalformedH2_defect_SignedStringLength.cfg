CONSTANTS
  Defects = {"SignedStringLength"}
  Emit = FALSE
  Tier = "defect"
SPECIFICATION Spec
INVARIANTS InvTerminates InvNoFrameFromMissing
CHECK_DEADLOCK FALSE
