CONSTANTS
  Codecs = {"bolt", "dubbo"}
  Dirs = {"req"}
  ClassLens = {7}
  ValLens = {5}
  BodyLens = {40}
  SvcLens = {3}
  DefClass = 7
  DefVal = 5
  DefBody = 40
  DefSvc = 3
  StarK = 1
  MaxPairs = 1
  Fills = {"rand"}
  MutVals = {9}
  MutBodies = {1}
  FillTargets = {65535, 65536}
  IdFirst = {"new"}
  IdSecond = {"max"}
  MaxMut = 1
  MaxFwd = 2
  MaxOps = 4
  Defects = {"AliasReadBuffer"}
SPECIFICATION Spec
INVARIANTS Faithful
CHECK_DEADLOCK FALSE
