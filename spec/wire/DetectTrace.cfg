CONSTANTS
  Protos = {}
  N = 0
  Defects = {}
SPECIFICATION TraceSpec
POSTCONDITION Accepted
CHECK_DEADLOCK FALSE
