CONSTANTS
  MaxUnits = 1
  Conts = {0}
  Pads = {0}
  DataLens = {0}
  Defects = {}
SPECIFICATION TraceSpec
POSTCONDITION Accepted
CHECK_DEADLOCK FALSE
