---- MODULE H2Flow ----
(* HTTP/2 flow control of MOSN as a sender of DATA (property C18, part 3).
   Shape of the implementation (pkg/module/http2/mhttp2.go, flow.go; the same on the server side, MStream /
   MServerConn, and on the client side, MClientStream / MClientConn):
     WriteData / writeDataAndTrailer : loop { n := awaitFlowControl(remaining); writeData(n bytes) }; END_STREAM
                                       travels on an empty DATA frame or on trailers afterwards          (Send, End)
     awaitFlowControl                : under the connection mutex: a := min(stream window, connection window);
                                       while a <= 0 wait on the condition variable; take min(a, remaining,
                                       max frame size) from BOTH windows (flow.take)
     processWindowUpdate             : add the increment to the stream's or the connection's window, Broadcast   (WU, WUC)
     processSettings                 : SETTINGS_INITIAL_WINDOW_SIZE: every open stream's window moves by the
                                       difference (may become negative); SETTINGS_MAX_FRAME_SIZE stored       (Settings)
   The peer (receiver) only knows what it granted: the initial window in force plus its WINDOW_UPDATEs.
   SETTINGS_MAX_FRAME_SIZE is changed by the peer the same way (action SetMfs).
   A SETTINGS change is made by the peer only when the sender is quiet (nothing it may send), because a DATA frame
   taken under the old value may legitimately follow the acknowledgement otherwise.

   Defects (named ways this design goes wrong; TLC must reject each):
     "NoConnCharge"      DATA is charged to the stream window only
     "IgnoreFrameSize"   the amount taken is not capped by the peer's maximum frame size
     "NoSettingsAdjust"  a new SETTINGS_INITIAL_WINDOW_SIZE is not applied to the windows of open streams
     "LostWakeup"        a WINDOW_UPDATE that arrives while the sender waits does not wake it
     "FrameSizeAtBodyStart"  the cap on a DATA frame is the peer's maximum frame size read when the body began, not the
                         one in force when the bytes are taken (the peer may lower it while the sender is parked on a
                         closed window - a quiet point) *)
EXTENDS Integers, Sequences, FiniteSets, TLC, Json

CONSTANTS Streams,    \* model stream names, 1..n
          Bodies,     \* body lengths (units)
          Wins,       \* SETTINGS_INITIAL_WINDOW_SIZE values (units)
          ConnWins,   \* connection window at the start of a case (units)
          Incs,       \* WINDOW_UPDATE increments
          Mfs,        \* maximum frame sizes (units) the peer may have in force: the first one of a case is chosen in Init
          MaxOps,     \* peer operations per case
          Defects

VARIABLES body, sent, ended,     \* per stream: bytes to send, bytes put on the wire, END_STREAM sent
          swin, cwin,            \* the sender's books: stream windows, connection window
          asleep,                \* per stream: the sender waits on the condition variable
          iws, sgrant, cgrant,   \* the peer's books: initial window in force, total granted per stream / connection
          csent, lastN,          \* bytes on the connection; length of the last DATA frame
          over,                  \* ghost: a DATA frame went beyond what the peer had granted to its stream at that moment
          mfs, big,              \* the peer's maximum frame size in force; ghost: a DATA frame was larger than that
          hist, flushed, cfg
vars == <<body, sent, ended, swin, cwin, asleep, iws, sgrant, cgrant, csent, lastN, over, mfs, big, hist, flushed, cfg>>

Min(a, b) == IF a < b THEN a ELSE b
Max(a, b) == IF a > b THEN a ELSE b
RECURSIVE Sum(_, _)
Sum(f, S) == IF S = {} THEN 0 ELSE LET x == CHOOSE y \in S : TRUE IN f[x] + Sum(f, S \ {x})

(* predicates on the peer's books; shared with the trace spec (there the domain grows with every opened stream) *)
Rem(b, s, x)        == b[x] - s[x]
MaySend(b, s, e, g, cg, cs, x) == ~e[x] /\ Rem(b, s, x) > 0 /\ g[x] - s[x] > 0 /\ cg - cs > 0
QuietP(b, s, e, g, cg, cs)     == \A x \in DOMAIN b : ~MaySend(b, s, e, g, cg, cs, x)

Init == /\ body \in [Streams -> Bodies]
        /\ iws \in Wins /\ cwin \in ConnWins
        /\ sent = [s \in Streams |-> 0] /\ ended = [s \in Streams |-> FALSE] /\ asleep = [s \in Streams |-> FALSE]
        /\ swin = [s \in Streams |-> iws] /\ sgrant = [s \in Streams |-> iws]
        /\ cgrant = cwin /\ csent = 0 /\ lastN = 0 /\ over = FALSE /\ hist = <<>> /\ flushed = FALSE
        /\ mfs \in Mfs /\ big = FALSE
        /\ cfg = [body |-> body, iws |-> iws, c0 |-> cwin, mfs |-> mfs]

Avail(s) == IF "NoConnCharge" \in Defects THEN swin[s] ELSE Min(swin[s], cwin)

(* one awaitFlowControl + writeData *)
Send(s) == /\ body[s] - sent[s] > 0 /\ ~asleep[s]
           /\ IF Avail(s) <= 0
              THEN /\ "LostWakeup" \in Defects /\ asleep' = [asleep EXCEPT ![s] = TRUE]     \* cond.Wait()
                   /\ UNCHANGED <<sent, swin, cwin, csent, lastN, over, big>>
              ELSE LET n0 == Min(Avail(s), body[s] - sent[s])
                       cap == IF "FrameSizeAtBodyStart" \in Defects THEN cfg.mfs ELSE mfs
                       n  == IF "IgnoreFrameSize" \in Defects THEN n0 ELSE Min(n0, cap)
                   IN /\ sent' = [sent EXCEPT ![s] = @ + n]
                      /\ swin' = [swin EXCEPT ![s] = @ - n]
                      /\ cwin' = IF "NoConnCharge" \in Defects THEN cwin ELSE cwin - n
                      /\ csent' = csent + n /\ lastN' = n
                      /\ over' = (over \/ sent[s] + n > sgrant[s])
                      /\ big' = (big \/ n > mfs)
                      /\ UNCHANGED asleep
           /\ UNCHANGED <<body, ended, iws, sgrant, cgrant, mfs, hist, flushed, cfg>>

End(s) == /\ body[s] = sent[s] /\ ~ended[s]
          /\ ended' = [ended EXCEPT ![s] = TRUE]
          /\ UNCHANGED <<body, sent, swin, cwin, asleep, iws, sgrant, cgrant, csent, lastN, over, mfs, big, hist, flushed, cfg>>

Quiet == \A s \in Streams : ~(body[s] - sent[s] > 0 /\ Avail(s) > 0 /\ ~asleep[s])
Awake == IF "LostWakeup" \in Defects THEN asleep ELSE [s \in Streams |-> FALSE]
Op(k, s, n) == [k |-> k, s |-> s, n |-> n]
MoreOps == Len(hist) < MaxOps /\ ~flushed

WU(s, n) == /\ MoreOps
            /\ swin' = [swin EXCEPT ![s] = @ + n] /\ sgrant' = [sgrant EXCEPT ![s] = @ + n]
            /\ asleep' = Awake
            /\ hist' = Append(hist, Op("wu", s, n))
            /\ UNCHANGED <<body, sent, ended, cwin, iws, cgrant, csent, lastN, over, mfs, big, flushed, cfg>>

WUC(n) == /\ MoreOps
          /\ cwin' = cwin + n /\ cgrant' = cgrant + n
          /\ asleep' = Awake
          /\ hist' = Append(hist, Op("wuc", 0, n))
          /\ UNCHANGED <<body, sent, ended, swin, iws, sgrant, csent, lastN, over, mfs, big, flushed, cfg>>

Settings(w) == /\ MoreOps /\ Quiet /\ w # iws
               /\ iws' = w
               /\ sgrant' = [s \in Streams |-> sgrant[s] + (w - iws)]
               /\ swin' = IF "NoSettingsAdjust" \in Defects THEN swin ELSE [s \in Streams |-> swin[s] + (w - iws)]
               /\ asleep' = Awake
               /\ hist' = Append(hist, Op("set", 0, w))
               /\ UNCHANGED <<body, sent, ended, cwin, cgrant, csent, lastN, over, mfs, big, flushed, cfg>>

SetMfs(m) == /\ MoreOps /\ Quiet /\ m # mfs
             /\ mfs' = m
             /\ asleep' = Awake
             /\ hist' = Append(hist, Op("mfs", 0, m))
             /\ UNCHANGED <<body, sent, ended, swin, cwin, iws, sgrant, cgrant, csent, lastN, over, big, flushed, cfg>>

(* at the end of a case the peer grants exactly what is still missing *)
Flush == /\ ~flushed /\ Quiet
         /\ LET need == [s \in Streams |-> Max(0, (body[s] - sent[s]) - (sgrant[s] - sent[s]))]
                tot  == Sum([s \in Streams |-> body[s] - sent[s]], Streams)
                cn   == Max(0, tot - (cgrant - csent))
            IN /\ swin' = [s \in Streams |-> swin[s] + need[s]] /\ sgrant' = [s \in Streams |-> sgrant[s] + need[s]]
               /\ cwin' = cwin + cn /\ cgrant' = cgrant + cn
         /\ asleep' = Awake
         /\ flushed' = TRUE
         /\ UNCHANGED <<body, sent, ended, iws, csent, lastN, over, mfs, big, hist, cfg>>

Next == \/ \E s \in Streams : Send(s) \/ End(s)
        \/ \E s \in Streams, n \in Incs : WU(s, n)
        \/ \E n \in Incs : WUC(n)
        \/ \E w \in Wins : Settings(w)
        \/ \E m \in Mfs : SetMfs(m)
        \/ Flush
Spec == Init /\ [][Next]_vars

(* ---------------- properties ---------------- *)
\* (a SETTINGS change may pull a window below what is already in flight, so this is a property of every DATA frame,
\*  not of every state)
StreamWindow == ~over
ConnWindow   == csent <= cgrant
FrameSize    == ~big
NoOverrun    == \A s \in Streams : sent[s] <= body[s]
BooksAgree   == /\ \A s \in Streams : swin[s] = sgrant[s] - sent[s]
                /\ cwin = cgrant - csent
\* "yet delivers the complete body as window updates arrive": once everything needed is granted nothing is left over
Delivered    == (flushed /\ Quiet) => \A s \in Streams : sent[s] = body[s]
Terminal     == flushed /\ Quiet /\ \A s \in Streams : ended[s]

EmitCase == Terminal => PrintT(<<"CASE", ToJson([body |-> cfg.body, iws |-> cfg.iws, c0 |-> cfg.c0, mfs |-> cfg.mfs, ops |-> hist])>>)
====
