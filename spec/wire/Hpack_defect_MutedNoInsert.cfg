CONSTANTS
  Fields = {1, 3, 4, 5}
  Sizes = {73}
  MaxOps = 5
  MaxSets = 0
  Limits = {50}
  Defects = {"MutedNoInsert"}
SPECIFICATION Spec
INVARIANTS NoError RoundTrip TablesEqual SizeBound SensitiveKept Delivered
CHECK_DEADLOCK FALSE
