---- MODULE CodecE2ETrace ----
(* xprotocol frames through a running MOSN (property C01: "the forwarded frame is byte-identical to the received frame
   except for the request-id field MOSN rewrites", both directions; anchors pkg/stream/xprotocol/{conn,stream}.go).
   The frame shapes are the initial states TLC enumerates from Codec.tla; each case sends a burst of pipelined
   requests of one shape on one client connection; the scripted upstream answers each with a response of another
   enumerated shape carrying the id it saw.
   Abstract behaviour: every request of the burst reaches the upstream exactly once, unchanged except for its id; every
   response comes back on the client connection exactly once, unchanged except that it carries the id of its request.
   Events (driver):
     xreq{codec,burst}        burst written by the client (TraceReset)
     xup{ident,semeq}         a frame arrived at the upstream; ident = equals a not yet seen request of the burst with the id field masked
                              (semeq = ident, or for tars: same packet for a tars peer)
     xresp{known,ident,semeq} a frame arrived at the client; known = its id is the id of a request of the burst
     xend{ups,resps,how}      how = "done" | "timeout" (harness deadline, no verdict) | "closed" | "reset" *)
EXTENDS Integers, VTrace

VARIABLES burst, nup, nresp
evars == <<burst, nup, nresp>>
tvars == <<evars, l>>

TraceInit == l = 1 /\ burst = 0 /\ nup = 0 /\ nresp = 0

TXReq == /\ IsEvent("xreq") /\ burst' = Ev.burst /\ nup' = 0 /\ nresp' = 0

TXUp == /\ IsEvent("xup")
        /\ Expect(nup < burst, "more-frames-forwarded-than-sent")
        /\ Expect(Ev.semeq, "forwarded-request-differs")
        /\ Expect(Ev.ident, "forwarded-request-not-byte-identical")
        /\ nup' = nup + 1 /\ UNCHANGED <<burst, nresp>>

TXResp == /\ IsEvent("xresp")
          /\ Expect(Ev.known, "response-with-unknown-request-id")
          /\ Expect(~Ev.known \/ Ev.semeq, "returned-response-differs")
          /\ Expect(~Ev.known \/ Ev.ident, "returned-response-not-byte-identical")
          /\ nresp' = nresp + 1 /\ UNCHANGED <<burst, nup>>

TXEnd == /\ IsEvent("xend")
         /\ Expect(Ev.how = "timeout" \/ (nup = burst /\ Ev.ups = burst), "request-not-forwarded")
         /\ Expect(Ev.how = "timeout" \/ (nresp = burst /\ Ev.how = "done"), "response-not-returned")
         /\ UNCHANGED evars

TraceNext == TXReq \/ TXUp \/ TXResp \/ TXEnd
TraceSpec == TraceInit /\ [][TraceNext]_tvars
====
