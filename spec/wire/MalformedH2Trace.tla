---- MODULE MalformedH2Trace ----
(* Trace validation of the real MFramer.ReadFrame and hpack.Decoder against MalformedH2 (C08 part 2).
   Events (driver harness/cmd/c08, mode h2):
     h2{case,frames,n,runs,tailsame}      frames[i] = [t,sid,P,L,pad,padded,prio,endh,ack]; one ReadFrame(data, 0) per kind of
                                          memory behind the n supplied bytes; runs[i] = [tail,out,used,consumed,alloc]
     hpack{case,reps,n,runs,tailsame}     reps = names of MalformedH2!Reps; Write(first n bytes) then Close
     randh2{target,count,outs,...}        summary of a batch of seeded random strings *)
EXTENDS MalformedH2, VTrace

tvars == <<vars, l>>
TraceInit == /\ l = 1 /\ kind = "frame" /\ frames = <<>> /\ reps = <<>> /\ n = 0 /\ pc = "done" /\ res = [out |-> "none", used |-> 0]

ToShape(j) == Shape(j.t, (IF j.padded THEN {"PADDED"} ELSE {}) \cup (IF j.prio THEN {"PRIORITY"} ELSE {})
                         \cup (IF j.endh THEN {"END_HEADERS"} ELSE {}) \cup (IF j.ack THEN {"ACK"} ELSE {}), j.sid, j.P, j.L, j.pad)
AllocBound(nn) == 1048576 + 16 * nn

TH2 == /\ IsEvent("h2")
       /\ LET fs == [i \in DOMAIN Ev.frames |-> ToShape(Ev.frames[i])]
              exp == ReadFrame(fs, Ev.n) IN
            /\ \A i \in DOMAIN Ev.runs : LET r == Ev.runs[i] IN
                 /\ Expect(r.out # "panic", "framer-panics")
                 /\ Expect(r.out # "loop", "framer-loops")
                 /\ Expect(~(r.out = "frame" /\ exp.out = "again"), "frame-from-missing-bytes")
                 /\ Expect(~(r.out = "frame" /\ exp.out = "error"), "malformed-frame-accepted")
                 /\ Expect(~(r.out = "error" /\ exp.out = "frame"), "valid-frame-rejected")
                 /\ Expect(~(r.out = "error" /\ exp.out = "again"), "error-on-incomplete-frame")
                 /\ Expect(~(r.out = "again" /\ exp.out \in {"frame", "error", "either"}), "complete-frame-not-decoded")
                 /\ Expect((r.out = "frame" /\ exp.out \in {"frame", "either"}) => (r.used = exp.used /\ r.consumed = exp.used), "frame-length-not-announced")
                 /\ Expect(r.out \in {"again", "error"} => r.consumed = 0, "consumed-without-frame")
                 /\ Expect(r.out = "again" => r.alloc <= AllocBound(Ev.n), "alloc-before-arrival")
            /\ Expect(Ev.tailsame, "reads-outside-received-bytes")
       /\ UNCHANGED vars

RepByName(nm) == CHOOSE r \in Reps : r.name = nm

THpack == /\ IsEvent("hpack")
          /\ LET rs == [i \in DOMAIN Ev.reps |-> RepByName(Ev.reps[i])]
                 exp == HpackWalk(rs, 1, Ev.n, 0, TRUE) IN
               /\ \A i \in DOMAIN Ev.runs : LET r == Ev.runs[i] IN
                    /\ Expect(r.out # "panic", "hpack-panics")
                    /\ Expect(r.out # "loop", "hpack-loops")
                    /\ Expect(~(r.out = "ok" /\ exp = "error"), "malformed-block-accepted")
                    /\ Expect(~(r.out = "error" /\ exp = "ok"), "valid-block-rejected")
                    /\ Expect(r.alloc <= AllocBound(Ev.n), "alloc-before-arrival")
               /\ Expect(Ev.tailsame, "reads-outside-received-bytes")
          /\ UNCHANGED vars

TRandH2 == /\ IsEvent("randh2")
           /\ Expect(Ev.outs.panic = 0, "panics")
           /\ Expect(Ev.outs.loop = 0, "loops")
           /\ Expect(Ev.over = 0, "consumed-more-than-received")
           /\ Expect(Ev.againcons = 0, "consumed-without-frame")
           /\ Expect(Ev.taildiff = 0, "reads-outside-received-bytes")
           /\ Expect(Ev.overalloc = 0, "alloc-before-arrival")
           /\ UNCHANGED vars

(* hpint{case,field,class,fill,target,n,runs,tailsame}: one HPACK integer field at a boundary of its type, behind a
   dynamic table filled to `fill`, given to the bare decoder (out: ok|error) or inside a HEADERS frame to the
   server-side / client-side framer (out: frame|error|again) *)
FieldByName(nm) == CHOOSE f \in HpFields : f.name = nm
THpInt == /\ IsEvent("hpint")
          /\ Ev.class \in ClassSet /\ Ev.fill \in Fills /\ Ev.target \in HpTargets
          /\ LET f == FieldByName(Ev.field)
                 exp == HpIntExpect(f, Ev.class, Ev.fill)
                 framer == Ev.target \in {"server-framer", "client-framer"} IN
               /\ HpIntApplicable(f, Ev.class)
               /\ \A i \in DOMAIN Ev.runs : LET r == Ev.runs[i] IN
                    /\ Expect(r.out # "panic", "integer-panics")
                    /\ Expect(r.out # "loop", "integer-loops")
                    /\ Expect(~(exp = "error" /\ r.out \in {"ok", "frame"}), "malformed-integer-accepted")
                    /\ Expect(~(exp = "error" /\ r.out = "again"), "complete-frame-not-decoded")
                    /\ Expect(~(exp = "ok" /\ ~framer /\ r.out = "error"), "valid-integer-rejected")
                    /\ Expect(~(exp = "ok" /\ framer /\ r.out = "again"), "complete-frame-not-decoded")
                    /\ Expect(r.alloc <= AllocBound(Ev.n), "alloc-before-arrival")
               /\ Expect(Ev.tailsame, "reads-outside-received-bytes")
          /\ UNCHANGED vars

(* fval{case,t,id,vname,target,n,runs,tailsame}: WINDOW_UPDATE increment / SETTINGS value at a boundary of its type *)
TFval == /\ IsEvent("fval")
         /\ \E x \in FrameValCases : x.t = Ev.t /\ x.id = Ev.id /\ x.vname = Ev.vname /\ x.target = Ev.target
         /\ LET x == CHOOSE y \in FrameValCases : y.t = Ev.t /\ y.id = Ev.id /\ y.vname = Ev.vname /\ y.target = Ev.target IN
              /\ \A i \in DOMAIN Ev.runs : LET r == Ev.runs[i] IN
                   /\ Expect(r.out # "panic", "framer-panics")
                   /\ Expect(r.out # "loop", "framer-loops")
                   /\ Expect(~(x.expect = "error" /\ r.out = "frame"), "malformed-frame-accepted")
                   /\ Expect(~(x.expect = "frame" /\ r.out = "error"), "valid-frame-rejected")
                   /\ Expect(r.out # "again", "complete-frame-not-decoded")
                   /\ Expect(r.alloc <= AllocBound(Ev.n), "alloc-before-arrival")
              /\ Expect(Ev.tailsame, "reads-outside-received-bytes")
         /\ UNCHANGED vars

(* slist{case,target,items,handled,write,data,body}: one SETTINGS frame naming identifiers several times, through the real
   connection object (handled: accepted|refused|parse-refused|panic|loop); when accepted the connection then sends a
   message with `body` bytes (write: sent|error|loop|panic, data = DATA payload bytes that left) *)
TSList == /\ IsEvent("slist")
          /\ LET sl == Ev.items IN
               /\ sl \in SettingLists
               /\ Expect(Ev.handled \notin {"panic", "loop"}, "settings-" \o Ev.handled)
               /\ Expect(Ev.write # "panic", "writer-panics-after-settings")
               /\ Expect(Ev.write # "loop", "writer-loops-after-settings")
               /\ Expect(~(SListExpect(sl) = "refused" /\ Ev.handled = "accepted"), "absurd-setting-accepted")
               /\ Expect(~(SListExpect(sl) = "accepted" /\ Ev.handled \in {"refused", "parse-refused"}), "legal-settings-refused")
               /\ Expect((SListExpect(sl) = "accepted" /\ Ev.handled = "accepted") => (Ev.write = "sent" /\ Ev.data = Ev.body), "body-not-sent-after-settings")
          /\ UNCHANGED vars

(* seq{case,name,target,outs,last,follow,steps}: a legal prefix and one frame that may be illegal in the stream's state, through the
   real connection object; outs = answer per step, last = answer to the test frame, follow = the next request afterwards *)
TSeq == /\ IsEvent("seq")
        /\ \E c \in SeqCases : c.name = Ev.name /\ c.target = Ev.target
        /\ LET c == CHOOSE x \in SeqCases : x.name = Ev.name /\ x.target = Ev.target
               complete == Len(Ev.outs) = Len(c.steps) IN
             /\ Expect(\A i \in DOMAIN Ev.outs : Ev.outs[i] \notin {"panic", "loop"}, "connection-" \o Ev.last)
             /\ Expect(\A i \in DOMAIN Ev.outs : i < Len(c.steps) => Ev.outs[i] \in {"ok", "pending", "stream-error"}, "legal-prefix-refused")
             /\ Expect(~(complete /\ Ev.last \in {"ok", "pending"} /\ "ok" \notin c.allowed), "illegal-frame-accepted")
             /\ Expect(~(complete /\ Ev.last \in Refused /\ c.allowed = {"ok"}), "legal-frame-refused")
             /\ Expect(~(complete /\ Ev.last = "conn-error" /\ "conn-error" \notin c.allowed), "connection-given-up-for-a-stream-matter")
             /\ Expect(~(complete /\ Ev.last \in {"ok", "pending", "stream-error"}) \/ Ev.follow \in {"served", "skipped"}, "connection-dead-after-sequence")
        /\ UNCHANGED vars

TraceNext == TSeq \/ TSList \/ TH2 \/ THpack \/ TRandH2 \/ THpInt \/ TFval
TraceSpec == TraceInit /\ [][TraceNext]_tvars
====
