---- MODULE MalformedH2Trace ----
(* Trace validation of the real MFramer.ReadFrame and hpack.Decoder against MalformedH2 (C08 part 2).
   Events (driver harness/cmd/c08, mode h2):
     h2{case,frames,n,runs,tailsame}      frames[i] = [t,sid,P,L,pad,padded,prio,endh,ack]; one ReadFrame(data, 0) per kind of
                                          memory behind the n supplied bytes; runs[i] = [tail,out,used,consumed,alloc]
     hpack{case,reps,n,runs,tailsame}     reps = names of MalformedH2!Reps; Write(first n bytes) then Close
     randh2{target,count,outs,...}        summary of a batch of seeded random strings *)
EXTENDS MalformedH2, VTrace

tvars == <<vars, l>>
TraceInit == /\ l = 1 /\ kind = "frame" /\ frames = <<>> /\ reps = <<>> /\ n = 0 /\ pc = "done" /\ res = [out |-> "none", used |-> 0]

ToShape(j) == Shape(j.t, (IF j.padded THEN {"PADDED"} ELSE {}) \cup (IF j.prio THEN {"PRIORITY"} ELSE {})
                         \cup (IF j.endh THEN {"END_HEADERS"} ELSE {}) \cup (IF j.ack THEN {"ACK"} ELSE {}), j.sid, j.P, j.L, j.pad)
AllocBound(nn) == 1048576 + 16 * nn

TH2 == /\ IsEvent("h2")
       /\ LET fs == [i \in DOMAIN Ev.frames |-> ToShape(Ev.frames[i])]
              exp == ReadFrame(fs, Ev.n) IN
            /\ \A i \in DOMAIN Ev.runs : LET r == Ev.runs[i] IN
                 /\ Expect(r.out # "panic", "framer-panics")
                 /\ Expect(r.out # "loop", "framer-loops")
                 /\ Expect(~(r.out = "frame" /\ exp.out = "again"), "frame-from-missing-bytes")
                 /\ Expect(~(r.out = "frame" /\ exp.out = "error"), "malformed-frame-accepted")
                 /\ Expect(~(r.out = "error" /\ exp.out = "frame"), "valid-frame-rejected")
                 /\ Expect(~(r.out = "error" /\ exp.out = "again"), "error-on-incomplete-frame")
                 /\ Expect(~(r.out = "again" /\ exp.out \in {"frame", "error", "either"}), "complete-frame-not-decoded")
                 /\ Expect((r.out = "frame" /\ exp.out \in {"frame", "either"}) => (r.used = exp.used /\ r.consumed = exp.used), "frame-length-not-announced")
                 /\ Expect(r.out \in {"again", "error"} => r.consumed = 0, "consumed-without-frame")
                 /\ Expect(r.out = "again" => r.alloc <= AllocBound(Ev.n), "alloc-before-arrival")
            /\ Expect(Ev.tailsame, "reads-outside-received-bytes")
       /\ UNCHANGED vars

RepByName(nm) == CHOOSE r \in Reps : r.name = nm

THpack == /\ IsEvent("hpack")
          /\ LET rs == [i \in DOMAIN Ev.reps |-> RepByName(Ev.reps[i])]
                 exp == HpackWalk(rs, 1, Ev.n, 0, TRUE) IN
               /\ \A i \in DOMAIN Ev.runs : LET r == Ev.runs[i] IN
                    /\ Expect(r.out # "panic", "hpack-panics")
                    /\ Expect(r.out # "loop", "hpack-loops")
                    /\ Expect(~(r.out = "ok" /\ exp = "error"), "malformed-block-accepted")
                    /\ Expect(~(r.out = "error" /\ exp = "ok"), "valid-block-rejected")
                    /\ Expect(r.alloc <= AllocBound(Ev.n), "alloc-before-arrival")
               /\ Expect(Ev.tailsame, "reads-outside-received-bytes")
          /\ UNCHANGED vars

TRandH2 == /\ IsEvent("randh2")
           /\ Expect(Ev.outs.panic = 0, "panics")
           /\ Expect(Ev.outs.loop = 0, "loops")
           /\ Expect(Ev.over = 0, "consumed-more-than-received")
           /\ Expect(Ev.againcons = 0, "consumed-without-frame")
           /\ Expect(Ev.taildiff = 0, "reads-outside-received-bytes")
           /\ Expect(Ev.overalloc = 0, "alloc-before-arrival")
           /\ UNCHANGED vars

TraceNext == TH2 \/ THpack \/ TRandH2
TraceSpec == TraceInit /\ [][TraceNext]_tvars
====
