---- MODULE FidelityHttp ----
(* HTTP forwarding fidelity (property C01, first sentence): with no rewrite configured, the request reaches the upstream
   with the same method, request URI (path and query byte for byte), header fields and body, and the response
   reaches the client with the same status, header fields and body.
   Anchors: pkg/stream/http/stream.go (buildUrlFromCtxVar, FillRequestHeadersFromCtxVar), pkg/stream/http2/stream.go,
   pkg/protocol/http/types.go, pkg/protocol/http2/types.go.
   Shape of the implementation: the server stream splits the request target into path / original path / query string
   variables; the client stream rebuilds the target from them.  The specification is the identity; the value of TLC here
   is the enumeration of the request space (every combination of the listed segment kinds and query kinds). *)
EXTENDS Integers, Sequences, FiniteSets, TLC, Json

CONSTANTS Pairs,        \* listener/cluster pairings "h1h1", "h2h2" (crossing protocols is done by the transcoder stream filter: a configured rewrite)
          Segs,         \* path segments
          MaxSegs,
          Queries,      \* "-" = no query; "?" = empty query; otherwise the text after '?'
          Methods,
          BodyLens,     \* request body lengths (for methods with a body)
          HdrKinds,     \* kinds of header sets attached: "plain","mixedcase","empty","multi","long"
          Statuses, RespBodyLens,
          Retries,      \* 0 = the first attempt is answered; 1 = the first attempt is answered 503 and the route retries
          Defects       \* {} intended; {"UnescapePath"}: the target is rebuilt from the unescaped path;
                        \* {"DrainBodyOnSend"}: sending an attempt consumes the buffered body, a retry re-sends what is left

VARIABLES req, seen, phase
vars == <<req, seen, phase>>

Paths == UNION { [1..n -> Segs] : n \in 1..MaxSegs }

RECURSIVE Join(_)
Join(p) == IF p = <<>> THEN "" ELSE "/" \o Head(p) \o Join(Tail(p))
Target(p, q) == Join(p) \o (IF q = "-" THEN "" ELSE IF q = "?" THEN "?" ELSE "?" \o q)

Unescape(s) == IF s = "%2F" THEN "/" ELSE IF s = "%20" THEN " " ELSE IF s = "a%3Fb" THEN "a?b" ELSE s
Rebuilt(p, q) == IF "UnescapePath" \in Defects THEN Target([i \in DOMAIN p |-> Unescape(p[i])], q) ELSE Target(p, q)

DefPath == <<"a">>
(* star design: the URI space is swept completely with a GET; methods / bodies / header kinds / responses are swept on a plain URI *)
Init == /\ phase = "send" /\ seen = <<>>
        /\ \E pr \in Pairs, p \in Paths, q \in Queries, m \in Methods, b \in BodyLens, h \in HdrKinds, st \in Statuses, rb \in RespBodyLens, rt \in Retries :
             /\ \/ (m = "GET" /\ b = 0 /\ h = "plain" /\ st = 200 /\ rb = 5 /\ rt = 0)
                \/ (p = DefPath /\ q = "-" /\ (rt = 0 \/ (h = "plain" /\ rb = 5)))
             /\ (m \in {"GET", "HEAD", "DELETE"} => b = 0)
             /\ req = [pair |-> pr, path |-> p, query |-> q, uri |-> Target(p, q), method |-> m, body |-> b, hdr |-> h, status |-> st, rbody |-> rb, retry |-> rt]

(* one upstream attempt: the request as the upstream sees it *)
Forward == /\ phase = "send" /\ Len(seen) <= req.retry
           /\ seen' = Append(seen, [uri |-> Rebuilt(req.path, req.query), method |-> req.method,
                                     body |-> IF "DrainBodyOnSend" \in Defects /\ seen # <<>> THEN 0 ELSE req.body])
           /\ phase' = IF Len(seen') > req.retry THEN "seen" ELSE "send"
           /\ UNCHANGED req
Next == Forward
Spec == Init /\ [][Next]_vars

UriPreserved == \A i \in DOMAIN seen : seen[i].uri = req.uri /\ seen[i].method = req.method
BodyPreserved == \A i \in DOMAIN seen : seen[i].body = req.body
EmitCase == (phase = "send" /\ seen = <<>>) => PrintT(<<"CASE", ToJson(req)>>)
====
