CONSTANTS
  LayoutNames = {"bolt_req", "bolt_resp", "boltv2_req", "boltv2_resp", "dubbo_req", "dubbo_resp", "thrift_req", "thrift_resp", "tars_req", "tars_resp"}
  Defects = {"AllocBeforeComplete"}
  Dense = FALSE
  Emit = FALSE
SPECIFICATION Spec
INVARIANTS InvNoPanic InvNoMissing InvExact InvPristine InvAlloc InvNoOOB
CHECK_DEADLOCK FALSE
