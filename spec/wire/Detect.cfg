CONSTANTS
  Protos = {"p", "q", "r"}
  N = 4
  Defects = {}
SPECIFICATION Spec
INVARIANTS OnlyTruth Prompt NeverFail OrderIndependent EmitCase
CHECK_DEADLOCK FALSE
