CONSTANTS
  MaxFrames = 4
  Lens = {3}
  H = 3
  Preface = 0
  Peek = 0
  MaxTimeouts = 0
  Priors = {0}
  DispatchBound = 2
  Defects = {}
SPECIFICATION Spec
INVARIANTS InOrderOnce NoEarly Prompt Consumed PrefaceOnce NoError NoByteLost LoopUntilDry CompleteFromAgrees SameForEveryCut EmitCase
CHECK_DEADLOCK FALSE
