---- MODULE H2FramesTrace ----
(* Binding of MOSN's frame reader (MFramer.ReadFrame / readMetaFrame) to H2Frames (C18 part 2, B1 differential).
   The Go driver (harness/cmd/c18 -mode frames) writes every unit sequence TLC enumerated with the reference
   Framer (golang.org/x/net/http2; HEADERS blocks HPACK-encoded by x/net and split over the CONTINUATIONs) and
   reads the bytes back (a) with MOSN's MFramer from one buffer holding everything, (b) with a fresh MFramer
   for every cut offset c: first the bytes before c, reading until ErrAGAIN, then the rest, (c) one byte at a
   time, (d) with the reference Framer.
     seq{units, ulen, m, x, merr, xerr, mok, cuts, cerr, bw}
        units  the abstract units (as TLC emitted them)       ulen  real byte length of every unit
        m, x   what MOSN / the reference handed over: [t, sid, fl, prio, n] per unit
        mok    per unit: payload bytes, header list, settings identical to what was written
        merr   "" | "livelock" (the reader looked at the buffer 100000 times without returning) | error text
        cuts   [c, n1, b1, n2, same] per cut: units after the first piece, bytes left in the buffer then,
               units after the second piece, whole list identical to (a)
        cerr   cuts at which the reader failed or looped; bw = [n, same] for the byte-wise feed *)
EXTENDS H2Frames, VTrace

tvars == <<vars, l>>
TraceInit == /\ l = 1 /\ units = <<>> /\ fed = 0 /\ cons = 0 /\ out = <<>> /\ pc = "read"

TSeq == /\ IsEvent("seq")
        /\ LET us  == Ev.units
               ls  == Ev.ulen
               exp == ExpectedOut(us, Len(us))
               cs  == Ev.cuts
           IN /\ Expect(Ev.xerr = "" /\ Ev.x = exp, "reference-differs-from-spec")
              /\ Expect(Ev.merr # "livelock", "reader-never-returns")
              /\ Expect(Ev.merr \in {"", "livelock"}, "reader-error")
              /\ Expect(Ev.merr # "" \/ Ev.m = exp, "parse-differs-from-spec")
              /\ Expect(Ev.merr # "" \/ Ev.xerr # "" \/ Ev.m = Ev.x, "parse-differs-from-reference")
              /\ Expect(\A i \in DOMAIN Ev.mok : Ev.mok[i], "content-differs")
              /\ Expect(Ev.cerr = <<>>, "reader-fails-when-cut")
              /\ Expect(\A j \in DOMAIN cs : cs[j][2] <= Complete(ls, cs[j][1]), "unit-before-its-last-byte")
              /\ Expect(\A j \in DOMAIN cs : cs[j][2] >= Complete(ls, cs[j][1]), "unit-missing-when-complete")
              /\ Expect(\A j \in DOMAIN cs : cs[j][3] = cs[j][1] - Off(ls, Complete(ls, cs[j][1])), "buffer-accounting")
              /\ Expect(\A j \in DOMAIN cs : cs[j][4] = Len(us) /\ cs[j][5] = 1, "parse-depends-on-cut")
              /\ Expect(Ev.merr # "" \/ (Ev.bw[1] = Len(us) /\ Ev.bw[2] = 1), "parse-depends-on-cut-bytewise")
        /\ UNCHANGED vars

TraceNext == TSeq
TraceSpec == TraceInit /\ [][TraceNext]_tvars
====
