---- MODULE FramingTrace ----
(* Trace validation of the real stream layer against Framing (C07, binding B1/B2).
   The Go driver (harness/cmd/c07) feeds a concatenation of valid frames chunk by chunk through a real
   network connection (pkg/network) whose read filter runs the real protocol selection and the real
   ServerStreamConnection.Dispatch, and records after every chunk what reached the stream layer.
     run{proto,cls,lens,units,ends,uends,mode}
                                     a new connection; lens = message lengths in bytes, units = lengths of the
                                     pieces the decoder drains (equal to lens except HTTP/2: the 24-byte connection
                                     preface is a unit of its own, then the H2 frames); ends / uends = their end
                                     offsets (checked against the lengths here, so that runs of a thousand messages -
                                     the burst class: more complete frames in ONE read than any per-call bound of a
                                     Dispatch loop - are judged in O(n) per chunk); mode = how the listener is
                                     configured: fixed (one protocol, no matcher) | auto | list;
                                     peek = 1: inspector-mode transport with a plain-text client (run also names
                                     the transport: plain | inspector | tls)
     feed{n,got,buffered}            n more bytes were read; got = messages handed to NewStreamDetect/OnReceive
                                     since the previous event: i = which sent message it is (0 = none of them),
                                     ok = content identical to whole delivery; buffered = bytes left in the
                                     read buffer when Dispatch returned (-1: not observable, HTTP/1);
                                     reads (optional) = sizes of the real Read calls the chunk arrived in
     pause{got,buffered}             the read deadline expired once (the connection reported OnReadTimeout) and the
                                     read loop is waiting again; same fields as feed
     err{what}                       the real code rejected / hung on / panicked on this valid input
   The expectation after every chunk is exactly the spec's invariants, evaluated on the recorded values. *)
EXTENDS Framing, VTrace

VARIABLES units, tpeek,     \* tpeek: the transport peeks one byte (inspector listener, plain-text client)
          fe, ue,           \* end offsets of the messages / of the units of this run
          nout, nun         \* messages / units wholly inside the bytes sent so far
tvars == <<vars, units, tpeek, fe, ue, nout, nun, l>>

(* Every step is judged on its own and the state is then resynchronised with the stream: what has been handed over
   is taken to be the canonical prefix of nout messages. The spec's variable `out` is therefore represented by its
   length (`out` itself stays empty: a run of the burst class has a thousand messages and tens of thousands of steps). *)
TraceInit == /\ l = 1 /\ frames = <<>> /\ units = <<>> /\ fed = 0 /\ cons = 0 /\ out = <<>> /\ pc = "read" /\ cuts = <<>> /\ pre = "done"
             /\ held = 0 /\ lost = 0 /\ pauses = <<>> /\ tpeek = 0 /\ prior = 0 /\ cap = 0 /\ handled = 0
             /\ fe = <<>> /\ ue = <<>> /\ nout = 0 /\ nun = 0

TRun == /\ IsEvent("run")
        /\ frames' = Ev.lens /\ units' = Ev.units
        /\ fe' = Ev.ends /\ ue' = Ev.uends
        /\ EndsOf(Ev.lens, Ev.ends) /\ EndsOf(Ev.units, Ev.uends)      \* the recorded geometry is checked, not trusted
        /\ tpeek' = IF Has(Ev, "peek") THEN Ev.peek ELSE 0
        /\ fed' = 0 /\ cons' = 0 /\ out' = <<>> /\ pc' = "read" /\ cuts' = <<>> /\ pre' = pre
        /\ held' = 0 /\ lost' = 0 /\ pauses' = <<>> /\ prior' = (IF Has(Ev, "prior") THEN Ev.prior ELSE 0) /\ cap' = cap
        /\ handled' = 0 /\ nout' = 0 /\ nun' = 0

Bogus == [start |-> 0 - 1, len |-> 0]

(* n more bytes were sent (n = 0: the read deadline expired instead); in the trace `fed` counts the bytes SENT.
   exact: the read buffer must account for every byte sent. It is not exact only while the inspector wrapper
   holds the peeked first byte: after the 1-byte first chunk and before anything else happened.
   The expectations are Framing's NoEarly / Prompt / InOrderOnce / Consumed on the recorded values:
   what is out after the chunk = the nout messages out before + got. *)
Step(n, exact) ==
         LET f2  == fed + n
             k1  == CompleteFrom(fe, nout, fed, f2)       \* = Complete(fe, f2)
             u1  == CompleteFrom(ue, nun, fed, f2)        \* = Complete(ue, f2)
             got == Ev.got
             new == [j \in 1..Len(got) |->
                              IF got[j].i \in 1..Len(fe) THEN Range(fe, got[j].i) ELSE Bogus]
             n2  == nout + Len(new)
         IN /\ Expect(n2 <= k1, "frame-before-its-last-byte")
            /\ Expect(n2 >= k1, "frame-missing")
            /\ Expect(n2 > k1 \/ n2 < k1 \/ InOrderOnceFromOK(fe, nout, new), "order-or-duplicate")
            /\ Expect(\A j \in 1..Len(got) : got[j].ok, "content-differs")
            /\ Expect(\/ Ev.buffered = 0 - 1
                      \/ f2 - Ev.buffered = EndAt(ue, u1)               \* ConsumedOK(ue, f2, f2 - buffered)
                      \/ (~exact /\ Ev.buffered = 0),
                      IF n = 0 THEN "bytes-lost-after-read-timeout" ELSE "buffer-accounting")
            /\ fed' = f2
            /\ nout' = k1 /\ nun' = u1                        \* resynchronise: judge every step on its own
            /\ cons' = EndAt(ue, u1)
            /\ pc' = "read" /\ cuts' = <<>>
            /\ UNCHANGED <<frames, units, tpeek, fe, ue, out, pre, held, lost, prior, cap, handled>>

TFeed == /\ IsEvent("feed")
         /\ Ev.n >= 1 /\ fed + Ev.n <= EndAt(fe, Len(fe))          \* the driver never feeds beyond the stream
         /\ Step(Ev.n, ~(tpeek = 1 /\ fed = 0 /\ Ev.n = 1))
         /\ UNCHANGED pauses

(* the driver let the read deadline expire (and saw the connection's OnReadTimeout): the spec's Timeout action *)
TPause == /\ IsEvent("pause")
          /\ Step(0, TRUE)
          /\ pauses' = Append(pauses, fed)

TErr == /\ IsEvent("err")
        /\ Expect(FALSE, "error-" \o Ev.what)
        /\ UNCHANGED <<vars, units, tpeek, fe, ue, nout, nun>>

TraceNext == TRun \/ TFeed \/ TPause \/ TErr
TraceSpec == TraceInit /\ [][TraceNext]_tvars
====
