CONSTANTS
  Protos = {"p", "q", "r"}
  N = 4
  Defects = {"EarlyFail"}
SPECIFICATION Spec
INVARIANTS OnlyTruth Prompt NeverFail OrderIndependent
CHECK_DEADLOCK FALSE
