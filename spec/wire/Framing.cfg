CONSTANTS
  MaxFrames = 2
  Lens = {3, 5}
  H = 3
  Preface = 0
  Defects = {}
SPECIFICATION Spec
INVARIANTS InOrderOnce NoEarly Prompt Consumed PrefaceOnce NoError SameForEveryCut EmitCase
CHECK_DEADLOCK FALSE
