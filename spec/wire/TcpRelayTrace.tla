---- MODULE TcpRelayTrace ----
(* Trace validation of the real TCP proxy listener (in-process MOSN) against TcpRelay.
   Events (driver):
     conn{case}                 new client connection through the listener, upstream accepted its connection (TraceReset)
     send{side,n}               a peer wrote n bytes
     sync{ok,c,u,prefix}        the driver waited until both peers had received everything (c,u = bytes received by client / upstream)
     close{side,got,prefix}     a peer closed; got = bytes it had received from the other peer
     eof{side,got,prefix,how}   the other peer's reader ended: how = "eof" | "reset" | "timeout" (harness deadline: no verdict) *)
EXTENDS TcpRelay, VTrace

tvars == <<vars, l>>
TraceInit == l = 1 /\ Init

TConn == /\ IsEvent("conn")
         /\ sent' = Zero /\ dlv' = Zero /\ unsynced' = Zero /\ closed' = "" /\ eof' = FALSE /\ hist' = <<>>

TSend == /\ IsEvent("send")
         /\ sent' = [sent EXCEPT ![Ev.side] = @ + Ev.n] /\ unsynced' = [unsynced EXCEPT ![Ev.side] = @ + Ev.n]
         /\ UNCHANGED <<dlv, closed, eof, hist>>

TSync == /\ IsEvent("sync")
         /\ Expect(Ev.prefix, "relayed-bytes-differ-or-out-of-order")
         /\ Expect(~Ev.ok \/ (Ev.u = sent["c"] /\ Ev.c = sent["u"]), "relayed-byte-count-wrong")
         /\ dlv' = [c |-> Ev.u, u |-> Ev.c] /\ unsynced' = IF Ev.ok THEN Zero ELSE unsynced
         /\ UNCHANGED <<sent, closed, eof, hist>>

TClose == /\ IsEvent("close")
          /\ Expect(Ev.prefix, "relayed-bytes-differ-or-out-of-order")
          /\ Expect(unsynced[Other(Ev.side)] # 0 \/ Ev.got = sent[Other(Ev.side)], "relayed-byte-count-wrong")
          /\ closed' = Ev.side
          /\ UNCHANGED <<sent, dlv, unsynced, eof, hist>>

TEof == /\ IsEvent("eof")
        /\ closed = Other(Ev.side)
        /\ Expect(Ev.prefix, "relayed-bytes-differ-or-out-of-order")
        /\ Expect(Ev.how = "timeout" \/ Ev.got = sent[closed], "byte-count-at-eof-differs-from-bytes-sent")
        /\ dlv' = [dlv EXCEPT ![closed] = Ev.got] /\ eof' = TRUE
        /\ UNCHANGED <<sent, unsynced, closed, hist>>

TraceNext == TConn \/ TSend \/ TSync \/ TClose \/ TEof
TraceSpec == TraceInit /\ [][TraceNext]_tvars
====
