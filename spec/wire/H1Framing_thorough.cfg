CONSTANTS
  Defects = {}
SPECIFICATION SpecThorough
INVARIANTS ReqFidelity RespFidelity TruncationNotDelivered NoLeak NoRequestAfterClose EndExact EmitCase
CHECK_DEADLOCK FALSE
