---- MODULE TcpRelay ----
(* Plain TCP proxy listener (pkg/filter/network/streamproxy/streamproxy.go), property C01 last sentence:
   the byte stream is relayed unchanged and in order in both directions, including the bytes a peer sent
   immediately before closing.
   Shape of the implementation: OnData / onUpstreamData clone every read buffer into the write queue of the other
   connection; a remote close of one side closes the other connection with FlushWrite (queue written first).
   Streams are abstracted to byte counts (the driver owns the byte-equality oracle: `prefix`). *)
EXTENDS Integers, Sequences, FiniteSets, TLC, Json

CONSTANTS Sizes,     \* chunk sizes a peer writes
          MaxOps,    \* peer operations per connection (the last one is a close)
          Defects    \* {} intended; {"CloseNoFlush"}: the other side is closed without writing the queued bytes

Sides == {"c", "u"}
Other(s) == IF s = "c" THEN "u" ELSE "c"

VARIABLES sent,      \* [side -> bytes that side has written]
          dlv,       \* [side -> bytes of that side's stream the other side has received]
          unsynced,  \* [side -> bytes written since the driver last waited for quiescence]
          closed,    \* side that closed its connection ("" = none)
          eof,       \* TRUE when the other side has observed the end of the stream
          hist
vars == <<sent, dlv, unsynced, closed, eof, hist>>

Zero == [s \in Sides |-> 0]
Init == sent = Zero /\ dlv = Zero /\ unsynced = Zero /\ closed = "" /\ eof = FALSE /\ hist = <<>>

Rec(op, side, n) == [op |-> op, side |-> side, n |-> n]

(* ---- peers (driver) ---- *)
Send(s, n) == /\ closed = "" /\ Len(hist) < MaxOps - 1
              /\ sent' = [sent EXCEPT ![s] = @ + n] /\ unsynced' = [unsynced EXCEPT ![s] = @ + n]
              /\ hist' = Append(hist, Rec("send", s, n))
              /\ UNCHANGED <<dlv, closed, eof>>
(* the driver waits until everything written so far has arrived *)
Sync == /\ closed = "" /\ Len(hist) < MaxOps - 1 /\ unsynced # Zero
        /\ dlv = sent
        /\ unsynced' = Zero /\ hist' = Append(hist, Rec("sync", "", 0))
        /\ UNCHANGED <<sent, dlv, closed, eof>>
(* a peer closes only when it has received everything the other peer wrote (otherwise its kernel answers late
   data with a reset and losing bytes is legitimate); its own last bytes may still be on their way *)
Close(s) == /\ closed = "" /\ unsynced[Other(s)] = 0
            /\ closed' = s /\ hist' = Append(hist, Rec("close", s, 0))
            /\ UNCHANGED <<sent, dlv, unsynced, eof>>

(* ---- proxy ---- *)
Relay(s) == /\ dlv[s] < sent[s]
            \* the proxy forwards what it has read: everything pending, or everything but the last byte (granularity of the model)
            /\ \E k \in {sent[s] - dlv[s], sent[s] - dlv[s] - 1} : k > 0 /\ dlv' = [dlv EXCEPT ![s] = @ + k]
            /\ UNCHANGED <<sent, unsynced, closed, eof, hist>>
CloseOther == /\ closed # "" /\ ~eof
              /\ "CloseNoFlush" \in Defects \/ dlv[closed] = sent[closed]
              /\ eof' = TRUE
              /\ UNCHANGED <<sent, dlv, unsynced, closed, hist>>

Next == \/ \E s \in Sides, n \in Sizes : Send(s, n)
        \/ Sync
        \/ \E s \in Sides : Close(s)
        \/ \E s \in Sides : Relay(s)
        \/ CloseOther
Spec == Init /\ [][Next]_vars

(* ---- the property ---- *)
InOrderPrefix == \A s \in Sides : dlv[s] <= sent[s]
NothingLostBeforeEof == eof => dlv[closed] = sent[closed]

EmitCase == (closed # "" /\ ~eof /\ dlv = Zero) => PrintT(<<"CASE", ToJson([ops |-> hist])>>)
====
