CONSTANTS
  Pairs = {}
  Segs = {}
  MaxSegs = 0
  Queries = {}
  Methods = {}
  BodyLens = {}
  HdrKinds = {}
  Statuses = {}
  RespBodyLens = {}
  Defects = {}
SPECIFICATION TraceSpec
POSTCONDITION Accepted
CHECK_DEADLOCK FALSE
