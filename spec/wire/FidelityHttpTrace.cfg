CONSTANTS
  Pairs = {}
  Segs = {}
  MaxSegs = 0
  Queries = {}
  Methods = {}
  BodyLens = {}
  HdrKinds = {}
  Statuses = {}
  RespBodyLens = {}
  Retries = {}
  Defects = {}
SPECIFICATION TraceSpec
POSTCONDITION Accepted
CHECK_DEADLOCK FALSE
