CONSTANTS
  Fields = {1, 2, 3, 4, 5, 6, 8}
  Sizes = {0, 36, 73, 4096}
  MaxOps = 4
  MaxSets = 2
  Limits = {1000000}
  Defects = {}
SPECIFICATION Spec
INVARIANTS NoError RoundTrip TablesEqual SizeBound SensitiveKept EmitCase
CHECK_DEADLOCK FALSE
