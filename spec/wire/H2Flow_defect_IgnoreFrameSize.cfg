CONSTANTS
  Streams = {1, 2}
  Bodies = {0, 3}
  Wins = {0, 1, 3}
  ConnWins = {1, 4}
  Incs = {1, 3}
  Mfs = {2, 4}
  MaxOps = 2
  Defects = {"IgnoreFrameSize"}
SPECIFICATION Spec
INVARIANTS StreamWindow ConnWindow FrameSize NoOverrun Delivered
CHECK_DEADLOCK FALSE
