CONSTANTS
  Sizes = {1, 4096, 70000, 1048576}
  MaxOps = 5
  Defects = {}
SPECIFICATION Spec
INVARIANTS InOrderPrefix NothingLostBeforeEof EmitCase
CHECK_DEADLOCK FALSE
