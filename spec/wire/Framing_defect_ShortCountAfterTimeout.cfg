CONSTANTS
  MaxFrames = 2
  Lens = {3}
  H = 3
  Preface = 0
  Peek = 1
  MaxTimeouts = 1
  Priors = {0, 1, 2}
  DispatchBound = 2
  Defects = {"ShortCountAfterTimeout"}
SPECIFICATION Spec
INVARIANTS InOrderOnce NoEarly Prompt Consumed PrefaceOnce NoError NoByteLost LoopUntilDry SameForEveryCut
CHECK_DEADLOCK FALSE
