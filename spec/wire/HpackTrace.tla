---- MODULE HpackTrace ----
(* Differential binding of the two real HPACK implementations to Hpack (C18 part 1, binding B1).
   The Go driver (harness/cmd/c18 -mode hpack) replays every history TLC enumerated from Hpack.tla twice:
   MOSN's encoder (pkg/module/http2/hpack) feeding golang.org/x/net's decoder, and x/net's encoder feeding
   MOSN's decoder.  The bytes of every header block are parsed into representations by the driver's own
   RFC 7541 reader, so that this module can run the specification's decoder on what really travelled.
     case{dir,limit}           new encoder/decoder pair; dir = "m2x" | "x2m"; limit = the receiver's header-list limit
                               (1000000 = none: the block is written straight into the decoder).  With a limit the
                               block travels as HEADERS + CONTINUATION: x2m  MOSN's MFramer.ReadFrame with
                               MaxHeaderListSize = limit reads it (the production receiver: readMetaFrame mutes the
                               decoder); m2x  x/net's decoder behind the driver's transcription of RcvOne (x/net's own
                               Framer closes the connection on an oversized list as a matter of policy)
     set{v}                    the decoder's side announces SETTINGS_HEADER_TABLE_SIZE = v
                               (decoder.SetAllowedMaxDynamicTableSize, encoder.SetMaxDynamicTableSize)
     blk{in,wire,out,verdict,err,perr,enc,dec}
                               one header block: the list handed to the encoder, the representations on the wire,
                               what the real decoder emitted / the receiver handed on (fed in two pieces), the
                               receiver's verdict ("" without a limit | "ok" | "truncated" | "malformed" = stream
                               error), the error that ends the connection, the wire reader's error, and the dynamic
                               tables of MOSN's side(s) read through the verif accessors (has = FALSE for the x/net
                               side, which has no accessor) *)
EXTENDS Hpack, VTrace

VARIABLES tab, tmax, allowed, tpend, tlimit
tvars == <<vars, tab, tmax, allowed, tpend, tlimit, l>>

TraceInit == /\ Init /\ l = 1 /\ tab = <<>> /\ tmax = 4096 /\ allowed = 4096 /\ tpend = Inf /\ tlimit = Inf

TCase == /\ IsEvent("case")
         /\ tab' = <<>> /\ tmax' = 4096 /\ allowed' = 4096 /\ tpend' = Inf /\ tlimit' = Ev.limit
         /\ UNCHANGED vars

TSet == /\ IsEvent("set")
        /\ allowed' = Ev.v /\ tpend' = Min(tpend, Ev.v)
        /\ UNCHANGED <<vars, tab, tmax, tlimit>>

TabOK(side, d) == side.has => /\ side.tab = d.tab
                              /\ side.max = d.max
                              /\ side.size = TabSize(d.tab)

TBlk == /\ IsEvent("blk")
        /\ LET d == DecodeWire(Ev.wire, tab, tmax, allowed, tlimit)
               \* what has to come out: without a receiver the list itself; with one what RcvOne collects, nothing
               \* when the block is refused with a stream error - and in every case the table moves on (d.tab below)
               want == IF tlimit = Inf THEN Ev.in ELSE IF Verdict(d.rcv) = "malformed" THEN <<>> ELSE d.rcv.got
           IN
             /\ Expect(Ev.perr = "", "wire-unreadable")
             /\ Expect(d.ok, "wire-invalid-for-the-shared-table")
             /\ Expect(Ev.err = "", "decoder-rejected-block")
             /\ Expect(tlimit = Inf \/ ~d.ok \/ Ev.err # "" \/ Ev.verdict = Verdict(d.rcv), "block-verdict-differs")
             /\ Expect((tlimit # Inf /\ ~d.ok) \/ SameList(Ev.out, want), "decoded-list-differs")
             /\ Expect(~d.ok \/ SameList(d.out, Ev.in), "wire-means-another-list")
             /\ Expect(SensitiveOK(Ev.wire, Ev.in, Ev.out), "sensitive-field-indexed")
             /\ Expect(d.max <= allowed, "table-larger-than-announced-size")
             /\ Expect(SignalOK(d.upds, tpend, tmax), "smallest-size-not-signalled")
             /\ Expect(~d.ok \/ TabOK(Ev.enc, d), "encoder-table-differs")
             /\ Expect(~d.ok \/ Ev.err # "" \/ TabOK(Ev.dec, d), "decoder-table-differs")
             /\ tab' = d.tab /\ tmax' = d.max /\ tpend' = Inf
        /\ UNCHANGED <<vars, allowed, tlimit>>

TraceNext == TCase \/ TSet \/ TBlk
TraceSpec == TraceInit /\ [][TraceNext]_tvars
====
