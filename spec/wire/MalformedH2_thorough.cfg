CONSTANTS
  Defects = {}
  Emit = TRUE
  Tier = "thorough"
SPECIFICATION Spec
INVARIANTS InvTerminates InvNoFrameFromMissing EmitCase
CHECK_DEADLOCK FALSE
