CONSTANTS
  MaxUnits = 2
  Conts = {0, 1, 2}
  Pads = {0}
  DataLens = {1}
  Defects = {"DrainFirstOnly"}
SPECIFICATION Spec
INVARIANTS InOrderOnce NoEarly Prompt Consumed Terminates SameForEveryCut
CHECK_DEADLOCK FALSE
