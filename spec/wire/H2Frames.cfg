CONSTANTS
  MaxUnits = 2
  Conts = {0, 1, 2, 3}
  Pads = {0, 3}
  DataLens = {0, 1, 20}
  Defects = {}
SPECIFICATION Spec
INVARIANTS InOrderOnce NoEarly Prompt Consumed Terminates SameForEveryCut EmitCase
CHECK_DEADLOCK FALSE
