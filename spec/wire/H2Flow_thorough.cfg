CONSTANTS
  Streams = {1, 2}
  Bodies = {0, 2, 5}
  Wins = {0, 1, 3}
  ConnWins = {1, 4, 20}
  Incs = {1, 3}
  Mfs = {2, 4}
  MaxOps = 4
  Defects = {}
SPECIFICATION Spec
INVARIANTS StreamWindow ConnWindow FrameSize NoOverrun BooksAgree Delivered EmitCase
CHECK_DEADLOCK FALSE
