CONSTANTS
  Streams = {1, 2}
  Bodies = {0, 1, 3, 6}
  Wins = {0, 1, 2, 4}
  ConnWins = {1, 3, 20}
  Incs = {1, 2}
  Mfs = 2
  MaxOps = 4
  Defects = {}
SPECIFICATION Spec
INVARIANTS StreamWindow ConnWindow FrameSize NoOverrun BooksAgree Delivered EmitCase
CHECK_DEADLOCK FALSE
