---- MODULE H1FramingMC ----
(* The universes of cases for H1Framing.  A case is one or two exchanges on ONE downstream connection.
   Star design: the request shapes are swept completely against two kinds of response, the response shapes completely
   against three kinds of request (the two hops are read by different code: serverStreamConnection.serve /
   clientStreamConnection.serve); each with and without a second, plain exchange (the probe) before or after it, or
   written together with it (pipelined). *)
EXTENDS H1Framing

Probe == [m |-> "POST", ver |-> "11", cc |-> FALSE, exp |-> FALSE, qf |-> "cl", qz |-> "s", qk |-> 1,
          sf |-> "cl", st |-> 200, pre |-> 0, sz |-> "s", sk |-> 1, scl |-> FALSE, sclose |-> FALSE, uc |-> "keep", cut |-> 0, extra |-> ""]

(* size class and number of pieces go together: empty; one octet; small; larger than one read buffer *)
SizePieces == {<<"0", 0>>, <<"1", 1>>, <<"s", 1>>, <<"s", 2>>, <<"s", 3>>, <<"L", 1>>, <<"L", 2>>, <<"L", 3>>}

(* ---- request shapes (RFC 7230 3.3.3 for requests: chunked / Content-Length / no body) *)
Req(m, ver, cc, exp, qf, zp) == [m |-> m, ver |-> ver, cc |-> cc, exp |-> exp, qf |-> qf, qz |-> zp[1], qk |-> zp[2]]
ReqShapes ==
  { q \in { Req(m, ver, cc, exp, qf, zp) : m \in {"GET", "POST", "HEAD"}, ver \in {"11", "10", "10ka"}, cc \in BOOLEAN,
                                            exp \in BOOLEAN, qf \in {"none", "cl", "ch"}, zp \in SizePieces } :
      /\ (q.qf = "none") => q.qk = 0
      /\ (q.qf = "cl") => q.qk # 2                       \* for a length-delimited body the pieces are only separate writes
      /\ (q.ver # "11") => (q.qf # "ch" /\ ~q.exp)       \* HTTP/1.0 knows neither the chunked coding nor Expect
      /\ q.exp => (q.qk > 0)
      /\ ~(q.cc /\ q.ver = "10ka") }
BaseReqs == { Req("GET", "11", FALSE, FALSE, "none", <<"0", 0>>), Req("POST", "11", FALSE, FALSE, "cl", <<"s", 1>>),
              Req("HEAD", "11", FALSE, FALSE, "none", <<"0", 0>>) }

(* ---- response shapes (RFC 7230 3.3.3 for responses) *)
Resp(sf, st, pre, zp, scl, sclose, uc, cut, extra) ==
  [sf |-> sf, st |-> st, pre |-> pre, sz |-> zp[1], sk |-> zp[2], scl |-> scl, sclose |-> sclose, uc |-> uc, cut |-> cut, extra |-> extra]
Legal(r) ==
      /\ (r.sf = "nobody") => (IF r.scl THEN r.sz = "s" /\ r.sk = 1 ELSE r.sk = 0)    \* the Content-Length of the body that is not sent
      /\ (r.st = 204) => ~r.scl
      /\ (r.sf \in {"cl", "eof", "eof10"}) => r.sk # 2
      /\ (r.uc = "cut") => /\ r.extra = ""
                           /\ (IF r.sf = "ch" THEN r.cut <= r.sk ELSE r.cut < r.sk)    \* chunked: cut = sk: every chunk but no last-chunk
                           /\ r.cut \in {0, r.sk - 1, r.sk}
      /\ (r.uc # "cut") => r.cut = 0
      /\ (r.extra # "") => (r.uc = "keep" /\ ~r.sclose /\ r.pre = 0)
      /\ (r.pre # 0) => (r.sk <= 1 /\ r.uc \in {"keep", "fin"})
Pres == {0, 100, 103}
Extras == {"", "junk", "resp"}
RespShapes ==
  { r \in { Resp(sf, 200, pre, zp, FALSE, sclose, uc, cut, extra) : sf \in {"cl", "ch"}, pre \in Pres, zp \in SizePieces, sclose \in BOOLEAN,
                uc \in {"keep", "fin", "rst", "cut"}, cut \in 0..3, extra \in Extras } : Legal(r) }
  \cup { r \in { Resp(sf, 200, pre, zp, FALSE, FALSE, uc, 0, "") : sf \in {"eof", "eof10"}, pre \in Pres, zp \in SizePieces, uc \in {"fin", "rst"} } : Legal(r) }
  \cup { r \in { Resp("nobody", st, pre, zp, scl, sclose, uc, 0, extra) : st \in {200, 204, 304}, pre \in Pres, zp \in {<<"0", 0>>, <<"s", 1>>},
                scl \in BOOLEAN, sclose \in BOOLEAN, uc \in {"keep", "fin", "rst"}, extra \in Extras } : Legal(r) }
Compatible(q, r) == IF q.m = "HEAD" THEN r.sf = "nobody" /\ r.st = 200 ELSE (r.sf = "nobody") <=> (r.st \in {204, 304})
BaseResps(q) == IF q.m = "HEAD"
                THEN { Resp("nobody", 200, 0, <<"s", 1>>, TRUE, FALSE, "keep", 0, "") }
                ELSE { Resp("cl", 200, 0, <<"s", 1>>, FALSE, FALSE, "keep", 0, ""), Resp("eof", 200, 0, <<"L", 3>>, FALSE, FALSE, "fin", 0, "") }

Join(q, r) == [m |-> q.m, ver |-> q.ver, cc |-> q.cc, exp |-> q.exp, qf |-> q.qf, qz |-> q.qz, qk |-> q.qk,
               sf |-> r.sf, st |-> r.st, pre |-> r.pre, sz |-> r.sz, sk |-> r.sk, scl |-> r.scl, sclose |-> r.sclose,
               uc |-> r.uc, cut |-> r.cut, extra |-> r.extra]
(* the second exchange: none / the probe after / the probe before / both requests written at once.
   After a request that ends the downstream connection nothing follows; a held-back body cannot be pipelined; octets
   beyond the message matter only to the exchange that follows. *)
KeepsDown(e) == ~e.cc /\ e.ver # "10"
Seconds == {"none", "after", "before", "pipe"}
MkCase(e, sec) == CASE sec = "none" -> [ex |-> <<e>>, pipe |-> FALSE]
                    [] sec = "after" -> [ex |-> <<e, Probe>>, pipe |-> FALSE]
                    [] sec = "before" -> [ex |-> <<Probe, e>>, pipe |-> FALSE]
                    [] sec = "pipe" -> [ex |-> <<e, Probe>>, pipe |-> TRUE]
SecOK(e, sec) == CASE sec = "none" -> e.extra = ""
                   [] sec = "after" -> KeepsDown(e)
                   [] sec = "before" -> e.extra = ""
                   [] sec = "pipe" -> KeepsDown(e) /\ ~e.exp /\ e.extra = "" /\ e.uc = "keep" /\ ~e.sclose /\ e.sf \notin {"eof", "eof10"}
InStar(q, r) == r \in BaseResps(q) \/ q \in BaseReqs

(* quick tier: the star, every kind of second exchange *)
InitStar == /\ \E q \in ReqShapes, r \in RespShapes, sec \in Seconds :
                 /\ Compatible(q, r) /\ InStar(q, r) /\ SecOK(Join(q, r), sec)
                 /\ cs = MkCase(Join(q, r), sec)
            /\ i = 0 /\ px = Start(cs) /\ obs = <<>>
SpecStar == InitStar /\ [][Next]_vars

(* thorough tier: on top of the star every request shape against every response shape it is compatible with, followed by
   the probe (alone after a request that ends the downstream connection) *)
InitThorough == /\ \E q \in ReqShapes, r \in RespShapes, sec \in Seconds :
                     /\ Compatible(q, r) /\ SecOK(Join(q, r), sec)
                     /\ (InStar(q, r) \/ sec = (IF KeepsDown(q) THEN "after" ELSE "none"))
                     /\ cs = MkCase(Join(q, r), sec)
                /\ i = 0 /\ px = Start(cs) /\ obs = <<>>
SpecThorough == InitThorough /\ [][Next]_vars
====
