---- MODULE DetectTrace ----
(* Trace validation of the real protocol matchers and of SelectStreamFactoryProtocol against Detect (C07).
     drun{truth,protos,total}   a valid stream of protocol `truth`, `total` bytes; protos = registered protocols
     match{m,n,res}             verdict of matcher m alone on the first n bytes: again | ok | fail
     select{n,res,total}        answer of the real selection over all registered protocols on the first n bytes:
                                again | fail | <protocol name> *)
EXTENDS Detect, VTrace, Sequences

VARIABLE last     \* last verdict of every matcher
tvars == <<vars, last, l>>

TraceInit == /\ l = 1 /\ truth = "" /\ d = <<>> /\ fed = 0 /\ chosen = "none" /\ last = <<>>

ToSet(s) == { s[i] : i \in 1..Len(s) }

TRun == /\ IsEvent("drun")
        /\ truth' = Ev.truth /\ last' = [m \in ToSet(Ev.protos) |-> "again"]
        /\ fed' = 0 /\ chosen' = "none" /\ UNCHANGED d

TMatch == /\ IsEvent("match")
          /\ Ev.m \in DOMAIN last
          /\ Expect(last[Ev.m] = "again" \/ Ev.res = last[Ev.m], "matcher-not-prefix-monotone")
          /\ Expect(Ev.res = "ok" => Ev.m = truth, "second-matcher-succeeds")
          /\ last' = [last EXCEPT ![Ev.m] = Ev.res]
          /\ fed' = Ev.n /\ UNCHANGED <<truth, d, chosen>>

TSelect == /\ IsEvent("select")
           /\ Expect(Ev.res \in SelectSetOf(last), "selection-rule")
           /\ Expect(Ev.res # "fail", "failed-on-prefix-of-valid-stream")
           /\ Expect(Ev.res \in {"again", "fail", truth}, "wrong-protocol")
           /\ Expect(Ev.n < Ev.total \/ Ev.res # "again", "undecided-on-complete-input")
           /\ Expect(chosen = "none" \/ Ev.res = chosen, "selection-changed")
           /\ chosen' = IF Ev.res = "again" THEN chosen ELSE Ev.res
           /\ UNCHANGED <<truth, d, fed, last>>

TraceNext == TRun \/ TMatch \/ TSelect
TraceSpec == TraceInit /\ [][TraceNext]_tvars
====
