---- MODULE DetectTrace ----
(* Trace validation of the real protocol matchers and of SelectStreamFactoryProtocol against Detect (C07).
     drun{truth,protos,total}   a valid stream of protocol `truth`, `total` bytes; protos = registered protocols
     match{m,n,res}             verdict of matcher m alone on the first n bytes: again | ok | fail
     select{n,res,total[,scope]} answer of the real selection on the first n bytes over the ordered list `scope`
                                (absent: Auto, all registered protocols): again | fail | <protocol name> *)
EXTENDS Detect, VTrace

VARIABLE last     \* last verdict of every matcher
tvars == <<vars, last, l>>

TraceInit == /\ l = 1 /\ truth = "" /\ d = <<>> /\ fed = 0 /\ chosen = "none" /\ last = <<>> /\ scope = <<>>

TRun == /\ IsEvent("drun")
        /\ truth' = Ev.truth /\ last' = [m \in ToSet(Ev.protos) |-> "again"]
        /\ fed' = 0 /\ chosen' = "none" /\ UNCHANGED <<d, scope>>

TMatch == /\ IsEvent("match")
          /\ Ev.m \in DOMAIN last
          /\ Expect(last[Ev.m] = "again" \/ Ev.res = last[Ev.m], "matcher-not-prefix-monotone")
          /\ Expect(Ev.res = "ok" => Ev.m = truth, "second-matcher-succeeds")
          /\ last' = [last EXCEPT ![Ev.m] = Ev.res]
          /\ fed' = Ev.n /\ UNCHANGED <<truth, d, chosen, scope>>

TSelect == /\ IsEvent("select")
           /\ LET listed == IF Has(Ev, "scope") THEN ToSet(Ev.scope) ELSE DOMAIN last IN   \* no scope: Auto
                Expect(Ev.res \in SelectSetOf([m \in listed |-> last[m]]), "selection-rule")
           /\ Expect(Ev.res # "fail", "failed-on-prefix-of-valid-stream")
           /\ Expect(Ev.res \in {"again", "fail", truth}, "wrong-protocol")
           /\ Expect(Ev.n < Ev.total \/ Ev.res # "again", "undecided-on-complete-input")
           /\ Expect(chosen = "none" \/ Ev.res = chosen, "selection-changed")
           /\ chosen' = IF Ev.res \in {"again", "fail"} THEN chosen ELSE Ev.res
           /\ UNCHANGED <<truth, d, fed, last, scope>>

TraceNext == TRun \/ TMatch \/ TSelect
TraceSpec == TraceInit /\ [][TraceNext]_tvars
====
