CONSTANTS
  MaxFrames = 3
  Lens = {3}
  H = 3
  Preface = 0
  Peek = 0
  MaxTimeouts = 0
  Priors = {0}
  DispatchBound = 2
  Defects = {"BoundedFramesPerDispatch"}
SPECIFICATION Spec
INVARIANTS InOrderOnce NoEarly Prompt Consumed PrefaceOnce NoError NoByteLost LoopUntilDry SameForEveryCut
CHECK_DEADLOCK FALSE
