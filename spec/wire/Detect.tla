---- MODULE Detect ----
(* Automatic protocol detection on a growing prefix (property C07, second half).
   Shape of the implementation:
     proxy/proxy.go OnData                    : while no stream connection exists, run the selection on the WHOLE
                                                read buffer; AGAIN => wait for more bytes (nothing consumed),
                                                FAILED => close / fallback, a name => create the stream connection
     protocol/api.go SelectStreamFactoryProtocol : first matcher (map order!) that succeeds wins; else AGAIN if
                                                any matcher said AGAIN; else FAILED
     <proto>/matcher.go, http(2) ProtocolMatch : a verdict on the prefix seen so far
   Each matcher m decides after d[m] bytes of this input. The design is sound iff every matcher is
   prefix-monotone (a verdict other than "again" never changes when bytes are appended); the input assumption
   is that exactly one matcher - the one of the true protocol - finally succeeds.
   The listener's protocol configuration is a dimension: `scope` is the ORDERED list the selection loops over
   (an explicit list "a,b,c" of the proxy config; Auto = all registered protocols in map order, i.e. any order).
   What the code promises for one call: the first listed matcher that answers "ok" wins; otherwise AGAIN if ANY
   listed matcher answered "again" (one matcher saying "fail" does not end the wait while another still needs
   bytes); FAILED only when every listed matcher said "fail". Under the input assumption this answer does not
   depend on the order of the list and is prefix monotone.
   Defects: "EarlyFail" = the true protocol's matcher answers "fail" on a prefix that is too short to decide;
            "LastVerdictWins" = the need-more flag is overwritten by each listed matcher instead of accumulated. *)
EXTENDS Integers, Sequences, FiniteSets, TLC, Json

CONSTANTS Protos, N, Defects

VARIABLES truth, d, fed, chosen, scope
vars == <<truth, d, fed, chosen, scope>>

Verdict(m, n) == IF n < d[m]
                 THEN (IF "EarlyFail" \in Defects /\ m = truth /\ n > 0 THEN "fail" ELSE "again")
                 ELSE (IF m = truth THEN "ok" ELSE "fail")

(* the selection rule, on a function proto -> verdict (shared with the trace spec) *)
SelectSetOf(v) == LET oks == { m \in DOMAIN v : v[m] = "ok" } IN
                  IF oks # {} THEN oks
                  ELSE IF \E m \in DOMAIN v : v[m] = "again" THEN {"again"} ELSE {"fail"}

(* the loop of SelectStreamFactoryProtocol over the configured list *)
RECURSIVE Loop(_, _, _, _)
Loop(v, seq, i, again) ==
  IF i > Len(seq) THEN (IF again THEN "again" ELSE "fail")
  ELSE IF v[seq[i]] = "ok" THEN seq[i]
  ELSE Loop(v, seq, i + 1, IF "LastVerdictWins" \in Defects THEN v[seq[i]] = "again"
                                                              ELSE again \/ v[seq[i]] = "again")
SelectList(v, seq) == Loop(v, seq, 1, FALSE)

ToSet(s) == { s[i] : i \in 1..Len(s) }
Lists == { s \in UNION { [1..n -> Protos] : n \in 1..Cardinality(Protos) } :
             \A i, j \in DOMAIN s : i # j => s[i] # s[j] }

Init == /\ truth \in Protos /\ d \in [Protos -> 1..N]
        /\ scope \in { s \in Lists : truth \in ToSet(s) }
        /\ fed = 0 /\ chosen = "none"

Feed(k) == /\ chosen = "none" /\ fed + k <= N
           /\ fed' = fed + k
           /\ LET r == SelectList([m \in Protos |-> Verdict(m, fed + k)], scope) IN
                chosen' = IF r = "again" THEN "none" ELSE r
           /\ UNCHANGED <<truth, d, scope>>

Next == \E k \in 1..N : Feed(k)
Spec == Init /\ [][Next]_vars

OnlyTruth == chosen \in {"none", truth}
Prompt    == fed >= d[truth] => chosen = truth
NeverFail == chosen # "fail"
\* the loop's answer is the order-free rule applied to the listed matchers, for every prefix length
OrderIndependent == \A n \in 0..N : LET v == [m \in Protos |-> Verdict(m, n)] IN
                      SelectList(v, scope) \in SelectSetOf([m \in ToSet(scope) |-> v[m]])
\* one CASE per shape of list: its length and the position of the connection's own protocol
EmitCase == fed = 0 => PrintT(<<"CASE", ToJson([n |-> Len(scope),
                                 pos |-> CHOOSE i \in DOMAIN scope : scope[i] = truth])>>)
====
