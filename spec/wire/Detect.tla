---- MODULE Detect ----
(* Automatic protocol detection on a growing prefix (property C07, second half).
   Shape of the implementation:
     proxy/proxy.go OnData                    : while no stream connection exists, run the selection on the WHOLE
                                                read buffer; AGAIN => wait for more bytes (nothing consumed),
                                                FAILED => close / fallback, a name => create the stream connection
     protocol/api.go SelectStreamFactoryProtocol : first matcher (map order!) that succeeds wins; else AGAIN if
                                                any matcher said AGAIN; else FAILED
     <proto>/matcher.go, http(2) ProtocolMatch : a verdict on the prefix seen so far
   Each matcher m decides after d[m] bytes of this input. The design is sound iff every matcher is
   prefix-monotone (a verdict other than "again" never changes when bytes are appended); the input assumption
   is that exactly one matcher - the one of the true protocol - finally succeeds.
   Defects: "EarlyFail" = the true protocol's matcher answers "fail" on a prefix that is too short to decide. *)
EXTENDS Integers, FiniteSets, TLC

CONSTANTS Protos, N, Defects

VARIABLES truth, d, fed, chosen
vars == <<truth, d, fed, chosen>>

Verdict(m, n) == IF n < d[m]
                 THEN (IF "EarlyFail" \in Defects /\ m = truth /\ n > 0 THEN "fail" ELSE "again")
                 ELSE (IF m = truth THEN "ok" ELSE "fail")

(* the selection rule, on a function proto -> verdict (shared with the trace spec) *)
SelectSetOf(v) == LET oks == { m \in DOMAIN v : v[m] = "ok" } IN
                  IF oks # {} THEN oks
                  ELSE IF \E m \in DOMAIN v : v[m] = "again" THEN {"again"} ELSE {"fail"}

Init == /\ truth \in Protos /\ d \in [Protos -> 1..N]
        /\ fed = 0 /\ chosen = "none"

Feed(k) == /\ chosen = "none" /\ fed + k <= N
           /\ fed' = fed + k
           /\ \E r \in SelectSetOf([m \in Protos |-> Verdict(m, fed + k)]) :
                chosen' = IF r = "again" THEN "none" ELSE r
           /\ UNCHANGED <<truth, d>>

Next == \E k \in 1..N : Feed(k)
Spec == Init /\ [][Next]_vars

OnlyTruth == chosen \in {"none", truth}
Prompt    == fed >= d[truth] => chosen = truth
NeverFail == chosen # "fail"
====
