CONSTANTS
  Fields = {1, 3, 4, 5}
  Sizes = {0, 36, 4096}
  MaxOps = 4
  MaxSets = 2
  Limits = {1000000}
  Defects = {"OnlyFinalUpdate"}
SPECIFICATION Spec
INVARIANTS NoError RoundTrip TablesEqual SizeBound SensitiveKept
CHECK_DEADLOCK FALSE
