CONSTANTS
  MaxFrames = 2
  Lens = {3, 5}
  H = 3
  Preface = 0
  Peek = 0
  MaxTimeouts = 0
  Priors = {0}
  DispatchBound = 2
  Defects = {"OffByOne"}
SPECIFICATION Spec
INVARIANTS InOrderOnce NoEarly Prompt Consumed PrefaceOnce NoError NoByteLost LoopUntilDry SameForEveryCut
CHECK_DEADLOCK FALSE
