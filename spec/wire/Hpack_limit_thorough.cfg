CONSTANTS
  Fields = {1, 3, 4, 5, 6}
  Sizes = {73}
  MaxOps = 6
  MaxSets = 1
  Limits = {50, 73, 4096}
  Defects = {}
SPECIFICATION Spec
INVARIANTS NoError RoundTrip TablesEqual SizeBound SensitiveKept Delivered EmitCase
CHECK_DEADLOCK FALSE
