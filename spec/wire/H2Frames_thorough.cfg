CONSTANTS
  MaxUnits = 2
  Conts = {0, 1, 2, 3, 4}
  Pads = {0, 1, 200}
  DataLens = {0, 1, 20, 3000}
  Defects = {}
SPECIFICATION Spec
INVARIANTS InOrderOnce NoEarly Prompt Consumed Terminates SameForEveryCut EmitCase
CHECK_DEADLOCK FALSE
