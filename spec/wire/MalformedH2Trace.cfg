CONSTANTS
  Defects = {}
  Emit = FALSE
  Tier = "trace"
SPECIFICATION TraceSpec
POSTCONDITION Accepted
CHECK_DEADLOCK FALSE
