---- MODULE VTrace ----
(* Shared plumbing for trace validation (binding B2, DESIGN.md Appendix B).
   The recorded execution is trace.ndjson: one JSON object per line, field "ev" names the event.
   A trace spec extends this module, declares one action per event and conjoins IsEvent(name). *)
EXTENDS Naturals, Sequences, TLC, Json

Trace == ndJsonDeserialize("trace.ndjson")

VARIABLE l   \* index of the next trace line to consume

Ev == Trace[l]
IsEvent(e) == l <= Len(Trace) /\ Trace[l].ev = e /\ l' = l + 1

Has(r, f) == f \in DOMAIN r

(* Soft check: a recorded value that disagrees with the specification is reported and the
   validation goes on with the rest of the trace, so one defect does not hide the next one. *)
Expect(cond, what) == IF cond THEN TRUE ELSE PrintT(<<"MISMATCH", l, what>>)

(* Fully logged, one state per consumed line: the diameter is the matched prefix + initial state. *)
Accepted == LET d == TLCGet("stats").diameter IN
              IF d - 1 = Len(Trace) THEN TRUE ELSE Print(<<"matched", d - 1, "of", Len(Trace)>>, FALSE)
====
