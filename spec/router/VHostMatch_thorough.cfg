CONSTANTS
  Doms <- DomsThorough
  Reqs <- ReqsThorough
  MaxDoms = 3
  Defects = {}
SPECIFICATION Spec
INVARIANTS BuildOutcome LookupIsSelect Unambiguous
CHECK_DEADLOCK FALSE
