CONSTANTS
  Rules <- RulesQuick
  ReqsR <- ReqsRQuick
  MaxRules = 2
  Defects = {"VarLeftToRight"}
SPECIFICATION Spec
INVARIANTS FirstWins
CHECK_DEADLOCK FALSE
