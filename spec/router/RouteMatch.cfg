CONSTANTS
  Rules <- RulesQuick
  ReqsR <- ReqsRQuick
  MaxRules = 2
  Defects = {}
SPECIFICATION Spec
INVARIANTS FirstWins NoneOnlyIfNone EarlierDoNotHold
CHECK_DEADLOCK FALSE
