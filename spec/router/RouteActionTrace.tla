---- MODULE RouteActionTrace ----
(* Trace validation of what the real code did with the cases RouteAction.tla enumerates (C17, route actions
   and effective timeouts).  Every event is one self-contained case: the configuration and request TLC
   enumerated (field c, passed through by the driver unchanged) and what was observed at the scripted
   upstream / at the client / through the read-only timeout hook:
     rx{rr,path,out}                         Go regexp applied to a path (keeps the spec's regex meaning honest)
     hdr{c,rc,n,up,status,down}              in-process MOSN: request-side case c, response-side case rc
     path{c,n,path,query,host,orig,status}   what the upstream received for a rewrite case
     hop{c,n,path,orig,status}               what the upstream received behind two chained listeners that both rewrite
     pfc{c,n,route,vhost}                    what a stream filter read through the matched route (per_filter_config)
     (hdr / path events carry proto = "h1" | "h2": the listener and cluster variant the case went through)
     redir{c,n,status,loc}   direct{c,n,status,body}     the local reply; n = number of upstream arrivals
     tmo{c,g,t,via}                          effective timeouts (via = "component" | "e2e") *)
EXTENDS RouteAction, VTrace

tvars == <<c, l>>
TraceInit == l = 1 /\ c = 0

SameHdr(got, want) == \A k \in Names : got[k] = want[k]

TRx == /\ IsEvent("rx")
       /\ Expect(RegexApply(Ev.rr, Ev.path) = Ev.out, "spec-regex-meaning")

THdr == /\ IsEvent("hdr")
        /\ Expect(Ev.n = 1, "not-forwarded-exactly-once")
        /\ Expect(Ev.n # 1 \/ SameHdr(Ev.up, SemHdr(Ev.c.lv, Ev.c.hin, [src |-> Ev.c.src, rsrc |-> Absent])), "request-headers")
        /\ Expect(Ev.status = 200, "reply-status")
        /\ Expect(Ev.status # 200 \/ SameHdr(Ev.down, SemHdr(Ev.rc.lv, Ev.rc.hin, [src |-> Ev.c.src, rsrc |-> Ev.rc.rsrc])), "response-headers")

TPath == /\ IsEvent("path")
         /\ Expect(Ev.n = 1, "not-forwarded-exactly-once")
         /\ Expect(Ev.n # 1 \/ Ev.path = SemPath(Ev.c), "path-rewrite")
         /\ Expect(Ev.n # 1 \/ Ev.query = Ev.c.query, "query-kept")
         /\ Expect(Ev.n # 1 \/ Ev.proto # "h1" \/ Ev.host = SemHost(Ev.c), "host-rewrite")     \* promised towards HTTP/1.1 upstreams
         /\ Expect(Ev.n # 1 \/ Ev.orig = SemOrig(Ev.c), "original-path-header")
         /\ Expect(Ev.status = 200, "reply-status")

THop == /\ IsEvent("hop")
        /\ Expect(Ev.n = 1, "not-forwarded-exactly-once")
        /\ Expect(Ev.n # 1 \/ Ev.path = SemHop(Ev.c).path, "two-hops:path-rewrite")
        /\ Expect(Ev.n # 1 \/ Ev.orig = SemHop(Ev.c).orig, "two-hops:original-path-header")
        /\ Expect(Ev.status = 200, "reply-status")

TRedir == /\ IsEvent("redir")
          /\ Expect(Ev.n = 0, "redirect-forwarded")
          /\ Expect(Ev.status = SemRedirCode(Ev.c), "redirect-status")
          /\ Expect(Ev.loc = SemLocation(Ev.c), "redirect-location")

TDirect == /\ IsEvent("direct")
           /\ Expect(Ev.n = 0, "direct-response-forwarded")
           /\ Expect(Ev.status = Ev.c.status, "direct-response-status")
           /\ Expect(Ev.body = Ev.c.body, "direct-response-body")

TPfc == /\ IsEvent("pfc")
        /\ Expect(Ev.n = 1, "not-forwarded-exactly-once")
        /\ Expect(Ev.n # 1 \/ Ev.route = SemPfc(Ev.c).route, "per-filter-config-of-route")
        /\ Expect(Ev.n # 1 \/ Ev.vhost = SemPfc(Ev.c).vhost, "per-filter-config-of-virtual-host")

TTmo == /\ IsEvent("tmo")
        /\ Expect(Ev.g = SemTimeout(Ev.c).g, "timeout-global")
        /\ Expect(Ev.t = SemTimeout(Ev.c).t, "timeout-per-try")

TraceNext == (TRx \/ THdr \/ TPfc \/ THop \/ TPath \/ TRedir \/ TDirect \/ TTmo) /\ UNCHANGED c
TraceSpec == TraceInit /\ [][TraceNext]_tvars
====
