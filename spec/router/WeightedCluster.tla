---- MODULE WeightedCluster ----
(* Weighted-cluster selection of a route (pkg/router/base_rule.go ClusterName), property C06 part 1.
   The code draws d in 0..total-1 and scans the clusters in *map iteration order*, subtracting
   weights until the running value drops below zero.  The order is not under the code's control,
   so the specification quantifies over every order. *)
EXTENDS Integers, Sequences, FiniteSets, TLC, Json

CONSTANTS Clusters,   \* set of cluster names
          Weights,    \* set of admissible weights, e.g. 0..3
          Defects     \* {} = intended design; {"LeZero"} = the comparison the pinned code used

None == "none"

VARIABLES w, order, draw, pos, rem, result
vars == <<w, order, draw, pos, rem, result>>

RECURSIVE SumOver(_, _)
SumOver(f, S) == IF S = {} THEN 0 ELSE LET x == CHOOSE y \in S : TRUE IN f[x] + SumOver(f, S \ {x})
Total(ww) == SumOver(ww, DOMAIN ww)

Perms(S) == { p \in [1..Cardinality(S) -> S] : \A i, j \in DOMAIN p : i # j => p[i] # p[j] }

RECURSIVE Cum(_, _, _)
Cum(ww, ord, k) == IF k = 0 THEN 0 ELSE ww[ord[k]] + Cum(ww, ord, k - 1)

(* declarative meaning: the cluster whose half-open cumulative interval contains the draw *)
Select(ww, ord, d) ==
  LET ks == { k \in DOMAIN ord : Cum(ww, ord, k - 1) <= d /\ d < Cum(ww, ord, k) }
  IN IF ks = {} THEN None ELSE ord[CHOOSE k \in ks : TRUE]

Hit(r) == IF "LeZero" \in Defects THEN r <= 0 ELSE r < 0

Init == /\ \E S \in (SUBSET Clusters) \ {{}} : w \in [S -> Weights] /\ order \in Perms(S)
        /\ Total(w) > 0
        /\ draw \in 0..(Total(w) - 1)
        /\ pos = 1 /\ rem = draw /\ result = None

Visit == /\ result = None /\ pos <= Len(order)
         /\ LET c == order[pos] r == rem - w[c] IN
              /\ rem' = r
              /\ result' = IF Hit(r) THEN c ELSE None
         /\ pos' = pos + 1
         /\ UNCHANGED <<w, order, draw>>

Next == Visit
Spec == Init /\ [][Next]_vars

Done == result # None \/ pos > Len(order)

(* ---- properties ---- *)
ScanIsSelect == Done => result = Select(w, order, draw)
ZeroNever    == result # None => w[result] > 0
AlwaysSome   == Done => result # None
(* the statement of C06: for EVERY storage order the number of draws mapped to c is exactly w[c] *)
CountsExact  == (pos = 1 /\ draw = 0 /\ order = CHOOSE p \in Perms(DOMAIN w) : TRUE) =>   \* depends on w only
                \A ord \in Perms(DOMAIN w) : \A c \in DOMAIN w :
                  Cardinality({ d \in 0..(Total(w) - 1) : Select(w, ord, d) = c }) = w[c]

(* one CASE line per weight vector, consumed by the Go driver *)
EmitCase == (pos = 1 /\ draw = 0 /\ order = CHOOSE p \in Perms(DOMAIN w) : TRUE) =>
              PrintT(<<"CASE", ToJson([w |-> w, total |-> Total(w)])>>)
====
