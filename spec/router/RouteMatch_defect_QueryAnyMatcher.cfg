CONSTANTS
  Rules <- RulesQuick
  ReqsR <- ReqsRQuick
  MaxRules = 2
  Defects = {"QueryAnyMatcher"}
SPECIFICATION Spec
INVARIANTS FirstWins
CHECK_DEADLOCK FALSE
