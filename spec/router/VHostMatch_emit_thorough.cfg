CONSTANTS
  Doms <- DomsThorough
  Reqs <- ReqsThorough
  MaxDoms = 3
  Defects = {}
SPECIFICATION EmitSpec
INVARIANTS EmitCase
CHECK_DEADLOCK FALSE
