CONSTANTS
  Rules <- RulesQuick
  ReqsR <- ReqsRQuick
  MaxRules = 2
  Defects = {"HeaderDisjunction"}
SPECIFICATION Spec
INVARIANTS FirstWins
CHECK_DEADLOCK FALSE
