CONSTANTS
  MaxLen = 2
  NumRetries = {0, 5}
  Defects = {"GlobalTimerRestartsOnRetry"}
SPECIFICATION Spec
INVARIANTS WithinGlobalTimeout ActionsAppliedOnce AttemptsBounded FreshHost RetryMade ReplyIsLast BudgetSpentOnAttempts
PROPERTY RetryOnlyIfConfigured
CHECK_DEADLOCK FALSE
