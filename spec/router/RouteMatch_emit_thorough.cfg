CONSTANTS
  Rules <- RulesThorough
  ReqsR <- ReqsRThorough
  MaxRules = 3
  Defects = {}
SPECIFICATION EmitSpec
INVARIANTS EmitCase
CHECK_DEADLOCK FALSE
