CONSTANTS
  Doms <- DomsQuick
  Reqs <- ReqsQuick
  MaxDoms = 3
  Defects = {}
SPECIFICATION EmitSpec
INVARIANTS EmitCase
CHECK_DEADLOCK FALSE
