CONSTANTS
  MaxLen = 1
  NumRetries = {9, 10}
  Defects = {}
SPECIFICATION Spec
INVARIANTS WithinGlobalTimeout ActionsAppliedOnce AttemptsBounded FreshHost RetryMade ReplyIsLast BudgetSpentOnAttempts EmitCase
PROPERTY RetryOnlyIfConfigured
CHECK_DEADLOCK FALSE
