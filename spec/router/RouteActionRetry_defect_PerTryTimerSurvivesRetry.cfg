CONSTANTS
  MaxLen = 2
  NumRetries = {0, 5}
  Defects = {"PerTryTimerSurvivesRetry"}
SPECIFICATION Spec
INVARIANTS WithinGlobalTimeout ActionsAppliedOnce AttemptsBounded FreshHost RetryMade ReplyIsLast BudgetSpentOnAttempts
PROPERTY RetryOnlyIfConfigured
CHECK_DEADLOCK FALSE
