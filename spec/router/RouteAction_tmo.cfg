CONSTANTS
  Family = "tmo"
  Defects = {}
  Big = FALSE
SPECIFICATION Spec
INVARIANTS HdrImplIsSem HdrLevelOrder PathImplIsSem PrefixWins PathRuleSwapsWholePath HostImplIsSem RedirImplIsSem TmoImplIsSem TryBelowGlobal EmitCase
CHECK_DEADLOCK FALSE
