---- MODULE VHostMatch ----
(* Implementation-shaped model of NewRouters + findVirtualHost (pkg/router/routers_impl.go), C04 part 1.
   Build: one step per domain entry (generateHostWithPortConfig): the default index, the exact map
   host -> port -> index, the per-port wildcard lists; then one Sort step (descending suffix length).
   Lookup (findHighestPriorityIndex): the five probes in order, first hit wins.
   Checked against the declarative precedence of VHostSem for every configuration and request of the
   universe.  Named ways for this design to go wrong are switched on with Defects and must be rejected. *)
EXTENDS VHostSem, Json

CONSTANTS Doms,      \* universe of domain entries
          Reqs,      \* universe of request authorities
          MaxDoms,   \* entries per configuration
          Defects    \* {} = intended design

VARIABLES cfg, flat, pos, exact, wild, def, pc
vars == <<cfg, flat, pos, exact, wild, def, pc>>

Ports == { d.p : d \in Doms }

(* configurations: every sequence of <= MaxDoms entries, cut into consecutive virtual hosts in every way *)
VhOf(C, i)   == 1 + Cardinality({ c \in C : c < i })
Group(f, C)  == [v \in 1..(1 + Cardinality(C)) |->
                   LET is == { i \in 1..Len(f) : VhOf(C, i) = v }
                       lo == CHOOSE i \in is : \A j \in is : i <= j
                       hi == CHOOSE i \in is : \A j \in is : i >= j
                   IN SubSeq(f, lo, hi)]
FlatOf(f, C) == [i \in 1..Len(f) |-> [v |-> VhOf(C, i), d |-> f[i]]]

Init == \E n \in 1..MaxDoms : \E f \in [1..n -> Doms] : \E C \in SUBSET (1..(n - 1)) :
          /\ cfg = Group(f, C) /\ flat = FlatOf(f, C)
          /\ pos = 1 /\ exact = {} /\ wild = [p \in Ports |-> <<>>] /\ def = 0 /\ pc = "build"

Fail == pc' = "failed" /\ UNCHANGED <<cfg, flat, pos, exact, wild, def>>

AddDomain ==
  /\ pc = "build" /\ pos <= Len(flat)
  /\ LET v == flat[pos].v  d == flat[pos].d  h == Lower(d.h) IN
       IF ~WellFormed(d) THEN Fail
       ELSE IF IsDefault(d) THEN
              IF def # 0 THEN Fail
              ELSE def' = v /\ pos' = pos + 1 /\ UNCHANGED <<cfg, flat, exact, wild, pc>>
       ELSE IF IsExact(d) THEN
              IF \E x \in exact : x.h = h /\ x.p = d.p THEN Fail
              ELSE exact' = exact \cup {[h |-> h, p |-> d.p, v |-> v]} /\ pos' = pos + 1
                   /\ UNCHANGED <<cfg, flat, wild, def, pc>>
       ELSE IF \E k \in 1..Len(wild[d.p]) : wild[d.p][k].suf = Tail(h) THEN Fail
            ELSE wild' = [wild EXCEPT ![d.p] = Append(@, [suf |-> Tail(h), v |-> v])] /\ pos' = pos + 1
                 /\ UNCHANGED <<cfg, flat, exact, def, pc>>

RECURSIVE DescSort(_)
DescSort(s) == IF s = <<>> THEN <<>>
               ELSE LET k == CHOOSE k \in 1..Len(s) : \A j \in 1..Len(s) : Len(s[k].suf) >= Len(s[j].suf)
                    IN <<s[k]>> \o DescSort(SubSeq(s, 1, k - 1) \o SubSeq(s, k + 1, Len(s)))

Sort == /\ pc = "build" /\ pos > Len(flat)
        /\ wild' = IF "NoSort" \in Defects THEN wild ELSE [p \in Ports |-> DescSort(wild[p])]
        /\ pc' = "ready"
        /\ UNCHANGED <<cfg, flat, pos, exact, def>>

Next == AddDomain \/ Sort
Spec == Init /\ [][Next]_vars
EmitSpec == Init /\ [][FALSE]_vars      \* initial states only: case emission

(* ---- lookup on the built structures *)
SuffixOk(s, h) == /\ IF "SuffixMayEqualHost" \in Defects THEN Len(s) <= Len(h) ELSE Len(s) < Len(h)
                  /\ IsSuffix(s, h)
WildScan(list, h) == LET ks == { k \in 1..Len(list) : SuffixOk(list[k].suf, h) } IN
                       IF ks = {} THEN 0 ELSE list[CHOOSE k \in ks : \A j \in ks : k <= j].v
Exact(h, p) == LET S == { x \in exact : x.h = h /\ x.p = p } IN IF S = {} THEN 0 ELSE (CHOOSE x \in S : TRUE).v
Wild(p, h)  == IF p \in Ports THEN WildScan(wild[p], h) ELSE 0

First(seq) == LET ks == { k \in 1..Len(seq) : seq[k] # 0 } IN
                IF ks = {} THEN 0 ELSE seq[CHOOSE k \in ks : \A j \in ks : k <= j]

Lookup(r) ==
  LET h == Lower(r.h)
      onlyDefault == exact = {} /\ (\A p \in Ports : wild[p] = <<>>) /\ def # 0
  IN IF onlyDefault THEN def
     ELSE IF r.h = <<>> /\ r.p = "" /\ "EmptyHostNone" \in Defects THEN 0
     ELSE IF "AnyPortFirst" \in Defects
          THEN First(<<Exact(h, "*"), Exact(h, r.p), Wild("*", h), Wild(r.p, h), def>>)
          ELSE First(<<Exact(h, r.p), Exact(h, "*"), Wild(r.p, h), Wild("*", h), def>>)

(* ---- properties *)
BuildOutcome   == (pc = "failed" => ~Valid(cfg)) /\ (pc = "ready" => Valid(cfg))
LookupIsSelect == pc = "ready" => \A r \in Reqs : Lookup(r) = Select(cfg, r)
(* the precedence is total on valid configurations: no two entries tie *)
Unambiguous    == pc = "ready" => \A r \in Reqs : Cardinality(BestSet(cfg, r)) <= 1

(* ---- case emission: the request universe once, one line per configuration *)
ASSUME PrintT(<<"CASE", ToJson([kind |-> "reqs", reqs |-> Reqs])>>)
EmitCase == (pc = "build" /\ pos = 1) => PrintT(<<"CASE", ToJson([kind |-> "cfg", vhosts |-> cfg])>>)
====
