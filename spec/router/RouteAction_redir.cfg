CONSTANTS
  Family = "redir"
  Defects = {}
  Big = FALSE
SPECIFICATION Spec
INVARIANTS HdrImplIsSem HdrLevelOrder PathImplIsSem PrefixWins HostImplIsSem RedirImplIsSem TmoImplIsSem TryBelowGlobal EmitCase
CHECK_DEADLOCK FALSE
