---- MODULE RouteMatch ----
(* Implementation-shaped model of GetRouteFromEntries (pkg/router/virtualhost.go): the rules of the virtual
   host are tried in configuration order, one Step per rule, the first rule whose Match succeeds is the
   route.  The per-rule decision is written the way the code computes it (compatibility fast path of RPC
   rules, the and/or loop of variable rules) and checked against the declarative RouteSem for every rule
   list and request of the universe.  Named ways to go wrong are switched on with Defects. *)
EXTENDS RouteSem, Json

CONSTANTS Rules, ReqsR, MaxRules, Defects

VARIABLES rules, req, i, result
vars == <<rules, req, i, result>>

RuleLists == UNION { [1..n -> Rules] : n \in 1..MaxRules }

Init == rules \in RuleLists /\ req \in ReqsR /\ Specified(rules, req) /\ i = 1 /\ result = 0
EmitInit == rules \in RuleLists /\ req = (CHOOSE r \in ReqsR : TRUE) /\ i = 1 /\ result = 0

(* ---- the decision of one rule, in the shape of the code *)
ImplHeaders(rule, rq) ==
  IF "HeaderDisjunction" \in Defects /\ Len(rule.hs) > 0
  THEN \E k \in 1..Len(rule.hs) : HttpHdrHolds(rule.hs[k], rq)
  ELSE \A k \in 1..Len(rule.hs) : HttpHdrHolds(rule.hs[k], rq)

ImplRpc(rule, rq) ==
  LET fast == /\ Len(rule.hs) = 1 /\ rule.hs[1].n = "service" /\ rule.hs[1].v # ""
              /\ ("FastMatchIgnoresRegexFlag" \in Defects \/ ~rule.hs[1].re)
      val  == rq.hd.service
  IN IF fast THEN val # Absent /\ val # "" /\ (val = rule.hs[1].v \/ rule.hs[1].v = ".*")
     ELSE \A k \in 1..Len(rule.hs) : HdrHolds(rule.hs[k], rq)

RECURSIVE VarLoop(_, _, _, _, _)
VarLoop(vs, rq, k, res, last) ==
  IF k > Len(vs) THEN res
  ELSE LET cur == VarItem(vs[k], rq) IN
       IF "VarLeftToRight" \in Defects
       THEN VarLoop(vs, rq, k + 1, IF last = "and" THEN res /\ cur ELSE res \/ cur, vs[k].m)
       ELSE LET r2 == IF last = "and" THEN res /\ cur ELSE cur IN
              IF r2 /\ vs[k].m = "or" THEN TRUE ELSE VarLoop(vs, rq, k + 1, r2, vs[k].m)

(* matchRoute: headers, then the query-parameter matchers (skipped when the request has no parameter at all) *)
ImplQuery(rule, rq) ==
  IF Len(rule.qs) = 0 \/ rq.query = "" THEN TRUE
  ELSE LET one(k) == LET val == QPVal(rq.query, rule.qs[k].n) IN
                       val # Absent /\ (IF rule.qs[k].re THEN ValRe(rule.qs[k].v, val) ELSE val = rule.qs[k].v)
       IN IF "QueryAnyMatcher" \in Defects THEN \E k \in 1..Len(rule.qs) : one(k) ELSE \A k \in 1..Len(rule.qs) : one(k)

(* DslExpressionRouteRuleImpl.Match: the expressions one after the other; an evaluation error or false ends the match *)
ImplDsl(rule, rq) == \A k \in 1..Len(rule.ds) :
                       LET r == Ev3(rule.ds[k], 1, rq).v IN IF "DslErrorHolds" \in Defects THEN r # "F" ELSE r = "T"

(* "RegexMatchFromStartOnly": the search is not unanchored, a match has to begin at position 0 *)
RegexFromStart(re, p) ==
  CASE re = "b$" -> p = <<"b">> [] re = "a/b" -> IsPrefix(<<"a", "/", "b">>, p) [] re = "/a/.+" -> IsPrefix(<<"/", "a", "/">>, p) /\ Len(p) > 3
    [] re = "(a|b)/a" -> IsPrefix(<<"a", "/", "a">>, p) \/ IsPrefix(<<"b", "/", "a">>, p)
    [] re = "[ab]b$" -> p = <<"a", "b">> \/ p = <<"b", "b">>
    [] OTHER -> TRUE

ImplHolds(rule, rq) ==
  CASE rule.k = "path"   -> ImplHeaders(rule, rq) /\ ImplQuery(rule, rq) /\ rq.path # <<>> /\ LowerP(rq.path) = LowerP(rule.pa)
    [] rule.k = "prefix" -> ImplHeaders(rule, rq) /\ ImplQuery(rule, rq) /\ rq.path # <<>> /\
                            (IF "PrefixAsContains" \in Defects THEN Contains(rule.pa, rq.path) ELSE IsPrefix(rule.pa, rq.path))
    [] rule.k = "regex"  -> ImplHeaders(rule, rq) /\ ImplQuery(rule, rq) /\ rq.path # <<>> /\ PathRe(rule.re, rq.path)
                            /\ ("RegexMatchFromStartOnly" \in Defects => RegexFromStart(rule.re, rq.path))
    [] rule.k = "dsl"    -> ImplDsl(rule, rq)
    [] rule.k = "rpc"    -> ImplRpc(rule, rq)
    [] rule.k = "var"    -> VarLoop(rule.vs, rq, 1, TRUE, "and")

Step == /\ result = 0 /\ i <= Len(rules)
        /\ IF ImplHolds(rules[i], req)
           THEN result' = i /\ (IF "LastMatchWins" \in Defects THEN i' = i + 1 ELSE i' = Len(rules) + 1)
           ELSE result' = 0 /\ i' = i + 1
        /\ UNCHANGED <<rules, req>>
StepLast == /\ "LastMatchWins" \in Defects /\ result # 0 /\ i <= Len(rules)
            /\ result' = (IF ImplHolds(rules[i], req) THEN i ELSE result) /\ i' = i + 1
            /\ UNCHANGED <<rules, req>>

Next == Step \/ StepLast
Spec == Init /\ [][Next]_vars
EmitSpec == EmitInit /\ [][FALSE]_vars

Done == i > Len(rules)
FirstWins  == Done => result = FirstMatch(rules, req)
NoneOnlyIfNone == Done => (result = 0 <=> AllMatches(rules, req) = {})
EarlierDoNotHold == result # 0 => \A k \in 1..(result - 1) : "LastMatchWins" \in Defects \/ ~RuleHolds(rules[k], req)

(* ---- the key/value fast index, built rule by rule as addRouteBase does: a rule with exactly one exact header
   criterion is entered under key -> value; intended design: an entry is never replaced, so the index answers
   like the scan (first rule wins).  "LastIndexedWins": every later rule with the same key/value replaces it. *)
RECURSIVE BuildIdx(_, _, _)
BuildIdx(rs, k, m) ==
  IF k > Len(rs) THEN m
  ELSE LET c == Criteria(rs[k]) IN
       IF Len(c) = 1 /\ ~c[1].re /\ <<c[1].n, c[1].v>> \in DOMAIN m
       THEN BuildIdx(rs, k + 1, [m EXCEPT ![<<c[1].n, c[1].v>>] = IF @ = 0 \/ "LastIndexedWins" \in Defects THEN k ELSE @])
       ELSE BuildIdx(rs, k + 1, m)
KvIsFirstIndexed == (i = 1 /\ result = 0) =>
                      LET m == BuildIdx(rules, 1, [kv \in KVs |-> 0]) IN \A kv \in KVs : m[kv] = KvSelect(rules, kv[1], kv[2])

(* ---- the route handler on top of the scan: IsAvailable asks the cluster manager for the snapshot of the route's
   cluster and reports "available" whatever it gets.  "SkipAbsentCluster": falls through to the next matching
   route whose cluster exists. *)
HandlerImpl(first, present) ==
  IF "SkipAbsentCluster" \in Defects
  THEN LET S == { k \in AllMatches(rules, req) : k \in present } IN
         IF S = {} THEN [route |-> 0, snap |-> 0] ELSE LET f == CHOOSE k \in S : \A j \in S : k <= j IN [route |-> f, snap |-> f]
  ELSE [route |-> first, snap |-> IF first \in present THEN first ELSE 0]
HandlerIsMatchRoute == Done => \A P \in SUBSET (1..Len(rules)) : HandlerImpl(result, P) = HandlerWant(rules, req, P)

(* ---- case emission: request universe and regex menus once, one line per rule list *)
ASSUME PrintT(<<"CASE", ToJson([kind |-> "rreqs", reqs |-> ReqsR])>>)
ASSUME PrintT(<<"CASE", ToJson([kind |-> "valre", vals |-> AllVals,
                                menu |-> { [re |-> re, m |-> ValReSet(re)] : re \in ValRes }])>>)
ASSUME PrintT(<<"CASE", ToJson([kind |-> "pathre", menu |-> { [re |-> re, p |-> rq.path, m |-> PathRe(re, rq.path)] :
                                                             re \in PathRes, rq \in { x \in ReqsR : x.path # <<>> } }])>>)
ASSUME PrintT(<<"CASE", ToJson([kind |-> "kvs", kvs |-> { [key |-> kv[1], value |-> kv[2]] : kv \in KVs }])>>)
ASSUME PrintT(<<"CASE", ToJson([kind |-> "qparse", menu |-> { [q |-> q, n |-> n, v |-> QPVal(q, n)] : q \in Queries, n \in {"q", "r"} }])>>)
EmitCase == (i = 1 /\ result = 0) => PrintT(<<"CASE", ToJson([kind |-> "rules", rules |-> rules])>>)
====
