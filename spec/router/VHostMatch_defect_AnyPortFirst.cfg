CONSTANTS
  Doms <- DomsQuick
  Reqs <- ReqsQuick
  MaxDoms = 2
  Defects = {"AnyPortFirst"}
SPECIFICATION Spec
INVARIANTS LookupIsSelect
CHECK_DEADLOCK FALSE
