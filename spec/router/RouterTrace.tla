---- MODULE RouterTrace ----
(* Trace validation of the real router (NewRouters / RouterManager / MatchRoute / MatchAllRoutes) against
   VHostSem + RouteSem, property C04.  Events written by harness/cmd/c04:
     cfg{vhosts, err, via}   a configuration was handed to NewRouters (via="new") or to
                             RouterManager.AddOrUpdateRouters (via="manager"); vhosts = sequence of
                             [doms |-> domain entries, rules |-> rules, each with its cluster name c];
                             err = construction was refused.  Acts as TraceReset unless refused.
     addroute{dom, rule, idx}   RouterManager.AddRoute(domain text of dom, rule) answered virtual host idx (0 = failed)
     removeall{dom, idx}        RouterManager.RemoveAllRoutes(domain text of dom)
     look{h, p, path, method, query, hd, first, all, g}
                             one lookup (goroutine g): first = cluster of MatchRoute ("" = no route),
                             all = clusters of MatchAllRoutes in order
     clusters{present}       the cluster manager now holds exactly these clusters
     hlook{h, p, path, method, query, hd, route, snap}
                             the route handler the proxy uses (GetMakeHandlerFunc(default).DoRouteHandler): cluster of the
                             route it handed over ("" = none) and name of the cluster snapshot ("" = nil)
     kvlook{h, p, key, value, got}   MatchRouteFromHeaderKV(key, value): cluster of the route ("" = none)
     panic{where, msg, what} the code under test panicked in a lookup / construction
   Every expectation is soft (Expect), so that one defect does not hide the next. *)
EXTENDS VHostSem, RouteSem, VTrace

VARIABLES cfg,    \* the configuration in force: sequence of [doms, rules]
          ok,     \* the configuration in force is one the specification defines lookups for
          present \* clusters the cluster manager holds
tvars == <<cfg, ok, present, l>>

DomsOf(c) == [v \in 1..Len(c) |-> c[v].doms]

TraceInit == l = 1 /\ cfg = <<>> /\ ok = FALSE /\ present = {}

TCfg == /\ IsEvent("cfg")
        /\ LET valid == Valid(DomsOf(Ev.vhosts)) IN
             /\ Expect(Ev.err => ~valid, "build:valid-config-refused")
             /\ Expect(~Ev.err => valid, "build:invalid-config-accepted")
             /\ IF Ev.err THEN UNCHANGED <<cfg, ok>>          \* a refused update leaves the previous configuration in force
                ELSE cfg' = Ev.vhosts /\ ok' = valid
        /\ UNCHANGED present

GotName(c) == IF c = 0 THEN "unrelated" ELSE ClassName(c)    \* class with which the answered virtual host applies to the request
Empty(r) == IF r.h = <<>> /\ r.p = "" THEN ":empty-host" ELSE ""

TAddRoute == /\ IsEvent("addroute")
             /\ LET want == IF ok THEN Select(DomsOf(cfg), Ev.dom) ELSE Ev.idx IN
                  /\ Expect(Ev.idx = want, "update:addroute:want-" \o ClassName(SelectClass(DomsOf(cfg), Ev.dom))
                                            \o ":got-" \o (IF Ev.idx = 0 THEN "failed" ELSE GotName(VhClass(DomsOf(cfg), Ev.dom, Ev.idx))))
                  /\ cfg' = IF Ev.idx = 0 THEN cfg ELSE [cfg EXCEPT ![Ev.idx].rules = Append(@, Ev.rule)]
             /\ UNCHANGED <<ok, present>>

TRemoveAll == /\ IsEvent("removeall")
              /\ LET want == IF ok THEN Select(DomsOf(cfg), Ev.dom) ELSE Ev.idx
                      idx  == IF Ev.idx = -1 THEN want ELSE Ev.idx      \* -1: succeeded, but no route disappeared anywhere
                  IN
                   /\ Expect(idx = want, "update:removeall:want-" \o ClassName(SelectClass(DomsOf(cfg), Ev.dom))
                                             \o ":got-" \o (IF idx = 0 THEN "failed" ELSE GotName(VhClass(DomsOf(cfg), Ev.dom, idx))))
                   /\ cfg' = IF idx <= 0 THEN cfg ELSE [cfg EXCEPT ![idx].rules = <<>>]
              /\ UNCHANGED <<ok, present>>

(* virtual host owning cluster c (cluster names are unique per configuration), 0 if none *)
OwnerOf(c) == LET vs == { v \in 1..Len(cfg) : \E k \in 1..Len(cfg[v].rules) : cfg[v].rules[k].c = c } IN
                IF vs = {} THEN 0 ELSE CHOOSE v \in vs : TRUE
IdxOf(rs, c) == LET ks == { k \in 1..Len(rs) : rs[k].c = c } IN IF ks = {} THEN 0 ELSE CHOOSE k \in ks : \A j \in ks : k <= j
ClassOf(rs, c) == IF IdxOf(rs, c) = 0 THEN "unknown" ELSE RuleClass(rs[IdxOf(rs, c)])
SeqSet(s) == { s[k] : k \in 1..Len(s) }
FirstIn(s, S) == s[CHOOSE k \in 1..Len(s) : s[k] \in S /\ \A j \in 1..(k - 1) : s[j] \notin S]

EvReq == [path |-> Ev.path, method |-> Ev.method, query |-> Ev.query, hd |-> Ev.hd]
EvVh  == Select(DomsOf(cfg), [h |-> Ev.h, p |-> Ev.p])
SpecifiedEv == EvVh = 0 \/ Specified(cfg[EvVh].rules, EvReq)

(* Failure kinds name the root cause class: which precedence class / which kind of rule was missed or wrongly taken *)
TLook ==
  /\ IsEvent("look")
  /\ UNCHANGED <<cfg, ok, present>>
  /\ IF ~ok \/ ~SpecifiedEv THEN TRUE ELSE
     LET dc   == DomsOf(cfg)
         r    == [h |-> Ev.h, p |-> Ev.p]
         rq   == [path |-> Ev.path, method |-> Ev.method, query |-> Ev.query, hd |-> Ev.hd]
         v    == Select(dc, r)
         rs   == IF v = 0 THEN <<>> ELSE cfg[v].rules
         ms   == SetToSortedSeq(AllMatches(rs, rq))
         want == IF ms = <<>> THEN "" ELSE rs[ms[1]].c
         wall == [k \in 1..Len(ms) |-> rs[ms[k]].c]
         gotv == IF Ev.first # "" THEN OwnerOf(Ev.first) ELSE IF Len(Ev.all) > 0 THEN OwnerOf(Ev.all[1]) ELSE 0
     IN IF gotv # 0 /\ gotv # v
        THEN Expect(FALSE, "vhost:want-" \o ClassName(SelectClass(dc, r)) \o ":got-" \o GotName(VhClass(dc, r, gotv)) \o Empty(r))
        ELSE IF Ev.first = "" /\ Len(Ev.all) = 0 /\ want # ""
        THEN Expect(FALSE, IF Empty(r) # "" THEN "noroute:empty-host:want-" \o ClassName(SelectClass(dc, r))
                           ELSE "noroute:want-" \o ClassName(SelectClass(dc, r)) \o ":missed-" \o RuleClass(rs[ms[1]]))
        ELSE /\ Expect(Ev.first = want,
                       IF want # "" /\ (Ev.first = "" \/ IdxOf(rs, Ev.first) > ms[1])
                       THEN "route:missed-" \o RuleClass(rs[ms[1]])
                       ELSE "route:wrongly-matched-" \o ClassOf(rs, Ev.first))
             /\ Expect(Ev.first # want \/ Ev.all = wall,
                       IF SeqSet(wall) \ SeqSet(Ev.all) # {} THEN "allroutes:missed-" \o ClassOf(rs, FirstIn(wall, SeqSet(wall) \ SeqSet(Ev.all)))
                       ELSE IF SeqSet(Ev.all) \ SeqSet(wall) # {} THEN "allroutes:wrongly-matched-" \o ClassOf(rs, FirstIn(Ev.all, SeqSet(Ev.all) \ SeqSet(wall)))
                       ELSE IF Len(Ev.all) # Len(wall) THEN "allroutes:duplicates" ELSE "allroutes:order")

(* the code under test panicked instead of answering *)
TPanic == IsEvent("panic") /\ Expect(FALSE, "panic:" \o Ev.where) /\ UNCHANGED <<cfg, ok, present>>

TClusters == IsEvent("clusters") /\ present' = SeqSet(Ev.present) /\ UNCHANGED <<cfg, ok>>

(* the handler hands over the route MatchRoute selects, with the snapshot of its cluster iff the cluster exists *)
THLook ==
  /\ IsEvent("hlook")
  /\ UNCHANGED <<cfg, ok, present>>
  /\ IF ~ok \/ ~SpecifiedEv THEN TRUE ELSE
     LET v    == EvVh
         rs   == IF v = 0 THEN <<>> ELSE cfg[v].rules
         f    == FirstMatch(rs, EvReq)
         want == IF f = 0 THEN "" ELSE rs[f].c
         wsnap == IF want \in present THEN want ELSE ""
     IN /\ Expect(Ev.route = want,
                  IF Ev.route = "" THEN "handler:route-dropped" \o (IF want \in present THEN "" ELSE ":cluster-absent")
                  ELSE IF want # "" /\ want \notin present /\ Ev.route \in present /\ IdxOf(rs, Ev.route) \in AllMatches(rs, EvReq)
                  THEN "handler:fell-through-to-existing-cluster"
                  ELSE "handler:route-differs-from-matchroute")
        /\ Expect(Ev.route # want \/ Ev.snap = wsnap,
                  IF Ev.snap = "" THEN "handler:snapshot-missing" ELSE IF wsnap = "" THEN "handler:snapshot-of-absent-cluster" ELSE "handler:snapshot-of-other-cluster")

(* the fast index answers like a scan over the rules reachable through it: the first one *)
TKvLook ==
  /\ IsEvent("kvlook")
  /\ UNCHANGED <<cfg, ok, present>>
  /\ IF ~ok THEN TRUE ELSE
     LET v    == EvVh
         rs   == IF v = 0 THEN <<>> ELSE cfg[v].rules
         k    == KvSelect(rs, Ev.key, Ev.value)
         want == IF k = 0 THEN "" ELSE rs[k].c
         g    == IdxOf(rs, Ev.got)
     IN Expect(Ev.got = want,
               IF Ev.got = "" THEN "headerkv:missed-" \o RuleClass(rs[k])
               ELSE IF g = 0 THEN "headerkv:route-of-other-virtualhost"
               ELSE IF ~Indexed(rs[g], Ev.key, Ev.value) THEN "headerkv:unreachable-rule-returned-" \o RuleClass(rs[g])
               ELSE "headerkv:later-duplicate-returned")

TraceNext == TCfg \/ TAddRoute \/ TRemoveAll \/ TLook \/ TPanic \/ TClusters \/ THLook \/ TKvLook
TraceSpec == TraceInit /\ [][TraceNext]_tvars
====
