---- MODULE RouteScanSem ----
(* C04, last clause: "the result is a pure function of configuration and request, unaffected by earlier updates
   or concurrent lookups".  Abstract view of one virtual host whose rule list is updated while a lookup is in
   flight.  A rule is [c |-> cluster name, m |-> the rule holds for the request of the lookup]; a version is the
   rule list in force after an update.  The answer of a lookup must be the answer of ONE version that was in
   force during the lookup. *)
EXTENDS Integers, Sequences, FiniteSets, TLC

FirstC(list) == LET S == { k \in 1..Len(list) : list[k].m } IN
                  IF S = {} THEN "" ELSE list[CHOOSE k \in S : \A j \in S : k <= j].c
RECURSIVE AllC(_)
AllC(list) == IF list = <<>> THEN <<>> ELSE (IF Head(list).m THEN <<Head(list).c>> ELSE <<>>) \o AllC(Tail(list))

(* update operations of the route API: rm = RemoveAllRoutes, add = AddRoute, rep = AddOrUpdateRouters *)
Apply(list, u) == CASE u.op = "rm" -> <<>> [] u.op = "add" -> Append(list, u.rule) [] u.op = "rep" -> u.rules

AnswerOk(kind, first, all, versions) ==
  \E v \in 1..Len(versions) : IF kind = "first" THEN first = FirstC(versions[v]) ELSE all = AllC(versions[v])
====
