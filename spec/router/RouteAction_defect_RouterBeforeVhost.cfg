CONSTANTS
  Family = "hdr"
  Defects = {"RouterBeforeVhost"}
  Big = FALSE
SPECIFICATION Spec
INVARIANTS HdrImplIsSem HdrLevelOrder HdrVarResolved PathImplIsSem PrefixWins PathRuleSwapsWholePath HostImplIsSem RedirImplIsSem PfcImplIsSem TmoImplIsSem TryBelowGlobal
CHECK_DEADLOCK FALSE
