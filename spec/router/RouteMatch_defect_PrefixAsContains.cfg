CONSTANTS
  Rules <- RulesQuick
  ReqsR <- ReqsRQuick
  MaxRules = 2
  Defects = {"PrefixAsContains"}
SPECIFICATION Spec
INVARIANTS FirstWins
CHECK_DEADLOCK FALSE
