CONSTANTS
  Doms <- DomsQuick
  Reqs <- ReqsQuick
  MaxDoms = 2
  Defects = {"SuffixMayEqualHost"}
SPECIFICATION Spec
INVARIANTS LookupIsSelect
CHECK_DEADLOCK FALSE
