CONSTANTS
  Rules <- RulesThorough
  ReqsR <- ReqsRThorough
  MaxRules = 2
  Defects = {}
SPECIFICATION Spec
INVARIANTS FirstWins NoneOnlyIfNone EarlierDoNotHold KvIsFirstIndexed HandlerIsMatchRoute
CHECK_DEADLOCK FALSE
