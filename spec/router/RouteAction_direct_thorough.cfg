CONSTANTS
  Family = "direct"
  Defects = {}
  Big = TRUE
SPECIFICATION Spec
INVARIANTS HdrImplIsSem HdrLevelOrder PathImplIsSem PrefixWins HostImplIsSem RedirImplIsSem TmoImplIsSem TryBelowGlobal EmitCase
CHECK_DEADLOCK FALSE
