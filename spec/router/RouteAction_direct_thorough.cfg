CONSTANTS
  Family = "direct"
  Defects = {}
  Big = TRUE
SPECIFICATION Spec
INVARIANTS HdrImplIsSem HdrLevelOrder OmittedAppends HdrVarResolved PathImplIsSem PrefixWins PathRuleSwapsWholePath HostImplIsSem RedirImplIsSem HopImplIsSem HopBothRewrite PfcImplIsSem TmoImplIsSem TryBelowGlobal EmitCase
CHECK_DEADLOCK FALSE
