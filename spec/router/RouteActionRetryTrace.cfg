CONSTANTS
  MaxLen = 4
  NumRetries = {0}
  Defects = {}
SPECIFICATION TraceSpec
POSTCONDITION Accepted
CHECK_DEADLOCK FALSE
