CONSTANTS
  Doms <- DomsQuick
  Reqs <- ReqsQuick
  MaxDoms = 2
  Defects = {"EmptyHostNone"}
SPECIFICATION Spec
INVARIANTS LookupIsSelect
CHECK_DEADLOCK FALSE
