CONSTANTS
  MaxOld = 4
  MaxAdd = 4
  Defects = {}
SPECIFICATION Spec
INVARIANTS BooksOk AnswerFromOneVersion
CHECK_DEADLOCK FALSE
