---- MODULE RouteScanTrace ----
(* Trace validation of real lookups that were held inside the rule list of a virtual host (through the getter of
   a harness variable used by the rules) while the route API ran, against RouteScanSem (C04, last clause).
     scfg{rules}            the virtual host was configured with rules (each [c, m])
     sstart{look, p}        a MatchRoute (look="first") / MatchAllRoutes ("all") is inside the list, held at rule p
     supd{op, rule|rules}   an update of the route API returned (rm / add / rep)
     send{first, all, overtook}   the lookup answered; overtook = every update had returned before it went on *)
EXTENDS RouteScanSem, VTrace

VARIABLES vers, look, open
tvars == <<vers, look, open, l>>

TraceInit == l = 1 /\ vers = <<>> /\ look = "" /\ open = FALSE

SCfg   == IsEvent("scfg") /\ vers' = <<Ev.rules>> /\ look' = "" /\ open' = FALSE
SStart == IsEvent("sstart") /\ vers' = <<vers[Len(vers)]>> /\ look' = Ev.look /\ open' = TRUE
SUpd   == IsEvent("supd") /\ Len(vers) > 0
          /\ vers' = Append(vers, Apply(vers[Len(vers)], Ev)) /\ UNCHANGED <<look, open>>
SEnd   == /\ IsEvent("send") /\ open
          /\ Expect(AnswerOk(look, Ev.first, Ev.all, vers), "concurrent:lookup-answer-from-no-version:" \o look)
          /\ open' = FALSE /\ UNCHANGED <<vers, look>>
SPanic == IsEvent("panic") /\ Expect(FALSE, "panic:" \o Ev.where) /\ UNCHANGED <<vers, look, open>>

TraceNext == SCfg \/ SStart \/ SUpd \/ SEnd \/ SPanic
TraceSpec == TraceInit /\ [][TraceNext]_tvars
====
