CONSTANTS
  Family = "path"
  Defects = {}
  Big = TRUE
SPECIFICATION Spec
INVARIANTS HdrImplIsSem HdrLevelOrder PathImplIsSem PrefixWins HostImplIsSem RedirImplIsSem TmoImplIsSem TryBelowGlobal EmitCase
CHECK_DEADLOCK FALSE
