---- MODULE WeightedClusterTrace ----
(* Trace validation of real ClusterName() calls against WeightedCluster (C06 part 1).
   Events (hooks router.wc.draw / router.wc.visit + driver):
     cfg{w,build,list,after}   new route rule with weight map w (acts as TraceReset); build = how many rules have now been
                       built from this configuration object, list / after = the object's cluster list (storage order) as
                       read before / after this build (WeightedClusterBuild: building leaves the configuration as it was)
     draw{d,total}     the draw the code obtained and the range it drew from
     visit{c,cw}       one iteration of the scan, in the map order the code happened to see
     ret{c}            the cluster ClusterName() returned *)
EXTENDS WeightedCluster, VTrace

VARIABLE clist     \* the configuration object's cluster list as written (read before the first build)
tvars == <<vars, clist, l>>

TraceInit == /\ l = 1 /\ w = [x \in {} |-> 0] /\ order = <<>> /\ draw = 0 /\ pos = 1 /\ rem = 0 /\ result = None /\ clist = <<>>

TCfg == /\ IsEvent("cfg")
        /\ clist' = IF ~Has(Ev, "build") THEN <<>> ELSE IF Ev.build = 1 THEN Ev.list ELSE clist
        /\ Expect(~Has(Ev, "build") \/ Ev.after = clist', "configuration-changed-by-building-a-rule")
        /\ w' = Ev.w /\ order' = <<>> /\ draw' = 0 /\ pos' = 1 /\ rem' = 0 /\ result' = None

TDraw == /\ IsEvent("draw")
         /\ Expect(Ev.total = Total(w), "total")
         /\ Expect(Ev.d >= 0 /\ Ev.d < Total(w), "draw-range")
         /\ draw' = Ev.d /\ rem' = Ev.d /\ order' = <<>> /\ pos' = 1 /\ result' = None
         /\ UNCHANGED <<w, clist>>

(* the visit order is whatever the map iteration produced: it extends `order`; the scan step is the spec's *)
TVisit == /\ IsEvent("visit")
          /\ Ev.c \in DOMAIN w
          /\ \A i \in DOMAIN order : order[i] # Ev.c
          /\ Expect(Ev.cw = w[Ev.c], "visit-weight")
          /\ order' = Append(order, Ev.c)
          /\ LET r == rem - w[Ev.c] IN
               /\ rem' = r
               /\ result' = IF result = None /\ Hit(r) THEN Ev.c ELSE result
          /\ Expect(result = None, "visit-after-selection")
          /\ pos' = pos + 1
          /\ UNCHANGED <<w, draw, clist>>

TRet == /\ IsEvent("ret")
        /\ Expect(Ev.c = result, "ret")
        /\ Expect(Ev.c \in DOMAIN w /\ w[Ev.c] > 0, "zero-weight-selected")
        /\ UNCHANGED <<vars, clist>>

TraceNext == TCfg \/ TDraw \/ TVisit \/ TRet
TraceSpec == TraceInit /\ [][TraceNext]_tvars
====
