CONSTANTS
  MaxOld = 3
  MaxAdd = 3
  Defects = {"ScanWithoutLock"}
SPECIFICATION Spec
INVARIANTS AnswerFromOneVersion
CHECK_DEADLOCK FALSE
