CONSTANTS
  Clusters = {"a", "b", "c", "d"}
  Weights = {0}
  Defects = {}
SPECIFICATION TraceSpec
POSTCONDITION Accepted
CHECK_DEADLOCK FALSE
