CONSTANTS
  Family = "redir"
  Defects = {"RedirectKeepsPort"}
  Big = FALSE
SPECIFICATION Spec
INVARIANTS HdrImplIsSem HdrLevelOrder PathImplIsSem PrefixWins PathRuleSwapsWholePath HostImplIsSem RedirImplIsSem TmoImplIsSem TryBelowGlobal
CHECK_DEADLOCK FALSE
