CONSTANTS
  Family = "redir"
  Defects = {"RedirectKeepsPort"}
  Big = FALSE
SPECIFICATION Spec
INVARIANTS HdrImplIsSem HdrLevelOrder PathImplIsSem PrefixWins HostImplIsSem RedirImplIsSem TmoImplIsSem TryBelowGlobal
CHECK_DEADLOCK FALSE
