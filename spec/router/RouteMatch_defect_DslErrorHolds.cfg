CONSTANTS
  Rules <- RulesQuick
  ReqsR <- ReqsRQuick
  MaxRules = 2
  Defects = {"DslErrorHolds"}
SPECIFICATION Spec
INVARIANTS FirstWins
CHECK_DEADLOCK FALSE
