CONSTANTS
  Family = "hdr"
  Defects = {}
  Big = TRUE
SPECIFICATION Spec
INVARIANTS HdrImplIsSem HdrLevelOrder HdrVarResolved PathImplIsSem PrefixWins PathRuleSwapsWholePath HostImplIsSem RedirImplIsSem PfcImplIsSem TmoImplIsSem TryBelowGlobal EmitCase
CHECK_DEADLOCK FALSE
