CONSTANTS
  Clusters = {"a", "b", "c"}
  Weights = {0, 1, 2}
  MaxBuilds = 3
  Defects = {}
SPECIFICATION Spec
INVARIANTS EveryBuildHonoursConfig ConfigUntouched
CHECK_DEADLOCK FALSE
