CONSTANTS
  Rules <- RulesQuick
  ReqsR <- ReqsRQuick
  MaxRules = 2
  Defects = {"SkipAbsentCluster"}
SPECIFICATION Spec
INVARIANTS HandlerIsMatchRoute
CHECK_DEADLOCK FALSE
