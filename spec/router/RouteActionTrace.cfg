CONSTANTS
  Family = "trace"
  Defects = {}
  Big = TRUE
SPECIFICATION TraceSpec
POSTCONDITION Accepted
CHECK_DEADLOCK FALSE
