CONSTANTS
  Family = "path"
  Defects = {"RegexOverPrefix"}
  Big = FALSE
SPECIFICATION Spec
INVARIANTS HdrImplIsSem HdrLevelOrder OmittedAppends HdrVarResolved PathImplIsSem PrefixWins PathRuleSwapsWholePath HostImplIsSem RedirImplIsSem HopImplIsSem HopBothRewrite PfcImplIsSem TmoImplIsSem TryBelowGlobal
CHECK_DEADLOCK FALSE
