CONSTANTS
  Family = "path"
  Defects = {"RegexOverPrefix"}
  Big = FALSE
SPECIFICATION Spec
INVARIANTS HdrImplIsSem HdrLevelOrder PathImplIsSem PrefixWins PathRuleSwapsWholePath HostImplIsSem RedirImplIsSem TmoImplIsSem TryBelowGlobal
CHECK_DEADLOCK FALSE
