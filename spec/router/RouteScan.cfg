CONSTANTS
  MaxOld = 3
  MaxAdd = 3
  Defects = {}
SPECIFICATION Spec
INVARIANTS BooksOk AnswerFromOneVersion
CHECK_DEADLOCK FALSE
