CONSTANTS
  Family = "hdr"
  Defects = {"RemoveBeforeAdd"}
  Big = FALSE
SPECIFICATION Spec
INVARIANTS HdrImplIsSem HdrLevelOrder PathImplIsSem PrefixWins PathRuleSwapsWholePath HostImplIsSem RedirImplIsSem TmoImplIsSem TryBelowGlobal
CHECK_DEADLOCK FALSE
