CONSTANTS
  Family = "redir"
  Defects = {"RedirectDefault302"}
  Big = FALSE
SPECIFICATION Spec
INVARIANTS HdrImplIsSem HdrLevelOrder HdrVarResolved PathImplIsSem PrefixWins PathRuleSwapsWholePath HostImplIsSem RedirImplIsSem PfcImplIsSem TmoImplIsSem TryBelowGlobal
CHECK_DEADLOCK FALSE
