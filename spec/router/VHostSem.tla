---- MODULE VHostSem ----
(* Virtual-host selection of a router configuration (pkg/router/routers_impl.go), property C04 part 1.
   Pure reference semantics; VHostMatch.tla is the implementation-shaped machine checked against it and
   RouterTrace.tla evaluates it on recorded executions of the real code.

   A host name is a sequence of one-character strings, so that suffixes, lengths and letter case are
   explicit.  A domain entry of a virtual host is [h |-> chars, p |-> port] with p = "" (the entry carries
   no port), "*" (any port) or a number; a request authority is [h |-> chars, p |-> port] with p = "" or a
   number.  The textual form is h, or h ":" p when p # "".

   Documented precedence (comment above findHighestPriorityIndex, TestVirtulHostWithPortMatch):
     1 exact host, the entry's port equals the request's port (an entry without port matches only requests
       without port)                2 exact host, port "*"
     3 wildcard "*suffix" with the request's port, longest suffix first; the suffix must be strictly shorter
       than the host                4 the same with port "*"
     5 the default "*" (also written "*:*")
   Host names are compared case-insensitively. *)
EXTENDS Integers, Sequences, FiniteSets, TLC

Lc(c) == CASE c = "A" -> "a" [] c = "B" -> "b" [] c = "C" -> "c" [] c = "D" -> "d" [] c = "X" -> "x" [] OTHER -> c
Lower(s) == [i \in 1..Len(s) |-> Lc(s[i])]

HasStar(h)   == \E i \in 1..Len(h) : h[i] = "*"
IsDefault(d) == d.h = <<"*">> /\ d.p \in {"", "*"}
IsWild(d)    == Len(d.h) > 0 /\ d.h[1] = "*" /\ ~IsDefault(d)
IsExact(d)   == ~HasStar(d.h)
(* "*" is accepted only as the first character; an entry with neither host nor port is refused *)
WellFormed(d) == /\ ~(d.h = <<>> /\ d.p = "")
                 /\ (HasStar(d.h) => d.h[1] = "*")
WSuffix(d) == Lower(Tail(d.h))

IsSuffix(s, h) == Len(s) <= Len(h) /\ SubSeq(h, Len(h) - Len(s) + 1, Len(h)) = s

(* A configuration is a sequence of virtual hosts; a virtual host is a sequence of domain entries. *)
Positions(cfg) == UNION { { <<v, k>> : k \in 1..Len(cfg[v]) } : v \in 1..Len(cfg) }
Dom(cfg, x) == cfg[x[1]][x[2]]

Key(d) == IF IsDefault(d) THEN <<"default", <<>>, "">>
          ELSE IF IsExact(d) THEN <<"exact", Lower(d.h), d.p>>
          ELSE <<"wild", WSuffix(d), d.p>>

(* NewRouters must refuse: malformed entries, the same host:port twice, the same wildcard:port twice, two defaults *)
Valid(cfg) == /\ \A x \in Positions(cfg) : WellFormed(Dom(cfg, x))
              /\ \A x, y \in Positions(cfg) : x # y => Key(Dom(cfg, x)) # Key(Dom(cfg, y))

(* priority class of entry d for a request with lower-cased host h and port p, 0 = d does not apply *)
PrioL(d, h, p) ==
  IF IsDefault(d) THEN 5
  ELSE IF IsExact(d) THEN
         IF Lower(d.h) # h THEN 0 ELSE IF d.p = p THEN 1 ELSE IF d.p = "*" THEN 2 ELSE 0
  ELSE IF Len(d.h) - 1 < Len(h) /\ IsSuffix(WSuffix(d), h) THEN
         IF d.p = p THEN 3 ELSE IF d.p = "*" THEN 4 ELSE 0
  ELSE 0
Prio(d, r) == PrioL(d, Lower(r.h), r.p)

(* class of every entry for request r *)
PrioMap(cfg, r) == LET h == Lower(r.h) IN [x \in Positions(cfg) |-> PrioL(Dom(cfg, x), h, r.p)]
MinOf(S) == CHOOSE c \in S : \A e \in S : c <= e

(* entries of the best applicable class; within the wildcard classes only the longest suffix *)
BestSet(cfg, r) ==
  LET pr == PrioMap(cfg, r)
      C  == { x \in DOMAIN pr : pr[x] > 0 }
  IN IF C = {} THEN {}
     ELSE LET best == MinOf({ pr[x] : x \in C })
              B    == { x \in C : pr[x] = best }
          IN IF best \in {3, 4}
             THEN LET m == CHOOSE n \in { Len(Dom(cfg, x).h) : x \in B } : \A e \in { Len(Dom(cfg, x).h) : x \in B } : n >= e
                  IN { x \in B : Len(Dom(cfg, x).h) = m }
             ELSE B

(* position <<vhost, entry>> of the entry the precedence selects, <<0, 0>> if none applies *)
SelectPos(cfg, r) == LET B == BestSet(cfg, r) IN IF B = {} THEN <<0, 0>> ELSE CHOOSE x \in B : TRUE

Select(cfg, r)      == SelectPos(cfg, r)[1]                     \* index of the virtual host, 0 = none
SelectClass(cfg, r) == LET x == SelectPos(cfg, r) IN IF x[1] = 0 THEN 0 ELSE Prio(Dom(cfg, x), r)

ClassName(c) == CASE c = 0 -> "none" [] c = 1 -> "exact-port" [] c = 2 -> "exact-anyport"
                  [] c = 3 -> "wild-port" [] c = 4 -> "wild-anyport" [] c = 5 -> "default" [] OTHER -> "error"

(* best class with which virtual host v applies to r (0 = not at all): used to describe a wrong answer *)
VhClass(cfg, r, v) ==
  IF v < 1 \/ v > Len(cfg) THEN 0
  ELSE LET cs == { Prio(cfg[v][k], r) : k \in 1..Len(cfg[v]) } \ {0} IN
         IF cs = {} THEN 0 ELSE CHOOSE c \in cs : \A e \in cs : c <= e

(* ---------- universes (cfg files cannot hold tuples: they are bound with Doms <- DomsQuick etc.) *)
AC   == <<"a", ".", "c">>
ACm  == <<"A", ".", "C">>
BAC  == <<"b", ".", "a", ".", "c">>
BACm == <<"B", ".", "a", ".", "C">>
BAc  == <<"b", "a", ".", "c">>
XD   == <<"x", ".", "d">>
WC   == <<"*", ".", "c">>
WAC  == <<"*", ".", "a", ".", "c">>
WaC  == <<"*", "a", ".", "c">>
WaCm == <<"*", "A", ".", "c">>
W    == <<"*">>
D(h, p) == [h |-> h, p |-> p]

DomsQuick ==
  { D(AC, ""), D(AC, "*"), D(AC, "80"), D(ACm, ""), D(BAC, ""), D(BAC, "*"),
    D(WC, ""), D(WC, "*"), D(WC, "80"), D(WAC, ""), D(WAC, "*"), D(WAC, "80"),
    D(WaC, ""), D(WaC, "*"), D(WaCm, "80"), D(W, "80"),
    D(W, ""), D(W, "*"),
    D(<<"a", ".", "*">>, "") }
DomsThorough == DomsQuick \cup
  { D(ACm, "80"), D(AC, "81"), D(BAC, "80"), D(BACm, "*"), D(WC, "81"), D(WaC, "80"), D(W, "81"), D(W, "*"),
    D(<<"*", "c">>, ""), D(<<"*", "c">>, "*"), D(<<>>, "") }

ReqHosts == { AC, ACm, BAC, BACm, BAc, XD, <<"c">> }
ReqsQuick    == { D(h, p) : h \in ReqHosts, p \in {"", "80", "81"} } \cup { D(<<>>, "") }
ReqsThorough == ReqsQuick \cup { D(<<".", "c">>, ""), D(<<"x", ".", "b", ".", "a", ".", "c">>, "80"),
                                 D(<<"X", "a", ".", "c">>, ""), D(<<>>, "80") }
====
