CONSTANTS
  Rules <- RulesQuick
  ReqsR <- ReqsRQuick
  MaxRules = 2
  Defects = {"RegexMatchFromStartOnly"}
SPECIFICATION Spec
INVARIANTS FirstWins
CHECK_DEADLOCK FALSE
