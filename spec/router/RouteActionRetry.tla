---- MODULE RouteActionRetry ----
(* The retry policy of a matched route (property C17, second half): when is an upstream attempt followed by
   another one.  Code anchors: pkg/proxy/retrystate.go (newRetryState, shouldRetry, doRetryCheck),
   proxy/downstream.go onUpstreamHeaders / onUpstreamReset / doRetry.

   One behaviour = one downstream request under a policy, its upstream attempts ending as the script says
   (the last script element repeats, as the scripted upstreams of the harness do).  Actions are the observable
   steps: an attempt reaches a host, the attempt ends with an outcome, the reply to the client starts. *)
EXTENDS Integers, Sequences, FiniteSets, TLC, Json

CONSTANTS MaxLen,     \* scripts of 1..MaxLen outcomes
          NumRetries, \* set of configured num_retries values
          Defects

Responses == {"s200", "s404", "s500", "s503"}
Failures  == {"cf",      \* connection to the host cannot be established
              "term",    \* connection closed by the host before a response
              "ptmo",    \* per-try timeout
              "gtmo",    \* global timeout
              "ovf"}     \* refused by the cluster's circuit breaker
Outcomes  == Responses \cup Failures
Code(o) == CASE o = "s200" -> 200 [] o = "s404" -> 404 [] o = "s500" -> 500 [] o = "s503" -> 503 [] OTHER -> 0

CodeLists == {<<>>, <<503>>, <<404, 500>>}
Policies  == [on : BOOLEAN, n : NumRetries, codes : CodeLists]
InList(x, s) == \E i \in DOMAIN s : s[i] = x

(* the configured retry budget: the code documents max(3, num_retries) *)
Budget(p) == IF p.n > 3 THEN p.n ELSE 3

(* the configured conditions (decision table).  retry_on: a response with a listed status (no list: any 5xx),
   connection failure, connection termination, per-try timeout; without retry_on only a connection that
   could not be established; never a global timeout and never an overflow *)
Retryable(p, o) ==
  IF o \in {"gtmo", "ovf"} THEN FALSE
  ELSE IF o = "cf" THEN TRUE
  ELSE IF ~p.on THEN FALSE
  ELSE IF o \in Responses THEN (IF p.codes # <<>> THEN InList(Code(o), p.codes) ELSE Code(o) >= 500)
  ELSE o \in {"term", "ptmo"}

(* the decision as the implementation takes it (shouldRetry / doRetryCheck), with the named ways to go wrong *)
ImplRetryable(p, o) ==
  IF o = "ovf" THEN "RetryOnOverflow" \in Defects
  ELSE IF o = "gtmo" THEN FALSE
  ELSE IF p.on \/ "RetryOnIgnored" \in Defects
       THEN (IF o \in Responses
             THEN (IF p.codes # <<>> /\ ~("StatusListIgnored" \in Defects) THEN InList(Code(o), p.codes) ELSE Code(o) >= 500)
             ELSE o \in {"cf", "term", "ptmo"})
       ELSE o = "cf"
ImplBudget(p) == IF "BudgetOffByOne" \in Defects THEN Budget(p) + 1
                 ELSE IF "BudgetIsNumRetries" \in Defects THEN p.n ELSE Budget(p)

VARIABLES pol, script, att, rem, st, last, hosts, reply,
          applied,  \* how often the route's request-side actions have been applied to the request the attempts carry
          clock,    \* time since the request was sent upstream for the first time, in units of the per-try timeout
          deadline  \* when the global timer fires
vars == <<pol, script, att, rem, st, last, hosts, reply, applied, clock, deadline>>

(* Time, as coarse as the statement needs it: the effective (global) timeout bounds the WHOLE request, retries included.
   A hanging attempt ends after TUnits by its per-try timeout, or when the global timer fires, whichever is first;
   every other outcome is immediate. The global timer is armed once, when the request is first sent. *)
TUnits == 1
GUnits == 3

NHosts == 2
Outcome(i) == IF i <= Len(script) THEN script[i] ELSE script[Len(script)]

(* scripts in canonical form: every element but the last one is retryable under the policy (anything after a
   final outcome is only ever seen by an implementation that retries wrongly: it then sees the last element again) *)
Scripts(p) == UNION { { s \in [1..n -> Outcomes] : \A i \in 1..(n - 1) : Retryable(p, s[i]) } : n \in 1..MaxLen }

Init == /\ pol \in Policies /\ script \in Scripts(pol)
        /\ att = 0 /\ rem = ImplBudget(pol) /\ st = "idle" /\ last = "none" /\ hosts = <<>> /\ reply = 0 /\ applied = 0
        /\ clock = 0 /\ deadline = GUnits

(* an attempt is handed to a freshly chosen host: with round-robin selection re-run, never the host of the
   attempt before (NHosts > 1) *)
Attempt == /\ st = "idle"
           /\ \E h \in 1..NHosts :
                /\ IF att = 0 THEN TRUE ELSE IF "SameHostRetry" \in Defects THEN h = hosts[att] ELSE h # hosts[att]
                /\ hosts' = Append(hosts, h)
           /\ att' = att + 1 /\ st' = "wait" /\ last' = "none"
           (* receiveHeaders finalizes the request before the first attempt; a retry sends the same request again *)
           /\ applied' = IF att = 0 THEN 1 ELSE IF "FinalizeOnRetry" \in Defects THEN applied + 1 ELSE applied
           /\ deadline' = IF att > 0 /\ "GlobalTimerRestartsOnRetry" \in Defects THEN clock + GUnits ELSE deadline
           /\ UNCHANGED <<pol, script, rem, reply, clock>>

(* the attempt ends; retry decision *)
Ends == /\ st = "wait"
        /\ LET o0 == Outcome(att)
               o  == IF o0 = "ptmo" /\ clock + TUnits >= deadline THEN "gtmo" ELSE o0 IN
             /\ last' = o
             /\ clock' = IF o = "ptmo" THEN clock + TUnits ELSE IF o = "gtmo" /\ deadline > clock THEN deadline ELSE clock
             /\ IF rem > 0 /\ ImplRetryable(pol, o)
                THEN st' = "idle" /\ rem' = rem - 1 /\ reply' = reply
                ELSE st' = "replied" /\ rem' = rem /\ reply' = IF o \in Responses THEN Code(o) ELSE 599
        /\ UNCHANGED <<pol, script, att, hosts, applied, deadline>>

(* a response that was passed on may still break: the reply has started, nothing is retried *)
BreaksAfterStart == /\ st = "replied" /\ last \in Responses
                    /\ IF "RetryAfterResponse" \in Defects /\ rem > 0 THEN st' = "idle" /\ rem' = rem - 1 ELSE st' = "done" /\ rem' = rem
                    /\ UNCHANGED <<pol, script, att, last, hosts, reply, applied, clock, deadline>>
Finish == st = "replied" /\ st' = "done" /\ UNCHANGED <<pol, script, att, rem, last, hosts, reply, applied, clock, deadline>>

(* Named defect "PerTryTimerSurvivesRetry": the per-try timer of an attempt is not stopped when the attempt ends with another
   (retryable) outcome; it expires while the next attempt is being set up - no attempt is pending - and the request is
   handled as if an attempt had timed out: one more unit of the budget goes, or the timeout reply when none is left. *)
StaleTryTimeout == /\ "PerTryTimerSurvivesRetry" \in Defects
                   /\ st = "idle" /\ att > 0 /\ last \notin {"ptmo", "gtmo"}
                   /\ last' = "ptmo"
                   /\ IF rem > 0 /\ ImplRetryable(pol, "ptmo") THEN st' = "idle" /\ rem' = rem - 1 /\ reply' = reply
                      ELSE st' = "replied" /\ rem' = rem /\ reply' = 599
                   /\ UNCHANGED <<pol, script, att, hosts, applied, clock, deadline>>

Next == Attempt \/ Ends \/ BreaksAfterStart \/ Finish \/ StaleTryTimeout
Spec == Init /\ [][Next]_vars

(* ---- the property ---- *)
AttemptsBounded   == att <= 1 + Budget(pol)
(* a further attempt only under the configured conditions, and never once the reply has started *)
RetryOnlyIfConfigured == [][Attempt => (att = 0 \/ (reply = 0 /\ Retryable(pol, last)))]_vars
FreshHost         == \A i \in 1..(Len(hosts) - 1) : hosts[i] # hosts[i + 1]
(* exactly: when the conditions hold and budget is left, the retry is made *)
RetryMade         == (st \in {"replied", "done"} /\ att < 1 + Budget(pol)) => ~Retryable(pol, last)
(* every attempt, first or retried, carries the request with the actions applied exactly once *)
ActionsAppliedOnce == att >= 1 => applied = 1
(* the effective timeout bounds the whole request: no attempt starts after it, the reply has started by then *)
WithinGlobalTimeout == clock <= GUnits
(* every unit of the budget that is spent buys an attempt: one per attempt after the first, plus the one of a retry that
   has been admitted and not yet handed to its host.  (A per-try timeout is the outcome of a PENDING attempt: TOut of the
   trace specification, per-try-timeout-of-ended-attempt.) *)
BudgetSpentOnAttempts == att >= 1 => ImplBudget(pol) - rem = (att - 1) + (IF st = "idle" THEN 1 ELSE 0)
ReplyIsLast       == st \in {"replied", "done"} => (IF last \in Responses THEN reply = Code(last) ELSE reply >= 500)

(* the expected number of attempts of a behaviour, used by the case stream *)
RECURSIVE Expected(_, _, _)
Expected(p, s, i) == LET o == IF i <= Len(s) THEN s[i] ELSE s[Len(s)] IN
                     IF i <= Budget(p) /\ Retryable(p, o) THEN Expected(p, s, i + 1) ELSE i
EmitCase == (att = 0 /\ st = "idle") => PrintT(<<"CASE", ToJson([pol |-> pol, script |-> script, attempts |-> Expected(pol, script, 1)])>>)
====
