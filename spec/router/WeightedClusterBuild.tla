---- MODULE WeightedClusterBuild ----
(* From the configuration object to the route rule (pkg/router/utility.go getWeightedClusterEntry, base_rule.go
   NewRouteRuleImplBase), property C06 part 1 seen over the life of a configuration: the same configuration object is
   built into a rule more than once (GetRoutersConfig -> AddOrUpdateRouters, the same pointer applied twice, a virtual
   host re-created from its stored config). EVERY rule built from it honours the configured weights: building is a
   pure function of the configuration and leaves the configuration as it was.
   Named way to go wrong, "BuildCompactsConfig": the builder filters zero-weight clusters into the configuration's own
   backing array (selectable := cfg[:0]; append...), so the second rule is built from a shifted list. *)
EXTENDS Integers, Sequences, FiniteSets, TLC

CONSTANTS Clusters, Weights, MaxBuilds, Defects

VARIABLES cfg0,   \* the configuration as written: sequence of [name, weight], distinct names
          cfg,    \* the configuration object as it is now
          rules   \* rules built so far: [w: name -> weight, total]
vars == <<cfg0, cfg, rules>>

Perms(S) == { p \in [1..Cardinality(S) -> S] : \A i, j \in DOMAIN p : i # j => p[i] # p[j] }
RECURSIVE SumSeq(_)
SumSeq(s) == IF s = <<>> THEN 0 ELSE Head(s).weight + SumSeq(Tail(s))
(* what the builder makes of a list: later duplicates of a name overwrite earlier ones in the map, the total adds all up *)
Last(s, n) == s[CHOOSE i \in DOMAIN s : s[i].name = n /\ \A j \in DOMAIN s : s[j].name = n => j <= i].weight
FromCfg(s) == [w |-> [n \in { s[i].name : i \in DOMAIN s } |-> Last(s, n)], total |-> SumSeq(s)]
Sel(s) == SelectSeq(s, LAMBDA e : e.weight > 0)
(* compaction into the same backing array: the first Len(Sel) slots are overwritten, the rest keeps its old content *)
Compact(s) == [i \in DOMAIN s |-> IF i <= Len(Sel(s)) THEN Sel(s)[i] ELSE s[i]]

Init == /\ \E S \in (SUBSET Clusters) \ {{}} : \E p \in Perms(S), f \in [S -> Weights] :
             cfg0 = [i \in DOMAIN p |-> [name |-> p[i], weight |-> f[p[i]]]]
        /\ SumSeq(cfg0) > 0
        /\ cfg = cfg0 /\ rules = <<>>
Build == /\ Len(rules) < MaxBuilds
         /\ rules' = Append(rules, IF "BuildCompactsConfig" \in Defects THEN FromCfg(Sel(cfg)) ELSE FromCfg(cfg))
         /\ cfg' = IF "BuildCompactsConfig" \in Defects THEN Compact(cfg) ELSE cfg
         /\ UNCHANGED cfg0
Next == Build
Spec == Init /\ [][Next]_vars

Positive(r) == [n \in { x \in DOMAIN r.w : r.w[x] > 0 } |-> r.w[n]]
(* every rule, whenever built, is the configured one (a zero-weight cluster may be kept or left out: it is never selected) *)
EveryBuildHonoursConfig == \A i \in DOMAIN rules : Positive(rules[i]) = Positive(FromCfg(cfg0)) /\ rules[i].total = SumSeq(cfg0)
ConfigUntouched == cfg = cfg0
====
