CONSTANTS
  Rules <- RulesQuick
  ReqsR <- ReqsRQuick
  MaxRules = 2
  Defects = {"LastMatchWins"}
SPECIFICATION Spec
INVARIANTS FirstWins
CHECK_DEADLOCK FALSE
