CONSTANTS
  Rules <- RulesQuick
  ReqsR <- ReqsRQuick
  MaxRules = 2
  Defects = {"FastMatchIgnoresRegexFlag"}
SPECIFICATION Spec
INVARIANTS FirstWins
CHECK_DEADLOCK FALSE
