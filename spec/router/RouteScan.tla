---- MODULE RouteScan ----
(* Implementation-shaped model of a lookup that walks the rule list of a virtual host
   (virtualhost.go GetRouteFromEntries / GetAllRoutesFromEntries) while the route API updates it:
   RemoveAllRoutes truncates the list in place (routes = routes[:0]), AddRoute appends into the same backing
   array while its capacity lasts (Go append: capacity 1,2,4,...), AddOrUpdateRouters installs a fresh
   virtual host object.  Intended design: the whole walk happens under the read lock of the virtual host, so an
   in-place update of the same object waits for it.  Defect switch "ScanWithoutLock": only the slice header is
   read under the lock; the walk then sees slots of later versions.
   Property: the answer is the answer of one version in force during the lookup. *)
EXTENDS RouteScanSem, Json

CONSTANTS MaxOld, MaxAdd, Defects

Nil == [c |-> "-", m |-> FALSE]
Cap(n) == IF n <= 1 THEN 1 ELSE IF n = 2 THEN 2 ELSE IF n <= 4 THEN 4 ELSE 8

Bits(n) == [1..n -> BOOLEAN]
OldLists == UNION { { [k \in 1..n |-> [c |-> "o" \o ToString(k), m |-> b[k]]] : b \in Bits(n) } : n \in 1..MaxOld }
NewList(b, tag) == [k \in 1..Len(b) |-> [c |-> tag \o ToString(k), m |-> b[k]]]
(* update scripts: wipe and k additions; additions only; replacement of the whole configuration (then one addition) *)
Scripts ==
  UNION { { <<[op |-> "rm"]>> \o [k \in 1..n |-> [op |-> "add", rule |-> NewList(b, "n")[k]]] : b \in Bits(n) } : n \in 0..MaxAdd }
  \cup UNION { { [k \in 1..n |-> [op |-> "add", rule |-> NewList(b, "n")[k]]] : b \in Bits(n) } : n \in 1..2 }
  \cup UNION { { <<[op |-> "rep", rules |-> NewList(b, "r")]>> : b \in Bits(n) } : n \in 0..2 }
  \cup { <<[op |-> "rep", rules |-> NewList(b, "r")], [op |-> "add", rule |-> [c |-> "n1", m |-> TRUE]]>> : b \in Bits(1) }

VARIABLES arrs,     \* backing arrays: sequence of functions 1..cap -> rule
          obj,      \* the virtual host object in force: [id, arr, len]
          nobj,     \* number of virtual host objects created so far
          script,   \* updates still to run
          versions, \* rule lists in force so far
          kind, lpc, lobj, larr, llen, li, lfirst, lall, vstart
vars == <<arrs, obj, nobj, script, versions, kind, lpc, lobj, larr, llen, li, lfirst, lall, vstart>>

MkArr(list) == [k \in 1..Cap(Len(list)) |-> IF k <= Len(list) THEN list[k] ELSE Nil]

Init == /\ \E old \in OldLists : arrs = <<MkArr(old)>> /\ obj = [id |-> 1, arr |-> 1, len |-> Len(old)] /\ versions = <<old>>
        /\ nobj = 1 /\ script \in Scripts /\ kind \in {"first", "all"}
        /\ lpc = "idle" /\ lobj = 0 /\ larr = 0 /\ llen = 0 /\ li = 0 /\ lfirst = "" /\ lall = <<>> /\ vstart = 0

Locked == lpc = "scan" /\ "ScanWithoutLock" \notin Defects       \* the lookup holds the read lock of lobj

(* ---- the lookup: Start reads the list header (under the lock); one Step per rule; Finish *)
Start == /\ lpc = "idle"
         /\ lpc' = "scan" /\ lobj' = obj.id /\ larr' = obj.arr /\ llen' = obj.len /\ li' = 1 /\ vstart' = Len(versions)
         /\ UNCHANGED <<arrs, obj, nobj, script, versions, kind, lfirst, lall>>
Step == /\ lpc = "scan" /\ li <= llen
        /\ LET r == arrs[larr][li] IN
             IF r.m THEN /\ lall' = Append(lall, r.c)
                         /\ IF kind = "first" THEN lfirst' = r.c /\ lpc' = "done" /\ li' = li
                            ELSE lfirst' = lfirst /\ lpc' = lpc /\ li' = li + 1
             ELSE li' = li + 1 /\ UNCHANGED <<lall, lfirst, lpc>>
        /\ UNCHANGED <<arrs, obj, nobj, script, versions, kind, lobj, larr, llen, vstart>>
Finish == /\ lpc = "scan" /\ li > llen /\ lpc' = "done"
          /\ UNCHANGED <<arrs, obj, nobj, script, versions, kind, lobj, larr, llen, li, lfirst, lall, vstart>>

(* ---- the updates, in script order; in-place updates need the write lock of the object in force *)
Update ==
  /\ script # <<>>
  /\ LET u == Head(script) IN
       /\ versions' = Append(versions, Apply(versions[Len(versions)], u))
       /\ script' = Tail(script)
       /\ CASE u.op = "rm"  -> /\ ~(Locked /\ lobj = obj.id)
                               /\ obj' = [obj EXCEPT !.len = 0] /\ UNCHANGED <<arrs, nobj>>
            [] u.op = "add" -> /\ ~(Locked /\ lobj = obj.id)
                               /\ IF obj.len < Len(arrs[obj.arr])
                                  THEN /\ arrs' = [arrs EXCEPT ![obj.arr][obj.len + 1] = u.rule]       \* same backing array
                                       /\ obj' = [obj EXCEPT !.len = obj.len + 1]
                                  ELSE /\ arrs' = Append(arrs, MkArr(Append([k \in 1..obj.len |-> arrs[obj.arr][k]], u.rule)))
                                       /\ obj' = [obj EXCEPT !.arr = Len(arrs) + 1, !.len = obj.len + 1]
                               /\ UNCHANGED nobj
            [] u.op = "rep" -> /\ arrs' = Append(arrs, MkArr(u.rules))                                  \* fresh object, no lock of the old one needed
                               /\ obj' = [id |-> nobj + 1, arr |-> Len(arrs) + 1, len |-> Len(u.rules)]
                               /\ nobj' = nobj + 1
  /\ UNCHANGED <<kind, lpc, lobj, larr, llen, li, lfirst, lall, vstart>>

Next == Start \/ Step \/ Finish \/ Update
Spec == Init /\ [][Next]_vars

(* the model keeps its own books right: the object in force holds the last version *)
BooksOk == [k \in 1..obj.len |-> arrs[obj.arr][k]] = versions[Len(versions)]
AnswerFromOneVersion ==
  lpc = "done" => AnswerOk(kind, lfirst, lall, SubSeq(versions, vstart, Len(versions)))

(* ---- cases for the driver: the lookup is held at rule p of the old list while the whole script runs.
   sens = under ScanWithoutLock this schedule gives an answer of no version *)
Mut(old, sc) == LET RECURSIVE Run(_, _, _)                  \* backing array of the old list and its length after the script, in place
                    Run(a, n, s) == IF s = <<>> \/ Head(s).op = "rep" THEN a
                                    ELSE IF Head(s).op = "rm" THEN Run(a, 0, Tail(s))
                                    ELSE IF n < Len(a) THEN Run([a EXCEPT ![n + 1] = Head(s).rule], n + 1, Tail(s))
                                    ELSE a                                                   \* reallocated: the old array is left alone
                IN Run(MkArr(old), Len(old), sc)
RECURSIVE VersionsOf(_, _)
VersionsOf(list, sc) == IF sc = <<>> THEN <<list>> ELSE <<list>> \o VersionsOf(Apply(list, Head(sc)), Tail(sc))
UnlockedAnswerList(old, sc, p) == LET a == Mut(old, sc) IN [k \in 1..Len(old) |-> IF k <= p THEN old[k] ELSE a[k]]
PausePos(old, k) == { q \in 1..Len(old) : k = "all" \/ \A j \in 1..(q - 1) : ~old[j].m }
CaseOf(old, k, sc, p) ==
  LET ul == UnlockedAnswerList(old, sc, p) IN
    [kind |-> "scan", old |-> old, look |-> k, p |-> p, script |-> sc,
     sens |-> ~AnswerOk(k, FirstC(ul), AllC(ul), VersionsOf(old, sc))]
Cases == UNION { UNION { { CaseOf(old, k, sc, p) : sc \in Scripts, p \in PausePos(old, k) } : k \in {"first", "all"} } : old \in OldLists }
ASSUME \A c \in Cases : PrintT(<<"CASE", ToJson(c)>>)
====
