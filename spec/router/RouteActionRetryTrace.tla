---- MODULE RouteActionRetryTrace ----
(* Trace validation of real requests through the in-process MOSN against RouteActionRetry (C17, retry half).
   One run = one downstream request under a TLC-enumerated policy and outcome script:
     run{pol,script,nhosts,g,t,gap}  route policy, script, hosts of the cluster, configured global / per-try timeout (ms); gap =
                                  longest stretch (ms) this process was not scheduled during the run (watchdog)
     tmo{g,t}                     effective timeouts the proxy computed (hook ds.timeout)
     att{host,res,at}             an upstream attempt handed to the pool of `host` (hook us.attempt), ms since the run began
     rcv{path,hdr,orig}           what the host of that attempt received (scripted host log)
     out{o,at}                    how that attempt ended, as observed (scripted upstream + us.recv / us.reset reason)
     reply{code}                  the reply to the client starts (hook ds.reply)
     fin{kind,status,elapsed}     what the client saw
   The decision table is applied to what actually happened to each attempt (a slow machine may turn a scripted
   503 into a per-try timeout: then the per-try timeout row applies). *)
EXTENDS RouteActionRetry, VTrace

VARIABLES nh, cg, ct, attAt, firstAt, gap,
          act      \* the route's request / response actions of the run and the original request (RouteAction.tla shapes)
tvars == <<vars, nh, cg, ct, attAt, firstAt, gap, act, l>>

(* the effective timeout bounds the whole request (RouteActionRetry!WithinGlobalTimeout), measured from the first attempt:
   timers and goroutines of a loaded machine run late, by no more than this *)
Slack == 200 + 2 * gap

(* the meaning of the actions is RouteAction's *)
RA == INSTANCE RouteAction WITH Family <- "none", Defects <- {}, Big <- TRUE, c <- act
NoAct == [lv |-> [route |-> RA!NoLevel, vhost |-> RA!NoLevel, router |-> RA!NoLevel], hin |-> [k \in RA!Names |-> RA!Absent],
          rlv |-> [route |-> RA!NoLevel, vhost |-> RA!NoLevel, router |-> RA!NoLevel], rhin |-> [k \in RA!Names |-> RA!Absent],
          pr |-> <<>>, rr |-> "none", path |-> <<>>, src |-> RA!Absent, rsrc |-> RA!Absent]
SameHdr(got, want) == \A k \in RA!Names : got[k] = want[k]

TraceInit == /\ l = 1 /\ pol = [on |-> FALSE, n |-> 0, codes |-> <<>>] /\ script = <<>> /\ att = 0 /\ rem = 0 /\ st = "none"
             /\ last = "none" /\ hosts = <<>> /\ reply = 0 /\ nh = 0 /\ cg = 0 /\ ct = 0 /\ attAt = 0 /\ firstAt = 0 /\ applied = 0 /\ act = NoAct
             /\ clock = 0 /\ deadline = 0 /\ gap = 0

(* "rclose": an HTTP/1 host closed the connection in an orderly way before answering (reset reason UpstreamReset).
   The statement's "termination" is bound to the abnormal termination (reason ConnectionTermination); for the orderly
   close the table is silent: a policy with retry_on may retry it, none has to. *)
Known(o) == o \in Outcomes \cup {"rclose"}
May(p, o)  == IF o = "rclose" THEN p.on ELSE Retryable(p, o)
Must(p, o) == o # "rclose" /\ Retryable(p, o)

TRun == /\ IsEvent("run")
        /\ pol' = Ev.pol /\ script' = Ev.script /\ nh' = Ev.nhosts /\ cg' = Ev.g /\ ct' = Ev.t
        /\ att' = 0 /\ rem' = 0 /\ st' = "run" /\ last' = "none" /\ hosts' = <<>> /\ reply' = 0 /\ attAt' = 0 /\ firstAt' = 0 /\ applied' = 0 /\ act' = Ev.act
        /\ clock' = 0 /\ deadline' = 0 /\ gap' = IF Has(Ev, "gap") THEN Ev.gap ELSE 0

TTmo == /\ IsEvent("tmo")
        /\ Expect(Ev.g = cg, "effective-global-timeout")
        /\ Expect(Ev.t = (IF ct >= cg THEN 0 ELSE ct), "effective-per-try-timeout")
        /\ UNCHANGED <<vars, nh, cg, ct, attAt, firstAt, gap, act>>

TAtt == /\ IsEvent("att")
        /\ Expect(reply = 0, "attempt-after-reply-started")
        /\ Expect(att = 0 \/ ~Known(last) \/ May(pol, last), "retried-outside-configured-conditions:" \o last)
        /\ Expect(att < 1 + Budget(pol), "attempts-exceed-budget")
        /\ Expect(att = 0 \/ nh < 2 \/ Ev.host # hosts[Len(hosts)], "retry-on-same-host")
        /\ att' = att + 1 /\ hosts' = Append(hosts, Ev.host) /\ last' = "pending" /\ attAt' = Ev.at
        /\ firstAt' = IF att = 0 THEN Ev.at ELSE firstAt
        /\ Expect(att = 0 \/ Ev.at - firstAt <= cg + Slack, "attempt-started-after-global-timeout")
        /\ UNCHANGED <<pol, script, rem, st, reply, nh, cg, ct, applied, act, clock, deadline, gap>>

(* what the host of the current attempt received: EVERY attempt, first or retried, whichever host, carries exactly
   Sem(actions, original request): the actions are applied once, relative to the original request *)
RECURSIVE HdrTimes(_), PathTimes(_)
HdrTimes(k)  == IF k = 0 THEN act.hin ELSE RA!SemHdr(act.lv, HdrTimes(k - 1), [src |-> act.src, rsrc |-> RA!Absent])
PathTimes(k) == IF k = 0 THEN act.path ELSE RA!SemRewrite(1, act.pr, act.rr, PathTimes(k - 1))
Which == IF att <= 1 THEN "attempt-1:" ELSE "retried-attempt:"
TRcv == /\ IsEvent("rcv")
        /\ LET wantH  == HdrTimes(1)
               wantP  == PathTimes(1)
               againH == \E k \in 2..7 : SameHdr(Ev.hdr, HdrTimes(k))       \* as if the actions had been applied k times
               againP == \E k \in 2..7 : Ev.path = PathTimes(k)
           IN /\ Expect(SameHdr(Ev.hdr, wantH), Which \o (IF againH THEN "request-headers-applied-again" ELSE "request-headers"))
              /\ Expect(Ev.path = wantP, Which \o (IF againP THEN "path-rewritten-again" ELSE "path-rewrite"))
              /\ Expect(Ev.orig = (IF wantP # act.path THEN act.path ELSE <<>>), Which \o "original-path-header")
        /\ UNCHANGED <<vars, nh, cg, ct, attAt, firstAt, gap, act>>

TOut == /\ IsEvent("out")
        /\ Expect(Ev.o # "ptmo" \/ (ct > 0 /\ Ev.at - attAt >= ct - 2), "per-try-timeout-fired-early")
        /\ Expect(Ev.o # "gtmo" \/ Ev.at - firstAt >= cg - 2, "global-timeout-fired-early")
        \* a per-try timeout is the outcome of a PENDING attempt: the timer of an attempt that has ended otherwise is stopped
        /\ Expect(Ev.o # "ptmo" \/ last = "pending", "per-try-timeout-of-ended-attempt")
        /\ last' = Ev.o
        /\ UNCHANGED <<pol, script, att, rem, st, hosts, reply, nh, cg, ct, attAt, firstAt, applied, act, clock, deadline, gap>>

TReply == /\ IsEvent("reply")
          /\ reply' = IF Ev.code = 0 THEN 1 ELSE Ev.code
          /\ Expect(att = 0 \/ ~Has(Ev, "at") \/ Ev.at - firstAt <= cg + Slack, "reply-later-than-global-timeout")
          /\ UNCHANGED <<pol, script, att, rem, st, last, hosts, nh, cg, ct, attAt, firstAt, applied, act, clock, deadline, gap>>

(* a retry that the table asks for may be pre-empted only by the global timeout (runs with a short one) *)
RetryDue == att >= 1 /\ att < 1 + Budget(pol) /\ Known(last) /\ Must(pol, last)

TFin == /\ IsEvent("fin")
        /\ Expect(Ev.kind = "response", "no-reply")
        /\ Expect(att >= 1, "no-attempt")
        /\ Expect(~RetryDue \/ (cg < 5000 /\ Ev.kind = "response" /\ Ev.status = 504), "retry-not-made:" \o last)
        /\ Expect(Ev.kind # "response" \/ last \notin Responses \/ Ev.status = Code(last), "reply-is-not-the-last-response")
        /\ Expect(Ev.kind # "response" \/ ~Known(last) \/ last \in Responses \/ Ev.status >= 500, "failure-not-reported")
        (* the single reply: the last attempt's response with the response-side actions applied once *)
        /\ Expect(Ev.kind # "response" \/ last \notin Responses \/ Ev.status # Code(last)
                  \/ SameHdr(Ev.down, RA!SemHdr(act.rlv, act.rhin, [src |-> act.src, rsrc |-> act.rsrc])), "reply:response-headers")
        /\ st' = "fin"
        /\ UNCHANGED <<pol, script, att, rem, last, hosts, reply, nh, cg, ct, attAt, firstAt, applied, act, clock, deadline, gap>>

TraceNext == TRun \/ TTmo \/ TAtt \/ TRcv \/ TOut \/ TReply \/ TFin
TraceSpec == TraceInit /\ [][TraceNext]_tvars
====
