CONSTANTS
  Clusters = {"a", "b"}
  Weights = {0, 1, 2}
  Defects = {"LeZero"}
SPECIFICATION Spec
INVARIANTS ScanIsSelect ZeroNever
CHECK_DEADLOCK FALSE
