CONSTANTS
  Family = "redir"
  Defects = {"RedirectDropsQuery"}
  Big = FALSE
SPECIFICATION Spec
INVARIANTS HdrImplIsSem HdrLevelOrder HdrVarResolved PathImplIsSem PrefixWins PathRuleSwapsWholePath HostImplIsSem RedirImplIsSem PfcImplIsSem TmoImplIsSem TryBelowGlobal
CHECK_DEADLOCK FALSE
