---- MODULE RouteAction ----
(* Route ACTIONS of a matched route (property C17, first half) and the effective timeouts.
   Code anchors: pkg/router/base_rule.go (finalizeRequestHeaders, finalizePathHeader, FinalizeResponseHeaders),
   header_parser.go (evaluateHeaders), virtualhost.go (Finalize*Headers), proxy/downstream.go chooseHost
   (direct response, redirect), proxy/util.go parseProxyTimeout.

   For every family there are two formulations:
     Sem*   what the property states (declarative: "last writer, then the appends that follow";
            "the protocol value if present, else ..."), and
     Impl*  the shape of the implementation (three parsers evaluated one after the other, a
            sequence of overwrites ...), with the named ways to go wrong behind `Defects`.
   TLC checks Impl = Sem for every case of the family; the trace spec evaluates Sem on what the
   real code did.

   One state = one case (configuration x request); `Family` selects the family a run enumerates. *)
EXTENDS Integers, Sequences, FiniteSets, TLC, Json

CONSTANTS Family,    \* "hop" | "hdr" | "hdrl" | "path" | "redir" | "direct" | "tmo" | "pfc"
          Defects,   \* {} = intended design
          Big        \* TRUE: thorough universes

Absent == "-"
Names == {"x-a", "x-b"}

Max(a, b) == IF a > b THEN a ELSE b

(* ------------------------------------------------------------------ header mutations *)
(* a level (route / virtual host / router configuration) = additions in order, then removals *)
(* one entry of a ..._headers_to_add list: a = "t" / "f" = `append` stated true / false, "d" = `append` omitted, which
   means append (the default holds per entry, whatever the entries before it say) *)
Op(k, v, a) == [k |-> k, v |-> v, a |-> IF a THEN "t" ELSE "f"]
OpD(k, v)   == [k |-> k, v |-> v, a |-> "d"]
Appends(op) == op.a # "f"
NoLevel == [add |-> <<>>, rm |-> <<>>]

(* values of additions (headerformatter.go getHeaderFormatter): a literal, or %name% naming a registered variable that is
   resolved per request.  The menu has a request header variable (the client may or may not send x-src), a response
   header variable (resolvable only once the upstream response, with or without x-rsrc, is there), an unknown name and a
   literal with a lone %.  env = what the variables resolve to for the request at hand. *)
VReq  == "%request_header_x-src%"
VResp == "%response_header_x-rsrc%"
VUnk  == "%nosuchvar%"
VPct  == "5%"
Dash  == "(dash)"      \* how the harness spells a header whose value is the text "-" (Absent is spelled "-")
NoEnv == [src |-> Absent, rsrc |-> Absent]
Envs  == [src : {Absent, "s"}, rsrc : {Absent, "u"}]
(* Sem: a reference to a registered variable is replaced by its value for this request, by the empty value when the
   variable has no value for it; everything else - unknown names included - is taken literally *)
SemFormat(v, env) == CASE v = VReq  -> (IF env.src = Absent THEN "" ELSE env.src)
                       [] v = VResp -> (IF env.rsrc = Absent THEN "" ELSE env.rsrc)
                       [] OTHER -> v
(* Impl: getHeaderFormatter (shape test, variable.Check) and variableHeaderFormatter.format (error -> "") *)
VarShape(v)  == v \in {VReq, VResp, VUnk}
Registered(v) == v \in {VReq, VResp}
Trimmed(v)   == CASE v = VUnk -> "nosuchvar" [] v = VPct -> "5" [] OTHER -> v
Lookup(v, env) == CASE v = VReq -> env.src [] v = VResp -> env.rsrc [] OTHER -> Absent
ImplFormat(v, env) ==
  IF VarShape(v) /\ (Registered(v) \/ "UnknownVarIsVariable" \in Defects)
  THEN (LET x == Lookup(v, env) IN IF x = Absent THEN (IF "MissingVarDash" \in Defects THEN Dash ELSE "") ELSE x)
  ELSE IF "PercentTrimmed" \in Defects THEN Trimmed(v) ELSE v

(* the menu of one level; t tags the values with the level so that the order is visible *)
Menu(t) ==
  { NoLevel,
    [add |-> <<Op("x-a", t, TRUE)>>, rm |-> <<>>],
    [add |-> <<Op("x-a", t, FALSE)>>, rm |-> <<>>],
    [add |-> <<>>, rm |-> <<"x-a">>],
    [add |-> <<Op("x-a", t, TRUE), Op("x-a", t \o "2", TRUE)>>, rm |-> <<>>],
    [add |-> <<Op("x-a", t, FALSE)>>, rm |-> <<"x-b">>],
    [add |-> <<Op("x-a", t, TRUE)>>, rm |-> <<"x-a">>],
    [add |-> <<Op("x-b", t, TRUE), Op("x-a", t, FALSE)>>, rm |-> <<>>],
    [add |-> <<Op("x-a", VReq, TRUE)>>, rm |-> <<>>],
    [add |-> <<Op("x-a", VReq, FALSE), Op("x-b", VPct, TRUE)>>, rm |-> <<>>],
    [add |-> <<Op("x-a", VResp, TRUE)>>, rm |-> <<>>],
    [add |-> <<Op("x-b", VUnk, TRUE), Op("x-a", t, TRUE)>>, rm |-> <<>>] }
  \cup (IF Big THEN { [add |-> <<Op("x-b", t, FALSE), Op("x-b", t \o "2", TRUE)>>, rm |-> <<"x-a">>],
                      [add |-> <<Op("x-a", t, FALSE), Op("x-a", t \o "2", FALSE)>>, rm |-> <<>>] } ELSE {})

Join(old, new) == IF "AppendNoSeparator" \in Defects THEN old \o new ELSE old \o "," \o new

(* Impl: header_parser.go evaluateHeaders *)
(* utility.go getHeaderPair turns the configured list into (name, formatter) pairs once; the formatter remembers whether
   to append.  The default belongs to the entry: a variable that survives the loop would hand an earlier "false" on *)
RECURSIVE ParsedAppend(_, _)
ParsedAppend(ops, carry) ==
  IF ops = <<>> THEN <<>>
  ELSE LET e == IF Head(ops).a = "d" THEN (IF "AppendDefaultLeaks" \in Defects THEN carry ELSE TRUE) ELSE Head(ops).a = "t"
       IN <<e>> \o ParsedAppend(Tail(ops), e)
ApplyAdd(h, op, app, env) ==
  LET old == h[op.k]
      new == ImplFormat(op.v, env)
      val == IF old # Absent /\ old # "" /\ app THEN Join(old, new) ELSE new
  IN [h EXCEPT ![op.k] = val]
RECURSIVE ApplyAddsP(_, _, _, _)
ApplyAddsP(h, ops, apps, env) == IF ops = <<>> THEN h ELSE ApplyAddsP(ApplyAdd(h, Head(ops), Head(apps), env), Tail(ops), Tail(apps), env)
ApplyAdds(h, ops, env) == ApplyAddsP(h, ops, ParsedAppend(ops, TRUE), env)
RECURSIVE ApplyRms(_, _)
ApplyRms(h, ks) == IF ks = <<>> THEN h ELSE ApplyRms([h EXCEPT ![Head(ks)] = Absent], Tail(ks))
Evaluate(h, lv, env) == IF "RemoveBeforeAdd" \in Defects THEN ApplyAdds(ApplyRms(h, lv.rm), lv.add, env)
                        ELSE ApplyRms(ApplyAdds(h, lv.add, env), lv.rm)
(* base_rule.go: route parser, then vHost.Finalize* = virtual host parser, then router configuration parser *)
ImplHdr(lv, h, env) ==
  IF "VhostBeforeRoute" \in Defects THEN Evaluate(Evaluate(Evaluate(h, lv.vhost, env), lv.route, env), lv.router, env)
  ELSE IF "RouterBeforeVhost" \in Defects THEN Evaluate(Evaluate(Evaluate(h, lv.route, env), lv.router, env), lv.vhost, env)
  ELSE Evaluate(Evaluate(Evaluate(h, lv.route, env), lv.vhost, env), lv.router, env)

(* Sem: per header, the flat history route -> virtual host -> router (additions before removals inside a
   level); the value is the last overwrite/removal/incoming value followed by the later appends *)
LevelEvents(lv, k, env) ==
  LET adds == SelectSeq(lv.add, LAMBDA op : op.k = k)
      rms  == SelectSeq(lv.rm, LAMBDA x : x = k)
  IN [i \in 1..Len(adds) |-> [t |-> IF Appends(adds[i]) THEN "app" ELSE "set", v |-> SemFormat(adds[i].v, env)]]
     \o [i \in 1..Len(rms) |-> [t |-> "rm", v |-> Absent]]
Events(lv, k, env) == LevelEvents(lv.route, k, env) \o LevelEvents(lv.vhost, k, env) \o LevelEvents(lv.router, k, env)
RECURSIVE JoinAll(_, _)
JoinAll(base, evs) == IF evs = <<>> THEN base
                      ELSE JoinAll(IF base = Absent \/ base = "" THEN Head(evs).v ELSE base \o "," \o Head(evs).v, Tail(evs))
SemHdrKey(lv, h, k, env) ==
  LET evs  == Events(lv, k, env)
      cuts == { i \in 1..Len(evs) : evs[i].t # "app" }
      cut  == IF cuts = {} THEN 0 ELSE CHOOSE i \in cuts : \A j \in cuts : j <= i
      base == IF cut = 0 THEN h[k] ELSE evs[cut].v
  IN JoinAll(base, SubSeq(evs, cut + 1, Len(evs)))
SemHdr(lv, h, env) == [k \in Names |-> SemHdrKey(lv, h, k, env)]

(* LIST SHAPES (family "hdrl"): one level carries a list of 2-3 entries over the two names whose `append` is stated true,
   stated false or omitted, in every order (the same name twice included), optionally with a removal of x-a at the same
   level; the other two levels carry nothing or one entry with `append` omitted *)
EntryKinds == [k : Names, a : {"t", "f", "d"}]
ListOf(t, ks) == [i \in DOMAIN ks |-> [k |-> ks[i].k, v |-> t \o ToString(i), a |-> ks[i].a]]
ListLevels(t) == { [add |-> ListOf(t, ks), rm |-> rm] : ks \in [1..2 -> EntryKinds] \cup [1..3 -> EntryKinds], rm \in {<<>>, <<"x-a">>} }
SmallMenu(t)  == { NoLevel, [add |-> <<OpD("x-a", t)>>, rm |-> <<>>] }
HdrListCases ==
  [lv : [route : ListLevels("r"), vhost : SmallMenu("v"), router : SmallMenu("g")], hin : [Names -> {Absent, "c"}]]
  \cup [lv : [route : SmallMenu("r"), vhost : ListLevels("v"), router : SmallMenu("g")], hin : [Names -> {Absent, "c"}]]
  \cup [lv : [route : SmallMenu("r"), vhost : SmallMenu("v"), router : ListLevels("g")], hin : [Names -> {Absent, "c"}]]

HdrCases == [lv : [route : Menu("r"), vhost : Menu("v"), router : Menu("g")], hin : [Names -> {Absent, "c"}]]

(* ------------------------------------------------------------------ path and host rewrite *)
(* paths are sequences of one-character tokens, so sequence prefix = string prefix *)
P(s) == s
PathA   == <<"/", "a", "/", "x">>
PathB   == <<"/", "a", "/", "x", "x", "/", "x">>
PathC   == <<"/", "a", "/">>
PathD   == <<"/", "a", "/", "y", "/", "z">>
Paths   == IF Big THEN {PathA, PathB, PathC, PathD} ELSE {PathA, PathB, PathC}
PrefixA == <<"/", "a", "/">>
IsPrefix(p, s) == Len(p) <= Len(s) /\ SubSeq(s, 1, Len(p)) = p
Rest(p, s) == SubSeq(s, Len(p) + 1, Len(s))

(* the regex_rewrite menu (pattern, substitution) with its hand-written meaning; the driver cross-checks the
   meaning against Go's regexp on every path of the universe ("rx" events) *)
RxMenu == {"none", "R1", "R2", "R3", "R4", "R5", "R6"}
RxPattern(r) == CASE r = "R1" -> "[x]" [] r = "R2" -> "^/a/" [] r = "R3" -> "zz" [] r = "R4" -> "^/a/(.*)$" [] r = "R5" -> "x" [] r = "R6" -> "^/" [] OTHER -> ""
RxSubst(r)   == CASE r = "R1" -> "yz" [] r = "R2" -> "/c/" [] r = "R3" -> "q" [] r = "R4" -> "/d/$1/e" [] r = "R5" -> "yz" [] r = "R6" -> "/c/" [] OTHER -> ""
RECURSIVE ReplX(_)
ReplX(s) == IF s = <<>> THEN <<>> ELSE (IF Head(s) = "x" THEN <<"y", "z">> ELSE <<Head(s)>>) \o ReplX(Tail(s))
RegexApply(r, s) ==
  CASE r \in {"R1", "R5"} -> ReplX(s)
    [] r = "R2" -> IF IsPrefix(PrefixA, s) THEN <<"/", "c", "/">> \o Rest(PrefixA, s) ELSE s
    [] r = "R4" -> IF IsPrefix(PrefixA, s) THEN <<"/", "d", "/">> \o Rest(PrefixA, s) \o <<"/", "e">> ELSE s
    [] r = "R6" -> IF s # <<>> /\ Head(s) = "/" THEN <<"/", "c", "/">> \o Tail(s) ELSE s     \* its output matches again
    [] OTHER -> s

PrMenu == {<<>>, <<"/", "b", "/">>, <<"/">>}

(* a path rule matches the whole path without regard to case: ci = the request spells the path in upper case *)
Up(t) == CASE t = "a" -> "A" [] t = "x" -> "X" [] t = "y" -> "Y" [] t = "z" -> "Z" [] OTHER -> t
ReqPath(c) == IF c.ci THEN [i \in DOMAIN c.path |-> Up(c.path[i])] ELSE c.path
(* what the matched route "matched" of the request path: the prefix of a prefix rule, the whole path of a path rule *)
MatchedLen(c) == IF c.rule = "prefix" THEN Len(PrefixA) ELSE Len(c.path)

(* Sem: prefix_rewrite replaces what the rule matched; regex_rewrite applies only when no prefix_rewrite is set *)
SemRewrite(m, pr, rr, path) == IF pr # <<>> THEN pr \o SubSeq(path, m + 1, Len(path)) ELSE RegexApply(rr, path)
SemPath(c) == SemRewrite(MatchedLen(c), c.pr, c.rr, ReqPath(c))
(* rewrites given to the routes of the retry runs (RouteActionRetry): rule prefix "/", so a prefix_rewrite output
   still matches the rule, and regex patterns that do / do not match their own output *)
RetryRewrites == { [pr |-> <<>>, rr |-> "none"], [pr |-> <<"/", "b", "/">>, rr |-> "none"], [pr |-> <<>>, rr |-> "R6"], [pr |-> <<>>, rr |-> "R5"] }
(* MARKERS: a request may already carry headers that MOSN itself adds or names its variables after - it may come from
   another MOSN that rewrote, or from a client that sends them.  mk = what the request brings:
     "none" | "orig-same" (x-mosn-original-path = the path it asks for) | "orig-other" (x-mosn-original-path = /zz)
     | "xmosn" (x-mosn-host, x-mosn-path, x-mosn-querystring with foreign values)
   The configured action applies exactly, whatever the request brings. *)
Markers == {"none", "orig-same", "orig-other", "xmosn"}
OtherOrig == <<"/", "z", "z">>
InOrigOf(mk, path) == CASE mk = "orig-same" -> path [] mk = "orig-other" -> OtherOrig [] OTHER -> <<>>
(* one hop: the path it forwards and what x-mosn-original-path holds afterwards: the path as THIS hop received it when
   this hop rewrote it, else whatever the request brought (it is a request header like any other) *)
HopPath(m, pr, rr, path) == SemRewrite(m, pr, rr, path)
HopOrig(m, pr, rr, path, inorig) == IF SemRewrite(m, pr, rr, path) # path THEN path ELSE inorig
ImplHopPath(m, pr, rr, path, inorig) ==
  IF "RewriteSkippedWhenMarked" \in Defects /\ inorig # <<>> THEN path ELSE SemRewrite(m, pr, rr, path)

(* Impl: base_rule.go finalizePathHeader compares the request path with the configured matcher *)
Configured(c) == IF c.rule = "prefix" THEN PrefixA ELSE c.path
SameFold(p, s) == Len(p) <= Len(s) /\ \A i \in DOMAIN p : Up(p[i]) = Up(s[i])
ImplPath(c) ==
  LET path == ReqPath(c)
      hit  == IF "RewriteCaseSensitive" \in Defects THEN IsPrefix(Configured(c), path) ELSE SameFold(Configured(c), path)
  IN IF c.pr = <<>> /\ c.rr = "none" THEN path
     ELSE IF "RewriteSkippedWhenMarked" \in Defects /\ InOrigOf(c.mk, path) # <<>> THEN path
     ELSE IF c.pr # <<>> /\ ~("RegexOverPrefix" \in Defects /\ c.rr # "none")
          THEN (IF hit
                THEN (IF "PrefixRewriteKeepsPrefix" \in Defects THEN c.pr \o path ELSE c.pr \o Rest(Configured(c), path))
                ELSE path)
          ELSE RegexApply(c.rr, path)
(* x-mosn-original-path afterwards: the path as this hop received it exactly when this hop rewrote it *)
SemOrig(c) == IF SemPath(c) # ReqPath(c) THEN ReqPath(c) ELSE InOrigOf(c.mk, ReqPath(c))

(* TWO HOPS (family "hop"): listener 1 rewrites and forwards to listener 2 of the same MOSN, which rewrites again and
   forwards to the upstream; both routes are prefix "/" rules with a rewrite of RetryRewrites *)
HopCases == [h1 : RetryRewrites, h2 : RetryRewrites, path : {PathA, PathB}]
SemHop(c) == LET p1 == HopPath(1, c.h1.pr, c.h1.rr, c.path)
                 o1 == HopOrig(1, c.h1.pr, c.h1.rr, c.path, <<>>)
             IN [path |-> HopPath(1, c.h2.pr, c.h2.rr, p1), orig |-> HopOrig(1, c.h2.pr, c.h2.rr, p1, o1)]
ImplHop(c) == LET p1 == ImplHopPath(1, c.h1.pr, c.h1.rr, c.path, <<>>)
                  o1 == IF p1 # c.path THEN c.path ELSE <<>>
                  p2 == ImplHopPath(1, c.h2.pr, c.h2.rr, p1, o1)
              IN [path |-> p2, orig |-> IF p2 # p1 THEN p1 ELSE o1]

(* host towards an HTTP/1.1 upstream: host_rewrite, else the value of the header named by
   auto_host_rewrite_header (as it stands after the header mutations), else the request's host *)
PathHdrLevels(c) == [route |-> IF c.radd THEN [add |-> <<Op("x-a", "r.host", FALSE)>>, rm |-> <<>>] ELSE NoLevel,
                     vhost |-> NoLevel, router |-> NoLevel]
PathHdrIn(c) == [k \in Names |-> IF k = "x-a" THEN c.xa ELSE Absent]
OrigHost == "h.local"
SemHost(c) == LET h == SemHdr(PathHdrLevels(c), PathHdrIn(c), NoEnv) IN
              IF c.hr # "" THEN c.hr
              ELSE IF c.ahrh # "" /\ h[c.ahrh] # Absent THEN h[c.ahrh]
              ELSE OrigHost
ImplHost(c) == LET h == ImplHdr(PathHdrLevels(c), PathHdrIn(c), NoEnv)
                   h0 == PathHdrIn(c) IN
               IF "AutoHostOverHostRewrite" \in Defects /\ c.ahrh # "" /\ h[c.ahrh] # Absent THEN h[c.ahrh]
               ELSE IF c.hr # "" THEN c.hr
               ELSE IF c.ahrh # "" /\ "AutoHostBeforeMutation" \in Defects THEN (IF h0[c.ahrh] # Absent THEN h0[c.ahrh] ELSE OrigHost)
               ELSE IF c.ahrh # "" /\ h[c.ahrh] # Absent THEN h[c.ahrh]
               ELSE OrigHost

PathCases == { c \in [rule : {"prefix", "path", "regex"}, pr : PrMenu, rr : RxMenu, hr : {"", "rw.host"},
                      ahrh : {"", "x-a"}, radd : BOOLEAN, path : Paths, query : {"", "k=v"}, xa : {Absent, "c.host"}, ci : BOOLEAN, mk : Markers] :
               /\ (c.pr # <<>> => c.rule # "regex")        \* prefix_rewrite on a regex rule has no matched prefix to replace
               /\ (c.ahrh = "" => (~c.radd /\ c.xa = Absent))
               /\ (c.ci => (c.rule = "path" /\ c.query = "" /\ c.hr = "" /\ c.ahrh = ""))
               /\ (~Big => (c.query = "k=v" => c.rr \in {"none", "R1"}))
               /\ (c.mk # "none" => (c.query = "" /\ ~c.radd /\ c.xa = Absent /\ (Big \/ c.path # PathC))) }

(* ------------------------------------------------------------------ redirect and direct response *)
CurrentScheme == "http"      \* the listeners of the harness are plain HTTP/1
RHosts == { [n |-> "h.local", p |-> ""], [n |-> "h.local", p |-> "80"], [n |-> "h.local", p |-> "443"], [n |-> "h.local", p |-> "8080"] }
HostStr(h) == IF h.p = "" THEN h.n ELSE h.n \o ":" \o h.p
RPath == "/a/x"
RedirCases == [scheme : {"", "https", "http"}, rhost : {"", "r.host"}, rpath : {"", "/new"},
               code : {0, 301, 302, 303, 307, 308}, host : RHosts, query : {"", "k=v"}, mk : {"none", "xmosn"}]
DefaultPort(s) == IF s = "https" THEN "443" ELSE "80"
(* Sem: the port is dropped when the scheme changes and the port is the default port of the scheme left behind *)
SemLocation(c) ==
  LET sch  == IF c.scheme # "" THEN c.scheme ELSE CurrentScheme
      host == IF c.rhost # "" THEN c.rhost
              ELSE IF sch # CurrentScheme /\ c.host.p = DefaultPort(CurrentScheme) THEN c.host.n
              ELSE HostStr(c.host)
      path == IF c.rpath # "" THEN c.rpath ELSE RPath
  IN sch \o "://" \o host \o path \o (IF c.query = "" THEN "" ELSE "?" \o c.query)
SemRedirCode(c) == IF c.code = 0 THEN 301 ELSE c.code
(* Impl: downstream.go chooseHost builds url.URL and strips by enumerating the two scheme changes *)
ImplLocation(c) ==
  LET sch  == IF c.scheme # "" THEN c.scheme ELSE CurrentScheme
      h0   == IF c.rhost # "" THEN [n |-> c.rhost, p |-> ""] ELSE c.host
      host == IF sch # CurrentScheme /\ ~("RedirectKeepsPort" \in Defects)
                 /\ ((sch = "http" /\ h0.p = "443") \/ (sch = "https" /\ h0.p = "80")) THEN h0.n
              ELSE HostStr(h0)
      path == IF c.rpath # "" THEN c.rpath ELSE RPath
      q    == IF "RedirectDropsQuery" \in Defects THEN "" ELSE c.query
  IN sch \o "://" \o host \o path \o (IF q = "" THEN "" ELSE "?" \o q)
ImplRedirCode(c) == IF c.code = 0 THEN (IF "RedirectDefault302" \in Defects THEN 302 ELSE 301) ELSE c.code

DirectCases == [status : {200, 403, 503}, body : {"", "hello"}, lv : {NoLevel, [add |-> <<Op("x-a", "r", TRUE)>>, rm |-> <<>>]}]

(* ------------------------------------------------------------------ effective timeouts *)
(* sources as integers in ms: -1 = not supplied, -2 = supplied but not a number *)
DefaultGlobal == 60000
Valid(x) == x >= 0
TmoCases == [rg : {0, 300}, rt : {0, 100, 300, 500}, hg : {-1, 200, -2}, ht : {-1, 50, 250, -2},
             vg : {-1, 400, 90} \cup (IF Big THEN {-2} ELSE {}), vt : {-1, 80} \cup (IF Big THEN {450} ELSE {})]
(* Sem: protocol-supplied if present, else the request's timeout headers, else the route's, else the default;
   a per-try timeout that is not shorter than the global one is switched off *)
First(a, b, c) == IF Valid(a) THEN a ELSE IF Valid(b) THEN b ELSE c
SemTimeout(c) ==
  LET g0 == First(c.vg, c.hg, c.rg)
      g  == IF g0 = 0 THEN DefaultGlobal ELSE g0
      t0 == First(c.vt, c.ht, c.rt)
  IN [g |-> g, t |-> IF t0 >= g THEN 0 ELSE t0]
(* Impl: util.go parseProxyTimeout, a sequence of overwrites *)
ImplTimeout(c) ==
  LET g1 == c.rg
      t1 == c.rt
      hdrfirst == ~("HeaderOverProtocol" \in Defects)
      ta == IF hdrfirst THEN c.ht ELSE c.vt
      tb == IF hdrfirst THEN c.vt ELSE c.ht
      ga == IF hdrfirst THEN c.hg ELSE c.vg
      gb == IF hdrfirst THEN c.vg ELSE c.hg
      t2 == IF Valid(ta) THEN ta ELSE t1
      g2 == IF Valid(ga) THEN ga ELSE g1
      t3 == IF Valid(tb) THEN tb ELSE t2
      g3 == IF Valid(gb) THEN gb ELSE g2
      g4 == IF g3 = 0 THEN DefaultGlobal ELSE g3
      t4 == IF "TryNotDisabled" \in Defects THEN t3 ELSE IF t3 >= g4 THEN 0 ELSE t3
  IN [g |-> g4, t |-> t4]

(* ------------------------------------------------------------------ per_filter_config *)
(* route and virtual host may each carry a configuration for a named stream filter; a filter of that name reads, through
   the matched route, the route's own value and the virtual host's own value (which of the two it prefers is its business) *)
PfcCases == [route : {Absent, "r"}, vhost : {Absent, "v"}]
SemPfc(c)  == [route |-> c.route, vhost |-> c.vhost]
ImplPfc(c) == [route |-> IF "PfcRouteFallsBackToVhost" \in Defects /\ c.route = Absent THEN c.vhost ELSE c.route, vhost |-> c.vhost]

(* ------------------------------------------------------------------ one state per case *)
VARIABLE c
Cases == CASE Family = "hdr" -> HdrCases [] Family = "hdrl" -> HdrListCases [] Family = "path" -> PathCases [] Family = "redir" -> RedirCases
           [] Family = "direct" -> DirectCases [] Family = "tmo" -> TmoCases [] Family = "pfc" -> PfcCases [] Family = "hop" -> HopCases
Init == c \in Cases
Next == UNCHANGED c
Spec == Init /\ [][Next]_c

(* ---- properties: the implementation-shaped evaluation means what the property states ---- *)
HdrImplIsSem   == Family \in {"hdr", "hdrl"} => \A env \in Envs : ImplHdr(c.lv, c.hin, env) = SemHdr(c.lv, c.hin, env)
(* the statement's own example: all three levels append to a header the client sent *)
HdrLevelOrder  == (Family = "hdr" /\ c.hin["x-a"] = "c"
                   /\ \A L \in {"route", "vhost", "router"} : Len(c.lv[L].add) = 1 /\ Appends(c.lv[L].add[1]) /\ c.lv[L].add[1].k = "x-a" /\ c.lv[L].rm = <<>>
                        /\ ~VarShape(c.lv[L].add[1].v))
                  => ImplHdr(c.lv, c.hin, NoEnv)["x-a"] = "c,r,v,g"
(* the statement's "applied exactly" for variable values: a resolvable reference contributes the request's own value *)
HdrVarResolved == (Family = "hdr" /\ c.lv.route = [add |-> <<Op("x-a", VReq, TRUE)>>, rm |-> <<>>] /\ c.lv.vhost = NoLevel /\ c.lv.router = NoLevel)
                  => /\ ImplHdr(c.lv, c.hin, [src |-> "s", rsrc |-> Absent])["x-a"] = (IF c.hin["x-a"] = Absent THEN "s" ELSE "c,s")
                     /\ ImplHdr(c.lv, c.hin, NoEnv)["x-a"] = (IF c.hin["x-a"] = Absent THEN "" ELSE "c,")
(* the coordinator's example: an entry that omits `append` appends, whatever stands before it in the list *)
OmittedAppends == (Family = "hdrl" /\ c.hin["x-a"] = "c" /\ c.lv.vhost = NoLevel /\ c.lv.router = NoLevel /\ c.lv.route.rm = <<>>
                   /\ Len(c.lv.route.add) = 2 /\ c.lv.route.add[1] = [k |-> "x-b", v |-> "r1", a |-> "f"] /\ c.lv.route.add[2].k = "x-a" /\ c.lv.route.add[2].a = "d")
                  => ImplHdr(c.lv, c.hin, NoEnv)["x-a"] = "c,r2"
PathImplIsSem  == Family = "path" => ImplPath(c) = SemPath(c)
PrefixWins     == (Family = "path" /\ c.pr # <<>> /\ c.rule = "prefix") => ImplPath(c) = c.pr \o Rest(PrefixA, c.path)
PathRuleSwapsWholePath == (Family = "path" /\ c.pr # <<>> /\ c.rule = "path") => ImplPath(c) = c.pr
HostImplIsSem  == Family = "path" => ImplHost(c) = SemHost(c)
RedirImplIsSem == Family = "redir" => ImplLocation(c) = SemLocation(c) /\ ImplRedirCode(c) = SemRedirCode(c)
HopImplIsSem   == Family = "hop" => ImplHop(c) = SemHop(c)
(* both hops rewrite: the upstream gets the twice rewritten path and, as original path, what the SECOND hop received *)
HopBothRewrite == (Family = "hop" /\ c.h1.pr # <<>> /\ c.h2.pr # <<>>)
                  => ImplHop(c) = [path |-> c.h2.pr \o Tail(c.h1.pr \o Tail(c.path)), orig |-> c.h1.pr \o Tail(c.path)]
PfcImplIsSem   == Family = "pfc" => ImplPfc(c) = SemPfc(c)
TmoImplIsSem   == Family = "tmo" => ImplTimeout(c) = SemTimeout(c)
TryBelowGlobal == Family = "tmo" => LET r == ImplTimeout(c) IN r.g > 0 /\ (r.t = 0 \/ r.t < r.g)

(* one CASE line per case, consumed by the Go driver (run with -workers 1) *)
EmitCase == /\ PrintT(<<"CASE", ToJson([fam |-> Family, c |-> c])>>)
            /\ (Family = "path" /\ c = CHOOSE x \in Cases : TRUE) =>
                 PrintT(<<"CASE", ToJson([fam |-> "rxmenu", envs |-> Envs, paths |-> Paths, retryrw |-> RetryRewrites, retrypath |-> PathA,
                                          rx |-> { [rr |-> r, pattern |-> RxPattern(r), subst |-> RxSubst(r)] : r \in RxMenu \ {"none"} }])>>)
====
