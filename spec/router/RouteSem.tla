---- MODULE RouteSem ----
(* Route selection inside one virtual host (pkg/router/virtualhost.go GetRouteFromEntries /
   GetAllRoutesFromEntries and the rule files http_rule.go, rpc_rule.go, variable_rule.go, configutility.go),
   property C04 part 2.  Pure reference semantics.

   A rule is [k, pa, re, hs, vs, qs, ds]:
     k  = "path" | "prefix" | "regex" | "rpc" | "var" | "dsl"
     pa = characters of the path / prefix (<<>> if unused)       re = regular expression text ("" if unused)
     hs = sequence of header matchers [n |-> name, v |-> value, re |-> BOOLEAN]
     vs = sequence of variable matchers [n |-> variable, v |-> value, re |-> regex text, m |-> "and" | "or"]
     qs = sequence of query-parameter matchers [n, v, re] of a path/prefix/regex rule (no configuration field sets
          them in this version; the harness installs them through a verif accessor)
     ds = sequence of DSL (CEL) expressions of a "dsl" rule, each a prefix-order sequence of tokens [t, n, v, pa]
   A request is [path, method, query, hd] with path a character sequence (<<>> = the protocol sets no path),
   hd = [h1, h2, service] where "-" means the header is absent.

   Regular expressions come from a fixed menu whose meaning is written out by hand below (Go regexp,
   unanchored search unless the pattern anchors itself). *)
EXTENDS Integers, Sequences, FiniteSets, TLC

Absent == "-"

LcP(c) == CASE c = "A" -> "a" [] c = "B" -> "b" [] OTHER -> c
LowerP(s) == [i \in 1..Len(s) |-> LcP(s[i])]
IsPrefix(p, s) == Len(p) <= Len(s) /\ SubSeq(s, 1, Len(p)) = p
EndsWith(s, c) == Len(s) > 0 /\ s[Len(s)] = c

(* ---- path regex menu.  A regex rule holds iff Go's regexp finds a match ANYWHERE in the path (unanchored search).
   The menu covers the match-position classes: match at position 0, match beginning inside the path, match only at
   the end ($), ^-anchored, patterns that start with a literal / with a class / with a group of alternatives, and
   patterns that match the empty string; the paths of the universe give both sides of every class. *)
Contains(p, s) == \E k \in 1..Len(s) : k + Len(p) - 1 <= Len(s) /\ SubSeq(s, k, k + Len(p) - 1) = p
PathRe(re, s) ==
  CASE re = "^/a"     -> IsPrefix(<<"/", "a">>, s)                                  \* ^-anchored literal
    [] re = "b$"      -> EndsWith(s, "b")                                           \* literal, only at the end
    [] re = "^/[ab]$" -> s = <<"/", "a">> \/ s = <<"/", "b">>                       \* anchored both sides
    [] re = "/a/.+"   -> \E i \in 1..Len(s) : i + 3 <= Len(s) /\ SubSeq(s, i, i + 2) = <<"/", "a", "/">>   \* literal start, position 0 or inside
    [] re = "a/b"     -> Contains(<<"a", "/", "b">>, s)                             \* literal, never at position 0
    [] re = "(a|b)/a" -> Contains(<<"a", "/", "a">>, s) \/ Contains(<<"b", "/", "a">>, s)     \* starts with alternatives, inside
    [] re = "[ab]b$"  -> Len(s) >= 2 /\ s[Len(s)] = "b" /\ s[Len(s) - 1] \in {"a", "b"}      \* starts with a class, at the end
    [] re = "b*"      -> TRUE                                                       \* matches the empty string
    [] re = "^$"      -> s = <<>>                                                   \* only the empty path
    [] re = ".*"      -> TRUE
    [] OTHER          -> Assert(FALSE, <<"regex not in the menu", re>>)

(* ---- header / variable value regex menu; the meaning of each is its set of matching values of the universe *)
AllVals == {"v1", "v2", "xv1", "s1", "s2", "GETs", "GET", "POST", "PUT", "", "q=1", "q=1&r=2", "r=2", "1", "2"}
ValReSet(re) ==
  CASE re = "^v"    -> {"v1", "v2"}
    [] re = "v1"    -> {"v1", "xv1"}
    [] re = "^v1$"  -> {"v1"}
    [] re = "s.*"   -> {"s1", "s2", "GETs"}           \* unanchored: any value containing an s
    [] re = "^s.*"  -> {"s1", "s2"}
    [] re = ".*"    -> AllVals
    [] re = "^(GET|PUT)$" -> {"GET", "PUT"}
    [] re = "q=1"   -> {"q=1", "q=1&r=2"}
    [] re = "^2$"   -> {"2"}
    [] re = "1$"    -> {"v1", "xv1", "s1", "q=1", "1"}           \* only at the end
    [] re = "[sx]"  -> {"xv1", "s1", "s2", "GETs"}               \* starts with a class, anywhere
    [] OTHER        -> Assert(FALSE, <<"value regex not in the menu", re>>)
ValRes == {"^v", "v1", "^v1$", "s.*", "^s.*", ".*", "^(GET|PUT)$", "q=1", "^2$", "1$", "[sx]"}
ValRe(re, val) == Assert(val \in AllVals, <<"value not in the universe", val>>) /\ val \in ValReSet(re)
PathRes == {"^/a", "b$", "^/[ab]$", "/a/.+", "a/b", "(a|b)/a", "[ab]b$", "b*", "^$", ".*"}

HeaderVal(req, n) == CASE n = "h1" -> req.hd.h1 [] n = "h2" -> req.hd.h2 [] n = "service" -> req.hd.service
                       [] OTHER -> Absent

(* one header matcher of the common matcher: the header is present and its value is equal / matches *)
HdrHolds(hm, req) == LET val == HeaderVal(req, hm.n) IN
                       /\ val # Absent
                       /\ IF hm.re THEN ValRe(hm.v, val) ELSE val = hm.v

(* HTTP rules: the key "method" is compared (exactly) with the request method, every other key with the headers *)
HttpHdrHolds(hm, req) == IF hm.n = "method" THEN req.method = hm.v ELSE HdrHolds(hm, req)
HttpHeaders(rule, req) == \A i \in 1..Len(rule.hs) : HttpHdrHolds(rule.hs[i], req)

(* RPC rules: conjunction of header matchers.  Compatibility form: a single exact matcher on "service" whose
   value is ".*" accepts every non-empty service value. *)
RpcHolds(rule, req) ==
  IF Len(rule.hs) = 1 /\ rule.hs[1].n = "service" /\ rule.hs[1].v = ".*" /\ ~rule.hs[1].re
  THEN req.hd.service # Absent /\ req.hd.service # ""
  ELSE \A i \in 1..Len(rule.hs) : HdrHolds(rule.hs[i], req)

(* variable rules: items joined by and/or, "and" binds tighter (the model of item i joins it to item i+1) *)
VarVal(req, n) == CASE n = "x-mosn-method" -> req.method
                    [] n = "x-mosn-querystring" -> req.query
                    [] OTHER -> ""
VarItem(it, req) == LET actual == VarVal(req, it.n) IN
                      IF it.re # "" THEN ValRe(it.re, actual) ELSE it.v # "" /\ actual = it.v
(* groups: maximal runs of items joined by "and" *)
GroupStart(vs, i) == i = 1 \/ vs[i - 1].m = "or"
GroupOf(vs, i) == LET ends == { j \in i..Len(vs) : j = Len(vs) \/ vs[j].m = "or" } IN
                    i..(CHOOSE j \in ends : \A e \in ends : j <= e)
VarHolds(rule, req) == \E i \in 1..Len(rule.vs) :
                         GroupStart(rule.vs, i) /\ \A j \in GroupOf(rule.vs, i) : VarItem(rule.vs[j], req)

(* ---- query-parameter matchers: every matcher names a parameter that is present and whose value is equal / matches.
   The query strings of the universe, parsed by hand (cross-checked against net/url by the driver).
   Not specified for a request without query string (see Specified). *)
Queries == {"", "q=1", "r=2", "q=1&r=2"}
QPVal(q, n) == CASE q = "q=1" /\ n = "q" -> "1" [] q = "r=2" /\ n = "r" -> "2"
                 [] q = "q=1&r=2" /\ n = "q" -> "1" [] q = "q=1&r=2" /\ n = "r" -> "2" [] OTHER -> Absent
QsHolds(rule, req) == \A i \in 1..Len(rule.qs) :
                        LET val == QPVal(req.query, rule.qs[i].n) IN
                          val # Absent /\ (IF rule.qs[i].re THEN ValRe(rule.qs[i].v, val) ELSE val = rule.qs[i].v)
(* the code skips the query matchers of a rule when the request carries no query parameter at all; with the feature
   unreachable from configuration nothing documents what is meant, so such pairs are outside the specification *)
Specified(rules, req) == \A i \in 1..Len(rules) : Len(rules[i].qs) > 0 => req.query # ""

(* ---- DSL rules: every expression of the list evaluates to true.  Expressions are CEL over request attributes;
   a missing attribute / map key makes the (sub)expression an error, errors propagate CEL-style (true || error = true,
   false && error = false, !error = error) and an expression that ends in an error does not hold. *)
And3(a, b) == IF a = "F" \/ b = "F" THEN "F" ELSE IF a = "E" \/ b = "E" THEN "E" ELSE "T"
Or3(a, b)  == IF a = "T" \/ b = "T" THEN "T" ELSE IF a = "E" \/ b = "E" THEN "E" ELSE "F"
Not3(a)    == IF a = "E" THEN "E" ELSE IF a = "T" THEN "F" ELSE "T"
B3(b)      == IF b THEN "T" ELSE "F"
Leaf(t, req) ==
  CASE t.t = "meq"  -> B3(req.method = t.v)                                          \* request.method == v
    [] t.t = "ppre" -> IF req.path = <<>> THEN "E" ELSE B3(IsPrefix(t.pa, req.path))  \* request.path.startsWith(pa)
    [] t.t = "peq"  -> IF req.path = <<>> THEN "E" ELSE B3(req.path = t.pa)           \* request.path == pa
    [] t.t = "heq"  -> IF HeaderVal(req, t.n) = Absent THEN "E" ELSE B3(HeaderVal(req, t.n) = t.v)   \* request.headers[n] == v
    [] t.t = "hdef" -> B3(HeaderVal(req, t.n) = t.v)                                  \* (request.headers[n] | "none") == v
    [] t.t = "qeq"  -> IF QPVal(req.query, t.n) = Absent THEN "E" ELSE B3(QPVal(req.query, t.n) = t.v)  \* request.query_params[n] == v
RECURSIVE Ev3(_, _, _)
Ev3(e, i, req) ==
  LET t == e[i] IN
  CASE t.t = "and" -> LET a == Ev3(e, i + 1, req) b == Ev3(e, a.n, req) IN [v |-> And3(a.v, b.v), n |-> b.n]
    [] t.t = "or"  -> LET a == Ev3(e, i + 1, req) b == Ev3(e, a.n, req) IN [v |-> Or3(a.v, b.v), n |-> b.n]
    [] t.t = "not" -> LET a == Ev3(e, i + 1, req) IN [v |-> Not3(a.v), n |-> a.n]
    [] OTHER       -> [v |-> Leaf(t, req), n |-> i + 1]
DslHolds(rule, req) == \A k \in 1..Len(rule.ds) : Ev3(rule.ds[k], 1, req).v = "T"

RuleHolds(rule, req) ==
  CASE rule.k = "path"   -> req.path # <<>> /\ LowerP(req.path) = LowerP(rule.pa) /\ HttpHeaders(rule, req) /\ QsHolds(rule, req)
    [] rule.k = "prefix" -> req.path # <<>> /\ IsPrefix(rule.pa, req.path) /\ HttpHeaders(rule, req) /\ QsHolds(rule, req)
    [] rule.k = "regex"  -> req.path # <<>> /\ PathRe(rule.re, req.path) /\ HttpHeaders(rule, req) /\ QsHolds(rule, req)
    [] rule.k = "rpc"    -> RpcHolds(rule, req)
    [] rule.k = "var"    -> VarHolds(rule, req)
    [] rule.k = "dsl"    -> DslHolds(rule, req)

(* all matching rule indexes in configuration order; the selected route is the first, 0 = no route *)
AllMatches(rules, req) == { i \in 1..Len(rules) : RuleHolds(rules[i], req) }
FirstMatch(rules, req) == LET S == AllMatches(rules, req) IN
                            IF S = {} THEN 0 ELSE CHOOSE i \in S : \A j \in S : i <= j
RECURSIVE SetToSortedSeq(_)
SetToSortedSeq(S) == IF S = {} THEN <<>>
                     ELSE LET m == CHOOSE i \in S : \A j \in S : i <= j IN <<m>> \o SetToSortedSeq(S \ {m})

(* ---- MatchRouteFromHeaderKV(key, value): the fast index is an accelerator of the scan for rules that consist of
   exactly one exact header matcher (fastindex_test.go: "without fast index, we iterate through the slice and find the
   first matching route. with the fast index, we get the route directly from the key&value").  A rule is reachable
   through the index for (key, value) iff its header criteria (for HTTP rules: without the "method" key) are exactly
   one exact matcher key = value; the answer is the first such rule in configuration order, 0 = none. *)
Criteria(rule) == IF rule.k \in {"path", "prefix", "regex"} THEN SelectSeq(rule.hs, LAMBDA hm : hm.n # "method")
                  ELSE IF rule.k = "rpc" THEN rule.hs ELSE <<>>
Indexed(rule, key, value) == LET c == Criteria(rule) IN Len(c) = 1 /\ ~c[1].re /\ c[1].n = key /\ c[1].v = value
KvSelect(rules, key, value) == LET S == { i \in 1..Len(rules) : Indexed(rules[i], key, value) } IN
                                 IF S = {} THEN 0 ELSE CHOOSE i \in S : \A j \in S : i <= j
KVs == { <<"h1", "v1">>, <<"h1", "v2">>, <<"h2", "v1">>, <<"service", "s1">>, <<"service", ".*">>, <<"service", "s.*">>,
         <<"method", "GET">> }

(* ---- route handler (handler.go DefaultMakeHandler / DoRouteHandler, what the proxy calls per request): the route is
   the one MatchRoute selects; the snapshot is that of the route's cluster if the cluster manager holds it, none
   otherwise; the route is handed over even when its cluster is unknown (no fall-through to a later route).
   present = indexes of the rules whose cluster exists. *)
HandlerWant(rules, req, present) == LET f == FirstMatch(rules, req) IN
                                      [route |-> f, snap |-> IF f \in present THEN f ELSE 0]

(* what kind of rule: used in failure signatures *)
RuleClass(rule) ==
  CASE rule.k \in {"path", "prefix", "regex"} -> rule.k \o (IF Len(rule.hs) > 0 THEN "+headers" ELSE "") \o (IF Len(rule.qs) > 0 THEN "+query" ELSE "")
    [] rule.k = "rpc" -> IF Len(rule.hs) = 0 THEN "rpc-catchall"
                         ELSE IF Len(rule.hs) = 1 /\ rule.hs[1].n = "service"
                              THEN "rpc-service" \o (IF rule.hs[1].re THEN "-regex" ELSE IF rule.hs[1].v = ".*" THEN "-any" ELSE "-exact")
                              ELSE "rpc-headers"
    [] rule.k = "var" -> IF \E k \in 1..(Len(rule.vs) - 1) : rule.vs[k].m = "or" THEN "var-or" ELSE "var-and"
    [] OTHER -> rule.k

(* ---------- universes *)
H(n, v, re) == [n |-> n, v |-> v, re |-> re]
V(n, v, re, m) == [n |-> n, v |-> v, re |-> re, m |-> m]
R(k, pa, re, hs, vs) == [k |-> k, pa |-> pa, re |-> re, hs |-> hs, vs |-> vs, qs |-> <<>>, ds |-> <<>>]
RQ(k, pa, re, hs, qs) == [k |-> k, pa |-> pa, re |-> re, hs |-> hs, vs |-> <<>>, qs |-> qs, ds |-> <<>>]
RD(ds) == [k |-> "dsl", pa |-> <<>>, re |-> "", hs |-> <<>>, vs |-> <<>>, qs |-> <<>>, ds |-> ds]
Tk(t, n, v, pa) == [t |-> t, n |-> n, v |-> v, pa |-> pa]
Op(t) == Tk(t, "", "", <<>>)
PA  == <<"/", "a">>
PAm == <<"/", "A">>
PAB == <<"/", "a", "/", "b">>
Pab == <<"/", "a", "b">>
PB  == <<"/", "b">>
PR  == <<"/">>
M == "x-mosn-method"
Q == "x-mosn-querystring"

RulesQuick ==
  { R("path", PA, "", <<>>, <<>>),
    R("path", PAm, "", <<H("h1", "v1", FALSE)>>, <<>>),
    R("prefix", PA, "", <<>>, <<>>),
    R("prefix", PR, "", <<H("h1", "^v", TRUE), H("h2", "v1", FALSE)>>, <<>>),
    R("prefix", PR, "", <<H("method", "GET", FALSE)>>, <<>>),
    R("prefix", PR, "", <<>>, <<>>),
    R("regex", <<>>, "/a/.+", <<>>, <<>>),
    R("regex", <<>>, "^/[ab]$", <<H("h1", "v1", TRUE)>>, <<>>),
    R("regex", <<>>, "b$", <<>>, <<>>),
    R("regex", <<>>, "a/b", <<H("h1", "1$", TRUE)>>, <<>>),
    R("regex", <<>>, "(a|b)/a", <<>>, <<>>),
    R("rpc", <<>>, "", <<H("service", "s1", FALSE)>>, <<>>),
    R("rpc", <<>>, "", <<H("service", ".*", FALSE)>>, <<>>),
    R("rpc", <<>>, "", <<H("h1", "v1", FALSE), H("service", "^s.*", TRUE)>>, <<>>),
    R("rpc", <<>>, "", <<H("service", "s.*", TRUE)>>, <<>>),
    R("var", <<>>, "", <<>>, <<V(M, "GET", "", "and"), V(Q, "q=1", "", "and")>>),
    R("var", <<>>, "", <<>>, <<V(M, "POST", "", "or"), V(Q, "", "q=1", "and"), V(M, "GET", "", "and")>>),
    R("rpc", <<>>, "", <<H("h1", "v1", FALSE)>>, <<>>),
    RQ("prefix", PR, "", <<>>, <<H("q", "1", FALSE)>>),
    RQ("path", PA, "", <<H("h1", "v1", FALSE)>>, <<H("q", ".*", TRUE), H("r", "^2$", TRUE)>>),
    RD(<< <<Op("and"), Tk("meq", "", "GET", <<>>), Tk("ppre", "", "", PA)>> >>),
    RD(<< <<Op("or"), Tk("meq", "", "POST", <<>>), Tk("heq", "h1", "v1", <<>>)>> >>),
    RD(<< <<Op("not"), Tk("heq", "h1", "v1", <<>>)>>, <<Tk("hdef", "h2", "v1", <<>>)>> >>) }
RulesThorough == RulesQuick \cup
  { R("path", PAB, "", <<H("method", "POST", FALSE)>>, <<>>),
    R("prefix", PAB, "", <<>>, <<>>),
    R("regex", <<>>, "[ab]b$", <<>>, <<>>),
    R("regex", <<>>, "b*", <<H("service", "[sx]", TRUE)>>, <<>>),
    R("regex", <<>>, "^$", <<>>, <<>>),
    R("rpc", <<>>, "", <<H("service", "[sx]", TRUE), H("h1", "1$", TRUE)>>, <<>>),
    R("regex", <<>>, "^/a", <<H("h2", "v1", FALSE)>>, <<>>),
    R("regex", <<>>, ".*", <<>>, <<>>),
    R("rpc", <<>>, "", <<>>, <<>>),
    R("rpc", <<>>, "", <<H("h2", "v1", TRUE), H("h1", "v2", FALSE)>>, <<>>),
    R("var", <<>>, "", <<>>, <<V(M, "", "^(GET|PUT)$", "and"), V(Q, "q=1", "", "or"), V(Q, "q=1&r=2", "", "and")>>),
    R("var", <<>>, "", <<>>, <<V(Q, "", "", "or"), V(M, "POST", "", "and")>>),
    RQ("regex", <<>>, "^/a", <<>>, <<H("r", "2", FALSE)>>),
    RD(<< <<Op("and"), Op("not"), Tk("meq", "", "GET", <<>>), Op("or"), Tk("peq", "", "", PB), Tk("qeq", "q", "1", <<>>)>> >>),
    RD(<< <<Tk("qeq", "r", "2", <<>>)>>, <<Op("or"), Tk("heq", "h2", "v1", <<>>), Tk("heq", "h1", "v2", <<>>)>> >>) }

Hd(a, b, c) == [h1 |-> a, h2 |-> b, service |-> c]
Rq(path, method, query, hd) == [path |-> path, method |-> method, query |-> query, hd |-> hd]
PathsQ == { PA, PAm, PAB, Pab, PB, PR, <<"/", "b", "/", "a">>, <<"/", "b", "/", "a", "/", "b">> }
ReqsRQuick ==
  { Rq(p, m, "", Hd(a, Absent, Absent)) : p \in PathsQ, m \in {"GET", "POST"}, a \in {Absent, "v1", "v2", "xv1"} }
  \cup { Rq(p, "GET", q, Hd(a, b, c)) : p \in {PA, PB}, q \in {"", "q=1"}, a \in {Absent, "v1"}, b \in {Absent, "v1"},
                                          c \in {Absent, "s1", "s2"} }
  \cup { Rq(<<>>, m, q, Hd(a, Absent, c)) : m \in {"GET", "POST"}, q \in {"", "q=1"}, a \in {Absent, "v1"}, c \in {Absent, "s1", "GETs"} }
  \cup { Rq(p, "GET", q, Hd(a, Absent, Absent)) : p \in {PA, PB}, q \in {"r=2", "q=1&r=2"}, a \in {Absent, "v1"} }
ReqsRThorough == ReqsRQuick \cup
  { Rq(p, m, q, Hd(a, b, c)) : p \in {PAB, PAm}, m \in {"GET", "POST", "PUT"}, q \in {"", "q=1", "q=1&r=2", "r=2"},
                               a \in {Absent, "v2"}, b \in {Absent, "v1", "v2"}, c \in {Absent, "s2"} }
====
