CONSTANTS
  Clusters = {"a", "b", "c"}
  Weights = {0, 1, 2, 3, 5}
  Defects = {}
SPECIFICATION Spec
INVARIANTS ScanIsSelect ZeroNever AlwaysSome CountsExact EmitCase
CHECK_DEADLOCK FALSE
