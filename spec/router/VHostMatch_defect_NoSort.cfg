CONSTANTS
  Doms <- DomsQuick
  Reqs <- ReqsQuick
  MaxDoms = 2
  Defects = {"NoSort"}
SPECIFICATION Spec
INVARIANTS LookupIsSelect
CHECK_DEADLOCK FALSE
