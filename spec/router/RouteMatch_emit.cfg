CONSTANTS
  Rules <- RulesQuick
  ReqsR <- ReqsRQuick
  MaxRules = 3
  Defects = {}
SPECIFICATION EmitSpec
INVARIANTS EmitCase
CHECK_DEADLOCK FALSE
