CONSTANTS
  Rules <- RulesQuick
  ReqsR <- ReqsRQuick
  MaxRules = 2
  Defects = {"LastIndexedWins"}
SPECIFICATION Spec
INVARIANTS KvIsFirstIndexed
CHECK_DEADLOCK FALSE
