CONSTANTS
  MaxLen = 3
  NumRetries = {0, 2, 5}
  Defects = {}
SPECIFICATION Spec
INVARIANTS WithinGlobalTimeout ActionsAppliedOnce AttemptsBounded FreshHost RetryMade ReplyIsLast BudgetSpentOnAttempts EmitCase
PROPERTY RetryOnlyIfConfigured
CHECK_DEADLOCK FALSE
