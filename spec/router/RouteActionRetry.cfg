CONSTANTS
  MaxLen = 3
  NumRetries = {0, 2, 5}
  Defects = {}
SPECIFICATION Spec
INVARIANTS ActionsAppliedOnce AttemptsBounded FreshHost RetryMade ReplyIsLast EmitCase
PROPERTY RetryOnlyIfConfigured
CHECK_DEADLOCK FALSE
