---- MODULE Edf ----
(* Earliest-deadline-first weighted round robin (pkg/upstream/cluster/edf.go, edfheap.go,
   EdfLoadBalancer in loadbalancer.go), property C06 part 2.
   Deadlines are kept exact: the entry of host i that has been served k[i] times has deadline
   (k[i]+1)/W[i]; comparisons are done by cross-multiplication.  The implementation breaks ties by
   insertion order (queuedTime) and computes in float64; the specification leaves ties open, so any
   tie-break (and any float rounding that only reorders exact ties) is a behaviour of it. *)
EXTENDS Integers, Sequences, FiniteSets, TLC, Json

CONSTANTS N,          \* number of hosts; Hosts == 1..N
          WeightSet,  \* admissible CONFIGURED weights; the effective weight is clamped to 1..128
          MaxPicks,   \* bound on the number of picks explored
          Defects     \* {} or {"DeadlinePlusWeight"}: deadline += weight instead of 1/weight

Hosts == 1..N

VARIABLES cw,      \* [Hosts -> WeightSet] configured weights, chosen in Init
          k,       \* picks served per host
          past     \* set of earlier k-vectors = window starts (a set, not a sequence: different
                   \* pick orders with equal counts merge, windows only need the counts)
vars == <<cw, k, past>>

Clamp(x) == IF x <= 1 THEN 1 ELSE IF x >= 128 THEN 128 ELSE x
W == [h \in Hosts |-> Clamp(cw[h])]      \* effective weights (fixHostWeight)

Earlier(i, j) == \* deadline(i) <= deadline(j)
  IF "DeadlinePlusWeight" \in Defects
  THEN (k[i] + 1) * W[i] <= (k[j] + 1) * W[j]
  ELSE (k[i] + 1) * W[j] <= (k[j] + 1) * W[i]

ArgMin == { i \in Hosts : \A j \in Hosts : Earlier(i, j) }

Total == LET RECURSIVE S(_) S(T) == IF T = {} THEN 0 ELSE LET x == CHOOSE y \in T : TRUE IN k[x] + S(T \ {x}) IN S(Hosts)

Init == /\ cw \in [Hosts -> WeightSet]
        /\ \A i, j \in Hosts : i < j => cw[i] <= cw[j]    \* host names are interchangeable: weights sorted WLOG
        /\ k = [h \in Hosts |-> 0]
        /\ past = {}

Pick(i) == /\ i \in ArgMin
           /\ Total < MaxPicks
           /\ past' = past \cup {k}
           /\ k' = [k EXCEPT ![i] = @ + 1]
           /\ UNCHANGED cw

Next == \E i \in Hosts : Pick(i)
Spec == Init /\ [][Next]_vars

Abs(x) == IF x < 0 THEN -x ELSE x

(* C06: in any window of consecutive picks |n_i/w_i - n_j/w_j| <= 1/w_i + 1/w_j *)
LagOK(from, to, i, j) == Abs((to[i] - from[i]) * W[j] - (to[j] - from[j]) * W[i]) <= W[i] + W[j]
LagBound == \A p \in past : \A i, j \in Hosts : LagOK(p, k, i, j)

(* proportional service: after a whole number of rounds every host was served exactly its share *)
SumW == LET RECURSIVE S(_) S(T) == IF T = {} THEN 0 ELSE LET x == CHOOSE y \in T : TRUE IN W[x] + S(T \ {x}) IN S(Hosts)
RoundExact == (Total > 0 /\ Total % SumW = 0) => \A i \in Hosts : k[i] = W[i] * (Total \div SumW)

(* one CASE line per configured weight vector, consumed by the Go driver *)
EmitCase == (Total = 0) => PrintT(<<"CASE", ToJson([cw |-> [i \in Hosts |-> cw[i]]])>>)
====
