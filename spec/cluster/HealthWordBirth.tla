---- MODULE HealthWordBirth ----
(* HOW the flag word of an address comes into being (pkg/upstream/cluster/health.go GetHealthFlagPointer, called by
   NewSimpleHost for every host object), first clause of C16 at the moment of creation: host objects of one address
   share ONE word also when they are created at the same time (the same endpoint added to two clusters at once, a
   cluster update racing the DNS refresh, ...). A condition set through any of the objects is then reported by all.
   One action per access to the shared store: the intended design looks the word up and inserts it in ONE atomic step
   (sync.Map.LoadOrStore); the named way to go wrong, "LoadThenStore", looks up, allocates on a miss and stores. *)
EXTENDS Integers, FiniteSets, TLC

CONSTANTS Creators,   \* goroutines that each build a host object of the same, never seen address
          Flags,      \* conditions
          Defects     \* {} | {"LoadThenStore"}

NoWord == 0
VARIABLES store,   \* word registered for the address (NoWord = none yet); words are named by their creator
          pc,      \* creator -> "start" | "missed" (looked up, found nothing) | "done"
          got,     \* creator -> word its host object holds
          bits,    \* word -> conditions set in it
          setvia   \* creators through whose object a condition has been set (one operation each)
vars == <<store, pc, got, bits, setvia>>

Init == /\ store = NoWord /\ pc = [c \in Creators |-> "start"] /\ got = [c \in Creators |-> NoWord]
        /\ bits = [w \in Creators |-> {}] /\ setvia = {}

(* LoadOrStore: one step *)
Atomic(c) == /\ "LoadThenStore" \notin Defects /\ pc[c] = "start"
             /\ store' = IF store = NoWord THEN c ELSE store
             /\ got' = [got EXCEPT ![c] = store'] /\ pc' = [pc EXCEPT ![c] = "done"]
             /\ UNCHANGED <<bits, setvia>>
(* Load; on a miss: new word, Store *)
Load(c) == /\ "LoadThenStore" \in Defects /\ pc[c] = "start"
           /\ IF store = NoWord THEN pc' = [pc EXCEPT ![c] = "missed"] /\ got' = got
                                ELSE pc' = [pc EXCEPT ![c] = "done"] /\ got' = [got EXCEPT ![c] = store]
           /\ UNCHANGED <<store, bits, setvia>>
Store(c) == /\ pc[c] = "missed" /\ store' = c /\ got' = [got EXCEPT ![c] = c] /\ pc' = [pc EXCEPT ![c] = "done"]
            /\ UNCHANGED <<bits, setvia>>
(* later: a condition is set through one of the finished objects *)
SetVia(c, f) == /\ \A d \in Creators : pc[d] = "done"
                /\ c \notin setvia /\ setvia' = setvia \cup {c}
                /\ bits' = [bits EXCEPT ![got[c]] = @ \cup {f}]
                /\ UNCHANGED <<store, pc, got>>
Next == \E c \in Creators : Atomic(c) \/ Load(c) \/ Store(c) \/ \E f \in Flags : SetVia(c, f)
Spec == Init /\ [][Next]_vars

AllDone == \A c \in Creators : pc[c] = "done"
(* ---- the property at creation ---- *)
OneWordPerAddress == AllDone => \A c, d \in Creators : got[c] = got[d] /\ got[c] = store
SeenByAll == AllDone => \A c, d \in Creators : bits[got[c]] = bits[got[d]]
====
