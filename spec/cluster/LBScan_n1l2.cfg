CONSTANTS
  N = 1
  Lookups = {1, 2}
  Defects = {}
SPECIFICATION SpecCases
INVARIANTS MemberOnly HealthyIfAny Bounded EmitCase
CHECK_DEADLOCK FALSE
