---- MODULE HealthFlags ----
(* Health flag word of one upstream address (pkg/upstream/cluster/health.go, host.go), first clause of C16.
   All host objects of an address share ONE word (healthStore[addr]); every condition (active health
   check, outlier ejection, ...) owns one bit and is written by its own goroutine through
   SetHealthFlag / ClearHealthFlag = read-modify-write of the shared word.  Health() <=> word = {}.

   Written in the shape of the code: one action per memory access of an operation.
     Load(t)   f := atomic.LoadUint64(p)                       (then the verif gate "health.rmw")
     Store(t)  intended design : CompareAndSwap(p, f, f op bit), retry from Load when it fails
               "LoadStore"     : atomic.StoreUint64(p, f op bit)            (named way to go wrong)
   Thread t owns flag FlagSeq[t] and runs the program prog[t] (sequence of "set"/"clear").
   sched records the interleaving: it is what the harness forces on the real code (binding B3). *)
EXTENDS Integers, Sequences, FiniteSets, TLC, Json

CONSTANTS NThreads,   \* concurrent writers, each on its own condition
          MaxOps,     \* operations per writer: 1..MaxOps
          MaxTotal,   \* bound on the total number of operations
          WithX,      \* TRUE: the word also holds a condition "X" that nobody writes
          Defects     \* {} | {"LoadStore"}

FlagSeq == <<"A", "B", "C">>
Threads == 1..NThreads
Flags == { FlagSeq[t] : t \in Threads } \cup (IF WithX THEN {"X"} ELSE {})
Kinds == {"set", "clear"}

Apply(w, kind, f) == IF kind = "set" THEN w \cup {f} ELSE w \ {f}
Healthy(w) == w = {}

VARIABLES word,    \* the shared flag word, as the set of conditions that are set
          init,    \* its initial value
          prog,    \* thread -> sequence of kinds
          pos,     \* thread -> index of the operation in progress / next (Len+1 = finished)
          pc,      \* thread -> "idle" | "loaded"
          tmp,     \* thread -> value read by Load
          sched    \* sequence of thread ids: the interleaving so far
vars == <<word, init, prog, pos, pc, tmp, sched>>

Progs == UNION { [1..n -> Kinds] : n \in 1..MaxOps }
Total(p) == LET RECURSIVE Sum(_)
                Sum(t) == IF t = 0 THEN 0 ELSE Len(p[t]) + Sum(t - 1)
            IN Sum(NThreads)

Init == /\ init \in SUBSET Flags /\ word = init
        /\ prog \in { p \in [Threads -> Progs] : Total(p) <= MaxTotal }
        /\ pos = [t \in Threads |-> 1] /\ pc = [t \in Threads |-> "idle"]
        /\ tmp = [t \in Threads |-> {}] /\ sched = <<>>

Load(t) == /\ pc[t] = "idle" /\ pos[t] <= Len(prog[t])
           /\ tmp' = [tmp EXCEPT ![t] = word] /\ pc' = [pc EXCEPT ![t] = "loaded"]
           /\ sched' = Append(sched, t)
           /\ UNCHANGED <<word, init, prog, pos>>

Store(t) == /\ pc[t] = "loaded"
            /\ sched' = Append(sched, t)
            /\ pc' = [pc EXCEPT ![t] = "idle"]
            /\ IF "LoadStore" \in Defects \/ word = tmp[t]
               THEN /\ word' = Apply(tmp[t], prog[t][pos[t]], FlagSeq[t])
                    /\ pos' = [pos EXCEPT ![t] = @ + 1]
               ELSE UNCHANGED <<word, pos>>          \* CAS failed: retry from Load
            /\ UNCHANGED <<init, prog, tmp>>

Next == \E t \in Threads : Load(t) \/ Store(t)
Spec == Init /\ [][Next]_vars

Done == \A t \in Threads : pos[t] > Len(prog[t])

(* ---- the property ---- *)
(* value of thread t's own condition after it completed k operations *)
BitAfter(t, k) == IF k = 0 THEN FlagSeq[t] \in init ELSE prog[t][k] = "set"

(* Conditions are independent: at every moment each condition has the value its own writer last gave it
   (an operation in progress may or may not have taken effect yet); a condition nobody writes keeps its
   initial value.  Nothing is lost, nothing is invented. *)
Independent == /\ \A t \in Threads :
                    \/ (FlagSeq[t] \in word) = BitAfter(t, pos[t] - 1)
                    \/ pos[t] <= Len(prog[t]) /\ (FlagSeq[t] \in word) = BitAfter(t, pos[t])
               /\ ("X" \in word) = ("X" \in init)
Final == Done => /\ \A t \in Threads : (FlagSeq[t] \in word) = BitAfter(t, Len(prog[t]))
                 /\ Healthy(word) = (("X" \notin init) /\ \A t \in Threads : prog[t][Len(prog[t])] = "clear")

(* ---- case emission: one CASE per complete interleaving ---- *)
SetToSeq(S) == LET RECURSIVE F(_)
                   F(T) == IF T = {} THEN <<>> ELSE LET x == CHOOSE y \in T : TRUE IN <<x>> \o F(T \ {x})
               IN F(S)
EmitCases == Done => PrintT(<<"CASE", ToJson([init |-> SetToSeq(init), progs |-> prog, sched |-> sched,
                                                 flags |-> [t \in Threads |-> FlagSeq[t]]])>>)
====
