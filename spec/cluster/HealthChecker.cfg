CONSTANTS
  Thresholds = {0, 1, 2, 3}
  Results = {"ok", "fail", "timeout"}
  MaxLen = 7
  Defects = {}
SPECIFICATION Spec
INVARIANT ExactOnHistory
CHECK_DEADLOCK FALSE
