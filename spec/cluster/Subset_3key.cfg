CONSTANTS
  KeySeq <- K_abc
  CKeySeq <- K_abcx
  HVals = {"1", "2"}
  CVals = {"1", "2", ""}
  DVals = {"1"}
  UVals = {"1"}
  MaxHosts = 2
  MaxSel = 2
  Defects = {}
SPECIFICATION SpecNoHealth
INVARIANTS BuildersTotal BuildersExact SameSubsets OnlyMatching FallbackExact
CHECK_DEADLOCK FALSE
