---- MODULE LBChoiceTrace ----
(* Trace validation of real clusters against LBChoice (C05).
   Events (driver):
     new{policy}           fresh cluster with this policy, every host healthy (TraceReset)
     sethosts{m,hl}        UpdateHosts with members m, of which hl are healthy at that moment
     flip{h,now}           a health flag of h was set/cleared; now = Health() afterwards
     choose{rs,n}          n calls of snapshot.LoadBalancer().ChooseHost(); rs = set of distinct answers *)
EXTENDS LBChoice, VTrace

tvars == <<vars, l>>
S(seq) == { seq[i] : i \in DOMAIN seq }

TraceInit == l = 1 /\ Init

TNew == /\ IsEvent("new")
        /\ members' = {} /\ healthy' = Hosts /\ last' = None /\ hist' = <<>>

TSet == /\ IsEvent("sethosts")
        /\ S(Ev.hl) \subseteq S(Ev.m) /\ S(Ev.m) \subseteq Hosts
        /\ members' = S(Ev.m)
        /\ healthy' = (healthy \ S(Ev.m)) \cup S(Ev.hl)
        /\ UNCHANGED <<last, hist>>

TFlip == /\ IsEvent("flip")
         /\ healthy' = IF Ev.h \in healthy THEN healthy \ {Ev.h} ELSE healthy \cup {Ev.h}
         /\ Expect(Ev.now = (Ev.h \in healthy'), "health-readback")
         /\ last' = None
         /\ UNCHANGED <<members, hist>>

TChoose == /\ IsEvent("choose")
           /\ LET rs == S(Ev.rs) IN
                /\ Expect(\A r \in rs : r = None \/ r \in members, "non-member")
                /\ Expect(members \cap healthy # {} => \A r \in rs : r = None \/ r \notin members \/ r \in healthy, "unhealthy-while-healthy-exists")
                /\ Expect(members \cap healthy # {} => None \notin rs, "none-while-healthy-exists")
           /\ UNCHANGED vars

TraceNext == TNew \/ TSet \/ TFlip \/ TChoose
TraceSpec == TraceInit /\ [][TraceNext]_tvars
====
