CONSTANTS
  KeySeq <- K_ab
  CKeySeq <- K_abx
  HVals = {"1", "2"}
  CVals = {"1", "2", ""}
  DVals = {"1", "2"}
  UVals = {"1"}
  PrefixLen = 0
  MaxHosts = 3
  MaxSel = 2
  Defects = {}
SPECIFICATION SpecNoHealth
INVARIANTS BuildersTotal BuildersExact SameSubsets OnlyMatching FallbackExact
CHECK_DEADLOCK FALSE
