CONSTANTS
  Thresholds = {0, 1, 2, 3}
  Results = {"ok", "fail", "timeout"}
  MaxLen = 7
  WithB = TRUE
  Defects = {}
SPECIFICATION Spec
INVARIANT EmitCases
CHECK_DEADLOCK FALSE
