CONSTANTS
  N = 2
  Lookups = {1, 2, 3}
  Defects = {"NoWrap"}
SPECIFICATION SpecCases
INVARIANTS MemberOnly HealthyIfAny Bounded 
CHECK_DEADLOCK FALSE
