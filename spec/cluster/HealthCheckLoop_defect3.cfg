CONSTANTS
  N = 3
  Defects = {"IdTakenByCheck"}
SPECIFICATION Spec
INVARIANTS OneResultPerCheck NoCheckLost CountedRight
CHECK_DEADLOCK FALSE
