CONSTANTS
  Versions <- VersionsDef
  Lookups = {l1, l2}
  Defects = {"SeparateStores"}
SPECIFICATION Spec
INVARIANT OneVersion
CHECK_DEADLOCK FALSE
