CONSTANTS
  KeySeq <- K_abc
  CKeySeq <- K_abcx
  HVals = {}
  DVals = {}
  CVals = {}
  UVals = {}
  PrefixLen = 0
  MaxHosts = 0
  MaxSel = 0
  Defects = {}
SPECIFICATION TraceSpec
POSTCONDITION Accepted
CHECK_DEADLOCK FALSE
