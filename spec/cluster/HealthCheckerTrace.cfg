CONSTANTS
  Thresholds = {0}
  Results = {"ok"}
  MaxLen = 0
  WithB = TRUE
  Defects = {}
SPECIFICATION TraceSpec
POSTCONDITION Accepted
CHECK_DEADLOCK FALSE
