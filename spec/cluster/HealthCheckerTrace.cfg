CONSTANTS
  Thresholds = {0}
  Results = {"ok"}
  MaxLen = 0
  Defects = {}
SPECIFICATION TraceSpec
POSTCONDITION Accepted
CHECK_DEADLOCK FALSE
