CONSTANTS
  Statics = {{}, {"a1"}}
  Mgrs = {{}, {"a2"}}
  D1s = {{"a1", "a2"}, {"a1", "a2", "a3"}}
  D2s = {{}, {"a2", "a3"}}
  WithChecker = FALSE
  UT = 1
  HT = 1
  DirectFlags = {"A", "B"}
  MaxOps = 2
  Defects = {}
SPECIFICATION Spec
INVARIANT EmitCases
CHECK_DEADLOCK FALSE
