---- MODULE SubsetTrace ----
(* Trace validation of the real subset load balancers against Subset (C15).
   Events (driver; hosts are named by their 1-based position in `hosts`, 0 = nil):
     lb{b,hosts,sel,pol,dflt,lbt}  a balancer was built by builder b ("filter" = NewSubsetLoadBalancer,
                                   "preindex" = NewSubsetLoadBalancerPreIndex) through simpleCluster.UpdateHosts
                                   for this configuration; every host healthy (acts as TraceReset);
                                   field panic present iff the construction panicked (no queries follow)
     health{hl}                    health flags set so that exactly the hosts hl are healthy
     q{k,c,n,ex,rs}                k = "map": criteria map c given through router.NewMetadataMatchCriteriaImpl;
                                   k = "nil" / "tnil": no criteria (nil interface / typed nil pointer);
                                   n = HostNum, ex = IsExistsHosts, rs = distinct answers of the ChooseHost calls
                                   (-1 = a host that is not in the cluster); panic instead of n/ex/rs if a call panicked *)
EXTENDS Subset, VTrace

tvars == <<vars, l>>
S(seq) == { seq[i] : i \in DOMAIN seq }

TraceInit == /\ l = 1 /\ hosts = <<>> /\ sels = {} /\ pol = "none" /\ dflt = EmptyMap /\ healthy = {}
             /\ phase = "cfg" /\ trieF = <<>> /\ trieP = <<>>

TLb == /\ IsEvent("lb")
       /\ Ev.pol \in {"none", "any", "default"}
       /\ Expect(~Has(Ev, "panic"), "build-panics")          \* the builders are total (BuildersTotal)
       /\ hosts' = Ev.hosts
       /\ sels' = { S(Ev.sel[i]) : i \in DOMAIN Ev.sel }
       /\ pol' = Ev.pol
       /\ dflt' = Ev.dflt
       /\ healthy' = DOMAIN Ev.hosts
       /\ phase' = "built"
       /\ UNCHANGED <<trieF, trieP>>

THealth == /\ IsEvent("health")
           /\ S(Ev.hl) \subseteq All
           /\ healthy' = S(Ev.hl)
           /\ UNCHANGED <<hosts, sels, pol, dflt, phase, trieF, trieP>>

QMap(c, rs) ==
  LET prim == Primary(c)
      cand == Candidates(c)
      fb   == Fallback
  IN /\ Expect(Ev.n = Cardinality(cand), "hostnum")
     /\ Expect(Ev.ex = (cand # {}), "exists")
     /\ IF prim \cap healthy # {}
          THEN /\ Expect(\A r \in rs : r = None \/ r \in prim, "subset:host-lacks-criteria")
               /\ Expect(None \notin rs, "subset:no-host")
               /\ Expect(\A r \in rs : r \in prim => r \in healthy, "subset:unhealthy-host")
        ELSE IF prim # {}
          THEN Expect(\A r \in rs : r = None \/ r \in prim, "subset-all-unhealthy:host-lacks-criteria")
        ELSE   /\ Expect(\A r \in rs : r = None \/ r \in fb, "fallback-" \o pol \o ":host-outside-fallback")
               /\ Expect(fb \cap healthy # {} => None \notin rs, "fallback-" \o pol \o ":no-host")
               /\ Expect(fb \cap healthy # {} => \A r \in rs : r \in fb => r \in healthy, "fallback-" \o pol \o ":unhealthy-host")

QNil(rs) == /\ Expect(Ev.n = Cardinality(All), "hostnum")
            /\ Expect(Ev.ex = (All # {}), "exists")
            /\ Expect(rs \subseteq AllowedChooseNil, "all-hosts:choose")

TQuery == /\ IsEvent("q")
          /\ phase = "built"
          /\ Ev.k \in {"map", "nil", "tnil"}
          /\ IF Has(Ev, "panic") THEN Expect(FALSE, "query-panics")
             ELSE /\ Expect(S(Ev.rs) \subseteq All \cup {None}, "host-outside-cluster")
                  /\ IF Ev.k = "map" THEN QMap(Ev.c, S(Ev.rs)) ELSE QNil(S(Ev.rs))
          /\ UNCHANGED vars

(* rq: one request of a route.  rm = the route's metadata_match, q = the request's own metadata (optional maps as JSON
   arrays: [] absent, [m] present); crit (when the driver could read it) = the criteria the balancer received;
   n / ex / rs as in q (an end-to-end request through MOSN has only rs: the host that answered, 0 = answered by the proxy
   itself because no host was chosen).  The expectation is a pure function of (rm, q): what earlier requests of the
   route carried does not matter. *)
RqAnswers(want, rs) ==
  LET cand == CandidatesOf(want) IN
     /\ (Has(Ev, "n")  => Expect(Ev.n = Cardinality(cand), "request-criteria:hostnum"))
     /\ (Has(Ev, "ex") => Expect(Ev.ex = (cand # {}), "request-criteria:exists"))
     /\ Expect(\A r \in rs : r = None \/ r \in cand, "request-criteria:host-outside-candidates")
     /\ Expect(cand \cap healthy # {} => None \notin rs, "request-criteria:no-host")
     /\ Expect(cand = {} => rs \subseteq {None}, "request-criteria:host-though-no-candidate")

TRq == /\ IsEvent("rq")
       /\ phase = "built"
       /\ IF Has(Ev, "panic") THEN Expect(FALSE, "request-panics")
          ELSE LET want == ReqCriteria(Ev.rm, Ev.q) IN
               /\ (Has(Ev, "crit") => Expect(Ev.crit = want, "request-criteria:criteria-differ-from-route-and-request"))
               /\ RqAnswers(want, S(Ev.rs))
       /\ UNCHANGED vars

TraceNext == TLb \/ THealth \/ TQuery \/ TRq
TraceSpec == TraceInit /\ [][TraceNext]_tvars
====
