CONSTANTS
  NThreads = 3
  MaxOps = 1
  MaxTotal = 3
  WithX = FALSE
  Defects = {"LoadStore"}
SPECIFICATION Spec
INVARIANT EmitCases
CHECK_DEADLOCK FALSE
