---- MODULE BreakerTrace ----
(* Trace validation of real resource/gauge accounting against the Breaker contract (C10).
   The truth is what the scripted upstream and the driver see; the books are read from the real
   ResourceManager and the stats registries at stable points.  Events (driver):
     run{cluster,maxreq,maxretry}     new phase on a cluster with these thresholds (TraceReset)
     arrive{tok,retry} / depart{tok}  a request is being held / was answered by the scripted upstream; retry = it is held
                                      on a retry attempt (it then also holds one unit of the retries resource)
     retrytrip{k,admitted}            a request needed a retry while k retries were in flight: retried, or the
                                      upstream's own failure was passed on because max_retries was reached
     trip{k,admitted}                 a request was sent while k requests were held upstream: admitted or refused (503)
     update{kind,to,maxreq,maxretry}  a cluster of the same name, type and addresses was published through the cluster manager
                                      (Breaker!Update; kind primary = AddOrUpdatePrimaryCluster, andhosts = AddOrUpdateClusterAndHost)
                                      with these thresholds, while the requests that have arrived and not departed are in flight
     sample{stable,inflight,requests,pending,retries,connections,up_req_active,ds_active,up_conn_active,conns_truth,
            max_requests,max_retries}
                                      books and thresholds read from the cluster the cluster manager exposes NOW, while `inflight`
                                      requests are held and nothing else moves
     --- TCP proxy part (pkg/filter/network/streamproxy) ---
     trun{maxconn}                    new TCP-proxy history; clusters ok / ref / bh (echo host, refusing host, black-holed host)
     topen{id,cluster,established,k}  a downstream connection was opened towards `cluster` while k upstream connections of
                                      that cluster were established: it got an upstream connection or was closed by the proxy
     tclose{id}                       an established pair was closed (by the client or by the upstream) and the proxy has
                                      closed the other side
     tupdate{kind,to,maxconn}         every cluster of the history was published again with this max_connections
     tsample{cluster,truth,connections,up_conn_active,max_connections}   books of one cluster (as exposed now) next to the
                                      echo host's open-connection count *)
EXTENDS Integers, FiniteSets, TLC, VTrace

VARIABLES maxreq, maxretry, infl, rinfl, maxconn, topenS
vars == <<maxreq, maxretry, infl, rinfl, maxconn, topenS>>
tvars == <<vars, l>>

CanCreate(cur, max) == max = 0 \/ cur < 0 \/ cur < max      \* as Breaker!CanCreate
(* The books of a resource equal the outstanding admissions whether or not it has a threshold (a cluster update may
   switch the threshold on or off while admissions are outstanding; max = 0 only means that nothing is refused). *)
CountedOK(max, cur, n) == cur = n

TraceInit == l = 1 /\ maxreq = 0 /\ maxretry = 0 /\ infl = {} /\ rinfl = {} /\ maxconn = 0 /\ topenS = {}
TRun == IsEvent("run") /\ maxreq' = Ev.maxreq /\ maxretry' = Ev.maxretry /\ infl' = {} /\ rinfl' = {} /\ UNCHANGED <<maxconn, topenS>>
TTRun == IsEvent("trun") /\ maxconn' = Ev.maxconn /\ topenS' = {} /\ UNCHANGED <<maxreq, maxretry, infl, rinfl>>
TTOpen == /\ IsEvent("topen")
          /\ Expect(Ev.k = Cardinality({ x \in topenS : x[2] = Ev.cluster }), "driver-truth")
          /\ Expect(Ev.cluster # "ok" \/ (Ev.established <=> CanCreate(Ev.k, maxconn)),
                    IF Ev.established THEN "tcp-admitted-above-max-connections" ELSE "tcp-refused-below-max-connections")
          /\ Expect(Ev.cluster = "ok" \/ ~Ev.established, "driver-truth")
          /\ topenS' = IF Ev.established THEN topenS \cup {<<Ev.id, Ev.cluster>>} ELSE topenS
          /\ UNCHANGED <<maxreq, maxretry, infl, rinfl, maxconn>>
TTUpdate == IsEvent("tupdate") /\ maxconn' = Ev.maxconn /\ UNCHANGED <<maxreq, maxretry, infl, rinfl, topenS>>
TTClose == /\ IsEvent("tclose") /\ topenS' = { x \in topenS : x[1] # Ev.id }
           /\ UNCHANGED <<maxreq, maxretry, infl, rinfl, maxconn>>
TTSample == /\ IsEvent("tsample")
            /\ LET n == Cardinality({ x \in topenS : x[2] = Ev.cluster }) IN
                 /\ Expect(Ev.truth = n, "driver-truth")
                 /\ Expect(CountedOK(maxconn, Ev.connections, n), IF Ev.connections < 0 THEN "tcp-connections-negative" ELSE "tcp-connections-not-conserved")
                 /\ Expect(Ev.max_connections = maxconn, "tcp-threshold-not-in-force")
                 /\ Expect(Ev.up_conn_active = n, IF Ev.up_conn_active < 0 THEN "tcp-upstream-connection-active-negative" ELSE "tcp-upstream-connection-active-gauge")
            /\ UNCHANGED vars
TArrive == /\ IsEvent("arrive") /\ infl' = infl \cup {Ev.tok}
           /\ rinfl' = IF Ev.retry THEN rinfl \cup {Ev.tok} ELSE rinfl
           /\ UNCHANGED <<maxreq, maxretry, maxconn, topenS>>
TUpdate == IsEvent("update") /\ maxreq' = Ev.maxreq /\ maxretry' = Ev.maxretry /\ UNCHANGED <<infl, rinfl, maxconn, topenS>>
TDepart == IsEvent("depart") /\ infl' = infl \ {Ev.tok} /\ rinfl' = rinfl \ {Ev.tok} /\ UNCHANGED <<maxreq, maxretry, maxconn, topenS>>
TRetryTrip == /\ IsEvent("retrytrip")
              /\ Expect(Ev.k = Cardinality(rinfl), "driver-truth")
              /\ Expect(Ev.admitted <=> CanCreate(Ev.k, maxretry), IF Ev.admitted THEN "retried-above-max-retries" ELSE "retry-refused-below-max-retries")
              /\ UNCHANGED vars
TTrip == /\ IsEvent("trip")
         /\ Expect(Ev.k = Cardinality(infl), "driver-truth")
         /\ Expect(Ev.admitted <=> CanCreate(Ev.k, maxreq), IF Ev.admitted THEN "admitted-above-max-requests" ELSE "refused-below-max-requests")
         /\ UNCHANGED vars
TSample == /\ IsEvent("sample")
           /\ LET n == Cardinality(infl) IN
                /\ Expect(Ev.inflight = n, "driver-truth")
                /\ Expect(CountedOK(maxreq, Ev.requests, n), IF Ev.requests < 0 THEN "requests-negative" ELSE "requests-not-conserved")
                /\ Expect(CountedOK(maxretry, Ev.retries, Cardinality(rinfl)), IF Ev.retries < 0 THEN "retries-negative" ELSE "retries-not-conserved")
                /\ Expect(Ev.max_requests = maxreq /\ Ev.max_retries = maxretry, "threshold-not-in-force")
                /\ Expect(Ev.pending = 0, "pending-not-conserved")
                /\ Expect(Ev.connections >= 0, "connections-negative")
                /\ Expect(Ev.up_req_active = n, "upstream-request-active-gauge")
                /\ Expect(Ev.ds_active = n, "downstream-request-active-gauge")
                /\ Expect(Ev.up_conn_active = Ev.conns_truth, "upstream-connection-active-gauge")
           /\ UNCHANGED vars
TNote == IsEvent("note") /\ UNCHANGED vars
TraceNext == TTRun \/ TTOpen \/ TTUpdate \/ TUpdate \/ TTClose \/ TTSample \/ TRun \/ TArrive \/ TDepart \/ TRetryTrip \/ TTrip \/ TSample \/ TNote
TraceSpec == TraceInit /\ [][TraceNext]_tvars
====
