CONSTANTS
  Versions <- VersionsDef
  Lookups = {l1, l2}
  Defects = {}
SPECIFICATION Spec
INVARIANT OneVersion
CHECK_DEADLOCK FALSE
