---- MODULE Snapshot ----
(* Host-set replacement vs. concurrent lookups (pkg/upstream/cluster/cluster.go UpdateHosts /
   Snapshot, cluster_manager.go), the last clause of C05 and the lookup clause of C12.
   UpdateHosts builds <<hostSet, lb>> aside and publishes ONE pointer; a lookup loads the pointer
   once and then works on that immutable snapshot. *)
EXTENDS Integers, Sequences, FiniteSets, TLC

CONSTANTS Versions,   \* sequence of host sets to publish, e.g. << {"a","b"}, {"c"} >>
          Lookups,    \* set of lookup ids
          Defects     \* {} | {"SeparateStores"} (lb and host set published by two stores)
                      \*    | {"TwoLoads"} (lookup loads lb and host set separately)

None == "none"
VersionsDef == << {"a", "b"}, {"c"}, {"a"} >>   \* cfg files cannot write tuples
VARIABLES pubLb, pubHs,     \* version numbers the published lb / host set belong to (0 = initial empty)
          upc, nextV,       \* updater: pc and next version to publish
          lpc, sLb, sHs,    \* per lookup: pc, version of the lb it uses, version of the host set it reports
          res,              \* per lookup: answer
          lo, hi            \* per lookup: newest fully published version at start / newest begun at end
vars == <<pubLb, pubHs, upc, nextV, lpc, sLb, sHs, res, lo, hi>>

HS(v) == IF v = 0 THEN {} ELSE Versions[v]

Init == /\ pubLb = 0 /\ pubHs = 0 /\ upc = "idle" /\ nextV = 1
        /\ lpc = [x \in Lookups |-> "start"] /\ sLb = [x \in Lookups |-> 0] /\ sHs = [x \in Lookups |-> 0]
        /\ res = [x \in Lookups |-> None] /\ lo = [x \in Lookups |-> 0] /\ hi = [x \in Lookups |-> 0]

(* ---- updater ---- *)
UBuild == upc = "idle" /\ nextV <= Len(Versions) /\ upc' = "built"
          /\ UNCHANGED <<pubLb, pubHs, nextV, lpc, sLb, sHs, res, lo, hi>>
UPublish == /\ upc = "built"
            /\ IF "SeparateStores" \in Defects
               THEN pubLb' = nextV /\ pubHs' = pubHs /\ upc' = "half"
               ELSE pubLb' = nextV /\ pubHs' = nextV /\ upc' = "idle"
            /\ nextV' = IF "SeparateStores" \in Defects THEN nextV ELSE nextV + 1
            /\ UNCHANGED <<lpc, sLb, sHs, res, lo, hi>>
UPublish2 == /\ upc = "half" /\ pubHs' = nextV /\ upc' = "idle" /\ nextV' = nextV + 1
             /\ UNCHANGED <<pubLb, lpc, sLb, sHs, res, lo, hi>>

(* ---- lookup ---- *)
LStart(x) == /\ lpc[x] = "start"
             /\ lo' = [lo EXCEPT ![x] = pubHs]        \* newest version completely published
             /\ lpc' = [lpc EXCEPT ![x] = "load"]
             /\ UNCHANGED <<pubLb, pubHs, upc, nextV, sLb, sHs, res, hi>>
LLoad(x) == /\ lpc[x] = "load"
            /\ sLb' = [sLb EXCEPT ![x] = pubLb]
            /\ IF "TwoLoads" \in Defects
               THEN sHs' = sHs /\ lpc' = [lpc EXCEPT ![x] = "load2"]
               ELSE sHs' = [sHs EXCEPT ![x] = pubHs] /\ lpc' = [lpc EXCEPT ![x] = "choose"]
            /\ UNCHANGED <<pubLb, pubHs, upc, nextV, res, lo, hi>>
LLoad2(x) == /\ lpc[x] = "load2"
             /\ sHs' = [sHs EXCEPT ![x] = pubHs] /\ lpc' = [lpc EXCEPT ![x] = "choose"]
             /\ UNCHANGED <<pubLb, pubHs, upc, nextV, sLb, res, lo, hi>>
LChoose(x) == /\ lpc[x] = "choose"
              /\ \E r \in HS(sLb[x]) \cup {None} : (r = None <=> HS(sLb[x]) = {}) /\ res' = [res EXCEPT ![x] = r]
              /\ hi' = [hi EXCEPT ![x] = pubLb]
              /\ lpc' = [lpc EXCEPT ![x] = "done"]
              /\ UNCHANGED <<pubLb, pubHs, upc, nextV, sLb, sHs, lo>>

Next == UBuild \/ UPublish \/ UPublish2 \/ \E x \in Lookups : LStart(x) \/ LLoad(x) \/ LLoad2(x) \/ LChoose(x)
Spec == Init /\ [][Next]_vars

(* ---- properties: a finished lookup saw ONE version that was live during the lookup ---- *)
OneVersion == \A x \in Lookups : lpc[x] = "done" =>
                 \E v \in lo[x]..hi[x] : (res[x] = None \/ res[x] \in HS(v)) /\ HS(sHs[x]) = HS(v) /\ (res[x] = None => HS(v) = {})
====
