CONSTANTS
  KeySeq <- K_ab
  CKeySeq <- K_abx
  HVals = {"1", "2"}
  DVals = {"1", "2"}
  CVals = {"1", "2", ""}
  UVals = {"1"}
  PrefixLen = 0
  MaxHosts = 2
  MaxSel = 2
  Defects = {"PrefixIsSubset"}
SPECIFICATION Spec
INVARIANTS BuildersTotal BuildersExact SameSubsets
CHECK_DEADLOCK FALSE
