CONSTANTS
  Thresholds = {1, 2}
  Results = {"ok", "fail", "timeout", "late_ok", "late_fail"}
  MaxLen = 4
  Defects = {}
SPECIFICATION Spec
INVARIANT EmitCases
CHECK_DEADLOCK FALSE
