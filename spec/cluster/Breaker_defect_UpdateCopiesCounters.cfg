CONSTANTS
  Reqs = {r1, r2, r3}
  MaxReq = 2
  MaxRetry = 1
  Updates <- UpdNonZero
  MaxUpd = 1
  Defects = {"UpdateCopiesCounters"}
SPECIFICATION Spec
INVARIANTS Conserved NonNeg IdleZero TripsExact
CHECK_DEADLOCK FALSE
