CONSTANTS
  KeySeq <- K_ab
  CKeySeq <- K_abx
  HVals = {"1", "2"}
  CVals = {"1", "2", ""}
  DVals = {"1", "2"}
  UVals = {"1"}
  PrefixLen = 0
  MaxHosts = 4
  MaxSel = 2
  Defects = {}
SPECIFICATION Spec
INVARIANTS BuildersTotal BuildersExact SameSubsets OnlyMatching FallbackExact ChooseExact ChooseSound
CHECK_DEADLOCK FALSE
