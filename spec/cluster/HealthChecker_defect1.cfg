CONSTANTS
  Thresholds = {1, 2}
  Results = {"ok", "fail"}
  MaxLen = 4
  WithB = TRUE
  Defects = {"NoResetOnOpposite"}
SPECIFICATION Spec
INVARIANT ExactOnHistory
CHECK_DEADLOCK FALSE
