CONSTANTS
  Thresholds = {1, 2}
  Results = {"ok", "fail"}
  MaxLen = 4
  Defects = {"NoResetOnOpposite"}
SPECIFICATION Spec
INVARIANT ExactOnHistory
CHECK_DEADLOCK FALSE
