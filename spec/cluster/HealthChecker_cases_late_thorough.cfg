CONSTANTS
  Thresholds = {1, 2}
  Results = {"ok", "fail", "timeout", "late0_ok", "late0_fail", "late1_ok", "late1_fail", "late2_ok", "late2_fail", "late3_ok", "late3_fail"}
  MaxLen = 4
  WithB = FALSE
  Defects = {}
SPECIFICATION Spec
INVARIANT EmitCases
CHECK_DEADLOCK FALSE
