CONSTANTS
  Thresholds = {1, 2, 3}
  Results = {"ok", "fail", "timeout", "late_ok", "late_fail"}
  MaxLen = 5
  Defects = {}
SPECIFICATION Spec
INVARIANT EmitCases
CHECK_DEADLOCK FALSE
