CONSTANTS
  N = 2
  Hows = {"ok", "retryok", "retry2ok", "close", "hang", "clientgone"}
  MaxUpd = 1
  MinUpd = 1
  Kinds = {"primary", "andhosts"}
  Tos = {"same", "up", "down", "off", "on"}
INIT Init
NEXT Next
INVARIANT Emit
CHECK_DEADLOCK FALSE
