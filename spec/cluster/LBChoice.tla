---- MODULE LBChoice ----
(* What any load-balancing policy may answer (pkg/upstream/cluster/loadbalancer.go,
   lb_leastconnection.go, cluster.go), property C05.
   The policies' private state (round-robin index, EDF heap, maglev table, random source) is left
   unconstrained on purpose: the specification states the *contract* every policy must satisfy. *)
EXTENDS Integers, Sequences, FiniteSets, TLC, Json

CONSTANTS Hosts,    \* host ids
          MaxOps    \* length of the operation histories enumerated for replay

None == "none"

VARIABLES members,  \* the cluster's current host set
          healthy,  \* hosts with no health flag set (health is per host address, global)
          last,     \* last answer of Choose
          hist      \* operation history (for replay into the real cluster)
vars == <<members, healthy, last, hist>>

Allowed(m, h) == IF m \cap h # {} THEN m \cap h ELSE m \cup {None}

Init == members = {} /\ healthy = Hosts /\ last = None /\ hist = <<>>

(* publish a new host set; st[x] is the health each member has when it is published *)
SetHosts(S, H) == /\ H \subseteq S
                  /\ members' = S
                  /\ healthy' = (healthy \ S) \cup H
                  /\ last' = None
                  /\ hist' = Append(hist, [op |-> "sethosts", m |-> S, hl |-> H])

Flip(x) == /\ healthy' = IF x \in healthy THEN healthy \ {x} ELSE healthy \cup {x}
           /\ hist' = Append(hist, [op |-> "flip", h |-> x])
           /\ last' = None      \* an answer is judged against the state it was given in
           /\ UNCHANGED members

Choose == /\ \E r \in Allowed(members, healthy) : last' = r
          /\ hist' = Append(hist, [op |-> "choose"])
          /\ UNCHANGED <<members, healthy>>

Next == /\ Len(hist) < MaxOps
        /\ \/ \E S \in SUBSET Hosts : \E H \in SUBSET S : SetHosts(S, H)
           \/ \E x \in Hosts : Flip(x)
           \/ Choose
Spec == Init /\ [][Next]_vars

(* ---- C05 ---- *)
MemberOnly     == last # None => last \in members
HealthyIfAny   == (last # None /\ members \cap healthy # {}) => last \in healthy
NoneOnlyIfNone == (hist # <<>> /\ hist[Len(hist)].op = "choose" /\ last = None) => members \cap healthy = {}

EmitCase == (Len(hist) = MaxOps /\ hist[MaxOps].op = "choose") => PrintT(<<"CASE", ToJson([ops |-> hist])>>)
====
