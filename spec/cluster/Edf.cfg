CONSTANTS
  N = 3
  WeightSet = {0, 1, 2, 3, 5, 200}
  MaxPicks = 16
  Defects = {}
SPECIFICATION Spec
INVARIANTS LagBound RoundExact EmitCase
CHECK_DEADLOCK FALSE
