CONSTANTS
  N = 3
  Defects = {"StaleAdvancesId"}
SPECIFICATION Spec
INVARIANTS CountedRight NoSpuriousTimeout
CHECK_DEADLOCK FALSE
