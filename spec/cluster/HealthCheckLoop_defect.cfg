CONSTANTS
  N = 3
  Defects = {"StaleAdvancesId"}
SPECIFICATION Spec
INVARIANTS OneResultPerCheck NoCheckLost CountedRight
CHECK_DEADLOCK FALSE
