CONSTANTS
  N = 2
  Lookups = {1, 2}
  Defects = {"NoSecondPass"}
SPECIFICATION SpecCases
INVARIANTS MemberOnly HealthyIfAny Bounded 
CHECK_DEADLOCK FALSE
