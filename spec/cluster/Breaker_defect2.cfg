CONSTANTS
  Reqs = {r1, r2, r3}
  MaxReq = 2
  MaxRetry = 1
  Updates <- UpdNone
  MaxUpd = 0
  Defects = {"LeakOnUpstreamReset"}
SPECIFICATION Spec
INVARIANTS Conserved NonNeg IdleZero TripsExact
CHECK_DEADLOCK FALSE
