---- MODULE LBScan ----
(* Concurrent lookups on ONE load balancer whose scan state is shared (property C05: "When at least one host is healthy
   it returns a healthy host, and it returns no host only when none is healthy" - quantified over "sequences of ...
   lookups" that run at the same time on the same balancer object).

   Shape of the implementation: pkg/upstream/cluster/loadbalancer.go roundRobinLoadBalancer.ChooseHost, which is also the
   degradation path of the random, weighted round-robin and peak-EWMA policies:

       for i := 0; i < total; i++ {                       first pass: one value of the SHARED cursor per iteration
           index := atomic.AddUint32(&lb.rrIndex, 1) % total
           if hs.Get(index).Health() { return host }
       }
       secondStartIndex := atomic.AddUint32(&lb.rrIndex, 1) % total     second pass (mosn issue 1663): ONE cursor value,
       for i := 0; i < total; i++ {                                     then every index once, wrapping around
           index := (i + secondStartIndex) % total
           if hs.Get(index).Health() { return host }
       }
       return nil

   Other lookups advance the cursor between two iterations of a lookup, so its first pass may be handed the same index
   again and again (it is starved); the second pass is what makes the contract hold under every interleaving.
   One step of the model = one lookup running from one Health() call to its next one (or to its return): the binding
   (harness/cmd/lbscan) gives the balancer host objects whose Health() method is a scheduler gate, so the real code is
   stepped in exactly this grain, without any hook in mosn.

   Defects (TLC must reject each):
     NoWrap          the second pass scans from its start index to the end of the set only
     NoSecondPass    no second pass at all (the code before issue 1663)
     SecondPassFromCursorEachStep   the second pass also takes a cursor value per iteration (it can be starved as well) *)
EXTENDS Integers, Sequences, FiniteSets, TLC, Json

CONSTANTS N,         \* number of hosts (indexes 0..N-1)
          Lookups,   \* lookup ids
          Defects

Idx  == 0 .. N - 1
None == -1

VARIABLES healthy,   \* set of healthy indexes (constant during the lookups)
          c0,        \* cursor value (mod N) before the first lookup
          cursor,    \* the shared cursor
          pc,        \* lookup -> "idle" | "p1" | "p2" | "done"
          it,        \* lookup -> iterations done in the current pass
          cur,       \* lookup -> index whose Health() call the lookup is standing at
          s2,        \* lookup -> start index of its second pass
          res,       \* lookup -> answer (index or None)
          sched      \* history: the order in which lookups were stepped (replayed on the real balancer)
vars == <<healthy, c0, cursor, pc, it, cur, s2, res, sched>>

Init == /\ healthy \in SUBSET Idx
        /\ c0 \in Idx /\ cursor = c0
        /\ pc = [l \in Lookups |-> "idle"] /\ it = [l \in Lookups |-> 0]
        /\ cur = [l \in Lookups |-> None] /\ s2 = [l \in Lookups |-> None] /\ res = [l \in Lookups |-> None]
        /\ sched = <<>>

Done(l, r) == /\ pc' = [pc EXCEPT ![l] = "done"] /\ res' = [res EXCEPT ![l] = r]
              /\ UNCHANGED <<cursor, it, cur, s2>>
TakeCursor(l, phase, k) == /\ cursor' = cursor + 1
                           /\ cur' = [cur EXCEPT ![l] = cursor' % N]
                           /\ it' = [it EXCEPT ![l] = k]
                           /\ pc' = [pc EXCEPT ![l] = phase]

Begin(l) == /\ pc[l] = "idle"
            /\ IF N = 0 THEN Done(l, None)
               ELSE TakeCursor(l, "p1", 1) /\ UNCHANGED <<s2, res>>

(* the lookup stands at Health() of cur[l] in its first pass *)
Probe1(l) == /\ pc[l] = "p1"
             /\ IF cur[l] \in healthy THEN Done(l, cur[l])
                ELSE IF it[l] < N THEN TakeCursor(l, "p1", it[l] + 1) /\ UNCHANGED <<s2, res>>
                ELSE IF "NoSecondPass" \in Defects THEN Done(l, None)
                ELSE /\ TakeCursor(l, "p2", 0)
                     /\ s2' = [s2 EXCEPT ![l] = (cursor + 1) % N]
                     /\ UNCHANGED res

(* the lookup stands at Health() of cur[l] in its second pass *)
Probe2(l) == /\ pc[l] = "p2"
             /\ IF cur[l] \in healthy THEN Done(l, cur[l])
                ELSE LET k == it[l] + 1 IN
                     IF k >= N \/ ("NoWrap" \in Defects /\ s2[l] + k >= N) THEN Done(l, None)
                     ELSE IF "SecondPassFromCursorEachStep" \in Defects
                          THEN TakeCursor(l, "p2", k) /\ UNCHANGED <<s2, res>>
                          ELSE /\ it' = [it EXCEPT ![l] = k]
                               /\ cur' = [cur EXCEPT ![l] = (s2[l] + k) % N]
                               /\ UNCHANGED <<cursor, pc, s2, res>>

Step(l) == /\ (Begin(l) \/ Probe1(l) \/ Probe2(l))
           /\ sched' = Append(sched, l)
           /\ UNCHANGED <<healthy, c0>>
Next == \E l \in Lookups : Step(l)
Spec == Init /\ [][Next]_vars
(* case enumeration for the replay: with no healthy host the contract allows every answer, nothing to replay *)
SpecCases == (Init /\ healthy # {}) /\ [][Next]_vars

AllDone == \A l \in Lookups : pc[l] = "done"

(* ---- C05 under concurrent lookups ---- *)
MemberOnly     == \A l \in Lookups : pc[l] = "done" => res[l] = None \/ res[l] \in Idx
HealthyIfAny   == \A l \in Lookups : (pc[l] = "done" /\ healthy # {}) => res[l] \in healthy
(* a lookup ends after at most 2N+1 Health() calls, whatever the others do *)
Bounded        == \A l \in Lookups : it[l] <= N

(* every complete interleaving is a case for the replay on the real balancer *)
EmitCase == AllDone => PrintT(<<"CASE", ToJson([n |-> N, hl |-> healthy, c0 |-> c0, sched |-> sched,
                                                 res |-> [l \in Lookups |-> res[l]]])>>)
====
