CONSTANTS
  Statics = {{}, {"a1"}}
  Mgrs = {{}}
  D1s = {{"a1", "a2"}}
  D2s = {{}}
  WithChecker = TRUE
  UT = 1
  HT = 1
  DirectFlags = {"A"}
  MaxOps = 2
  Defects = {"WordPerDomain"}
SPECIFICATION Spec
INVARIANTS EqualAddressesShare DistinctAddressesIndependent ChangedOnTransitionsOnly
CHECK_DEADLOCK FALSE
