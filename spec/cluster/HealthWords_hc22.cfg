CONSTANTS
  Statics = {{}}
  Mgrs = {{}}
  D1s = {{"a1", "a2"}, {"a1", "a2", "a3"}}
  D2s = {{}}
  WithChecker = TRUE
  UT = 2
  HT = 2
  DirectFlags = {}
  MaxOps = 6
  Defects = {}
SPECIFICATION Spec
INVARIANTS EqualAddressesShare DistinctAddressesIndependent ChangedOnTransitionsOnly
CHECK_DEADLOCK FALSE
