CONSTANTS
  Statics = {{}, {"a1"}}
  Mgrs = {{}}
  D1s = {{"a1", "a2"}, {"a1", "a2", "a3"}}
  D2s = {{}}
  WithChecker = TRUE
  UT = 2
  HT = 2
  DirectFlags = {}
  MaxOps = 4
  Defects = {}
SPECIFICATION Spec
INVARIANT EmitCases
CHECK_DEADLOCK FALSE
