CONSTANTS
  N = 2
  Lookups = {1, 2, 3, 4}
  Defects = {"SecondPassFromCursorEachStep"}
SPECIFICATION SpecCases
INVARIANTS MemberOnly HealthyIfAny Bounded 
CHECK_DEADLOCK FALSE
