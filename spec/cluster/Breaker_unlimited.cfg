CONSTANTS
  Reqs = {r1, r2, r3}
  MaxReq = 0
  MaxRetry = 0
  Updates <- UpdAny
  MaxUpd = 2
  Defects = {}
SPECIFICATION Spec
INVARIANTS Conserved NonNeg IdleZero TripsExact
CHECK_DEADLOCK FALSE
