CONSTANTS
  Reqs = {r1, r2, r3}
  MaxReq = 0
  MaxRetry = 0
  Defects = {}
SPECIFICATION Spec
INVARIANTS Conserved NonNeg IdleZero TripsExact
CHECK_DEADLOCK FALSE
