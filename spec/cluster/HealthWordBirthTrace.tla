---- MODULE HealthWordBirthTrace ----
(* Trace validation of real concurrent host creations against HealthWordBirth (driver -mode birth).
   Nothing can be held between the lookup and the insertion of the word (the intended design has no such point), so the
   driver repeats the scenario over many never-seen addresses with the creators released together from a spin barrier,
   and records per address what every creator ended up with:
     birth{via,n,ptr,setc,flag,views}   n creators built a host object (via = "pointer": GetHealthFlagPointer only,
                                        "host": NewSimpleHost) of one fresh address at the same moment; ptr[i] = identity
                                        class of the word creator i holds (0-based class numbers by first appearance);
                                        then `flag` was set through creator setc's object; views[i] = conditions creator
                                        i's object reports afterwards, reg = class of the word a LATER lookup of the address returns.
   Each event is one complete behaviour of HealthWordBirth ending in AllDone: the invariants are evaluated on it. *)
EXTENDS Integers, Sequences, FiniteSets, TLC, VTrace

VARIABLES dummy
tvars == <<dummy, l>>
TraceInit == l = 1 /\ dummy = 0
S(seq) == { seq[i] : i \in DOMAIN seq }
TBirth == /\ IsEvent("birth")
          /\ Expect(\A i, j \in DOMAIN Ev.ptr : Ev.ptr[i] = Ev.ptr[j], "hosts-created-together-hold-different-words:" \o Ev.via)
          /\ Expect(\A i \in DOMAIN Ev.ptr : Ev.ptr[i] = Ev.reg, "word-held-is-not-the-registered-one:" \o Ev.via)
          /\ Expect(\A i \in DOMAIN Ev.views : S(Ev.views[i]) = {Ev.flag}, "condition-not-seen-by-every-host-of-the-address:" \o Ev.via)
          /\ UNCHANGED dummy
TraceNext == TBirth
TraceSpec == TraceInit /\ [][TraceNext]_tvars
====
