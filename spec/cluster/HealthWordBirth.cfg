CONSTANTS
  Creators = {1, 2, 3}
  Flags = {"A", "B"}
  Defects = {}
SPECIFICATION Spec
INVARIANTS OneWordPerAddress SeenByAll
CHECK_DEADLOCK FALSE
