---- MODULE HealthWords ----
(* WHERE the health flag word of a host lives (pkg/upstream/cluster/health.go healthStore, host.go NewSimpleHost,
   strict_dns_cluster.go OnResolve, cluster_manager.go UpdateClusterHosts), first clause of C16 seen across
   hosts: the word belongs to the RESOLVED ADDRESS.  Host objects of equal addresses share one word however they
   came into being; hosts of distinct addresses never share one - conditions of distinct addresses are
   independent, also for the records one domain resolves to.
   How hosts come into being (origin):
     "static"  NewSimpleHost + Cluster.UpdateHosts on a SIMPLE cluster
     "mgr"     cluster manager UpdateClusterHosts (host configs)
     "d1","d2" STRICT_DNS clusters: the configured domain is resolved, one host per record
   A topology says which addresses each origin has.  Operations: a condition is set / cleared on one host
   object, or (cluster d1 has an active health checker) one check of one d1 host answers ok / fail and the
   threshold automaton of THAT host (HealthChecker.tla, counters as the code writes them) runs on its word.
   Named way to go wrong: "WordPerDomain" = the word of a resolved host is looked up by the configured
   address (the domain), so all records of a domain share one word. *)
EXTENDS Integers, Sequences, FiniteSets, TLC, Json

CONSTANTS Statics, Mgrs, D1s, D2s,   \* choices for the address set of each origin ({} = origin absent)
          WithChecker,               \* TRUE: health-check results of d1 hosts are operations
          UT, HT,                    \* thresholds of that checker
          DirectFlags,               \* conditions set/cleared directly on host objects
          MaxOps,
          Defects                    \* {} | {"WordPerDomain"}

None == [o |-> "none", a |-> "none"]
VARIABLES topo,    \* [static, mgr, d1, d2 -> set of addresses]
          word,    \* word store: key -> set of conditions
          pword,   \* the store before the last operation
          cnt,     \* d1 host address -> [ok, fail] counters of its checker
          ops,     \* operations so far
          lastH,   \* host of the last operation
          changed  \* "changed" reported by the last check (FALSE for direct operations)
vars == <<topo, word, pword, cnt, ops, lastH, changed>>

Origins == {"static", "mgr", "d1", "d2"}
Hosts == { [o |-> o, a |-> x] : <<o, x>> \in { <<o, x>> \in Origins \X (UNION (Statics \cup Mgrs \cup D1s \cup D2s)) : x \in topo[o] } }
AllAddrs == UNION (Statics \cup Mgrs \cup D1s \cup D2s)
Keys == AllAddrs \cup {"d1", "d2"}
Key(h) == IF "WordPerDomain" \in Defects /\ h.o \in {"d1", "d2"} THEN h.o ELSE h.a
W(h) == word[Key(h)]
Healthy(w) == w = {}

Init == /\ topo \in { [static |-> s, mgr |-> m, d1 |-> x, d2 |-> y] : s \in Statics, m \in Mgrs, x \in D1s, y \in D2s }
        /\ word = [k \in Keys |-> {}] /\ pword = word
        /\ cnt = [x \in AllAddrs |-> [ok |-> 0, fail |-> 0]]
        /\ ops = <<>> /\ lastH = None /\ changed = FALSE

Direct(h, kind, f) ==
  /\ word' = [word EXCEPT ![Key(h)] = IF kind = "set" THEN @ \cup {f} ELSE @ \ {f}]
  /\ changed' = FALSE /\ UNCHANGED cnt
  /\ ops' = Append(ops, [h |-> h, kind |-> kind, flag |-> f])

(* HandleSuccess / HandleFailure of the checker of d1 host h *)
Check(h, r, ut, ht) ==
  LET c == cnt[h.a]  w == W(h) IN
  /\ ops' = Append(ops, [h |-> h, kind |-> "check", flag |-> r])
  /\ IF r = "ok"
     THEN IF "A" \in w
          THEN /\ cnt' = [cnt EXCEPT ![h.a] = [ok |-> c.ok + 1, fail |-> 0]]
               /\ IF c.ok + 1 = ht THEN word' = [word EXCEPT ![Key(h)] = @ \ {"A"}] /\ changed' = TRUE
                                   ELSE word' = word /\ changed' = FALSE
          ELSE cnt' = [cnt EXCEPT ![h.a] = [ok |-> c.ok, fail |-> 0]] /\ word' = word /\ changed' = FALSE
     ELSE IF "A" \notin w
          THEN /\ cnt' = [cnt EXCEPT ![h.a] = [ok |-> 0, fail |-> c.fail + 1]]
               /\ IF c.fail + 1 = ut THEN word' = [word EXCEPT ![Key(h)] = @ \cup {"A"}] /\ changed' = TRUE
                                     ELSE word' = word /\ changed' = FALSE
          ELSE cnt' = [cnt EXCEPT ![h.a] = [ok |-> 0, fail |-> c.fail]] /\ word' = word /\ changed' = FALSE

Next == /\ Len(ops) < MaxOps
        /\ \E h \in Hosts :
             /\ \/ \E kind \in {"set", "clear"}, f \in DirectFlags : Direct(h, kind, f)
                \/ WithChecker /\ h.o = "d1" /\ \E r \in {"ok", "fail"} : Check(h, r, UT, HT)
             /\ lastH' = h /\ pword' = word /\ UNCHANGED topo
Spec == Init /\ [][Next]_vars

(* ---- the property ---- *)
(* host objects of one address see one word, whatever their origin *)
EqualAddressesShare == \A g, h \in Hosts : g.a = h.a => W(g) = W(h)
(* an operation on a host never changes what a host of another address sees *)
DistinctAddressesIndependent == lastH # None => \A g \in Hosts : g.a # lastH.a => W(g) = pword[Key(g)]
(* "changed" is reported exactly when the active-check condition of that host changed *)
ChangedOnTransitionsOnly == lastH # None => (changed <=> (("A" \in W(lastH)) # ("A" \in pword[Key(lastH)]) /\ ops[Len(ops)].kind = "check"))

(* ---- case emission ---- *)
SetToSeq(S) == LET RECURSIVE F(_)
                   F(T) == IF T = {} THEN <<>> ELSE LET x == CHOOSE y \in T : TRUE IN <<x>> \o F(T \ {x})
               IN F(S)
EmitCases == Len(ops) = MaxOps =>
               PrintT(<<"CASE", ToJson([topo |-> [static |-> SetToSeq(topo.static), mgr |-> SetToSeq(topo.mgr),
                                                  d1 |-> SetToSeq(topo.d1), d2 |-> SetToSeq(topo.d2)],
                                        hc |-> WithChecker, ut |-> UT, ht |-> HT, ops |-> ops])>>)
====
