---- MODULE HealthCheckerTrace ----
(* Trace validation of the real health checker (CreateHealthCheck with a scripted session factory, real
   timers) against HealthChecker.  Events (driver):
     new{ut,ht,init}                          fresh checker on a host whose flag word is init (TraceReset)
     check{n,k,r,changed,cbok,flags,health}   n-th callback: k = CheckHealth calls made so far, r = scripted result
                                              of check n, callback arguments, HealthFlag()/Health() inside the callback *)
EXTENDS HealthChecker, VTrace

tvars == <<vars, l>>
S(seq) == { seq[i] : i \in DOMAIN seq }

TraceInit == /\ l = 1 /\ ut = 0 /\ ht = 0 /\ w0 = {} /\ word = {} /\ pword = {} /\ okCnt = 0 /\ failCnt = 0
             /\ hist = <<>> /\ changed = FALSE /\ cbok = FALSE

TNew == /\ IsEvent("new")
        /\ ut' = Ev.ut /\ ht' = Ev.ht /\ w0' = S(Ev.init) /\ word' = S(Ev.init) /\ pword' = S(Ev.init)
        /\ okCnt' = 0 /\ failCnt' = 0 /\ hist' = <<>> /\ changed' = FALSE /\ cbok' = FALSE

TCheck == /\ IsEvent("check")
          /\ Check(Ev.r)
          /\ LET obs == S(Ev.flags)
                 was == "A" \in word
                 exp == "A" \in word'
                 got == "A" \in obs
             IN /\ Expect(Ev.k = Ev.n, "callback-without-its-own-check")
                /\ Expect(Ev.cbok = cbok', "result-miscounted")
                /\ Expect(~(~was /\ exp /\ ~got), "not-marked-unhealthy-at-threshold")
                /\ Expect(~(~was /\ ~exp /\ got), "marked-unhealthy-before-threshold")
                /\ Expect(~(was /\ ~exp /\ got), "not-marked-healthy-at-threshold")
                /\ Expect(~(was /\ exp /\ ~got), "marked-healthy-before-threshold")
                /\ Expect(Ev.changed = changed', IF Ev.changed THEN "changed-without-transition" ELSE "transition-without-changed")
                /\ Expect(obs \ {"A"} = word' \ {"A"}, "foreign-condition-touched")
                /\ Expect(Ev.health = Healthy(obs), "health-not-iff-no-flag")

TraceNext == TNew \/ TCheck
TraceSpec == TraceInit /\ [][TraceNext]_tvars
====
