---- MODULE HealthCheckerTrace ----
(* Trace validation of the real health checker (CreateHealthCheck with a scripted session factory, real
   timers) against HealthChecker.  Events (driver):
     new{ut,ht,init}                          fresh checker on a host whose flag word is init (TraceReset)
     check{n,k,r,changed,cbok,flags,health}   first callback after check k started (k = CheckHealth calls made so far),
                                              n = callback ordinal, r = what check k did (scripted), callback
                                              arguments, HealthFlag()/Health() inside the callback
     extra{n,k,changed,cbok,flags,health}     another callback although no new check started: a second result
     deliver{j,pos,ok}                        the late answer of check j is let out now (position pos, see HealthChecker)
     stopped{k}                               everything given to the checker was handled, yet check k never starts
     silent{k}                                check k is over (answered / timed out, checker idle) without any callback *)
EXTENDS HealthChecker, VTrace

tvars == <<vars, l>>
S(seq) == { seq[i] : i \in DOMAIN seq }

TraceInit == /\ l = 1 /\ ut = 0 /\ ht = 0 /\ w0 = {} /\ word = {} /\ pword = {} /\ okCnt = 0 /\ failCnt = 0
             /\ hist = <<>> /\ script = <<>> /\ changed = FALSE /\ cbok = FALSE

TNew == /\ IsEvent("new")
        /\ ut' = Ev.ut /\ ht' = Ev.ht /\ w0' = S(Ev.init) /\ word' = S(Ev.init) /\ pword' = S(Ev.init)
        /\ okCnt' = 0 /\ failCnt' = 0 /\ hist' = <<>> /\ script' = <<>> /\ changed' = FALSE /\ cbok' = FALSE

TCheck == /\ IsEvent("check")
          /\ LET cs == Counts(Ev.r)     \* both outcomes allowed: the observed one decides
             IN Check(Ev.r, IF Cardinality(cs) = 1 THEN CHOOSE c \in cs : TRUE ELSE IF Ev.cbok THEN "ok" ELSE "timeout")
          /\ LET obs == S(Ev.flags)
                 was == "A" \in word
                 exp == "A" \in word'
                 got == "A" \in obs
             IN /\ Expect(Ev.cbok = cbok', "result-miscounted")
                /\ Expect(~(~was /\ exp /\ ~got), "not-marked-unhealthy-at-threshold")
                /\ Expect(~(~was /\ ~exp /\ got), "marked-unhealthy-before-threshold")
                /\ Expect(~(was /\ ~exp /\ got), "not-marked-healthy-at-threshold")
                /\ Expect(~(was /\ exp /\ ~got), "marked-healthy-before-threshold")
                /\ Expect(Ev.changed = changed', IF Ev.changed THEN "changed-without-transition" ELSE "transition-without-changed")
                /\ Expect(obs \ {"A"} = word' \ {"A"}, "foreign-condition-touched")
                /\ Expect(Ev.health = Healthy(obs), "health-not-iff-no-flag")

(* one check, one result: a further callback without a new check is a second result of the same check *)
TExtra == /\ IsEvent("extra")
          /\ Expect(FALSE, "second-result-for-one-check")
          /\ word' = S(Ev.flags) /\ pword' = word
          /\ UNCHANGED <<ut, ht, w0, okCnt, failCnt, hist, script, changed, cbok>>
TSilent == /\ IsEvent("silent")
           /\ Expect(FALSE, "check-without-result")
           /\ UNCHANGED vars

TStopped == /\ IsEvent("stopped")
            /\ Expect(FALSE, "checker-stopped-checking")
            /\ UNCHANGED vars
TDeliver == IsEvent("deliver") /\ UNCHANGED vars     \* driver note: late answer of check j let out at position pos

TraceNext == TNew \/ TCheck \/ TExtra \/ TSilent \/ TStopped \/ TDeliver
TraceSpec == TraceInit /\ [][TraceNext]_tvars
====
