CONSTANTS
  N = 3
  Defects = {}
SPECIFICATION Spec
INVARIANTS CountedRight NoSpuriousTimeout
CHECK_DEADLOCK FALSE
