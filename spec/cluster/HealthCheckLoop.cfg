CONSTANTS
  N = 3
  Defects = {}
SPECIFICATION Spec
INVARIANTS OneResultPerCheck NoCheckLost CountedRight
CHECK_DEADLOCK FALSE
