CONSTANTS
  Statics = {{}, {"a1"}, {"a1", "a3"}}
  Mgrs = {{}, {"a2"}}
  D1s = {{"a1", "a2"}, {"a1", "a2", "a3"}}
  D2s = {{}, {"a2", "a3"}, {"a1", "a2"}}
  WithChecker = TRUE
  UT = 1
  HT = 2
  DirectFlags = {"B"}
  MaxOps = 3
  Defects = {}
SPECIFICATION Spec
INVARIANT EmitCases
CHECK_DEADLOCK FALSE
