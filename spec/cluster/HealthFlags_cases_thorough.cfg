CONSTANTS
  NThreads = 2
  MaxOps = 3
  MaxTotal = 5
  WithX = TRUE
  Defects = {"LoadStore"}
SPECIFICATION Spec
INVARIANT EmitCases
CHECK_DEADLOCK FALSE
