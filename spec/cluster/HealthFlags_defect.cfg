CONSTANTS
  NThreads = 2
  MaxOps = 1
  MaxTotal = 2
  WithX = TRUE
  Defects = {"LoadStore"}
SPECIFICATION Spec
INVARIANTS Independent Final
CHECK_DEADLOCK FALSE
