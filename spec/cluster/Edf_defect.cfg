CONSTANTS
  N = 2
  WeightSet = {1, 3}
  MaxPicks = 8
  Defects = {"DeadlinePlusWeight"}
SPECIFICATION Spec
INVARIANTS LagBound
CHECK_DEADLOCK FALSE
