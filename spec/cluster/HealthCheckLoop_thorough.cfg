CONSTANTS
  N = 4
  Defects = {}
SPECIFICATION Spec
INVARIANTS OneResultPerCheck NoCheckLost CountedRight
CHECK_DEADLOCK FALSE
