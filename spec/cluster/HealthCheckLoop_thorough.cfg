CONSTANTS
  N = 4
  Defects = {}
SPECIFICATION Spec
INVARIANTS CountedRight NoSpuriousTimeout
CHECK_DEADLOCK FALSE
