---- MODULE LBScanTrace ----
(* Trace validation of real load balancers stepped through the interleavings LBScan enumerates (C05, concurrent
   lookups on one balancer object).  The driver (harness/cmd/lbscan) gives the real balancer host objects whose Health()
   is a scheduler gate and releases the lookups in the order of a TLC-enumerated schedule; what each lookup returned is
   judged with the CONTRACT of C05 only (LBChoice: a member; healthy if any member is healthy; nothing only if none is) -
   the probe order of the model is not demanded from the code, so another correct scan order is accepted.
     scan{policy,n,hl,c0,sched,aligned}   a balancer over n hosts, hl = healthy indexes (TraceReset)
     ret{l,h,probes}                      lookup l returned index h (-1 = no host) after probing `probes`
     note{...}                            driver remarks (a schedule given up on a slow machine: not judged) *)
EXTENDS Integers, Sequences, FiniteSets, TLC, VTrace

VARIABLES n, hl
tvars == <<n, hl, l>>
S(seq) == { seq[i] : i \in DOMAIN seq }

TraceInit == l = 1 /\ n = 0 /\ hl = {}

TScan == /\ IsEvent("scan")
         /\ n' = Ev.n /\ hl' = S(Ev.hl)
TRet  == /\ IsEvent("ret")
         /\ Expect(Ev.h = -1 \/ Ev.h \in 0 .. n - 1, "non-member")
         /\ Expect(hl # {} => Ev.h # -1, "none-while-healthy-exists")
         /\ Expect((hl # {} /\ Ev.h \in 0 .. n - 1) => Ev.h \in hl, "unhealthy-while-healthy-exists")
         /\ UNCHANGED <<n, hl>>
TNote == IsEvent("note") /\ UNCHANGED <<n, hl>>

TraceNext == TScan \/ TRet \/ TNote
TraceSpec == TraceInit /\ [][TraceNext]_tvars
====
