CONSTANTS
  Versions <- VersionsDef
  Lookups = {l1, l2}
  Defects = {"TwoLoads"}
SPECIFICATION Spec
INVARIANT OneVersion
CHECK_DEADLOCK FALSE
