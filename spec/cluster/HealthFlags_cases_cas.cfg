CONSTANTS
  NThreads = 2
  MaxOps = 2
  MaxTotal = 3
  WithX = FALSE
  Defects = {}
SPECIFICATION Spec
INVARIANT EmitCases
CHECK_DEADLOCK FALSE
