CONSTANTS
  Thresholds = {0, 1, 2, 3, 4}
  Results = {"ok", "fail", "timeout", "late_ok", "late_fail"}
  MaxLen = 7
  Defects = {}
SPECIFICATION Spec
INVARIANT ExactOnHistory
CHECK_DEADLOCK FALSE
