CONSTANTS
  Thresholds = {0, 1, 2, 3, 4}
  Results = {"ok", "fail", "timeout", "late0_ok", "late2_fail"}
  MaxLen = 7
  WithB = TRUE
  Defects = {}
SPECIFICATION Spec
INVARIANT ExactOnHistory
CHECK_DEADLOCK FALSE
