CONSTANTS
  NThreads = 3
  MaxOps = 0
  MaxTotal = 0
  WithX = TRUE
  Defects = {}
SPECIFICATION TraceSpec
POSTCONDITION Accepted
CHECK_DEADLOCK FALSE
