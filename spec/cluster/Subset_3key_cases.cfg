CONSTANTS
  KeySeq <- K_abc
  CKeySeq <- K_abcx
  HVals = {"1", "2"}
  CVals = {"1", "2", ""}
  DVals = {"1"}
  UVals = {"1"}
  PrefixLen = 0
  MaxHosts = 2
  MaxSel = 2
  Defects = {}
SPECIFICATION EmitSpec
INVARIANTS EmitCase
CHECK_DEADLOCK FALSE
