CONSTANTS
  N = 4
  WeightSet = {0, 1, 2, 3, 5, 8, 200}
  MaxPicks = 26
  Defects = {}
SPECIFICATION Spec
INVARIANTS LagBound RoundExact EmitCase
CHECK_DEADLOCK FALSE
