CONSTANTS
  N = 4
  WeightSet = {1, 2, 3, 5, 8}
  MaxPicks = 14
  Defects = {}
SPECIFICATION Spec
INVARIANTS LagBound RoundExact EmitCase
CHECK_DEADLOCK FALSE
