CONSTANTS
  Creators = {1, 2, 3}
  Flags = {"A", "B"}
  Defects = {"LoadThenStore"}
SPECIFICATION Spec
INVARIANTS OneWordPerAddress SeenByAll
CHECK_DEADLOCK FALSE
