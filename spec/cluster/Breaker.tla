---- MODULE Breaker ----
(* Circuit-breaker resources and active gauges of one cluster (pkg/upstream/cluster/resource_manager.go and
   every admission / release site: pools' NewStream / onStreamDestroy, proxy/retrystate.go), property C10.
   A resource is `cur` with threshold `max` (0 = unlimited: nothing is refused, but the admissions are counted all
   the same - an update may switch the threshold on while they are outstanding).  Every admission is tagged with
   the request that holds it: the ghost set `holders` is the truth the counters must equal.

   Cluster configuration update (cluster_manager.go UpdateCluster with UpdateClusterResourceManagerHandler:
   AddOrUpdatePrimaryCluster, AddOrUpdateClusterAndHost): the cluster object of a name is replaced while
   requests are in flight.  The books are kept per resource-manager OBJECT (`reqBook[m]`, `retryBook[m]`);
   `ex` is the object the cluster published under the name exposes - these are the books an admin, the next
   request and the breaker read (reqCur, retryCur).  An admission is released on the object it was booked on
   (`reqAt`, `retryAt`: the pool's host / the request's retry state keep the cluster info they started with).
   Contract: an admission taken before an update is given back after it on the books the cluster THEN exposes,
   the thresholds in force after the update are the updated ones, and the counters are zero when idle.  The
   intended design achieves it by handing the old manager object to the new cluster and writing the new
   thresholds into it (ex unchanged). *)
EXTENDS Integers, FiniteSets, TLC

CONSTANTS Reqs,      \* request ids
          MaxReq,    \* max_requests threshold at the start (0 = unlimited)
          MaxRetry,  \* max_retries threshold at the start (0 = unlimited)
          Updates,   \* set of <<max_requests, max_retries>> a cluster update may bring
          MaxUpd,    \* bound on the number of cluster updates
          Defects    \* {} | {"UnconditionalRetryRelease"} | {"LeakOnUpstreamReset"} | {"UpdateCopiesCounters"}
                     \*    | {"UncountedWhileUnlimited"}

VARIABLES st,        \* req -> "idle" | "inflight" | "retrying" | "refused" | "done"
          mreq,      \* max_requests in force
          mretry,    \* max_retries in force
          nupd,      \* cluster updates so far; manager objects 0..nupd exist
          ex,        \* the manager object the published cluster exposes
          reqBook,   \* manager object -> its requests counter
          retryBook, \* manager object -> its retries counter
          reqAt,     \* req -> manager object its unit of `requests` was booked on
          retryAt,   \* req -> manager object its unit of `retries` was booked on
          holdReq,   \* ghost: requests holding a unit of `requests`
          holdRetry, \* ghost: requests holding a unit of `retries`
          tripOK     \* ghost: every admission decision so far agreed with the truth and the threshold in force
vars == <<st, mreq, mretry, nupd, ex, reqBook, retryBook, reqAt, retryAt, holdReq, holdRetry, tripOK>>

Mgrs == 0..MaxUpd
reqCur   == reqBook[ex]       \* the books the cluster exposes
retryCur == retryBook[ex]

CanCreate(cur, max) == max = 0 \/ cur < 0 \/ cur < max
(* defect UncountedWhileUnlimited: Increase/Decrease do nothing while the threshold is 0 (the code before 5ab5b615d) *)
Counts(max) == "UncountedWhileUnlimited" \notin Defects \/ max # 0

Init == /\ st = [r \in Reqs |-> "idle"] /\ mreq = MaxReq /\ mretry = MaxRetry /\ nupd = 0 /\ ex = 0
        /\ reqBook = [m \in Mgrs |-> 0] /\ retryBook = [m \in Mgrs |-> 0]
        /\ reqAt = [r \in Reqs |-> 0] /\ retryAt = [r \in Reqs |-> 0]
        /\ holdReq = {} /\ holdRetry = {} /\ tripOK = TRUE

(* pool admission: refused iff the threshold in force is reached *)
Admit(r) == /\ st[r] \in {"idle", "retrying"}
            /\ IF CanCreate(reqCur, mreq)
               THEN /\ st' = [st EXCEPT ![r] = "inflight"] /\ holdReq' = holdReq \cup {r}
                    /\ reqBook' = IF Counts(mreq) THEN [reqBook EXCEPT ![ex] = @ + 1] ELSE reqBook
                    /\ reqAt' = [reqAt EXCEPT ![r] = ex]
               ELSE st' = [st EXCEPT ![r] = "refused"] /\ UNCHANGED <<reqBook, reqAt, holdReq>>
            /\ tripOK' = (tripOK /\ (CanCreate(reqCur, mreq) <=> CanCreate(Cardinality(holdReq), mreq)))
            /\ UNCHANGED <<mreq, mretry, nupd, ex, retryBook, retryAt, holdRetry>>

RelRetry(r) == /\ retryBook' = IF Counts(mretry) THEN [retryBook EXCEPT ![retryAt[r]] = @ - 1] ELSE retryBook
               /\ holdRetry' = holdRetry \ {r}

(* the upstream stream ends (response, reset, timeout, client gone): exactly one release *)
StreamEnd(r, retry) ==
  /\ st[r] = "inflight"
  /\ IF "LeakOnUpstreamReset" \in Defects /\ retry THEN UNCHANGED <<reqBook, holdReq>>
     ELSE /\ reqBook' = IF Counts(mreq) THEN [reqBook EXCEPT ![reqAt[r]] = @ - 1] ELSE reqBook
          /\ holdReq' = holdReq \ {r}
  /\ IF retry /\ CanCreate(retryCur, mretry) /\ r \notin holdRetry
     THEN /\ st' = [st EXCEPT ![r] = "retrying"] /\ holdRetry' = holdRetry \cup {r}
          /\ retryBook' = IF Counts(mretry) THEN [retryBook EXCEPT ![ex] = @ + 1] ELSE retryBook
          /\ retryAt' = [retryAt EXCEPT ![r] = ex]
     ELSE /\ st' = [st EXCEPT ![r] = "done"] /\ UNCHANGED retryAt
          /\ IF r \in holdRetry \/ "UnconditionalRetryRelease" \in Defects
             THEN RelRetry(r)
             ELSE UNCHANGED <<retryBook, holdRetry>>
  /\ tripOK' = (tripOK /\ (retry /\ r \notin holdRetry => (CanCreate(retryCur, mretry) <=> CanCreate(Cardinality(holdRetry), mretry))))
  /\ UNCHANGED <<mreq, mretry, nupd, ex, reqAt>>

RefusedEnd(r) == /\ st[r] = "refused" /\ st' = [st EXCEPT ![r] = "done"]
                 /\ IF r \in holdRetry THEN RelRetry(r) ELSE UNCHANGED <<retryBook, holdRetry>>
                 /\ UNCHANGED <<mreq, mretry, nupd, ex, reqBook, reqAt, retryAt, holdReq, tripOK>>

(* a cluster of the same name is published with thresholds t while requests may be in flight *)
Update(t) ==
  /\ nupd < MaxUpd /\ nupd' = nupd + 1
  /\ mreq' = t[1] /\ mretry' = t[2]
  /\ IF "UpdateCopiesCounters" \in Defects
     THEN \* the new cluster keeps a manager object of its own; the counters of the old one are copied into it
          /\ ex' = nupd + 1
          /\ reqBook' = [reqBook EXCEPT ![nupd + 1] = reqBook[ex]]
          /\ retryBook' = [retryBook EXCEPT ![nupd + 1] = retryBook[ex]]
     ELSE \* the new cluster is given the old manager object, the new thresholds are written into it
          UNCHANGED <<ex, reqBook, retryBook>>
  /\ UNCHANGED <<st, reqAt, retryAt, holdReq, holdRetry, tripOK>>

Next == \/ \E r \in Reqs : Admit(r) \/ RefusedEnd(r) \/ \E b \in BOOLEAN : StreamEnd(r, b)
        \/ \E t \in Updates : Update(t)
Spec == Init /\ [][Next]_vars

(* ---- C10 ---- *)
Conserved  == reqCur = Cardinality(holdReq) /\ retryCur = Cardinality(holdRetry)
NonNeg     == reqCur >= 0 /\ retryCur >= 0
IdleZero   == (\A r \in Reqs : st[r] \in {"idle", "done"}) => (reqCur = 0 /\ retryCur = 0)
(* breakers trip exactly at the threshold in force: never an admission at or above it, never a refusal below it
   (after a lowering update the counter may exceed the threshold: nothing more is admitted until it has drained) *)
TripsExact == tripOK

(* update sets for the configuration files *)
UpdNone    == {}
UpdNonZero == {<<1, 1>>, <<2, 1>>, <<3, 2>>}              \* unchanged, lowered, raised thresholds
UpdAny     == UpdNonZero \cup {<<0, 0>>}                    \* a threshold switched off / on as well
====
