---- MODULE Breaker ----
(* Circuit-breaker resources and active gauges of one cluster (pkg/upstream/cluster/resource_manager.go and
   every admission / release site: pools' NewStream / onStreamDestroy, proxy/retrystate.go), property C10.
   A resource is `cur` with threshold `max` (0 = unlimited; the code then does not count at all, the
   specification counts a ghost value so the invariant reads the same).  Every admission is tagged with the
   request that holds it: the ghost set `holders` is the truth the counters must equal. *)
EXTENDS Integers, FiniteSets, TLC

CONSTANTS Reqs,      \* request ids
          MaxReq,    \* max_requests threshold (0 = unlimited)
          MaxRetry,  \* max_retries threshold (0 = unlimited)
          Defects    \* {} | {"UnconditionalRetryRelease"} | {"LeakOnUpstreamReset"}

VARIABLES st,        \* req -> "idle" | "inflight" | "retrying" | "refused" | "done"
          reqCur,    \* requests resource
          retryCur,  \* retries resource
          holdReq,   \* ghost: requests holding a unit of `requests`
          holdRetry  \* ghost: requests holding a unit of `retries`
vars == <<st, reqCur, retryCur, holdReq, holdRetry>>

CanCreate(cur, max) == max = 0 \/ cur < 0 \/ cur < max

Init == st = [r \in Reqs |-> "idle"] /\ reqCur = 0 /\ retryCur = 0 /\ holdReq = {} /\ holdRetry = {}

(* pool admission: refused iff the threshold is reached *)
Admit(r) == /\ st[r] \in {"idle", "retrying"}
            /\ IF CanCreate(reqCur, MaxReq)
               THEN st' = [st EXCEPT ![r] = "inflight"] /\ reqCur' = reqCur + 1 /\ holdReq' = holdReq \cup {r}
               ELSE st' = [st EXCEPT ![r] = "refused"] /\ UNCHANGED <<reqCur, holdReq>>
            /\ UNCHANGED <<retryCur, holdRetry>>

(* the upstream stream ends (response, reset, timeout, client gone): exactly one release *)
StreamEnd(r, retry) ==
  /\ st[r] = "inflight"
  /\ IF "LeakOnUpstreamReset" \in Defects /\ retry THEN UNCHANGED <<reqCur, holdReq>>
     ELSE reqCur' = reqCur - 1 /\ holdReq' = holdReq \ {r}
  /\ IF retry /\ CanCreate(retryCur, MaxRetry) /\ r \notin holdRetry
     THEN st' = [st EXCEPT ![r] = "retrying"] /\ retryCur' = retryCur + 1 /\ holdRetry' = holdRetry \cup {r}
     ELSE /\ st' = [st EXCEPT ![r] = "done"]
          /\ IF r \in holdRetry \/ "UnconditionalRetryRelease" \in Defects
             THEN retryCur' = retryCur - 1 /\ holdRetry' = holdRetry \ {r}
             ELSE UNCHANGED <<retryCur, holdRetry>>

RefusedEnd(r) == /\ st[r] = "refused" /\ st' = [st EXCEPT ![r] = "done"]
                 /\ IF r \in holdRetry THEN retryCur' = retryCur - 1 /\ holdRetry' = holdRetry \ {r} ELSE UNCHANGED <<retryCur, holdRetry>>
                 /\ UNCHANGED <<reqCur, holdReq>>

Next == \E r \in Reqs : Admit(r) \/ RefusedEnd(r) \/ \E b \in BOOLEAN : StreamEnd(r, b)
Spec == Init /\ [][Next]_vars

(* ---- C10 ---- *)
Conserved  == reqCur = Cardinality(holdReq) /\ retryCur = Cardinality(holdRetry)
NonNeg     == reqCur >= 0 /\ retryCur >= 0
IdleZero   == (\A r \in Reqs : st[r] \in {"idle", "done"}) => (reqCur = 0 /\ retryCur = 0)
TripsExact == (MaxReq > 0 => reqCur <= MaxReq) /\ (MaxRetry > 0 => retryCur <= MaxRetry)
====
