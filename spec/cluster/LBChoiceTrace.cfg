CONSTANTS
  Hosts = {"h1", "h2", "h3", "h4"}
  MaxOps = 0
SPECIFICATION TraceSpec
POSTCONDITION Accepted
CHECK_DEADLOCK FALSE
