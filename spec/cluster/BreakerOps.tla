---- MODULE BreakerOps ----
(* Operation histories for the C10 driver: interleavings of request starts and finishes over a few
   concurrent requests, each with the way it will end, and of cluster configuration updates (Breaker!Update)
   arriving at any point between them.  An update names the cluster-manager entry it goes through
   (Kinds: "primary" = AddOrUpdatePrimaryCluster, the new cluster inherits the host objects; "andhosts" =
   AddOrUpdateClusterAndHost with the same addresses, new host objects are built) and what it does to the
   thresholds (Tos: "same", "up", "down" between non-zero values; "off" = every threshold to 0, "on" = back to the
   cluster's configured non-zero ones).  TLC enumerates them (one CASE per complete history; with MinUpd > 0 only
   histories with at least that many updates); the driver realises each on clusters with different thresholds. *)
EXTENDS Integers, Sequences, FiniteSets, TLC, Json
CONSTANTS N, Hows, MaxUpd, MinUpd, Kinds, Tos
VARIABLES h, started, open, upd
Init == h = <<>> /\ started = 0 /\ open = {} /\ upd = 0
Start == /\ started < N
         /\ \E how \in Hows : h' = Append(h, [op |-> "start", r |-> started + 1, how |-> how])
         /\ started' = started + 1 /\ open' = open \cup {started + 1} /\ UNCHANGED upd
Finish == \E r \in open : h' = Append(h, [op |-> "finish", r |-> r]) /\ open' = open \ {r} /\ UNCHANGED <<started, upd>>
Update == /\ upd < MaxUpd /\ upd' = upd + 1
          /\ \E k \in Kinds, t \in Tos : h' = Append(h, [op |-> "update", kind |-> k, to |-> t])
          /\ UNCHANGED <<started, open>>
Next == Start \/ Finish \/ Update
Emit == (started = N /\ open = {} /\ upd >= MinUpd) => PrintT(<<"CASE", ToJson([ops |-> h])>>)
====
