---- MODULE BreakerOps ----
(* Operation histories for the C10 driver: interleavings of request starts and finishes over a few
   concurrent requests, each with the way it will end.  TLC enumerates them (one CASE per complete
   history); the driver realises each on clusters with different thresholds. *)
EXTENDS Integers, Sequences, FiniteSets, TLC, Json
CONSTANTS N, Hows
VARIABLES h, started, open
Init == h = <<>> /\ started = 0 /\ open = {}
Start == /\ started < N
         /\ \E how \in Hows : h' = Append(h, [op |-> "start", r |-> started + 1, how |-> how])
         /\ started' = started + 1 /\ open' = open \cup {started + 1}
Finish == \E r \in open : h' = Append(h, [op |-> "finish", r |-> r]) /\ open' = open \ {r} /\ UNCHANGED started
Next == Start \/ Finish
Emit == (started = N /\ open = {}) => PrintT(<<"CASE", ToJson([ops |-> h])>>)
====
