CONSTANTS
  NThreads = 3
  MaxOps = 1
  MaxTotal = 3
  WithX = TRUE
  Defects = {}
SPECIFICATION Spec
INVARIANTS Independent Final
CHECK_DEADLOCK FALSE
