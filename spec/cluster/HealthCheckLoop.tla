---- MODULE HealthCheckLoop ----
(* Check-id protocol of the session checker loop (pkg/upstream/healthcheck/session_checker.go Start /
   OnCheck / OnTimeout), the part of C16 behind "for every sequence of success/failure/timeout results":
   every check is counted exactly once, as its answer when it answered before its timeout, as a failure
   otherwise, and a late answer is never counted.
   Goroutines: the loop (select on resp / timeout), one OnCheck goroutine per check (reads the shared
   check id, arms the timeout timer, calls the session, sends resp{id, answer}), one timer goroutine per
   armed timeout (sends on timeout).  Both channels are rendezvous channels.
   Assumptions (timing facts of the code, not of the property): the loop is idle while a check is in
   progress, so a fired timeout is taken before anything else happens to that check (PromptLoop); the
   next check starts an interval after the previous one was counted, i.e. after the loop updated the id.
   Named way to go wrong: "StaleAdvancesId" = the id advances on every loop iteration, also when an
   expired answer is dropped (the code before the fix). *)
EXTENDS Integers, Sequences, FiniteSets, TLC

CONSTANTS N,        \* number of checks
          Defects   \* {} | {"StaleAdvancesId"}

Checks == 1..N
VARIABLES checkID,  \* shared atomic id
          cur,      \* id the loop is waiting for
          sched,    \* number of checks whose timer has been created
          cpc,      \* check -> "idle" | "run" | "ready" | "done"
          cid,      \* check -> id read by OnCheck
          ans,      \* check -> "ok" | "fail" (what the session answered)
          intime,   \* check -> the session answered before the timeout fired
          tmo,      \* check -> "none" | "armed" | "fired" | "taken" | "stopped"
          counted   \* sequence of results the loop handed to HandleSuccess / HandleFailure
vars == <<checkID, cur, sched, cpc, cid, ans, intime, tmo, counted>>

Init == /\ checkID = 1 /\ cur = 1 /\ sched = 1
        /\ cpc = [k \in Checks |-> "idle"] /\ cid = [k \in Checks |-> 0] /\ ans = [k \in Checks |-> "fail"]
        /\ intime = [k \in Checks |-> FALSE] /\ tmo = [k \in Checks |-> "none"] /\ counted = <<>>

OnCheck(k) == /\ k <= sched /\ cpc[k] = "idle"
              /\ cid' = [cid EXCEPT ![k] = checkID] /\ tmo' = [tmo EXCEPT ![k] = "armed"]
              /\ cpc' = [cpc EXCEPT ![k] = "run"]
              /\ UNCHANGED <<checkID, cur, sched, ans, intime, counted>>
Answer(k, a) == /\ cpc[k] = "run" /\ tmo[k] # "fired"          \* PromptLoop
                /\ ans' = [ans EXCEPT ![k] = a] /\ intime' = [intime EXCEPT ![k] = (tmo[k] = "armed")]
                /\ cpc' = [cpc EXCEPT ![k] = "ready"]
                /\ UNCHANGED <<checkID, cur, sched, cid, tmo, counted>>
Fire(k) == /\ tmo[k] = "armed" /\ cpc[k] # "ready"             \* an answer waiting at the channel is taken first
           /\ \A j \in Checks : cpc[j] # "ready"
           /\ tmo' = [tmo EXCEPT ![k] = "fired"]
           /\ UNCHANGED <<checkID, cur, sched, cpc, cid, ans, intime, counted>>

Advance == checkID' = checkID + 1 /\ cur' = checkID + 1
Count(r) == counted' = Append(counted, r) /\ sched' = IF sched < N THEN sched + 1 ELSE sched

RecvResp(k) == /\ cpc[k] = "ready" /\ cpc' = [cpc EXCEPT ![k] = "done"]
               /\ IF cid[k] = cur
                  THEN /\ Count(ans[k]) /\ Advance
                       /\ tmo' = [j \in Checks |-> IF j = k /\ tmo[j] = "armed" THEN "stopped" ELSE tmo[j]]
                  ELSE /\ UNCHANGED <<counted, sched, tmo>>
                       /\ IF "StaleAdvancesId" \in Defects THEN Advance ELSE UNCHANGED <<checkID, cur>>
               /\ UNCHANGED <<cid, ans, intime>>
RecvTimeout(k) == /\ tmo[k] = "fired" /\ tmo' = [tmo EXCEPT ![k] = "taken"]
                  /\ Count("fail") /\ Advance
                  /\ UNCHANGED <<cpc, cid, ans, intime>>

Next == \E k \in Checks : OnCheck(k) \/ Fire(k) \/ RecvResp(k) \/ RecvTimeout(k) \/ \E a \in {"ok", "fail"} : Answer(k, a)
Spec == Init /\ [][Next]_vars

(* the k-th counted result belongs to check k (checks are sequential) and is what the property says *)
CountedRight == \A k \in 1..Len(counted) : counted[k] = IF intime[k] THEN ans[k] ELSE "fail"
(* a check that answered in time is counted when its answer is taken, not later by its own timeout *)
NoSpuriousTimeout == \A k \in Checks : tmo[k] = "fired" => ~intime[k]
====
